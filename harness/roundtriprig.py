"""C15 rig: obtains objects of every registered NLRI class and attribute class from the text
grammar, the factory methods and from decoding, and evaluates the round-trip / index / hash /
rendering laws on the REAL classes of /repo (in-process).

Nothing here re-implements a codec: bytes come from `pack_nlri` / `pack_attribute` /
`UpdateCollection.messages`, objects from `NLRI.unpack_nlri` / `AttributeCollection.unpack` /
`UpdateCollection.unpack_message`, the configuration loader, `API.api_*` and the classmethods.
"""

from __future__ import annotations

import glob
import importlib
import inspect
import itertools
import os
import pkgutil
import re
import socket
from typing import Any, Callable, Iterable
from unittest.mock import MagicMock

import exabgp.reactor.protocol  # noqa: F401  (registers every message / NLRI / attribute class)
from exabgp.bgp.message import Action
from exabgp.bgp.message.notification import Notify
from exabgp.bgp.message.open.asn import ASN
from exabgp.bgp.message.open.capability.negotiated import Negotiated
from exabgp.bgp.message.update.attribute.attribute import Attribute
from exabgp.bgp.message.update.attribute.collection import AttributeCollection
from exabgp.bgp.message.update.collection import RoutedNLRI, UpdateCollection
from exabgp.bgp.message.update.nlri.cidr import CIDR
from exabgp.bgp.message.update.nlri.inet import INET
from exabgp.bgp.message.update.nlri.ipvpn import IPVPN
from exabgp.bgp.message.update.nlri.label import Label
from exabgp.bgp.message.update.nlri.nlri import NLRI
from exabgp.bgp.message.update.nlri.qualifier import ESI, EthernetTag, Labels, PathInfo, RouteDistinguisher
from exabgp.bgp.message.update.nlri.qualifier import MAC as MACQUAL
from exabgp.protocol.family import AFI, SAFI
from exabgp.protocol.ip import IP, IPv4, IPv6
from exabgp.rib import RIB
from exabgp.rib.route import Route

from harness import sessions

REPO = os.environ.get('VERIF_REPO', '/repo')

# ---------------------------------------------------------------------------------------------
# sessions


class Sess:
    """Two real negotiated sessions with every family: without and with ADD-PATH (both directions)."""

    _cache: dict = {}

    @classmethod
    def get(cls, addpath: bool, asn4: bool = True, aigp: bool = False) -> Negotiated:
        key = (addpath, asn4, aigp)
        if key not in cls._cache:
            _, n = sessions.make_config(families='all', add_path=addpath)
            _, p = sessions.make_config(local_as=65001, peer_as=65000, families='all', add_path=addpath, local_address='127.0.0.2', peer_address='127.0.0.1')
            if addpath:
                n.capability.add_path = 3
                p.capability.add_path = 3
            if aigp:  # `capability { aigp enable; }`: AIGP (RFC 7311) is sent to and accepted from this eBGP peer
                from exabgp.util.enumeration import TriState

                n.capability.aigp = TriState.TRUE
                p.capability.aigp = TriState.TRUE
            from exabgp.bgp.message.open.routerid import RouterID

            p.session.router_id = RouterID('2.2.2.2')
            neg = sessions.negotiate(n, p, asn4=asn4)
            if bool(neg.aigp) != aigp:
                raise RuntimeError(f'rig: aigp={neg.aigp} negotiated, wanted {aigp}')
            cls._cache[key] = neg
        return cls._cache[key]


def family_session(families: str, addpath: bool = False) -> Negotiated:
    """A session negotiated for just these families (no extended next hop), as `exabgp decode -f` does."""
    key = ('fam', families, addpath)
    if key not in Sess._cache:
        from exabgp.bgp.message.open.routerid import RouterID

        # iBGP, so that LOCAL_PREF is part of what is re-encoded
        _, n = sessions.make_config(local_as=65000, peer_as=65000, families=families, add_path=addpath)
        _, p = sessions.make_config(local_as=65000, peer_as=65000, families=families, add_path=addpath, local_address='127.0.0.2', peer_address='127.0.0.1')
        if addpath:
            n.capability.add_path = 3
            p.capability.add_path = 3
        p.session.router_id = RouterID('2.2.2.2')
        Sess._cache[key] = sessions.negotiate(n, p)
    return Sess._cache[key]


def reset_caches() -> None:
    AttributeCollection.cached = None
    AttributeCollection.previous = b''


def fresh_attribute_stores() -> None:
    """The per-attribute stores (`Attribute.cache`, created by `Attribute.setCache()` when the daemon starts with
    exabgp.cache.attributes) as a process that has decoded nothing has them."""
    if Attribute.cache:
        for code in list(Attribute.cache):
            Attribute.cache[code] = type(Attribute.cache[code])()


# ---------------------------------------------------------------------------------------------
# canonical error names


def err_name(e: BaseException) -> str:
    if isinstance(e, Notify):
        return f'Notify({e.code},{e.subcode})'
    return type(e).__name__


# ---------------------------------------------------------------------------------------------
# the NLRI laws


def has_path(x: NLRI) -> bool:
    """Does the object carry an ADD-PATH identifier that pack_nlri will emit?"""
    if isinstance(x, INET):
        return bool(x._has_addpath)
    return False


def nlri_session(x: NLRI) -> tuple[Negotiated, bool]:
    """The session an object is sent on: ADD-PATH when it carries a path-id and the family can
    negotiate it (`Capabilities._ADD_PATH`); otherwise `pack_nlri` drops the path-id by design and
    there is no round trip to speak of (the caller skips the object: `sendable`)."""
    ap = has_path(x) and bool(Sess.get(True).addpath.send(x.afi, x.safi))
    return Sess.get(ap), ap


def sendable(x: NLRI) -> bool:
    return (not has_path(x)) or bool(Sess.get(True).addpath.send(x.afi, x.safi))


def render(x: Any) -> dict:
    """Every rendering the property names, as strings (or the exception name)."""
    out = {}
    for name, fn in (('json', lambda: x.json()), ('str', lambda: str(x)), ('extensive', lambda: x.extensive() if hasattr(x, 'extensive') else '')):
        try:
            out[name] = fn()
        except Exception as e:  # noqa: BLE001
            out[name] = 'raised ' + err_name(e)
    return out


def decode_nlri(afi: AFI, safi: SAFI, data: bytes, addpath: bool, action: Action = Action.ANNOUNCE) -> tuple[NLRI, bytes]:
    x, rest = NLRI.unpack_nlri(afi, safi, data, action, addpath, Negotiated.UNSET)
    return x, bytes(rest)


class LawFail(Exception):
    def __init__(self, law: str, detail: str, data: bytes = b'') -> None:
        super().__init__(law)
        self.law = law
        self.detail = detail
        self.data = data


def klass_name(x: Any) -> str:
    return type(x).__name__


def nlri_laws(x: NLRI) -> tuple[list[LawFail], dict]:
    """All single-object laws on an NLRI obtained from any source. Returns (failures, facts)."""
    fails: list[LawFail] = []
    facts: dict = {}
    if not sendable(x):
        return fails, {'skipped': 'path-id on a family without ADD-PATH'}
    neg, ap = nlri_session(x)
    try:
        b = bytes(x.pack_nlri(neg))
    except Exception as e:  # noqa: BLE001
        return [LawFail('pack-raises', err_name(e))], facts
    facts['bytes'] = b
    facts['addpath'] = ap
    try:
        y, rest = decode_nlri(x.afi, x.safi, b, ap)
    except Exception as e:  # noqa: BLE001
        return [LawFail('unpack(pack(x))-raises', err_name(e), b)], facts
    if y is NLRI.INVALID:
        return [LawFail('unpack(pack(x))-invalid', 'decoder returned NLRI.INVALID', b)], facts
    facts['decoded'] = y
    if rest:
        fails.append(LawFail('unpack(pack(x))-leaves-bytes', rest.hex(), b))
    try:
        if not (y == x) or (y != x):
            fails.append(LawFail('unpack(pack(x))!=x', f'{x} | {y}', b))
    except Exception as e:  # noqa: BLE001
        fails.append(LawFail('eq-raises', err_name(e), b))
    try:
        ix, iy = x.index(), y.index()
        if ix != iy:
            fails.append(LawFail('index-differs-after-roundtrip', f'{ix.hex()} | {iy.hex()}', b))
        facts['index'] = ix
    except Exception as e:  # noqa: BLE001
        fails.append(LawFail('index-raises', err_name(e), b))
    try:
        if hash(x) != hash(y):
            fails.append(LawFail('hash-differs-after-roundtrip', f'{x} | {y}', b))
    except Exception as e:  # noqa: BLE001
        fails.append(LawFail('hash-raises', err_name(e), b))
    # the property speaks of the renderings of a DECODED object (they must exist and be a function of
    # the bytes: `bytes_laws` decodes twice); how an object built from text or by a factory renders
    # before it is encoded is not held against its decoded form
    ry = render(y)
    for k in ry:
        if ry[k].startswith('raised'):
            fails.append(LawFail(f'{k}-raises', ry[k], b))
    facts['render'] = ry
    try:
        b2 = bytes(y.pack_nlri(neg))
        if b2 != b:
            fails.append(LawFail('pack(unpack(b))!=b', f'{b.hex()} -> {b2.hex()}', b))
    except Exception as e:  # noqa: BLE001
        fails.append(LawFail('pack(unpack(b))-raises', err_name(e), b))
    if type(y) is not type(x):
        facts['class-change'] = f'{klass_name(x)} -> {klass_name(y)}'  # noted, not a law: the property asks for an equal object
    if (int(y.afi), int(y.safi)) != (int(x.afi), int(x.safi)):
        fails.append(LawFail('family-changes-after-roundtrip', f'{x.afi}/{x.safi} -> {y.afi}/{y.safi}', b))
    return fails, facts


def bytes_laws(afi: AFI, safi: SAFI, b: bytes, addpath: bool, action: Action = Action.ANNOUNCE) -> tuple[list[LawFail], dict]:
    """Laws on bytes that came out of ExaBGP's own encoder or out of a capture: pack(unpack(b)) = b,
    decoding twice gives equal objects with identical renderings."""
    fails: list[LawFail] = []
    facts: dict = {}
    try:
        x1, r1 = decode_nlri(afi, safi, b, addpath, action)
        x2, r2 = decode_nlri(afi, safi, b, addpath, action)
    except Exception as e:  # noqa: BLE001
        facts['error'] = err_name(e)
        return fails, facts
    if x1 is NLRI.INVALID:
        facts['error'] = 'INVALID'
        return fails, facts
    facts['decoded'] = x1
    facts['consumed'] = len(b) - len(r1)
    if r1 != r2:
        fails.append(LawFail('decode-twice-different-rest', f'{r1.hex()} | {r2.hex()}', b))
    try:
        if not (x1 == x2):
            fails.append(LawFail('decode-twice-unequal', f'{x1} | {x2}', b))
        if hash(x1) != hash(x2):
            fails.append(LawFail('decode-twice-hash', f'{x1}', b))
        if x1.index() != x2.index():
            fails.append(LawFail('decode-twice-index', f'{x1}', b))
    except Exception as e:  # noqa: BLE001
        fails.append(LawFail('eq/hash/index-raises', err_name(e), b))
    ra, rb = render(x1), render(x2)
    for k in ra:
        if ra[k] != rb[k]:
            fails.append(LawFail(f'{k}-not-deterministic', f'{ra[k]} | {rb[k]}', b))
    consumed = b[: len(b) - len(r1)]
    neg = Sess.get(addpath)
    try:
        p = bytes(x1.pack_nlri(neg))
        facts['repacked'] = p
        if p != consumed:
            fails.append(LawFail('pack(unpack(b))!=b', f'{consumed.hex()} -> {p.hex()}', consumed))
    except Exception as e:  # noqa: BLE001
        fails.append(LawFail('pack(unpack(b))-raises', err_name(e), consumed))
    return fails, facts


# ---------------------------------------------------------------------------------------------
# the attribute laws


def split_tlvs(block: bytes) -> list[tuple[int, int, bytes, bytes]]:
    """(flag, code, value, whole tlv) for each attribute of a block (framing only: the TLV header
    layout of RFC 4271 4.3, needed to address one attribute inside what the encoder returned)."""
    out = []
    i = 0
    while i < len(block):
        flag, code = block[i], block[i + 1]
        if flag & 0x10:
            ln = int.from_bytes(block[i + 2 : i + 4], 'big')
            h = 4
        else:
            ln = block[i + 2]
            h = 3
        out.append((flag, code, block[i + h : i + h + ln], block[i : i + h + ln]))
        i += h + ln
    return out


def render_attr(a: Attribute) -> dict:
    """JSON and text of one attribute the way the API encoders produce them: through an
    AttributeCollection holding it (`json(include_nexthop=True)` / `str`)."""
    out = {}
    for name, fn in (('json', lambda c: c.json(include_nexthop=True)), ('str', lambda c: str(c))):
        try:
            c = AttributeCollection()
            c.add(a)
            out[name] = fn(c)
        except Exception as e:  # noqa: BLE001
            out[name] = 'raised ' + err_name(e)
    return out


def decode_attr_block(block: bytes, neg: Negotiated) -> AttributeCollection:
    reset_caches()
    return AttributeCollection.unpack(block, neg)


_turn = [0]


def other_session(code: int, asn4: bool, aigp: bool) -> Negotiated:
    """A session of the same process that differs from the one under test in the parameter this attribute's
    decoding looks at (AIGP: the aigp capability; everything else: the width of AS numbers)."""
    return Sess.get(False, asn4, not aigp) if code == 26 else Sess.get(False, not asn4, aigp)


def encoding_depends_on_asn4(a: Attribute) -> bool:
    """Whether the bytes of this attribute on a 2-octet session are not those of a 4-octet session."""
    out = []
    for asn4 in (True, False):
        try:
            out.append(bytes(a.pack_attribute(Sess.get(False, asn4, klass_name(a) == 'AIGP'))))
        except Exception as e:  # noqa: BLE001
            out.append(err_name(e))
    return out[0] != out[1]


def rfc6793_expected(a: Attribute) -> Attribute:
    """What a 2-octet session can carry of an AS_PATH: everything, except the members of confederation segments
    above 65535, which travel as AS_TRANS (RFC 6793 3: an AS4_PATH has no confederation segments)."""
    if klass_name(a) not in ('ASPath', 'AS2Path'):
        return a
    from exabgp.bgp.message.update.attribute.aspath import CONFED_SEQUENCE, CONFED_SET, ASPath
    from exabgp.bgp.message.open.asn import ASN

    segs = []
    changed = False
    for seg in a.aspath:
        if isinstance(seg, (CONFED_SEQUENCE, CONFED_SET)) and any(int(x) > 65535 for x in seg):
            segs.append(type(seg)([ASN(23456) if int(x) > 65535 else x for x in seg]))
            changed = True
        else:
            segs.append(seg)
    return ASPath.make_aspath(segs, asn4=True) if changed else a


def together_laws(attrs: list[Attribute], asn4: bool) -> list[LawFail]:
    """Attributes whose decoding looks at the other attributes of the UPDATE (RFC 6793 4.2.3: AS_PATH with
    AS4_PATH, AGGREGATOR with AS4_AGGREGATOR, and AGGREGATOR deciding whether the AS4_ attributes are used), sent
    TOGETHER: each of them is read back as it was written, in whichever order they are on the wire."""
    neg = Sess.get(False, asn4)
    fails: list[LawFail] = []
    try:
        parts = [bytes(a.pack_attribute(neg)) for a in attrs]
    except Exception as e:  # noqa: BLE001
        return [LawFail('pack-raises', err_name(e))]
    for order in (parts, list(reversed(parts))):
        b = b''.join(order)
        reset_caches()
        try:
            coll = decode_attr_block(b, neg)
        except Exception as e:  # noqa: BLE001
            fails.append(LawFail('together:unpack(pack(x))-raises', err_name(e), b))
            continue
        for a in attrs:
            want = a if asn4 else rfc6793_expected(a)
            got = coll.get(int(a.ID))
            if got is None or not (got == want):
                fails.append(LawFail('together:unpack(pack(x))!=x', f'{klass_name(a)} sent with {[klass_name(x) for x in attrs if x is not a]}: {want} | {got}', b))
                break
        if fails:
            break
    return fails


def attr_laws(a: Attribute, asn4: bool = True) -> tuple[list[LawFail], dict]:
    fails: list[LawFail] = []
    facts: dict = {}
    aigp = klass_name(a) == 'AIGP'  # only sent to / accepted from a peer configured for it
    neg = Sess.get(False, asn4, aigp)
    try:
        b = bytes(a.pack_attribute(neg))
    except Exception as e:  # noqa: BLE001
        return [LawFail('pack-raises', err_name(e))], facts
    facts['bytes'] = b
    if not b:
        facts['empty'] = True
        return fails, facts
    # the daemon decodes for many sessions in one process: every other time, ANOTHER session sees these bytes first
    # (whatever it makes of them); what this session decodes is a function of the bytes and of ITS parameters
    _turn[0] += 1
    first_elsewhere = _turn[0] % 2 == 0
    if first_elsewhere:
        facts['other-session-first'] = True
        try:
            decode_attr_block(b, other_session(b[1], asn4, aigp))
        except Exception:  # noqa: BLE001
            pass
    try:
        coll = decode_attr_block(b, neg)
    except Exception as e:  # noqa: BLE001
        return [LawFail('unpack(pack(x))-raises', err_name(e), b)], facts
    if Attribute.CODE.INTERNAL_TREAT_AS_WITHDRAW in coll or Attribute.CODE.INTERNAL_DISCARD in coll:
        return [LawFail('unpack(pack(x))-refused', 'own encoding is treat-as-withdraw / discard', b)], facts
    code = b[1]
    if code not in coll:
        if klass_name(a) == 'GenericAttribute' and not (b[0] & 0x40):
            facts['dropped'] = 'unknown optional non-transitive attribute: ignored on receive (RFC 4271 5)'
            return fails, facts
        return [LawFail('unpack(pack(x))-missing', f'attribute {code} not in the decoded collection', b)], facts
    y = coll[code]
    facts['decoded'] = y
    if klass_name(a) == 'GenericAttribute' and klass_name(y) != 'GenericAttribute':
        # `attribute [ 0x20 0xc0 … ]` with the code of a known attribute decodes as that attribute:
        # only the bytes can be compared
        try:
            b2 = bytes(y.pack_attribute(neg))
            if b2 != b:
                fails.append(LawFail('pack(unpack(b))!=b', f'{b.hex()} -> {b2.hex()}', b))
        except Exception as e:  # noqa: BLE001
            fails.append(LawFail('pack(unpack(b))-raises', err_name(e), b))
        return fails, facts
    try:
        want = a if asn4 else rfc6793_expected(a)
        if want is not a:
            facts['confed-member-as-trans'] = True
        eq = y == want
        if eq is NotImplemented or not eq:
            fails.append(LawFail('unpack(pack(x))!=x', f'{want} | {y}', b))
    except Exception as e:  # noqa: BLE001
        fails.append(LawFail('eq-raises', err_name(e), b))
    try:
        hx = hash(a)
        try:
            if hash(y) != hx and (y == a) is True:
                fails.append(LawFail('hash-differs-for-equal', f'{a}', b))
        except TypeError:
            pass
    except TypeError:
        facts['unhashable'] = True
    except Exception as e:  # noqa: BLE001
        fails.append(LawFail('hash-raises', err_name(e), b))
    ry = render_attr(y)
    for k in ('json', 'str'):
        if ry[k].startswith('raised'):
            fails.append(LawFail(f'{k}-raises', ry[k], b))
    facts['render'] = ry
    try:
        b2 = bytes(y.pack_attribute(neg))
        # `attribute [ 0x99 0x70 … ]` asks for the extended-length framing of a short value: it is sent
        # as asked, and is not the canonical encoding the re-encoding law speaks of
        canonical = not (b[0] & 0x10 and int.from_bytes(b[2:4], 'big') <= 255)
        if b2 != b and canonical:
            fails.append(LawFail('pack(unpack(b))!=b', f'{b.hex()} -> {b2.hex()}', b))
    except Exception as e:  # noqa: BLE001
        fails.append(LawFail('pack(unpack(b))-raises', err_name(e), b))
    if type(y) is not type(a):
        facts['class-change'] = f'{klass_name(a)} -> {klass_name(y)}'
    if not fails:
        # ... and what was decoded BEFORE must not matter either: a twin of these bytes (one of the two top bits of one of
        # the first value octets the other way round: another type, another transitivity, another sign) is decoded and
        # rendered first, then these bytes again — they read as they do in a fresh process
        hdr = 4 if b[0] & 0x10 else 3
        for pos in range(hdr, min(hdr + 4, len(b))):
            for bit in (0x80, 0x40):
                tb = bytearray(b)
                tb[pos] ^= bit
                reset_caches()
                fresh_attribute_stores()
                try:
                    ct = decode_attr_block(bytes(tb), neg)
                    if code in ct:
                        render_attr(ct[code])
                except Exception:  # noqa: BLE001 — the twin may be malformed: it was still seen first
                    pass
                try:
                    z = decode_attr_block(b, neg).get(code)
                    rz = render_attr(z) if z is not None else {'json': 'absent', 'str': 'absent'}
                    bz = bytes(z.pack_attribute(neg)) if z is not None else b''
                except Exception as e:  # noqa: BLE001
                    rz, bz = {'json': 'raised ' + err_name(e), 'str': ''}, b''
                if rz['json'] != ry['json'] or rz['str'] != ry['str'] or (canonical and bz != b):
                    fails.append(LawFail('decode-depends-on-a-twin-decoded-before', f'after {bytes(tb).hex()[:48]}: {rz["json"][:80]} | fresh: {ry["json"][:80]}', b))
                    break
            if fails:
                break
        reset_caches()
    if not fails and not first_elsewhere:
        # ... and the other order: another session decodes the bytes now, this one decodes them again
        try:
            decode_attr_block(b, other_session(b[1], asn4, aigp))
        except Exception:  # noqa: BLE001
            pass
        try:
            again = decode_attr_block(b, neg)
            z = again[code] if code in again else None
            if z is None or type(z) is not type(y) or bytes(z.pack_attribute(neg)) != bytes(y.pack_attribute(neg)):
                fails.append(LawFail('decode-depends-on-another-session', f'{y} | {z}', b))
        except Exception as e:  # noqa: BLE001
            fails.append(LawFail('decode-depends-on-another-session', err_name(e), b))
    return fails, facts


def attr_bytes_laws(tlv: bytes, asn4: bool = True) -> tuple[list[LawFail], dict]:
    """One attribute TLV that came out of a capture or out of the encoder: decode twice, re-encode."""
    fails: list[LawFail] = []
    facts: dict = {}
    neg = Sess.get(False, asn4)
    code = tlv[1]
    try:
        c1 = decode_attr_block(tlv, neg)
        c2 = decode_attr_block(tlv, neg)
    except Exception as e:  # noqa: BLE001
        facts['error'] = err_name(e)
        return fails, facts
    if code not in c1 or code not in c2:
        facts['error'] = 'refused'
        return fails, facts
    x1, x2 = c1[code], c2[code]
    facts['decoded'] = x1
    try:
        if (x1 == x2) is not True:
            fails.append(LawFail('decode-twice-unequal', f'{x1} | {x2}', tlv))
    except Exception as e:  # noqa: BLE001
        fails.append(LawFail('eq-raises', err_name(e), tlv))
    ra, rb = render_attr(x1), render_attr(x2)
    for k in ('json', 'str'):
        if ra[k] != rb[k]:
            fails.append(LawFail(f'{k}-not-deterministic', f'{ra[k]} | {rb[k]}', tlv))
        if ra[k].startswith('raised'):
            fails.append(LawFail(f'{k}-raises', ra[k], tlv))
    try:
        p = bytes(x1.pack_attribute(neg))
        facts['repacked'] = p
        canonical = not (tlv[0] & 0x10 and int.from_bytes(tlv[2:4], 'big') <= 255)
        if not canonical:
            facts['noncanonical'] = 'extended length used for a value of 255 bytes or less'
        elif p != tlv:
            fails.append(LawFail('pack(unpack(b))!=b', f'{tlv.hex()} -> {p.hex()}', tlv))
    except Exception as e:  # noqa: BLE001
        fails.append(LawFail('pack(unpack(b))-raises', err_name(e), tlv))
    return fails, facts


# ---------------------------------------------------------------------------------------------
# source 1: the text grammar


def load_conf_routes() -> Iterable[tuple[str, Route, Any]]:
    """Every route of every neighbor of every shipped configuration that loads."""
    from exabgp.configuration.configuration import Configuration

    for f in sorted(glob.glob(f'{REPO}/etc/exabgp/*.conf')):
        RIB._cache.clear()
        try:
            cfg = Configuration([f])
            if not cfg.reload():
                continue
        except BaseException:  # noqa: BLE001
            continue
        for _name, nb in cfg.neighbors.items():
            if not nb.rib.enabled:
                continue
            try:
                for _ in nb.rib.outgoing.updates(False):
                    pass
                routes = list(nb.rib.outgoing.cached_routes())
            except Exception:  # noqa: BLE001
                continue
            for r in routes:
                yield os.path.basename(f), r, nb
    RIB._cache.clear()


_api = None


def api_routes(cmd: str) -> list[Route]:
    """Routes of one API text command (`announce route …`, `announce ipv4 mup …`, `announce flow …`,
    `announce vpls …`, `announce attributes … nlri …`) through the real API parser."""
    global _api
    from exabgp.reactor.api import API

    if _api is None:
        _api = API(MagicMock())
    w = cmd.split()
    if len(w) < 3 or w[0] not in ('announce', 'withdraw'):
        return []
    try:
        if w[1] == 'route':
            return _api.api_route(cmd)
        if w[1] == 'flow':
            return _api.api_flow(cmd)
        if w[1] == 'vpls':
            return _api.api_vpls(cmd)
        if w[1] in ('attribute', 'attributes'):
            return _api.api_attributes(cmd, [])
        if w[1] == 'ipv4':
            return _api.api_announce_v4(cmd)
        if w[1] == 'ipv6':
            return _api.api_announce_v6(cmd)
    except Exception:  # noqa: BLE001
        return []
    return []


def ci_files() -> list[str]:
    return sorted(glob.glob(f'{REPO}/qa/encoding/*.ci'))


def ci_lines() -> Iterable[tuple[str, str, str]]:
    """(file, kind, payload) with kind in cmd / raw."""
    for f in ci_files():
        for line in open(f, errors='replace'):
            m = re.match(r'^\w+:(cmd|raw):(.*)$', line.strip())
            if m:
                yield os.path.basename(f), m.group(1), m.group(2)


def ci_neighbor(cifile: str):
    """The neighbor of the configuration a .ci file names (for the session its bytes belong to)."""
    from exabgp.configuration.configuration import Configuration

    conf = None
    for line in open(f'{REPO}/qa/encoding/{cifile}', errors='replace'):
        if line.startswith('option:file:'):
            conf = line.strip().split(':', 2)[2]
            break
    if not conf:
        return None
    path = f'{REPO}/etc/exabgp/{conf}'
    if not os.path.exists(path):
        return None
    RIB._cache.clear()
    try:
        cfg = Configuration([path])
        if not cfg.reload():
            return None
    except BaseException:  # noqa: BLE001
        return None
    for nb in cfg.neighbors.values():
        return nb
    return None


def decoding_samples() -> Iterable[tuple[str, str, bytes]]:
    """qa/decoding: (file, first line, body bytes)."""
    for f in sorted(glob.glob(f'{REPO}/qa/decoding/*')):
        lines = open(f, errors='replace').read().splitlines()
        if len(lines) >= 2:
            try:
                yield os.path.basename(f), lines[0].strip(), bytes.fromhex(lines[1].strip().replace(':', ''))
            except ValueError:
                continue


# ---------------------------------------------------------------------------------------------
# whole messages


def decode_update(body: bytes, neg: Negotiated) -> UpdateCollection:
    reset_caches()
    return UpdateCollection.unpack_message(body, neg)


def update_summary(u: UpdateCollection) -> dict:
    """Canonical content of a decoded UPDATE: packed NLRIs (sorted per section) and attribute TLVs."""
    neg = Sess.get(False)
    ann = sorted((int(r.nlri.afi), int(r.nlri.safi), bytes(r.nlri.pack_nlri(Sess.get(has_path(r.nlri)))).hex(), str(r.nexthop)) for r in u.announces)
    wd = sorted((int(x.afi), int(x.safi), bytes(x.pack_nlri(Sess.get(has_path(x)))).hex()) for x in u.withdraws)
    attrs = {}
    for code, a in u.attributes.items():
        if code in (Attribute.CODE.MP_REACH_NLRI, Attribute.CODE.MP_UNREACH_NLRI):
            continue
        try:
            attrs[int(code)] = bytes(a.pack_attribute(neg)).hex()
        except Exception as e:  # noqa: BLE001
            attrs[int(code)] = 'raised ' + err_name(e)
    return {'announce': ann, 'withdraw': wd, 'attributes': attrs}


# ---------------------------------------------------------------------------------------------
# source 2: the factory methods, by introspection


def all_classes() -> list[type]:
    import exabgp.bgp.message.update.attribute as at
    import exabgp.bgp.message.update.nlri as nl

    seen: list[type] = []
    for pkg in (nl, at):
        for m in pkgutil.walk_packages(pkg.__path__, pkg.__name__ + '.'):
            try:
                mod = importlib.import_module(m.name)
            except Exception:  # noqa: BLE001
                continue
            for _n, obj in sorted(vars(mod).items()):
                if inspect.isclass(obj) and obj.__module__ == mod.__name__ and obj not in seen:
                    seen.append(obj)
    return seen


def factories() -> list[tuple[type, str, Callable, inspect.Signature]]:
    """Every `make_*` / `from_*` / `create` classmethod, bound to the class a caller would use: the
    repository keeps the code of a registered class in an undecorated `<Name>Base` and registers an
    empty subclass `<Name>`; the factory is then called through `<Name>`."""
    classes = all_classes()
    by_name = {c.__name__: c for c in classes}
    out = []
    for cls in classes:
        target = cls
        if cls.__name__.endswith('Base') and cls.__name__[:-4] in by_name and issubclass(by_name[cls.__name__[:-4]], cls):
            target = by_name[cls.__name__[:-4]]
        if cls.__name__ == 'NextHopSelf':
            continue  # configuration placeholder, replaced by resolve_self before anything is sent
        for name, member in sorted(vars(cls).items()):
            if isinstance(member, (classmethod, staticmethod)) and (name.startswith('make_') or name.startswith('from_') or name == 'create'):
                try:
                    sig = inspect.signature(member.__func__)
                except (TypeError, ValueError):
                    continue
                out.append((target, name, getattr(target, name), sig))
    return out


def v4(s: str) -> bytes:
    return socket.inet_pton(socket.AF_INET, s)


def v6(s: str) -> bytes:
    return socket.inet_pton(socket.AF_INET6, s)


INTS = [0, 1, 2, 7, 8, 24, 31, 32, 33, 64, 100, 127, 128, 255, 256, 4095, 65535, 65536, 1048575, 16777215, 4294967295]
IPS = {4: ['10.0.0.1', '0.0.0.0', '255.255.255.255', '192.168.1.254'], 6: ['2001:db8::1', '::', 'ffff:ffff:ffff:ffff:ffff:ffff:ffff:ffff', 'fe80::1']}
MASKS = {4: [24, 0, 1, 8, 31, 32], 6: [64, 0, 1, 32, 127, 128]}
PACKED = {4: ['10.0.0.0', '255.255.255.255', '0.0.0.0'], 6: ['2001:db8::', 'ffff:ffff:ffff:ffff:ffff:ffff:ffff:ffff', '::']}


def pool(cls: type, pname: str, ann: str, default: Any, fl: int) -> list[Any] | None:
    """In-domain values for one factory parameter, by annotation and name, for the address-family
    flavour `fl` (4 or 6) of the call; None when nothing can be built for the type."""
    a = ann.replace("'", '').replace('"', '').strip()
    opt = '| None' in a
    a = a.replace('| None', '').strip()
    n = pname.lower()
    vals: list[Any] | None = None
    if a == 'int':
        if cls.__name__ == 'GenericAttribute' and n == 'code':
            vals = [99, 254, 255]
        elif cls.__name__ == 'GenericAttribute' and n == 'flag':
            vals = [0xE0]  # unknown optional transitive: the decoder sets PARTIAL (RFC 4271 5), so it is given set
        elif n == 'maclen':
            vals = [48]
        elif n in ('endpoint_ip_len', 'source_ip_len'):
            vals = [32 if fl == 4 else 128] + ([0] if n == 'source_ip_len' else [])
        elif n == 'endpoint_len':
            vals = [b + t for b in [32 if fl == 4 else 128] for t in (32, 0, 8, 16, 31)]
        elif 'mask' in n or n.endswith('_len') or n in ('iplen', 'netmask', 'endpoint_len'):
            vals = list(MASKS[fl])
        elif n in ('qfi',):
            vals = [0, 1, 63]
        elif n in ('dscp',):
            vals = [0, 1, 63]
        elif n in ('flags', 'tunnel_type', 'proto_id', 'sr_algo', 'algorithm', 'weight', 'encaps', 'control', 'direction', 'origin', 'tpose_len', 'tpose_offset', 'loc_block_len', 'loc_node_len', 'func_len', 'arg_len'):
            vals = [0, 1, 2, 3, 6, 127, 128, 255]
        elif n in ('reserved',):
            vals = [0, 255]
        elif n in ('label', 'base', 'labelindex'):
            vals = [0, 1, 16, 1048575]
        elif n in ('offset',) and cls.__name__.startswith('IPrefix'):
            vals = [0, 8, 64]
        elif n in ('endpoint', 'size', 'offset', 'mtu', 'sgid2', 'source_as', 'endpoint_behavior', 'behavior', 'order'):
            vals = [0, 1, 255, 256, 65535]
        elif n in ('asn',):
            vals = [0, 1, 65535]
        else:
            vals = [0, 1, 255, 256, 65535, 65536, 4294967295]
    elif a == 'bool':
        vals = [False, True]
    elif a == 'float':
        vals = [0.0, 1.0, 1000.0, 1e9, 12500000.0]
    elif a == 'str':
        if n in ('ip', 'address', 'endpoint', 'prefix'):
            vals = list(IPS[fl])
        elif n == 'sid':
            vals = list(IPS[6])
        elif n in ('system_id',):
            vals = ['0000.0000.0001', 'ffff.ffff.ffff']
        elif n in ('neighbor_id',):
            vals = ['0000.0000.0001', '10.0.0.1']
        elif n in ('ip_string', 'string'):
            vals = list(IPS[4])
        else:
            vals = ['r1', '', 'a' * 255]
    elif a in ('bytes', 'Buffer'):
        if n in ('packed', 'raw'):
            vals = [(v4 if fl == 4 else v6)(x) for x in PACKED[fl]]
        elif n == 'esi_bytes':
            vals = [bytes(10), bytes(range(1, 11)), b'\xff' * 10]
        elif n == 'tunnel':
            vals = [b'', v4('10.0.0.1'), v6('2001:db8::1'), bytes(range(8))]
        elif n == 'nlri':
            vals = [bytes([24, 10, 0, 0]), bytes([0]), bytes([32, 1, 2, 3, 4])]
        elif n == 'data' and cls.__name__ in ('NodeOpaque', 'GenericAttribute'):
            vals = [b'\x01', b'', bytes(range(16)), b'\xab' * 255, b'\xcd' * 256]
        else:
            vals = None  # `data` of from_packet: fed from the decode source instead
    elif a == 'AFI':
        vals = [AFI.ipv4 if fl == 4 else AFI.ipv6]
    elif a == 'SAFI':
        from harness.tables.registry import registries

        fam = [(x, y) for x, y, k in registries()['families'] if k == cls.__name__]
        vals = sorted({SAFI.from_int(s) for _, s in fam}) or [SAFI.unicast]
    elif a == 'RouteDistinguisher':
        vals = [RouteDistinguisher.make_from_elements('10.0.0.1', 5), RouteDistinguisher.make_from_elements('65000', 100), RouteDistinguisher.make_from_elements('4200000000', 1), RouteDistinguisher(bytes(8)), RouteDistinguisher(b'\xff' * 8)]
    elif a == 'Labels':
        vals = [Labels.make_labels([100]), Labels.make_labels([0]), Labels.make_labels([1048575])]
        evpn = '.evpn.' in cls.__module__
        if not evpn or cls.__name__ == 'MAC':
            vals.append(Labels.make_labels([16, 17]))
        if not evpn:
            vals.append(Labels.make_labels([3, 3, 3]))
            vals.append(Labels.NOLABEL)
        opt = opt and not evpn
    elif a == 'PathInfo':
        vals = [PathInfo.DISABLED, PathInfo.NOPATH, PathInfo.make_from_integer(1), PathInfo.make_from_integer(4294967295), PathInfo(b'disa'), PathInfo(b'no-p')]
    elif a in ('IP', 'IP | bytes'):
        vals = [IP.from_string(x) for x in IPS[fl]]
    elif a == 'IPv4':
        vals = [IPv4.from_string(x) for x in IPS[4]]
    elif a == 'IPv6':
        vals = [IPv6.from_string(x) for x in IPS[6]]
    elif a == 'ESI':
        vals = [ESI.make_default(), ESI.make_esi(bytes(range(1, 11))), ESI.make_esi(b'\xff' * 10)]
    elif a == 'EthernetTag':
        vals = [EthernetTag.make_etag(0), EthernetTag.make_etag(1), EthernetTag.make_etag(4294967295)]
    elif a == 'MACQUAL':
        vals = [MACQUAL('00:11:22:33:44:55'), MACQUAL('ff:ff:ff:ff:ff:ff'), MACQUAL('00:00:00:00:00:00')]
    elif a in ('ASN', 'ASN4'):
        vals = [ASN(65000), ASN(0), ASN(1), ASN(65535)] + ([ASN(65536), ASN(4294967295)] if a == 'ASN4' or cls.__name__ in ('RTC', 'Aggregator4', 'RouteTargetASN4Number', 'OriginASN4Number') else [])
    elif a == 'CIDR':
        vals = [CIDR.create_cidr((v4 if fl == 4 else v6)(x), m) for x, m in zip(PACKED[fl] * 2, MASKS[fl])]
    elif a == 'Action':
        vals = [Action.ANNOUNCE, Action.UNSET]
    elif a in ('RouteTarget', 'rt.RouteTarget'):
        from exabgp.bgp.message.update.attribute.community.extended.rt import RouteTargetASN2Number, RouteTargetASN4Number, RouteTargetIPNumber

        vals = [RouteTargetASN2Number.make_route_target(ASN(65000), 100), RouteTargetIPNumber.make_route_target('10.0.0.1', 5), RouteTargetASN4Number.make_route_target(ASN(4200000000), 7), RouteTargetASN2Number.make_route_target(ASN(65000), 100, False)]
    elif a in ('dict[str, int]',):
        names = [x for x in (getattr(cls, 'FLAGS', []) or []) if isinstance(x, str) and not x.startswith('RSV')]
        vals = [{k: 0 for k in names}, {k: 1 for k in names}]
        if names:
            vals.append({**{k: 0 for k in names}, names[0]: 1})
    elif a in ('list[int]', 'Sequence[int]'):
        if n == 'sids':
            vals = [[100], [0], [1048575]]  # one SID per TLV (RFC 9085 2.1.1 / 2.2.1)
        else:
            vals = [[1, 2, 3], [], [0], [4294967295], [16, 1048575]]
    elif a == 'Sequence[float]':
        vals = [[0.0] * 8, [1000.0] * 8]
    elif a == 'list[list[int]]':
        vals = [[[100, 16000]], [[1, 1], [2, 2]], []]
    elif a == 'list[tuple[int, int]]':
        vals = [[(16000, 8000)], [(0, 0), (1048575, 16777215)], []]
    elif a == 'Sequence[IPv4]':
        vals = [[IPv4.from_string('1.1.1.1')], [IPv4.from_string('1.1.1.1'), IPv4.from_string('2.2.2.2')], []]
    elif a.startswith('Sequence[SET'):
        from exabgp.bgp.message.update.attribute.aspath import CONFED_SEQUENCE, CONFED_SET, SEQUENCE, SET

        big = cls.__name__ == 'AS4Path'
        vals = [
            [SEQUENCE([ASN(65000)])],
            [],
            [SEQUENCE([ASN(1), ASN(65535)] + ([ASN(65536), ASN(4294967295)] if big else []))],
            [SET([ASN(1), ASN(2)]), SEQUENCE([ASN(3)])],
            [CONFED_SEQUENCE([ASN(64512)]), CONFED_SET([ASN(64513)]), SEQUENCE([ASN(100)] * 255)],
            [SEQUENCE([ASN(7)] * 256)],
            # F99: a confederation segment next to a path that needs an AS4_PATH on a 2-octet session
            [CONFED_SEQUENCE([ASN(65001), ASN(65002)]), SEQUENCE([ASN(200000), ASN(100)])],
            [CONFED_SEQUENCE([ASN(65001)]), CONFED_SET([ASN(65002), ASN(65003)]), SET([ASN(7), ASN(300000)]), SEQUENCE([ASN(100)])],
            [CONFED_SEQUENCE([ASN(65001), ASN(300000)]), SEQUENCE([ASN(200000), ASN(100)])],
            [CONFED_SEQUENCE([ASN(65001), ASN(300000)])],
        ]
    if vals is None:
        if default is not inspect.Parameter.empty:
            return [default]
        return None
    if opt:
        vals = list(vals) + [None]
    if default is not inspect.Parameter.empty and not any(v is default or (type(v) is type(default) and not isinstance(v, (PathInfo,)) and v == default) for v in vals):
        vals = [default] + list(vals)
    return list(vals)


def factory_calls(cls: type, name: str, fn: Callable, sig: inspect.Signature, rng, extra: int) -> Iterable[tuple[dict, Any]]:
    """(arguments, result or exception) for a boundary sweep of one factory, once per address-family
    flavour: the base point, every parameter varied over its whole pool, and `extra` random points."""
    params = [p for p in sig.parameters.values() if p.name not in ('cls', 'self')]
    seen = set()
    for fl in (4, 6):
        pools = []
        for p in params:
            vs = pool(cls, p.name, str(p.annotation), p.default, fl)
            if vs is None:
                return
            pools.append(vs)
        if not params:
            combos = [()]
        else:
            base = [vs[0] for vs in pools]
            combos = [tuple(base)]
            for i, vs in enumerate(pools):
                for v in vs[1:]:
                    c = list(base)
                    c[i] = v
                    combos.append(tuple(c))
            for _ in range(extra):
                combos.append(tuple(rng.choice(vs) for vs in pools))
        for c in combos:
            kw = {p.name: v for p, v in zip(params, c)}
            key = repr(show_args(kw))
            if key in seen:
                continue
            seen.add(key)
            try:
                res = fn(**kw)
            except Exception as e:  # noqa: BLE001
                res = e
            yield kw, res


def show_args(kw: dict) -> dict:
    out = {}
    for k, v in kw.items():
        if isinstance(v, (bytes, bytearray, memoryview)):
            out[k] = bytes(v).hex()
        elif isinstance(v, PathInfo):
            out[k] = 'DISABLED' if v is PathInfo.DISABLED else 'path:' + bytes(v.pack_path()).hex()
        else:
            out[k] = repr(v)[:60]
    return out


def wrap_component(obj: Any) -> Attribute | None:
    """A value that only travels inside a container attribute → the container holding just it."""
    from exabgp.bgp.message.update.attribute.community.extended.communities import ExtendedCommunities, ExtendedCommunitiesIPv6
    from exabgp.bgp.message.update.attribute.community.extended.community import ExtendedCommunityBase, ExtendedCommunityIPv6

    if isinstance(obj, ExtendedCommunityIPv6):
        return ExtendedCommunitiesIPv6.make_extended_communities_ipv6([obj])
    if isinstance(obj, ExtendedCommunityBase):
        return ExtendedCommunities.make_extended_communities([obj])
    if hasattr(obj, 'pack_tlv'):
        from exabgp.bgp.message.update.attribute.sr.prefixsid import PrefixSid

        if type(obj) in PrefixSid.registered_srids.values():
            return PrefixSid([obj])
    return None


def ls_component_laws(obj: Any) -> tuple[list[LawFail], dict]:
    """A BGP-LS attribute TLV built by a factory: framed as one TLV of a LINK_STATE attribute (type,
    length, the bytes the object keeps), decoded through the real attribute parser; the decoded
    TLV must be of the same class and render the same."""
    from exabgp.bgp.message.update.attribute.bgpls.linkstate import BaseLS

    fails: list[LawFail] = []
    facts: dict = {}
    if not isinstance(obj, BaseLS):
        return fails, {'skip': True}
    payload = bytes(obj._packed)
    tlv = int(obj.TLV).to_bytes(2, 'big') + len(payload).to_bytes(2, 'big') + payload
    attr = bytes([0x80, 29, len(tlv)]) + tlv if len(tlv) < 256 else bytes([0x90, 29]) + len(tlv).to_bytes(2, 'big') + tlv
    facts['bytes'] = attr
    neg = Sess.get(False)
    try:
        coll = decode_attr_block(attr, neg)
    except Exception as e:  # noqa: BLE001
        return [LawFail('unpack(pack(x))-raises', err_name(e), attr)], facts
    if 29 not in coll:
        return [LawFail('unpack(pack(x))-refused', 'own encoding is treat-as-withdraw / discard', attr)], facts
    try:
        got = coll[29].ls_attrs
    except Exception as e:  # noqa: BLE001
        return [LawFail('unpack(pack(x))-raises', err_name(e), attr)], facts
    if len(got) != 1:
        return [LawFail('unpack(pack(x))!=x', f'{len(got)} TLVs decoded from one', attr)], facts
    y = got[0]
    facts['decoded'] = y
    if type(y) is not type(obj) and type(y).__name__ != type(obj).__name__:
        facts['class-change'] = f'{klass_name(obj)} -> {klass_name(y)}'
    for name, fn in (('json', lambda o: o.json()), ('str', lambda o: repr(o))):
        try:
            fn(y)
        except Exception as e:  # noqa: BLE001
            fails.append(LawFail(f'{name}-raises', 'decoded: ' + err_name(e), attr))
    if bytes(y._packed) != payload:
        fails.append(LawFail('pack(unpack(b))!=b', f'{payload.hex()} -> {bytes(y._packed).hex()}', attr))
    try:
        whole = render_attr(coll[29])
        for k, v in whole.items():
            if v.startswith('raised'):
                fails.append(LawFail(f'{k}-raises', v, attr))
    except Exception as e:  # noqa: BLE001
        fails.append(LawFail('json-raises', err_name(e), attr))
    return fails, facts


def is_wire_attribute(a: Any) -> bool:
    """A path attribute that has a wire form of its own (not an internal marker, not a component)."""
    from exabgp.bgp.message.update.attribute.community.extended.community import ExtendedCommunityBase

    if not isinstance(a, Attribute) or isinstance(a, ExtendedCommunityBase):
        return False
    try:
        return 0 < int(a.ID) < 256
    except Exception:  # noqa: BLE001
        return False
