"""Shared machinery of the checks: build, audit, driver, evidence, findings, verdict.

Run under /venv/bin/python (exabgp is importable from /repo/src).  Nothing here is
property-specific; each property has a module harness/props/Cxx.py exposing
    THEOREM_FILES : list of Lean module names whose theorems are the obligations
    run(ctx)      : runs correspondence + oracle, fills ctx (see Ctx)
"""

from __future__ import annotations

import fcntl
import hashlib
import json
import os
import random
import re
import subprocess
import sys
import time
from dataclasses import dataclass, field
from pathlib import Path
from typing import Any, Callable

VERIF = Path(__file__).resolve().parent.parent
LEAN = VERIF / 'lean'
REPO = Path(os.environ.get('VERIF_REPO', '/repo'))
BIN = LEAN / '.lake' / 'build' / 'bin'
ALLOWED_AXIOMS = {'propext', 'Classical.choice', 'Quot.sound'}
FORBIDDEN = re.compile(r'\bsorry\b|\badmit\b|^axiom |native_decide|bv_decide|implemented_by|\bunsafe |maxHeartbeats 0')

TRUSTED_BASE = [
    'Lean 4.33.0 kernel (thorough: re-checked with leanchecker)',
    'axioms: subset of {propext, Classical.choice, Quot.sound}, audited per theorem on every run',
    'translator harness/gen_tables.py (tables re-extracted from /repo on every run)',
    'correspondence harness (calls the real entry points in-process, canonicalises, diffs against the compiled Lean model)',
    'hand-written Lean models are modelled, not verified: tied to the code by the correspondence run only',
    'CPython 3.12 and the pinned dependencies of /repo',
]


class Infra(Exception):
    """Something in the machinery itself failed (exit 2, never a verdict)."""


def log(*a: Any) -> None:
    print(*a, flush=True)


# ---------------------------------------------------------------------------------------------
# Lean side


class _Lock:
    def __enter__(self) -> '_Lock':
        self.f = open(LEAN / '.build.lock', 'w')
        fcntl.flock(self.f, fcntl.LOCK_EX)
        return self

    def __exit__(self, *a: Any) -> None:
        fcntl.flock(self.f, fcntl.LOCK_UN)
        self.f.close()


def sh(cmd: list[str], cwd: Path | None = None, timeout: int = 3000, env: dict | None = None) -> tuple[int, str]:
    e = dict(os.environ)
    if env:
        e.update(env)
    p = subprocess.run(cmd, cwd=cwd, stdout=subprocess.PIPE, stderr=subprocess.STDOUT, text=True, timeout=timeout, env=e)
    return p.returncode, p.stdout


def regen_tables(tables: list[str] | None = None) -> tuple[bool, str]:
    """Run the translator (all plugins, or the named ones). A translator error is a broken obligation."""
    gt = VERIF / 'harness' / 'gen_tables.py'
    if not gt.exists() or tables == []:
        return True, 'no table needed'
    rc, out = sh([sys.executable, str(gt)] + (tables or []), cwd=VERIF, env={'PYTHONPATH': str(REPO / 'src')})
    return rc == 0, out


def lake_build(targets: list[str], clean: bool = False) -> tuple[bool, str, list[str]]:
    """Build targets. Returns (ok, output, failing modules)."""
    with _Lock():
        if clean:
            sh(['lake', 'clean'], cwd=LEAN)
        rc, out = sh(['lake', 'build'] + targets, cwd=LEAN)
    failing = re.findall(r'^- (\S+)$', out, flags=re.M)
    return rc == 0, out, failing


def failing_decls(out: str) -> list[str]:
    """Best effort: file:line of the errors in a lake build log."""
    return sorted(set(re.findall(r'error: (\S+\.lean:\d+):\d+', out)))


def import_closure(modules: list[str]) -> list[Path]:
    """Files of this project reachable through `import` from the given modules."""
    seen: dict[str, Path] = {}
    todo = list(modules)
    while todo:
        m = todo.pop()
        if m in seen:
            continue
        path = LEAN / (m.replace('.', '/') + '.lean')
        if not path.exists():
            continue
        seen[m] = path
        for line in path.read_text().splitlines():
            mm = re.match(r'^import\s+(\S+)', line)
            if mm and (mm.group(1).startswith('ExaModel') or mm.group(1).startswith('Drv')):
                todo.append(mm.group(1))
    return sorted(seen.values())


def grep_forbidden(modules: list[str] | None = None) -> list[str]:
    """Forbidden constructs in the files the given modules depend on (whole tree if None)."""
    hits = []
    files = import_closure(modules) if modules else sorted(p for p in LEAN.rglob('*.lean') if '.lake' not in p.parts)
    for p in files:
        in_block = 0
        for i, line in enumerate(p.read_text().splitlines(), 1):
            code = line
            # strip block comments (non-nested approximation, good enough for an audit that errs on the side of flagging)
            if in_block:
                if '-/' in code:
                    code = code.split('-/', 1)[1]
                    in_block = 0
                else:
                    continue
            while '/-' in code:
                pre, rest = code.split('/-', 1)
                if '-/' in rest:
                    code = pre + rest.split('-/', 1)[1]
                else:
                    code = pre
                    in_block = 1
                    break
            code = code.split('--', 1)[0]
            if FORBIDDEN.search(code):
                hits.append(f'{p.relative_to(LEAN)}:{i}: {line.strip()}')
    return hits


def theorems_of(module: str) -> list[str]:
    """Fully qualified theorem names declared in a Lean module (one `namespace` per file, at top)."""
    path = LEAN / (module.replace('.', '/') + '.lean')
    ns: list[str] = []
    names = []
    for line in path.read_text().splitlines():
        m = re.match(r'^namespace\s+(\S+)', line)
        if m:
            ns.append(m.group(1))
            continue
        m = re.match(r'^end\s+(\S+)', line)
        if m and ns and ns[-1] == m.group(1):
            ns.pop()
            continue
        m = re.match(r'^(?:@\[[^\]]*\]\s*)?(?:private\s+|protected\s+)?theorem\s+(\S+)', line)
        if m:
            names.append('.'.join(ns + [m.group(1)]))
    return names


def audit_axioms(prop: str, modules: list[str]) -> tuple[dict[str, list[str]], str]:
    """#print axioms for every theorem of the modules. Returns ({theorem: axioms}, raw output)."""
    names: list[str] = []
    for m in modules:
        names += theorems_of(m)
    adir = LEAN / 'ExaModel' / 'Audit'
    adir.mkdir(exist_ok=True)
    src = ''.join(f'import {m}\n' for m in modules) + ''.join(f'#print axioms {n}\n' for n in names)
    f = adir / f'{prop}.lean'
    if not f.exists() or f.read_text() != src:
        f.write_text(src)
    with _Lock():
        rc, out = sh(['lake', 'env', 'lean', str(f.relative_to(LEAN))], cwd=LEAN)
    res: dict[str, list[str]] = {}
    flat = out.replace('\n', ' ')
    for n in names:
        m = re.search(r"'" + re.escape(n) + r"' depends on axioms: \[([^\]]*)\]", flat)
        if m:
            res[n] = [a.strip() for a in m.group(1).split(',') if a.strip()]
        elif re.search(r"'" + re.escape(n) + r"' does not depend on any axioms", flat):
            res[n] = []
    return res, out


class Driver:
    """A compiled Lean model behind a one-line-in / one-line-out protocol (interactive use)."""

    def __init__(self, exe: str) -> None:
        path = BIN / exe
        if not path.exists():
            raise Infra(f'driver not built: {path}')
        self.p = subprocess.Popen([str(path)], stdin=subprocess.PIPE, stdout=subprocess.PIPE, text=True, bufsize=1)

    def ask(self, line: str) -> str:
        assert '\n' not in line
        self.p.stdin.write(line + '\n')
        self.p.stdin.flush()
        out = self.p.stdout.readline()
        if not out:
            raise Infra(f'driver died on: {line}')
        return out.rstrip('\n')

    def close(self) -> None:
        try:
            self.p.stdin.close()
            self.p.wait(timeout=5)
        except Exception:
            self.p.kill()


def run_driver(exe: str, lines: list[str]) -> list[str]:
    """Run a whole script through a fresh driver process (fast path: one write, one read)."""
    path = BIN / exe
    if not path.exists():
        raise Infra(f'driver not built: {path}')
    if not lines:
        return []
    data = '\n'.join(lines) + '\n'
    p = subprocess.run([str(path)], input=data, stdout=subprocess.PIPE, text=True)
    out = p.stdout.split('\n')
    if out and out[-1] == '':
        out.pop()
    if len(out) != len(lines):
        raise Infra(f'driver {exe} returned {len(out)} lines for {len(lines)} inputs (rc={p.returncode})')
    return out


# ---------------------------------------------------------------------------------------------
# Findings


def load_findings() -> list[dict]:
    f = VERIF / 'known_findings.json'
    if not f.exists():
        return []
    return json.loads(f.read_text())['findings']


# ---------------------------------------------------------------------------------------------
# Context handed to property modules


@dataclass
class Failure:
    """A concrete case on which the property's oracle fails on the implementation."""

    kind: str  # canonical kind (see DESIGN 4.4)
    canon: Any  # canonical (shrunk) form, JSON-serialisable — matched against known findings
    replay: Any  # everything needed to re-execute (JSON-serialisable)
    what: str


@dataclass
class Disagreement:
    stream: str
    case: Any
    model: Any
    impl: Any


@dataclass
class Ctx:
    prop: str
    tier: str
    seed: int
    rng: random.Random
    driver_ok: bool = True
    evaluations: int = 0
    distinct: set = field(default_factory=set)
    rule: str = ''
    samples: list = field(default_factory=list)
    distribution: dict = field(default_factory=dict)
    failures: list[Failure] = field(default_factory=list)
    disagreements: list[Disagreement] = field(default_factory=list)
    notes: list[str] = field(default_factory=list)
    extra: dict = field(default_factory=dict)
    deadline: float = 0.0

    def count(self, key: str, n: int = 1) -> None:
        self.distribution[key] = self.distribution.get(key, 0) + n

    def nontrivial(self, canon: Any) -> None:
        self.distinct.add(hashlib.sha1(json.dumps(canon, sort_keys=True, default=str).encode()).hexdigest())

    def sample(self, s: Any, cap: int = 5) -> None:
        if len(self.samples) < cap:
            self.samples.append(s)

    def time_left(self) -> float:
        return self.deadline - time.time()


def finding_matches(f: dict, fail: Failure) -> bool:
    if f.get('status') != 'open':
        return False
    m = f.get('match', {})
    if m.get('kind') != fail.kind:
        return False
    return m.get('canon') == fail.canon


# ---------------------------------------------------------------------------------------------
# The run of one check


def run_check(prop: str, tier: str, seed: int, module: Any) -> int:
    t0 = time.time()
    log(f'== check {prop} tier={tier} seed={seed}')
    broken: list[str] = []  # broken proof obligations / translator
    ok, msg = regen_tables(getattr(module, 'TABLES', None))
    if not ok:
        broken.append('translator: ' + msg.strip().splitlines()[-1] if msg.strip() else 'translator failed')
        log('translator failed:\n' + msg)

    theorem_modules: list[str] = list(module.THEOREM_MODULES)
    # 1. driver (models only) — needed for correspondence
    drivers = list(getattr(module, 'DRIVERS', []))
    okd, outd, _ = lake_build(drivers, clean=(tier == 'thorough' and os.environ.get('VERIF_CLEAN', '0') == '1')) if drivers else (True, '', [])
    if not okd:
        log(outd[-3000:])
        broken.append('model/driver does not build: ' + ', '.join(failing_decls(outd)))
    # 2. theorems
    okp, outp, failing = lake_build(theorem_modules)
    if not okp:
        log(outp[-3000:])
        broken.append('proof obligations do not check: ' + ', '.join(failing_decls(outp) or failing))

    # 3. audit
    hits = grep_forbidden(theorem_modules + ['Drv.' + d[4:].capitalize() for d in drivers])
    if hits:
        log('forbidden constructs in the Lean tree:\n' + '\n'.join(hits))
        return 2
    obligations: list[str] = []
    for m in theorem_modules:
        obligations += theorems_of(m)
    discharged: list[str] = []
    axioms: dict[str, list[str]] = {}
    if okp:
        axioms, raw = audit_axioms(prop, theorem_modules)
        for n in obligations:
            if n in axioms and set(axioms[n]) <= ALLOWED_AXIOMS:
                discharged.append(n)
            else:
                broken.append(f'axiom audit failed for {n}: {axioms.get(n, "not printed")}')
        if len(discharged) != len(obligations):
            log(raw[-2000:])
    checker = f'cd lean && lake build {" ".join(theorem_modules)} && lake env lean ExaModel/Audit/{prop}.lean'
    if tier == 'thorough' and okp:
        with _Lock():
            rc, out = sh(['lake', 'env', 'leanchecker'] + theorem_modules, cwd=LEAN, timeout=3000)
        if rc != 0:
            log(out[-2000:])
            broken.append('leanchecker rejected: ' + out.strip().splitlines()[-1])
        checker += f' && lake env leanchecker {" ".join(theorem_modules)}'

    # 4/5. correspondence + oracle
    ctx = Ctx(prop=prop, tier=tier, seed=seed, rng=random.Random(seed), driver_ok=okd)
    budget = float(os.environ.get('VERIF_BUDGET', '90' if tier == 'quick' else '900'))
    ctx.deadline = time.time() + budget
    try:
        module.run(ctx)
    except Exception as e:  # noqa: BLE001 — Infra raised by a plugin included: an assumption it makes about the code failed
        # the harness itself stopped (an assumption it makes about the code no longer holds, a name it imports is
        # gone): the correspondence was not established — reported like a broken obligation, with what was found so far
        import traceback

        tb = traceback.format_exc()
        where = tb.strip().splitlines()[-3].strip() if len(tb.strip().splitlines()) >= 3 else ''
        broken.append(f'the correspondence harness stopped: {type(e).__name__}: {str(e)[:200]} ({where[:160]})')
        ctx.notes.append('harness traceback: ' + tb[-1800:])
        log(tb)

    # 6. decide
    findings = load_findings()
    printed_known = set()
    violations: list[tuple[str, bool]] = []  # (replay path, has input)
    rdir = VERIF / 'replays'
    rdir.mkdir(exist_ok=True)
    for old in rdir.glob(f'{prop}-*.json'):
        old.unlink()
    for fail in ctx.failures:
        known = [f for f in findings if f.get('property') == prop and finding_matches(f, fail)]
        if known:
            for f in known:
                if f['id'] not in printed_known:
                    printed_known.add(f['id'])
                    log(f'KNOWN-FINDING: property={prop} {f["id"]} {f["what"]}')
            continue
        h = hashlib.sha1(json.dumps(fail.canon, sort_keys=True, default=str).encode()).hexdigest()[:10]
        path = rdir / f'{prop}-{h}.json'
        if not any(str(path) == v[0] for v in violations):
            path.write_text(json.dumps({'property': prop, 'kind': fail.kind, 'what': fail.what, 'canon': fail.canon, 'replay': fail.replay, 'seed': seed, 'tier': tier}, indent=1, default=str))
            violations.append((str(path), True))
    if (broken or ctx.disagreements) and not violations:
        # the property is no longer shown to hold and no failing input was found
        path = rdir / f'{prop}-unproved.json'
        path.write_text(
            json.dumps(
                {
                    'property': prop,
                    'broken_obligations': broken,
                    'correspondence_disagreements': [d.__dict__ for d in ctx.disagreements[:20]],
                    'note': 'no input failing the property oracle was found on the implementation; the theorem or the model/code correspondence named here no longer checks',
                    'seed': seed,
                    'tier': tier,
                },
                indent=1,
                default=str,
            )
        )
        violations.append((str(path), False))
    for b in broken:
        log('BROKEN-OBLIGATION: ' + b)
    for d in ctx.disagreements[:10]:
        log(f'DISAGREEMENT[{d.stream}]: case={json.dumps(d.case, default=str)[:400]} model={str(d.model)[:300]} impl={str(d.impl)[:300]}')

    # 7. evidence
    ev = {
        'property_id': prop,
        'tier': tier,
        'seed': seed,
        'level': 'proof',
        'coverage': {
            'obligations': max(len(obligations), 1),
            'discharged': len(discharged),
            'obligation_names': obligations,
            'axioms': axioms,
            'broken_obligations': broken,
            'checker_cmd': checker,
            'trusted_base': TRUSTED_BASE + list(getattr(module, 'TRUSTED_EXTRA', [])),
            'evaluations': ctx.evaluations,
            'distinct_nontrivial': len(ctx.distinct),
            'rule': ctx.rule,
            'samples': ctx.samples,
            'input_distribution': ctx.distribution,
            'correspondence_disagreements': len(ctx.disagreements),
            'oracle_failures': len(ctx.failures),
            'known_findings_hit': sorted(printed_known),
            'notes': ctx.notes,
            **ctx.extra,
        },
        'assumptions': list(getattr(module, 'ASSUMPTIONS', [])),
        'wall_s': round(time.time() - t0, 2),
        'violations': len(violations),
    }
    # a run against a scratch copy (VERIF_REPO, used by tools/try_seed.py) never overwrites the evidence of /repo
    edir = VERIF / 'evidence' if str(REPO) == '/repo' else VERIF / 'replays' / 'scratch-evidence'
    edir.mkdir(parents=True, exist_ok=True)
    (edir / f'{prop}.json').write_text(json.dumps(ev, indent=1, default=str))
    log(f'obligations={len(obligations)} discharged={len(discharged)} evaluations={ctx.evaluations} distinct_nontrivial={len(ctx.distinct)} disagreements={len(ctx.disagreements)} oracle_failures={len(ctx.failures)} wall={ev["wall_s"]}s')
    if violations:
        for path, has_input in violations:
            rel = os.path.relpath(path, VERIF)
            log(f'VIOLATION property={prop} replay={rel}' + ('' if has_input else ' no-failing-input-found'))
        return 1
    log(f'OK property={prop}')
    return 0
