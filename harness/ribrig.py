"""The Adj-RIB-Out rig: a real OutgoingRIB inside a real Neighbor/Peer/Protocol, driven by the
abstract operations of M-Rib.  Everything that reaches the wire goes through the real
`Peer._send_route_updates` -> `Protocol.new_update_generator` -> `OutgoingRIB.updates` ->
`UpdateCollection.messages` and is decoded back from the captured bytes.

Abstract universe: nlri ids 1..5 are IPv4 unicast (family 1, grouped), 6..8 IPv6 unicast
(family 2, one UPDATE per NLRI); attribute ids 1..3; next-hop ids 1..2.
"""

from __future__ import annotations

import asyncio
from typing import Any

from exabgp.bgp.message import Message
from exabgp.bgp.message.direction import Direction
from exabgp.bgp.message.update.attribute import Attribute
from exabgp.bgp.message.update.attribute.collection import AttributeCollection
from exabgp.protocol.family import AFI, SAFI

from harness import sessions

FAM = {1: (AFI.ipv4, SAFI.unicast), 2: (AFI.ipv6, SAFI.unicast)}
FAM_ID = {v: k for k, v in FAM.items()}
NLRIS = {1: '10.0.1.0/24', 2: '10.0.2.0/24', 3: '10.0.3.0/25', 4: '10.4.0.0/16', 5: '10.0.5.5/32', 6: '2001:db8:6::/48', 7: '2001:db8:7::/64', 8: '2001:db8:8::1/128'}
NLRI_FAM = {n: (1 if n <= 5 else 2) for n in NLRIS}
ATTRS = {1: 'med 1', 2: 'med 2 community [ 65000:2 ]', 3: 'med 3 local-preference 50'}
NH4 = {1: '192.0.2.1', 2: '192.0.2.2'}
NH6 = {1: '2001:db8::1', 2: '2001:db8::2'}


def nh_text(n: int, h: int) -> str:
    return NH4[h] if NLRI_FAM[n] == 1 else NH6[h]


def route_text(n: int, a: int, h: int, watchdog: str = '') -> str:
    return f'route {NLRIS[n]} next-hop {nh_text(n, h)} {ATTRS[a]}{watchdog}'


def grp_of(n: int, a: int, h: int) -> int:
    """Abstract id of `route.attributes.index()` (the text of the attributes plus the next hop);
    checked against the real objects in RibRig.route."""
    return a * 10 + h + (0 if NLRI_FAM[n] == 1 else 100)


class RibRig:
    def __init__(self, cache_on: bool = True, grouped: bool = True) -> None:
        AttributeCollection.cached = None
        AttributeCollection.previous = b''
        self.cfg, self.neighbor = sessions.make_config(families='ipv4 unicast ipv6 unicast')
        self.neighbor.rib.outgoing.cache = cache_on
        # `group-updates false`: one UPDATE per NLRI for every family (the events are handed out one per
        # tick anyway, so the model does not see the difference: what reaches the peer must be the same)
        self.neighbor.group_updates = grouped
        self.neg_out = sessions.negotiate(self.neighbor, direction=Direction.OUT)
        self.neg_in = sessions.negotiate(self.neighbor, direction=Direction.IN)
        self.peer, self.proto = sessions.make_peer(self.neighbor, self.neg_out)
        self.rib = self.neighbor.rib.outgoing
        self.loop = asyncio.new_event_loop()
        self.new_routes: Any = None
        self.include_withdraw = False
        self.send_eor = True
        self.buffer: list[tuple] = []
        self.empty_updates: list[str] = []
        self.sent: list[tuple] = []  # every event that reached the wire, in order
        self.nlri_by_text = {v: k for k, v in NLRIS.items()}
        self._routes: dict[tuple, Any] = {}
        self._grp: dict = {}
        self._grp_rev: dict = {}

    def close(self) -> None:
        self.loop.close()

    # -- objects ------------------------------------------------------------------------------

    def route(self, n: int, a: int, h: int, fresh: bool = False, watchdog: str = ''):
        key = (n, a, h, watchdog)
        if fresh or key not in self._routes:
            r = self.cfg.parse_route_text(route_text(n, a, h, watchdog))[0]
            r = self.neighbor.resolve_self(r)
            # the abstraction of the attribute index must be exact
            g = grp_of(n, a, h)
            idx = r.attributes.index()
            if self._grp.setdefault(g, idx) != idx or self._grp_rev.setdefault(idx, g) != g:
                raise RuntimeError(f'attribute index abstraction broken for {(n, a, h)}')
            if fresh:
                return r
            self._routes[key] = r
        return self._routes[key]

    def ident(self, nlri, attributes, nexthop) -> tuple[int, int, int, int]:
        """(n, fam, a, h) of a real route."""
        n = self.nlri_by_text[str(nlri).split(' ')[0]]
        med = attributes.get(Attribute.CODE.MED, None)
        a = int(med.med) if med is not None else 0
        nh = str(nexthop)
        table = NH4 if NLRI_FAM[n] == 1 else NH6
        h = {v: k for k, v in table.items()}.get(nh, 0)
        return (n, NLRI_FAM[n], a, h)

    def cache(self) -> list[tuple]:
        return sorted(self.ident(r.nlri, r.attributes, r.nexthop) for r in self.rib.cached_routes())

    # -- wire ---------------------------------------------------------------------------------

    def decode(self, raw: bytes) -> list[tuple]:
        """Events carried by one message we wrote (decoded as the peer would)."""
        kind = raw[18]
        body = raw[19:]
        if kind == 5:
            afi, reserved, safi = int.from_bytes(body[0:2], 'big'), body[2], body[3]
            fam = FAM_ID[(AFI.from_int(afi), SAFI.from_int(safi))]
            return [('RS' if reserved == 1 else 'RE' if reserved == 2 else 'RR', fam)]
        assert kind == 2, kind
        AttributeCollection.cached = None
        AttributeCollection.previous = b''
        msg = Message.unpack(2, body, self.neg_in)
        if getattr(msg, 'IS_EOR', False) or type(msg).__name__ == 'EOR':
            # End-of-RIB (an UPDATE without NLRI; F34 was such a message sent by mistake)
            return [('EOR', FAM_ID[(msg.nlris[0].afi, msg.nlris[0].safi)])]
        data = msg.data
        evs: list[tuple] = []
        for nlri in data.withdraws:
            n = self.nlri_by_text[str(nlri).split(' ')[0]]
            evs.append(('W', n, NLRI_FAM[n]))
        for routed in data.announces:
            evs.append(('A',) + self.ident(routed.nlri, data.attributes, routed.nexthop))
        return evs

    def tick(self) -> str:
        """One event reaches the wire, or exhaustion is noticed, or nothing happens.

        Wraps the real Peer._send_route_updates (one message per call); a message carrying
        several NLRIs is handed out one event per tick so that the step count does not depend
        on grouping."""
        if self.buffer:
            ev = self.buffer.pop(0)
            self.sent.append(ev)
            return show_ev(ev)
        existed = self.new_routes is not None or self.rib.pending()
        conn = self.proto.connection
        before = len(conn.sent)
        self.new_routes, self.include_withdraw = self.loop.run_until_complete(self.peer._send_route_updates(self.new_routes, self.include_withdraw, 1))
        for raw in conn.sent[before:]:
            self.buffer.extend(self.decode(raw))
        if self.buffer:
            ev = self.buffer.pop(0)
            self.sent.append(ev)
            return show_ev(ev)
        if self.new_routes is None:
            return 'exhausted' if existed else 'none'
        return 'stalled'

    # -- the abstract operations --------------------------------------------------------------

    def op(self, op: list) -> str:
        k = op[0]
        rib = self.rib
        if k == 'add':
            _, n, a, h, force, fresh = op
            rib.add_to_rib(self.route(n, a, h, fresh=fresh), bool(force))
            return 'ok'
        if k == 'del':
            _, n, a, h = op
            rib.del_from_rib(self.route(n, a, h))
            return 'ok'
        if k == 'delnlri':
            _, n = op
            rib.del_nlri_from_rib(self.route(n, 1, 1).nlri)
            return 'ok'
        if k == 'resend':
            _, enhanced, fam = op
            rib.resend(bool(enhanced), FAM[fam] if fam else None)
            return 'ok'
        if k == 'wall':
            _, fams = op
            rib.withdraw({FAM[f] for f in fams} if fams else None)
            return 'ok'
        if k == 'wdadd':
            _, n, a, h, name, w = op
            r = self.route(n, a, h, fresh=True, watchdog=f' watchdog w{name}' + (' withdraw' if w else ''))
            rib.add_to_rib_watchdog(r)
            return 'ok'
        if k == 'wdann':
            rib.announce_watchdog(f'w{op[1]}')
            return 'ok'
        if k == 'wdwd':
            rib.withdraw_watchdog(f'w{op[1]}')
            return 'ok'
        if k == 'tick':
            return self.tick()
        if k == 'eor':
            # one call of the real Peer._send_eor_messages, as _main does after _send_route_updates
            conn = self.proto.connection
            before = len(conn.sent)
            self.send_eor = self.loop.run_until_complete(self.peer._send_eor_messages(self.send_eor, self.new_routes))
            evs = []
            for raw in conn.sent[before:]:
                evs.extend(self.decode(raw))
            self.sent.extend(evs)
            return ';'.join(sorted(show_ev(e) for e in evs)) or '-'
        if k == 'lost':
            self.peer._restart = True
            self.peer._reset('lost', 'rig')
            self.peer, self.proto = sessions.make_peer(self.neighbor, self.neg_out)
            self.new_routes = None
            self.buffer = []
            self.include_withdraw = False
            return 'ok'
        if k == 'est':
            _, prev, new = op
            rib.replace_restart([self.route(*r) for r in prev], [self.route(*r) for r in new])
            self.include_withdraw = False  # `_main` prologue
            self.send_eor = True  # `_main` prologue (manual-eor off)
            return 'ok'
        if k == 'reload':
            _, prev, new = op
            rib.replace_reload([self.route(*r) for r in prev], [self.route(*r) for r in new])
            return 'ok'
        if k == 'cache':
            return ','.join(f'{n}:{f}:{a}:{h}' for n, f, a, h in self.cache()) or '-'
        if k == 'pending':
            return '1' if rib.pending() else '0'
        raise ValueError(op)


def show_ev(ev: tuple) -> str:
    if ev[0] == 'A':
        return 'A %d:%d:%d:%d' % ev[1:]
    if ev[0] == 'W':
        return 'W %d:%d' % ev[1:]
    return '%s %d' % ev


def model_line(op: list) -> str:
    """The driver line for an abstract op."""
    k = op[0]
    rt = lambda n, a, h: f'{n}:{NLRI_FAM[n]}:{a}:{h}:{grp_of(n, a, h)}'
    if k == 'add':
        return f'rib add {rt(op[1], op[2], op[3])} {int(op[4])}'
    if k == 'del':
        return f'rib del {op[1]} {NLRI_FAM[op[1]]}'
    if k == 'delnlri':
        return f'rib del {op[1]} {NLRI_FAM[op[1]]}'
    if k == 'resend':
        return f'rib resend {int(op[1])} {op[2] if op[2] else "-"}'
    if k == 'wall':
        return 'rib wall ' + (','.join(map(str, op[1])) if op[1] else '-')
    if k == 'wdadd':
        return f'rib wdadd {rt(op[1], op[2], op[3])} {op[4]} {int(op[5])}'
    if k in ('wdann', 'wdwd'):
        return f'rib {k} {op[1]}'
    if k == 'tick':
        return 'rib tick'
    if k in ('lost', 'cache', 'pending', 'eor'):
        return f'rib {k}'
    if k in ('est', 'reload'):
        f = lambda rs: ','.join(rt(*r) for r in rs) or '-'
        return f'rib {k} {f(op[1])} {f(op[2])}'
    raise ValueError(op)
