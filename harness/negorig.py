"""The rig of C07: drives the REAL OPEN code of /repo in-process.

    NeighborSettings -> Neighbor.from_settings -> Capabilities().new(neighbor, False) -> Open.make_open
    -> pack_message  (the OPEN we send)           Message.unpack(1, body, negotiated)  (the peer's OPEN)
    -> Negotiated.sent / received (twice each, as Peer._run does) -> Negotiated.validate

and renders configurations, capability dicts and Negotiated objects in the canonical text the Lean
driver `drv_nego` prints (see lean/ExaModel/Driver/Nego.lean)."""

from __future__ import annotations

from typing import Any

from exabgp.bgp.message import Message
from exabgp.bgp.message.direction import Direction
from exabgp.bgp.message.notification import Notify
from exabgp.bgp.message.open import Open, Version
from exabgp.bgp.message.open.asn import ASN
from exabgp.bgp.message.open.capability import Capabilities
from exabgp.bgp.message.open.capability.addpath import AddPath
from exabgp.bgp.message.open.capability.asn4 import ASN4
from exabgp.bgp.message.open.capability.capability import Capability
from exabgp.bgp.message.open.capability.graceful import Graceful
from exabgp.bgp.message.open.capability.hostname import HostName
from exabgp.bgp.message.open.capability.mp import MultiProtocol
from exabgp.bgp.message.open.capability.negotiated import Negotiated
from exabgp.bgp.message.open.capability.nexthop import NextHop
from exabgp.bgp.message.open.capability.pathslimit import PathsLimit
from exabgp.bgp.message.open.capability.refresh import REFRESH
from exabgp.bgp.message.open.capability.software import Software
from exabgp.bgp.message.open.capability.unknown import UnknownCapability
from exabgp.bgp.neighbor.capability import GracefulRestartConfig, NeighborCapability
from exabgp.bgp.neighbor.neighbor import Neighbor
from exabgp.bgp.neighbor.settings import NeighborSettings, SessionSettings
from exabgp.bgp.message.open.routerid import RouterID
from exabgp.protocol.family import AFI, SAFI
from exabgp.protocol.ip import IP
from exabgp.rib import RIB
from exabgp.util.enumeration import TriState

CODE = Capability.CODE
KNOWN = {int(k) for k in Capability.registered_capability}
HEADER = b'\xff' * 16


def ip4(n: int) -> str:
    return '%d.%d.%d.%d' % (n >> 24, (n >> 16) & 255, (n >> 8) & 255, n & 255)


def default_cfg() -> dict:
    """A configuration as plain data (JSON-serialisable). Same keys as the Lean `Cfg`."""
    return {
        'las': 65000, 'pas': 65001, 'rid': 0x01010101, 'hold': 180, 'fam': [[1, 1]], 'asn4': 1,
        'nhon': 0, 'nhs': [], 'ap': 0, 'aps': [], 'pl': [], 'gr': None, 'rr': 0, 'op': 0, 'em': 1,
        'host': '', 'dom': '', 'sw': 0, 'll': 0, 'ms': 0,
    }  # fmt: skip


def tri(b: int) -> TriState:
    return TriState.TRUE if b else TriState.FALSE


def build_neighbor(c: dict) -> Neighbor:
    RIB._cache.clear()
    s = SessionSettings()
    s.peer_address = IP.from_string('127.0.0.2')
    s.local_address = IP.from_string('127.0.0.1')
    s.local_as = ASN(c['las'])
    s.peer_as = ASN(c['pas'])
    s.router_id = RouterID(ip4(c['rid']))
    n = NeighborSettings()
    n.session = s
    n.hold_time = c['hold']
    n.host_name = c['host']
    n.domain_name = c['dom']
    n.families = [(AFI.from_int(a), SAFI.from_int(f)) for a, f in c['fam']]
    n.nexthops = [(AFI.from_int(a), SAFI.from_int(f), AFI.from_int(h)) for a, f, h in c['nhs']]
    n.addpaths = [(AFI.from_int(a), SAFI.from_int(f)) for a, f in c['aps']]
    cap = NeighborCapability()
    cap.asn4 = tri(c['asn4'])
    cap.extended_message = tri(c['em'])
    cap.graceful_restart = GracefulRestartConfig.disabled() if c['gr'] is None else GracefulRestartConfig.with_time(c['gr'])
    cap.multi_session = tri(c['ms'])
    cap.operational = tri(c['op'])
    cap.add_path = c['ap']
    cap.paths_limit_per_family = {(AFI.from_int(a), SAFI.from_int(f)): lim for a, f, lim in c['pl']}
    cap.route_refresh = REFRESH.NORMAL if c['rr'] else 0
    cap.nexthop = tri(c['nhon'])
    cap.link_local_nexthop = tri(c['ll'])
    cap.software_version = 'x' if c['sw'] else None
    n.capability = cap
    neighbor = Neighbor.from_settings(n)
    neighbor.session.router_id = RouterID(ip4(c['rid']))
    return neighbor


def onoff(b: int) -> str:
    return 'enable' if b else 'disable'


def cfg_text(c: dict) -> str | None:
    """The same configuration as a neighbor section of the configuration file grammar, or None when
    the grammar cannot say it (paths-limit, any-peer-AS)."""
    if not c['pas'] or not c['fam']:
        return None
    lim = {(a, f): n for a, f, n in c['pl']}
    if any(k not in {tuple(x) for x in c['aps']} or not 1 <= n <= 65535 for k, n in lim.items()):
        return None
    fam = '\n'.join(f'        {AFI.from_int(a).name()} {SAFI.from_int(f).name()};' for a, f in c['fam'])
    aps = '\n'.join(f'        {AFI.from_int(a).name()} {SAFI.from_int(f).name()}' + (f' limit {lim[(a, f)]}' if (a, f) in lim else '') + ';' for a, f in c['aps'])
    nhs = '\n'.join(f'        {AFI.from_int(a).name()} {SAFI.from_int(f).name()} {AFI.from_int(h).name()};' for a, f, h in c['nhs'])
    names = (f'    host-name {c["host"]};\n' if c['host'] else '') + (f'    domain-name {c["dom"]};\n' if c['dom'] else '')
    return f"""neighbor 127.0.0.2 {{
    router-id {ip4(c['rid'])};
    local-address 127.0.0.1;
    local-as {c['las']};
    peer-as {c['pas']};
    hold-time {c['hold']};
{names}    capability {{
        asn4 {onoff(c['asn4'])};
        route-refresh {onoff(c['rr'])};
        graceful-restart {'disable' if c['gr'] is None else c['gr']};
        add-path {['disable', 'receive', 'send', 'send/receive'][c['ap']]};
        extended-message {onoff(c['em'])};
        operational {onoff(c['op'])};
        nexthop {onoff(c['nhon'])};
        multi-session {onoff(c['ms'])};
        software-version {onoff(c['sw'])};
        link-local-nexthop {onoff(c['ll'])};
    }}
    family {{
{fam}
    }}
    add-path {{
{aps}
    }}
    nexthop {{
{nhs}
    }}
}}
"""


def build_neighbor_from_text(c: dict) -> Neighbor | None:
    """Through the real configuration parser (Configuration(text).reload()). None when refused."""
    from exabgp.configuration.configuration import Configuration

    text = cfg_text(c)
    if text is None:
        return None
    RIB._cache.clear()
    conf = Configuration([text], text=True)
    try:
        if not conf.reload() or len(conf.neighbors) != 1:
            return None
    except Exception:
        return None
    return list(conf.neighbors.values())[0]


def software_string() -> bytes:
    return Software().software_version.encode('utf-8')


def hx(b: bytes) -> str:
    return bytes(b).hex()


def cfg_words(c: dict, neighbor: Neighbor | None = None) -> str:
    """The configuration as the `k=v` words of the driver. Families / next hops / add-path families
    are what the Neighbor object reports (the parser's normalisation is glue, covered by the run)."""
    if neighbor is not None:
        fam = [(int(a), int(f)) for a, f in neighbor.families()]
        nhs = [(int(a), int(f), int(h)) for a, f, h in neighbor.nexthops()]
        aps = [(int(a), int(f)) for a, f in neighbor.addpaths()]
        gr = c['gr']  # as configured: `Neighbor.infer` (0 -> hold time) is modelled
        pl = [(int(k[0]), int(k[1]), int(v)) for k, v in neighbor.capability.paths_limit_per_family.items()]
    else:
        fam, nhs, aps, gr = [tuple(x) for x in c['fam']], [tuple(x) for x in c['nhs']], [tuple(x) for x in c['aps']], c['gr']
        pl = [tuple(x) for x in c['pl']]
    return ' '.join(
        [
            f'las={c["las"]}', f'pas={c["pas"]}', f'rid={c["rid"]}', f'hold={c["hold"]}',
            'fam=' + ';'.join(f'{a}.{f}' for a, f in fam), f'asn4={c["asn4"]}',
            f'nhon={c["nhon"]}', 'nhs=' + ';'.join(f'{a}.{f}.{h}' for a, f, h in nhs),
            f'ap={c["ap"]}', 'aps=' + ';'.join(f'{a}.{f}' for a, f in aps),
            'pl=' + ';'.join(f'{a}.{f}.{lim}' for a, f, lim in pl),
            'gr=' + ('-' if gr is None else str(gr)),
            f'rr={c["rr"]}', f'op={c["op"]}', f'em={c["em"]}',
            'host=' + hx(c['host'].encode('utf-8')), 'dom=' + hx(c['dom'].encode('utf-8')),
            f'sw={c["sw"]}', 'swv=' + hx(software_string()), f'll={c["ll"]}', f'ms={c["ms"]}',
        ]
    )  # fmt: skip


# ---------------------------------------------------------------------------------------------
# canonical rendering of the real objects


def opt_items(x: list[str] | None) -> str:
    if x is None:
        return '-'
    if not x:
        return 'e'
    return ';'.join(x)


def items(x: list[str]) -> str:
    return ';'.join(x) if x else 'e'


def render_capset(caps: Capabilities) -> str:
    def fam(k: Any) -> str:
        return f'{int(k[0])}.{int(k[1])}'

    mp = caps.get(CODE.MULTIPROTOCOL)
    asn4 = caps.get(CODE.FOUR_BYTES_ASN)
    ap = caps.get(CODE.ADD_PATH)
    nh = caps.get(CODE.NEXTHOP)
    gr = caps.get(CODE.GRACEFUL_RESTART)
    hn = caps.get(CODE.HOSTNAME)
    sw = caps.get(CODE.SOFTWARE_VERSION)
    pl = caps.get(CODE.PATHS_LIMIT)
    assert mp is None or isinstance(mp, MultiProtocol)
    assert asn4 is None or isinstance(asn4, ASN4)
    assert ap is None or isinstance(ap, AddPath)
    assert nh is None or isinstance(nh, NextHop)
    assert gr is None or isinstance(gr, Graceful)
    assert hn is None or isinstance(hn, HostName)
    assert sw is None or isinstance(sw, Software)
    assert pl is None or isinstance(pl, PathsLimit)
    unk = []
    for k, v in caps.items():
        if int(k) not in KNOWN:
            assert isinstance(v, UnknownCapability) and int(v.capability) == int(k)
            unk.append(f'{int(k)}:{hx(v.data)}')
    b = lambda code: '1' if code in caps else '0'  # noqa: E731
    return ' '.join(
        [
            'mp=' + opt_items(None if mp is None else [fam(f) for f in mp]),
            'asn4=' + ('-' if asn4 is None else str(int(asn4))),
            'ap=' + opt_items(None if ap is None else [f'{fam(k)}:{int(v)}' for k, v in ap.items()]),
            'nh=' + opt_items(None if nh is None else [f'{int(a)}.{int(s)}.{int(h)}' for a, s, h in nh]),
            'rr=' + b(CODE.ROUTE_REFRESH), 'rrc=' + b(CODE.ROUTE_REFRESH_CISCO), 'enh=' + b(CODE.ENHANCED_ROUTE_REFRESH),
            'em=' + b(CODE.EXTENDED_MESSAGE), 'op=' + b(CODE.OPERATIONAL), 'll=' + b(CODE.LINK_LOCAL_NEXTHOP),
            'gr=' + ('-' if gr is None else f'{gr.restart_flag}:{gr.restart_time}:' + opt_items([f'{fam(k)}:{int(v)}' for k, v in gr.items()])),
            'hn=' + ('-' if hn is None else f'{hx(hn.host_name.encode("utf-8"))}:{hx(hn.domain_name.encode("utf-8"))}'),
            'sw=' + ('-' if sw is None else 'x' + hx(sw.software_version.encode('utf-8'))),
            'ms=' + b(CODE.MULTISESSION), 'msc=' + b(CODE.MULTISESSION_CISCO),
            'pl=' + opt_items(None if pl is None else [f'{fam(k)}:{int(v)}' for k, v in pl.items()]),
            'unk=' + opt_items(unk),
        ]
    )  # fmt: skip


REFRESH_NAME = {REFRESH.ABSENT: 'absent', REFRESH.NORMAL: 'normal', REFRESH.ENHANCED: 'enhanced'}


def render_negotiated(neg: Negotiated) -> str:
    def fam(k: Any) -> str:
        return f'{int(k[0])}.{int(k[1])}'

    ms = neg.multisession
    if isinstance(ms, tuple):
        mss = f'err:{ms[0]}:{ms[1]}'
    else:
        mss = 'yes' if ms else 'no'
    return ' '.join(
        [
            f'hold={int(neg.holdtime)}', f'asn4={int(bool(neg.asn4))}', f'las={int(neg.local_as)}', f'pas={int(neg.peer_as)}',
            'fam=' + items([fam(f) for f in neg.families]),
            'nh=' + items([f'{int(a)}.{int(s)}.{int(h)}' for a, s, h in neg.nexthop]),
            'aps=' + items([f'{fam(k)}:{int(bool(v))}' for k, v in neg.addpath._send.items()]),
            'apr=' + items([f'{fam(k)}:{int(bool(v))}' for k, v in neg.addpath._receive.items()]),
            'rf=' + REFRESH_NAME.get(neg.refresh, f'?{neg.refresh}'), f'sz={int(neg.msg_size)}',
            f'op={int(bool(neg.operational))}', f'll={int(bool(neg.linklocal_nexthop))}',
            'pl=' + items([f'{fam(k)}:{int(v)}' for k, v in neg.paths_limit.items()]),
            'apl=' + items([f'{fam(k)}:{int(v)}' for k, v in neg.advertised_paths_limit.items()]),
            'ms=' + mss,
        ]
    )  # fmt: skip


# ---------------------------------------------------------------------------------------------
# the real code


def our_open(neighbor: Neighbor) -> tuple[Open, bytes]:
    """The OPEN `Protocol.new_open` builds, and its body as written on the wire."""
    o = Open.make_open(Version(4), neighbor.session.local_as, neighbor.hold_time, neighbor.session.router_id, Capabilities().new(neighbor, False))
    raw = o.pack_message(Negotiated.make_negotiated(neighbor, Direction.OUT))
    assert raw[:16] == HEADER and int.from_bytes(raw[16:18], 'big') == len(raw) and raw[18] == 1, 'BGP header of our OPEN'
    return o, raw[19:]


def decode_impl(body: bytes, neighbor: Neighbor | None = None) -> tuple[str, Any]:
    """Message.unpack(OPEN) on the real code → ('ok', Open) | ('err c s', None) | ('crash:<Type>', None)."""
    neg = Negotiated.UNSET if neighbor is None else Negotiated.make_negotiated(neighbor, Direction.IN)
    try:
        o = Message.unpack(1, memoryview(bytearray(body)), neg)  # writable, as the receive buffer of the real reader is
    except Notify as e:
        return f'err {e.code} {e.subcode}', None
    except Exception as e:  # anything else escaping the decoder
        return f'crash:{type(e).__name__}', None
    return 'ok', o


def render_open(o: Open) -> str:
    rid = int.from_bytes(o.router_id.pack_ip(), 'big')
    return f'ok {int(o.version)} {int(o.asn)} {int(o.hold_time)} {rid} {render_capset(o.capabilities)}'


def run_impl(c: dict, theirs_body: bytes) -> dict:
    """One pair (configuration, peer OPEN body) through the real code."""
    neighbor = build_neighbor_from_text(c) if c.get('_text') else None
    via = 'text' if neighbor is not None else 'settings'
    if neighbor is None and c.get('_text_only'):
        return {'out': 'config-refused:by the configuration parser', 'ours': b'', 'words': cfg_words(c), 'ours_set': '', 'neg': None, 'via': 'text', 'eff': c}
    if neighbor is None:
        try:
            neighbor = build_neighbor(c)
        except ValueError as e:  # NeighborSettings.validate / the dataclasses refuse the configuration
            return {'out': f'config-refused:{e}', 'ours': b'', 'words': cfg_words(c), 'ours_set': '', 'neg': None, 'via': 'settings', 'eff': c}
    try:
        sent, ours_body = our_open(neighbor)
    except Exception as e:  # an accepted configuration for which no OPEN can be built
        return {'out': f'open-crash:{type(e).__name__}:{e}', 'ours': b'', 'words': cfg_words(c, neighbor), 'ours_set': '', 'neg': None, 'via': via, 'eff': c}
    # the configuration as the Neighbor object holds it (the parser's normalisation is accepted as
    # "what the configuration enables": e.g. add-path / next-hop families outside `family` are dropped)
    eff = dict(c)
    if via == 'text':
        eff['fam'] = [[int(a), int(f)] for a, f in neighbor.families()]
        eff['aps'] = [[int(a), int(f)] for a, f in neighbor.addpaths()]
        eff['nhs'] = [[int(a), int(f), int(h)] for a, f, h in neighbor.nexthops()]
        eff['pl'] = [[int(k[0]), int(k[1]), int(v)] for k, v in neighbor.capability.paths_limit_per_family.items()]
    res: dict[str, Any] = {'eff': eff, 'ours': ours_body, 'words': cfg_words(c, neighbor), 'ours_set': render_capset(sent.capabilities), 'neg': None, 'via': via}
    status, theirs = decode_impl(theirs_body, neighbor)
    if theirs is None:
        res['out'] = status
        return res
    res['theirs_set'] = render_open(theirs)
    neg = Negotiated.make_negotiated(neighbor, Direction.OUT)
    try:
        # Peer._run: sent() twice, then received() twice, then validate_open()
        neg.sent(sent)
        neg.sent(sent)
        neg.received(theirs)
        neg.received(theirs)
    except Exception as e:
        res['out'] = f'negotiate-crash:{type(e).__name__}'
        return res
    try:
        v = neg.validate(neighbor)
    except Exception as e:
        res['out'] = f'validate-crash:{type(e).__name__}'
        return res
    res['neg'] = neg
    res['out'] = 'neg ' + render_negotiated(neg) + ' val=' + ('ok' if v is None else f'{v[0]}:{v[1]}')
    return res
