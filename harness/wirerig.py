"""The rig of C02 (shared with C01/C08/C03): drives the REAL receive path of /repo in-process.

    two real OPENs -> Negotiated (Direction.IN)                                  (`Session`)
    Message.unpack(2, body, negotiated)  -> Update | EOR
    Response.JSON(version).update(neighbor, 'receive', msg.data | eor, b'', b'', negotiated) -> json.loads
    UpdateHandler().handle_async(ctx, msg) -> neighbor.rib.incoming.cached_routes()          (Adj-RIB-In)

and maps what comes out to the canonical Report of M-Wire (`drv_wire decode`, see
lean/ExaModel/Driver/Wire.lean).  The mapping functions translate ExaBGP's *representation* (JSON
key names, dotted addresses, "asn:ip" strings, printed route distinguishers) into the report syntax;
they contain no wire decoding.  The JSON path reads everything from the event itself (family and
next-hop keys, NLRI fields): the parsed objects are consulted only to tell a type-0 from a type-2 RD,
which print alike, and are looked up by the printed text, never by position.  `Session.decode`
never raises on what the code produced: an event the mapping cannot read comes back as
`report None` + `unreadable`, which the property modules turn into an oracle failure.

Canonical report (Python side) = dict
    eor   : 'afi.safi' | None
    ann   : sorted list of 'afi.safi/<next-hop hex>/<pathid|->:<labels|->:<rd hex|->:<plen>:<prefix hex|->'
    wd    : sorted list of 'afi.safi/<pathid|->:-:<rd hex|->:<plen>:<prefix hex|->'
    attrs : {code: value string in the driver's syntax}     (AS path: adjacent AS_SEQUENCE /
            AS_CONFED_SEQUENCE segments coalesced, because splitting a sequence does not change the path)
"""

from __future__ import annotations

import asyncio
import ipaddress
import json
from types import SimpleNamespace
from typing import Any

from exabgp.bgp.message import Message
from exabgp.bgp.message.direction import Direction
from exabgp.bgp.message.notification import Notify
from exabgp.bgp.message.open import Open, Version
from exabgp.bgp.message.open.asn import ASN
from exabgp.bgp.message.open.capability import Capabilities
from exabgp.bgp.message.open.capability.negotiated import Negotiated
from exabgp.bgp.message.open.routerid import RouterID
from exabgp.bgp.message.update.attribute import AttributeCollection
from exabgp.bgp.neighbor.capability import GracefulRestartConfig, NeighborCapability
from exabgp.bgp.neighbor.neighbor import Neighbor
from exabgp.bgp.neighbor.settings import NeighborSettings, SessionSettings
from exabgp.protocol.family import AFI, SAFI
from exabgp.protocol.ip import IP
from exabgp.reactor.api.response import Response
from exabgp.reactor.peer.handlers.update import UpdateHandler
from exabgp.rib import RIB
from exabgp.util.enumeration import TriState
from exabgp.version import json as json_version

ALL_FAMILIES = [(1, 1), (1, 2), (1, 4), (1, 128), (2, 1), (2, 2), (2, 4), (2, 128)]
ADDPATH_OK = [(1, 1), (2, 1), (1, 4), (2, 4), (1, 128), (2, 128)]  # Capabilities._ADD_PATH ∩ ALL_FAMILIES
EXTNH_OK = [(1, 1), (1, 2), (1, 4), (1, 128)]  # Capabilities._NEXTHOP
AFI_NAME = {'ipv4': 1, 'ipv6': 2}
SAFI_NAME = {'unicast': 1, 'multicast': 2, 'nlri-mpls': 4, 'mpls-vpn': 128}
SEG_NAME = {'as-set': 1, 'as-sequence': 2, 'as-confed-sequence': 3, 'as-confed-set': 4}
ORIGIN_NAME = {'igp': 0, 'egp': 1, 'incomplete': 2}


def _tri(b: Any) -> TriState:
    return TriState.TRUE if b else TriState.FALSE


def _neighbor(las: int, pas: int, la: str, pa: str, rid: str, fams, aps, asn4: bool, nhs, adj_rib_in: bool, aigp: bool = False) -> Neighbor:
    s = SessionSettings()
    s.peer_address = IP.from_string(pa)
    s.local_address = IP.from_string(la)
    s.local_as = ASN(las)
    s.peer_as = ASN(pas)
    s.router_id = RouterID(rid)
    n = NeighborSettings()
    n.session = s
    n.families = [(AFI.from_int(a), SAFI.from_int(f)) for a, f in fams]
    n.addpaths = [(AFI.from_int(a), SAFI.from_int(f)) for a, f in aps]
    n.nexthops = [(AFI.from_int(a), SAFI.from_int(f), AFI.ipv6) for a, f in nhs]
    cap = NeighborCapability()
    cap.asn4 = _tri(asn4)
    cap.add_path = 3 if aps else 0
    cap.nexthop = _tri(bool(nhs))
    if aigp:  # `capability { aigp enable; }` (RFC 7311: AIGP_SESSION enabled for this eBGP peer)
        cap.aigp = _tri(True)
    cap.graceful_restart = GracefulRestartConfig.disabled()
    n.capability = cap
    n.adj_rib_in = adj_rib_in
    nb = Neighbor.from_settings(n)
    nb.session.router_id = RouterID(rid)
    return nb


class Session:
    """One negotiated session shape, built from two real OPENs sent through the wire codec."""

    def __init__(self, families=ALL_FAMILIES, addpath=(), asn4=True, extnh=(), local_as=65000, peer_as=65001, label='', aigp=False):
        RIB._cache.clear()
        self.families = list(families)
        self.us = _neighbor(local_as, peer_as, '127.0.0.1', '127.0.0.2', '1.1.1.1', families, addpath, asn4, extnh, True, aigp)
        # the peer is a 2-byte speaker when asn4 is off: it does not announce the capability
        them = _neighbor(peer_as, local_as, '127.0.0.2', '127.0.0.1', '2.2.2.2', families, addpath, asn4, extnh, False, aigp)
        self.neg = Negotiated.make_negotiated(self.us, Direction.IN)
        ours = Open.make_open(Version(4), self.us.session.local_as, self.us.hold_time, self.us.session.router_id, Capabilities().new(self.us, False))
        pneg = Negotiated.make_negotiated(them, Direction.OUT)
        theirs_raw = Open.make_open(Version(4), them.session.local_as, them.hold_time, them.session.router_id, Capabilities().new(them, False)).pack_message(pneg)
        theirs = Message.unpack(1, theirs_raw[19:], self.neg)
        self.neg.sent(ours)
        self.neg.received(theirs)
        self.label = label
        # what was actually negotiated, read back from the Negotiated object
        self.asn4 = bool(self.neg.asn4)
        self.aigp = bool(self.neg.aigp)
        if self.aigp != bool(aigp):
            raise RuntimeError(f'rig: aigp={self.neg.aigp} negotiated, wanted {aigp}')
        self.addpath = sorted((int(a), int(s)) for a, s in self.families_tuple() if self.neg.addpath.receive(AFI.from_int(a), SAFI.from_int(s)))
        self.extnh = sorted({(int(a), int(s)) for a, s, _ in (self.neg.nexthop or [])}) if self.neg.nexthop else []
        self.msg_size = int(self.neg.msg_size)
        self.handler = UpdateHandler()
        self.ctx = SimpleNamespace(neighbor=self.us, negotiated=self.neg, stats={'receive-prefixes': 0, 'receive-withdraws': 0}, peer_id='verif')
        self.encoder = Response.JSON(json_version)

    def families_tuple(self):
        return [(int(a), int(s)) for a, s in self.neg.families]

    def params(self) -> str:
        """PARAMS words of drv_wire."""
        fam = lambda l: '+'.join(f'{a}.{s}' for a, s in l) or '-'  # noqa: E731
        return f'{1 if self.asn4 else 0} {fam(self.addpath)} {fam(self.extnh)} {self.msg_size}{"a" if self.aigp else ""}'

    def shape(self) -> dict:
        return {'asn4': self.asn4, 'addpath': self.addpath, 'extnh': self.extnh, 'max': self.msg_size, 'aigp': self.aigp}

    # -- the real decode path -----------------------------------------------------------------

    def decode(self, body: bytes, fresh: bool = True) -> dict:
        """{'kind': 'ok', 'report': canonical, 'json_valid': bool} | {'kind': 'notify', 'code', 'sub'} | {'kind': 'raised', 'exc'}
        `fresh=False`: what the previous message left in the process-wide attribute cache stays."""
        if fresh:
            AttributeCollection.cached = None
            AttributeCollection.previous = b''
        try:
            msg = Message.unpack(2, memoryview(bytearray(body)), self.neg)  # writable, as the receive buffer of the real reader is
            data = msg if msg.IS_EOR else msg.data
            text = self.encoder.update(self.us, 'receive', data, b'', b'', self.neg)
        except Notify as e:
            return {'kind': 'notify', 'code': int(e.code), 'sub': int(e.subcode), 'text': str(e)[:120]}
        except Exception as e:  # noqa: BLE001 - any other exception out of the decode path is a result
            return {'kind': 'raised', 'exc': type(e).__name__, 'text': str(e)[:160]}
        out: dict = {'kind': 'ok', 'msg': msg, 'text': text}
        try:
            j = json.loads(text)
        except ValueError:
            out['json_valid'] = False
            out['report'] = report_of_objects(msg)
            return out
        out['json_valid'] = True
        try:
            out['report'] = report_of_json(j['neighbor']['message'], msg)
        except Exception as e:  # noqa: BLE001 - an event this mapping cannot read is a RESULT (oracle failure), never a harness error
            out['report'] = None
            out['unreadable'] = f'{type(e).__name__}: {str(e)[:160]}'
        return out

    def store(self, msg: Any) -> None:
        """The real UpdateHandler on the real incoming RIB (Adj-RIB-In)."""
        if msg.IS_EOR:
            return
        loop = asyncio.new_event_loop()
        try:
            loop.run_until_complete(self.handler.handle_async(self.ctx, msg))
        finally:
            loop.close()

    def adj_rib_in(self) -> dict:
        """{route key 'afi.safi/<nlri without labels>': (next-hop hex, labels, attrs dict)} of cached_routes()."""
        table = {}
        for route in self.us.rib.incoming.cached_routes():
            fam, key, labels = nlri_of_object(route.nlri)
            table[f'{fam}/{key}'] = (ip_hex(str(route.nexthop)) if route.nexthop is not IP.NoNextHop else '-', labels, attrs_of_collection(route.attributes))
        return table

    def clear_rib(self) -> None:
        self.us.rib.incoming.clear()


# ---------------------------------------------------------------------------------------------
# representation -> canonical syntax (no decoding)


def ip_hex(text: str) -> str:
    return ipaddress.ip_address(text).packed.hex()


def prefix_fields(text: str) -> tuple[int, str]:
    net, _, mask = text.partition('/')
    plen = int(mask)
    packed = ipaddress.ip_address(net).packed
    return plen, packed[: (plen + 7) // 8].hex() or '-'


class Unreadable(Exception):
    """The JSON event has a shape this mapping cannot turn into a Report."""


def rd_hints(msg: Any) -> dict[str, set[str]]:
    """{RD as ExaBGP prints it: {its 8 bytes in hex}} over every NLRI object of the message. Used only to
    tell a type-0 from a type-2 RD, which print the same way ("N:M"); looked up by the printed text,
    never by position."""
    hints: dict[str, set[str]] = {}
    if msg is None or getattr(msg, 'IS_EOR', False):
        return hints
    try:
        data = msg.data
        objs = [r.nlri for r in data.announces] + list(data.withdraws)
    except Exception:  # noqa: BLE001
        return hints
    for n in objs:
        rd = getattr(n, 'rd', None)
        try:
            if rd is not None and len(rd):
                hints.setdefault(rd._str(), set()).add(bytes(rd.pack_rd()).hex())
        except Exception:  # noqa: BLE001
            continue
    return hints


def rd_hex(text: str, hints: dict[str, set[str]] | None = None) -> str:
    """The 8 bytes of a route distinguisher from its printed form ('65000:1', '1.2.3.4:5', '70000:1', '0x…')."""
    if text.startswith('0x'):
        raw = bytes.fromhex(text[2:])
        if len(raw) != 8:
            raise Unreadable(f'rd {text}')
        return raw.hex()
    admin, sep, num = text.rpartition(':')
    if not sep:
        raise Unreadable(f'rd {text}')
    n = int(num)
    if '.' in admin:
        return (b'\x00\x01' + ipaddress.IPv4Address(admin).packed + n.to_bytes(2, 'big')).hex()
    a = int(admin)
    cands = []
    if a < 65536 and n < (1 << 32):
        cands.append((b'\x00\x00' + a.to_bytes(2, 'big') + n.to_bytes(4, 'big')).hex())
    if a < (1 << 32) and n < 65536:
        cands.append((b'\x00\x02' + a.to_bytes(4, 'big') + n.to_bytes(2, 'big')).hex())
    if not cands:
        raise Unreadable(f'rd {text}')
    if len(cands) > 1 and hints:
        known = [c for c in cands if c in hints.get(text, ())]
        if len(known) == 1:
            return known[0]
    return cands[0]


def coalesce(segs: list[tuple[int, list[int]]]) -> list[tuple[int, list[int]]]:
    out: list[tuple[int, list[int]]] = []
    for t, asns in segs:
        if out and out[-1][0] == t and t in (2, 3):
            out[-1] = (t, out[-1][1] + list(asns))
        else:
            out.append((t, list(asns)))
    return out


def show_segs(segs) -> str:
    segs = coalesce(segs)
    return '|'.join(f'{t}:' + (','.join(str(a) for a in asns) or '-') for t, asns in segs) or '-'


def nlri_key(pid, labels, rd, plen, pfx) -> tuple[str, str]:
    """(key without labels, labels string)"""
    ls = ','.join(str(x) for x in labels) if labels else '-'
    return f'{pid if pid is not None else "-"}:{{}}:{rd or "-"}:{plen}:{pfx}', ls


def nlri_of_json(j: Any, hints: dict[str, set[str]] | None = None) -> tuple[str, str]:
    """One NLRI object of the JSON event -> (key template, labels): every field from the JSON itself."""
    if isinstance(j, str):
        j = {'nlri': j}
    if not isinstance(j, dict) or 'nlri' not in j:
        raise Unreadable(f'nlri entry {str(j)[:80]}')
    plen, pfx = prefix_fields(j['nlri'])
    pid = None
    if 'path-information' in j:
        pid = int(ipaddress.ip_address(j['path-information']))
    labels = [lab[0] for lab in j.get('label', [])]
    rd = rd_hex(j['rd'], hints) if 'rd' in j else ''
    return nlri_key(pid, labels, rd, plen, pfx)


def nlri_of_object(nlri: Any) -> tuple[str, str, str]:
    """NLRI object (Adj-RIB-In) -> ('afi.safi', key with labels erased, labels)."""
    fam = f'{int(nlri.afi)}.{int(nlri.safi)}'
    plen = int(nlri.cidr.mask)
    pfx = bytes(nlri.cidr.pack_ip())[: (plen + 7) // 8].hex() or '-'
    packed_pi = bytes(nlri.path_info.pack_path())  # b'' when ADD-PATH is not in use for the family
    pid = int.from_bytes(packed_pi, 'big') if packed_pi else None
    labels_obj = getattr(nlri, 'labels', None)
    labels = list(labels_obj.labels) if labels_obj is not None and len(labels_obj) else []
    rd_obj = getattr(nlri, 'rd', None)
    rd = bytes(rd_obj.pack_rd()).hex() if rd_obj is not None and len(rd_obj) else ''
    key, ls = nlri_key(pid, labels, rd, plen, pfx)
    return fam, key.format('-'), ls


def attrs_of_json(a: dict) -> dict[int, str]:
    out: dict[int, str] = {}
    for k, v in a.items():
        if k == 'origin':
            out[1] = str(ORIGIN_NAME[v])
        elif k == 'as-path':
            segs = [(SEG_NAME[v[i]['element']], v[i]['value']) for i in sorted(v, key=int)]
            out[2] = show_segs(segs)
        elif k == 'next-hop':
            out[3] = ip_hex(v)
        elif k == 'med':
            out[4] = str(v)
        elif k == 'local-preference':
            out[5] = str(v)
        elif k == 'atomic-aggregate':
            if v:
                out[6] = '-'
        elif k == 'aggregator':
            asn, _, ip = v.strip('() ').partition(':')
            out[7] = f'{int(asn)}~{ip_hex(ip)}'
        elif k == 'as4-aggregator':
            asn, _, ip = v.strip('() ').partition(':')
            out[18] = f'{int(asn)}~{ip_hex(ip)}'
        elif k == 'community':
            out[8] = ','.join(str((c[0] << 16) + c[1]) for c in v) or '-'
        elif k == 'originator-id':
            out[9] = ip_hex(v)
        elif k == 'cluster-list':
            out[10] = ','.join(str(int(ipaddress.ip_address(c))) for c in v) or '-'
        elif k == 'extended-community':
            out[16] = ','.join('%016x' % c['value'] for c in v) or '-'
        elif k == 'large-community':
            out[32] = ','.join(f'{c[0]}.{c[1]}.{c[2]}' for c in v) or '-'
        elif k == 'aigp':
            out[26] = '01000b%016x' % (int(v, 0) if isinstance(v, str) else int(v))  # RFC 7311 3: one AIGP TLV (type 1, length 11, 8-octet metric)
        elif k.startswith('attribute-0x'):
            code = int(k.split('-')[1], 16)
            out[code] = (v[2:] if v.startswith('0x') else v) or '-'
        else:
            out[-1] = f'unmapped key {k}'
    return out


def attrs_of_collection(coll: Any) -> dict[int, str]:
    """AttributeCollection (Adj-RIB-In) -> canonical; goes through the collection's own JSON rendering."""
    text = coll.json(include_nexthop=True)
    return attrs_of_json(json.loads('{' + text + '}'))


def fam_of_name(name: str) -> tuple[int, int] | None:
    a, _, s = name.partition(' ')
    if a in AFI_NAME and s in SAFI_NAME:
        return AFI_NAME[a], SAFI_NAME[s]
    return None


def report_of_json(m: dict, msg: Any) -> dict:
    """The `message` object of a JSON update event -> canonical report."""
    rep: dict = {'eor': None, 'ann': [], 'wd': [], 'attrs': {}, 'other_families': []}
    if 'eor' in m:
        rep['eor'] = f'{AFI_NAME.get(m["eor"]["afi"], m["eor"]["afi"])}.{SAFI_NAME.get(m["eor"]["safi"], m["eor"]["safi"])}'
        return rep
    if 'update' not in m or not isinstance(m['update'], dict):
        raise Unreadable(f'message keys {sorted(m)[:6]}')
    u = m['update']
    rep['attrs'] = attrs_of_json(u.get('attribute', {}))
    hints = rd_hints(msg)
    # family, next hop and every NLRI field are read from the event alone: where the event files a
    # route is exactly what is being checked
    for famname, per_nh in u.get('announce', {}).items():
        fam = fam_of_name(famname)
        if fam is None:
            rep['other_families'].append(famname)
            continue
        for nh, nlris in per_nh.items():
            nhx = ip_hex(nh) if nh not in ('null', '') else '-'
            for j in nlris:
                key, ls = nlri_of_json(j, hints)
                rep['ann'].append(f'{fam[0]}.{fam[1]}/{nhx}/' + key.format(ls))
    for famname, nlris in u.get('withdraw', {}).items():
        fam = fam_of_name(famname)
        if fam is None:
            rep['other_families'].append(famname)
            continue
        for j in nlris:
            key, _ = nlri_of_json(j, hints)
            rep['wd'].append(f'{fam[0]}.{fam[1]}/' + key.format('-'))
    rep['ann'] = sorted(set(rep['ann']))
    rep['wd'] = sorted(set(rep['wd']))
    return rep


def report_of_objects(msg: Any) -> dict:
    """Fallback when the JSON text does not parse (End-of-RIB events): the family from the object."""
    rep: dict = {'eor': None, 'ann': [], 'wd': [], 'attrs': {}, 'other_families': []}
    if msg.IS_EOR:
        n = msg.nlris[0]
        rep['eor'] = f'{int(n.afi)}.{int(n.safi)}'
    return rep


def report_of_line(line: str) -> dict:
    """`ok eor=.. ann=.. wd=.. attrs=..` of drv_wire -> canonical report (or {'err': (c, s)})."""
    ws = line.split(' ')
    if ws[0] == 'err':
        return {'err': (int(ws[1]), int(ws[2]))}
    assert ws[0] == 'ok', line
    f = dict(w.split('=', 1) for w in ws[1:])
    rep: dict = {'eor': None if f['eor'] == '-' else f['eor'], 'ann': [], 'wd': [], 'attrs': {}, 'raw': [] if f.get('raw', '-') == '-' else f['raw'].split('+'), 'agg': f.get('agg', '-/-').split('/')}
    rep['ann'] = sorted(set([] if f['ann'] == '-' else f['ann'].split('+')))
    rep['wd'] = sorted(set([] if f['wd'] == '-' else f['wd'].split('+')))
    for item in [] if f['attrs'] == '-' else f['attrs'].split(';'):
        code, _, val = item.partition('~')
        c = int(code)
        if c == 2:
            segs = [] if val == '-' else [(int(s.split(':')[0]), [] if s.split(':')[1] == '-' else [int(x) for x in s.split(':')[1].split(',')]) for s in val.split('|')]
            val = show_segs(segs)
        rep['attrs'][c] = val
    return rep
