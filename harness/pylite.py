"""PyLite → Lean: a translator for the small arithmetic/decision kernels of /repo.

`translate_method(cls_or_module_fn, spec)` reads the *source* of one Python function (through
`inspect` + `ast`, from /repo's working tree) and emits a total Lean 4 definition which computes the
same thing, statement by statement:

* Python `int` → Lean `Int` (unbounded on both sides), `bool` → `Bool`;
* `self.<field>` is a field of a generated state structure (`<Class>St`), read through a local
  `s_<field>`; an assignment to it shadows the local; the state is re-assembled at every exit;
* locals are `v_<name>` (`let`, shadowing = re-assignment);
* `if / elif / else` becomes `if … then … else …` with the rest of the block duplicated into both
  branches (the kernels are a dozen lines, so the blow-up is irrelevant), which makes early
  `return` / `raise` inside branches exact;
* `return e` → `PyRes.ret ⟦e⟧ st'`; falling off the end / bare `return` → `PyRes.ret <none> st'`;
  `raise Notify(c, s, …)` → `PyRes.raise ⟦c⟧ ⟦s⟧`;
* truthiness of an `int` is `≠ 0`; `not`, `and`, `or`, comparisons (also chained), `+ - * // %`,
  unary minus, conditional expressions;
* `int(time.time())` is the parameter `now` (every read inside one call sees the same second: the
  kernels read the clock once);
* a call `self.<method>(args)` to a method translated before is a bind on its `PyRes`;
* calls whose dotted name starts with an *ignored* prefix (`log.`) are dropped as statements — they
  have no effect on what is modelled; any other call, statement or expression the translator does
  not know raises `Unsupported` (the plugin turns that into a translator error).

Everything not stated here is refused, never guessed: the generated file is meant to be read next
to the Python.  The translator is in the trusted base (DESIGN section 5).
"""

from __future__ import annotations

import ast
import inspect
import textwrap
from dataclasses import dataclass, field
from typing import Any


class Unsupported(Exception):
    pass


@dataclass
class Spec:
    """What the translator may assume about one function."""

    cls: str  # Lean namespace / state structure prefix
    fields: dict[str, str]  # self.<field> → 'int' | 'bool'   (order = structure field order)
    params: dict[str, str] = field(default_factory=dict)  # plain parameters → 'int' | 'bool'
    attr_params: dict[tuple[str, str], str] = field(default_factory=dict)  # (param, attr) → type: `message.TYPE` → Int param message_TYPE
    consts: dict[str, int] = field(default_factory=dict)  # dotted global name → integer value (by introspection)
    ret: str = 'none'  # 'bool' | 'int' | 'none'
    ignore_calls: tuple[str, ...] = ('log.',)
    methods: dict[str, 'Translated'] = field(default_factory=dict)  # self.<m>(...) already translated
    uses_now: bool = True
    pure: bool = False  # no state, cannot raise: emitted as a plain Lean function (usable inside expressions)
    kind: str = 'method'  # 'method' (first parameter self) | 'function' (a plain or nested function)
    opaque: dict[str, tuple[str, str]] = field(default_factory=dict)  # source text of an expression → (parameter, type): an input of the kernel (a call into the OS, a subprocess …)
    skip_prefixes: tuple[str, ...] = ()  # statements whose source starts with one of these have no effect on what is modelled (listed per kernel, trusted)
    pure_calls: dict[str, 'Translated'] = field(default_factory=dict)  # f(args): an already translated function without state which cannot raise
    effect_calls: dict[str, str] = field(default_factory=dict)  # f(e) as a statement ≡ self.<field> = e: the last argument f was called with
    object_params: tuple[str, ...] = ()  # parameters that are objects, only looked at through `opaque` expressions
    refusal_returns: bool = False  # `return (code, subcode, text)` is a refusal: PyRes.raise code subcode (the text is not modelled)
    return_map: dict[str, tuple[str, str]] = field(default_factory=dict)  # `return <source>` ≡ raise (x_<a>, x_<b>): a refusal whose codes are inputs
    const_exprs: dict[str, tuple[str, str]] = field(default_factory=dict)  # source text of an expression → (Lean literal, type): `Protocol(self).accept(connection)` is "a protocol object": true
    refusal_calls: tuple[str, ...] = ()  # `return f(code, subcode, …)` for these dotted names ≡ raise code subcode (a refusal answered with that NOTIFICATION)
    effect_methods: dict[str, tuple[str, str]] = field(default_factory=dict)  # `self.<m>(…)` as a statement ≡ self.<field> = <Lean literal> (a ghost field recording that it happened)
    slice_fields: bool = False  # translate the SLICE of the function that computes the declared fields: a statement which neither assigns a declared field nor a local a kept statement reads is left out (ints and bools are immutable: only an assignment changes them)
    identity_calls: tuple[str, ...] = ()  # T(e) ≡ e: constructors of int subclasses (HoldTime, ASN)
    tuple_result: tuple[int, int, int] | None = None  # `return e0, …, en` with e[err] = None ≡ ret (e[i], e[j]); with e[err] = NotifyError(c, s, …) ≡ raise c s (the other elements are buffers: not modelled)


@dataclass
class Translated:
    name: str
    lean: str  # the definition
    params: list[tuple[str, str]]  # (lean name, lean type) after `st`
    ret: str
    spec: Spec
    source: str


def _dotted(n: ast.AST) -> str | None:
    if isinstance(n, ast.Name):
        return n.id
    if isinstance(n, ast.Attribute):
        b = _dotted(n.value)
        return None if b is None else f'{b}.{n.attr}'
    return None


_MODDEFS: dict[tuple[str, str], Any] = {}


def _module_definition(globs: dict, name: str) -> 'ast.expr | None':
    """The right-hand side of the one module-level `name = (…)` of the module these globals belong to, if it is a
    tuple whose elements are names, attribute paths and literals."""
    import sys

    mod = sys.modules.get(globs.get('__name__', ''))
    key = (globs.get('__name__', ''), name)
    if key not in _MODDEFS:
        found = None
        try:
            tree = ast.parse(inspect.getsource(mod)) if mod is not None else None
        except (OSError, TypeError, SyntaxError):
            tree = None
        if tree is not None:
            defs = [st.value for st in tree.body if isinstance(st, (ast.Assign, ast.AnnAssign)) and st.value is not None
                    and any(isinstance(t, ast.Name) and t.id == name for t in (st.targets if isinstance(st, ast.Assign) else [st.target]))]
            if len(defs) == 1 and isinstance(defs[0], ast.Tuple) and all(_dotted(e) is not None or isinstance(e, ast.Constant) for e in defs[0].elts):
                found = defs[0]
        _MODDEFS[key] = found
    return _MODDEFS[key]


LEAN_T = {'int': 'Int', 'bool': 'Bool', 'err': 'Option (Int × Int)'}  # err: a NotifyError(code, subcode, …) or None
NONE_VAL = {'bool': 'false', 'int': '0', 'none': '()', 'int*int': '(0, 0)', 'refusal': '(none : Option Nat)'}
RET_T = {'bool': 'Bool', 'int': 'Int', 'none': 'Unit', 'int*int': '(Int × Int)', 'refusal': 'Option Nat'}  # refusal: None = accepted, a message = refused (`some k`: the k-th message of the source)


class _Tr:
    def __init__(self, spec: Spec, fname: str, globs: dict | None = None, owner: Any = None, local_defs: dict | None = None):
        self.spec = spec
        self.fname = fname
        self.tmp = 0
        self.globs = globs or {}  # the module the function lives in: named constants, one-line helpers
        self.inlining: list[str] = []
        self.owner = owner  # the class of the method: `self.<helper>(…)` is looked up there
        self.local_defs = local_defs or {}  # functions defined inside the translated one (closures)
        self.aliases: dict[str, ast.expr] = {}  # object-valued locals (`sent_capa = self.sent_open.capabilities`): expanded where they are read
        self.resume: list[tuple[ast.expr, list[ast.stmt]]] = []  # helpers inlined as statements: (targets, the caller's continuation)

    # -- helpers of the translated function: inlined, so that extracting one is not a change ----------------
    def norm(self, e: ast.AST) -> ast.AST:
        """A copy of the expression with the module-level names that are plain numbers or slices replaced by
        their value (`header[:MARKER_END]` with `MARKER_END = 16` is `header[:16]`): what the opaque inputs and the
        constant expressions of a spec are matched on."""
        globs = self.globs
        aliases = self.aliases
        import copy as _copy

        class N(ast.NodeTransformer):
            def visit_Name(self, n: ast.Name) -> ast.AST:
                if isinstance(n.ctx, ast.Load) and n.id in aliases:
                    return _copy.deepcopy(aliases[n.id])
                if isinstance(n.ctx, ast.Load) and n.id in globs:
                    g = globs[n.id]
                    if type(g) is int:
                        return ast.copy_location(ast.Constant(value=g), n)
                    if isinstance(g, slice) and all(x is None or type(x) is int for x in (g.start, g.stop, g.step)):
                        c = lambda x: None if x is None else ast.Constant(value=x)  # noqa: E731
                        return ast.copy_location(ast.Slice(lower=c(g.start), upper=c(g.stop), step=c(g.step)), n)
                    if isinstance(g, tuple):
                        # a module-level tuple of named constants (`_UNCONNECTED_STATES = (FSM.IDLE, FSM.ACTIVE)`): what it
                        # was defined as, when that is a tuple of names, attribute paths and literals
                        d = _module_definition(globs, n.id)
                        if d is not None:
                            return ast.copy_location(_copy.deepcopy(d), n)
                return n

        import copy

        return ast.fix_missing_locations(N().visit(copy.deepcopy(e)))

    def callee_def(self, call: ast.Call) -> tuple[str, ast.FunctionDef, bool] | None:
        """(name, definition, is_method) of a helper this call refers to: a function defined inside the translated
        one, a method of the same class (`self.<m>(…)`), or a function of the same module."""
        f = call.func
        node: Any = None
        name = ''
        is_method = False
        if isinstance(f, ast.Name) and (f.id in self.spec.pure_calls or f.id in self.spec.effect_calls):
            return None
        if isinstance(f, ast.Name):
            name = f.id
            if name in self.local_defs:
                node = self.local_defs[name]
            elif inspect.isfunction(self.globs.get(name)):
                try:
                    node = ast.parse(textwrap.dedent(inspect.getsource(self.globs[name]))).body[0]
                except (OSError, TypeError, SyntaxError):
                    node = None
        elif isinstance(f, ast.Attribute) and isinstance(f.value, ast.Name) and f.value.id == 'self' and self.owner is not None and f.attr not in self.spec.methods and f.attr not in self.spec.effect_methods:
            name = f.attr
            m = inspect.getattr_static(self.owner, name, None)
            m = getattr(m, '__func__', m)
            if inspect.isfunction(m):
                try:
                    node = ast.parse(textwrap.dedent(inspect.getsource(m))).body[0]
                    is_method = True
                except (OSError, TypeError, SyntaxError):
                    node = None
        if not isinstance(node, ast.FunctionDef) or name in self.inlining:
            return None
        a = node.args
        if a.vararg or a.kwarg or a.kwonlyargs or node.decorator_list:
            return None
        return name, node, is_method

    def helper_parts(self, call: ast.Call) -> tuple[str, list[ast.stmt]] | None:
        """(name, body) of the helper a call refers to, the parameters replaced by the argument expressions: the
        arguments of the kernels are names and attribute paths (objects looked at through what is read off them),
        so putting them in place is what the call means, and what the body reads of the outside world is then
        recognised by its text as if it had been written at the call.  An argument that is anything else makes the
        call not a helper this can do (None)."""
        found = self.callee_def(call)
        if found is None or call.keywords:
            return None
        name, node, is_method = found
        params = [a.arg for a in node.args.args]
        if is_method:
            if not params or params[0] != 'self':
                return None
            params = params[1:]
        if len(call.args) != len(params):
            return None
        for a in call.args:
            if not (_dotted(a) is not None or isinstance(a, ast.Constant)):
                return None
        import copy

        sub = dict(zip(params, call.args))
        stored = {n.id for st in node.body for n in ast.walk(st) if isinstance(n, ast.Name) and isinstance(n.ctx, ast.Store)}
        if stored & set(params):
            return None  # a parameter that is assigned in the body is a local: not handled

        class S(ast.NodeTransformer):
            def visit_Name(self, n: ast.Name) -> ast.AST:
                if isinstance(n.ctx, ast.Load) and n.id in sub:
                    return copy.deepcopy(sub[n.id])
                return n

        body = [ast.fix_missing_locations(S().visit(copy.deepcopy(b))) for b in node.body
                if not (isinstance(b, ast.Expr) and isinstance(b.value, ast.Constant) and isinstance(b.value.value, str))]
        return name, body

    def inline_call(self, call: ast.Call, env: dict[str, str]) -> tuple[str, str] | None:
        """A call to a helper as an expression: its body is translated in place as a value — every path must end in
        `return <value>`, it may read the fields of `self` and the inputs, it may not assign a field nor raise."""
        parts = self.helper_parts(call)
        if parts is None:
            return None
        name, body = parts
        self.inlining.append(name)
        saved = self.spec
        try:
            if len(body) == 1 and isinstance(body[0], ast.Return) and body[0].value is not None:
                return self.expr(body[0].value, env)
            import dataclasses

            last: Exception | None = None
            for rt in ('bool', 'int'):
                self.spec = dataclasses.replace(saved, pure=True, ret=rt, params={}, attr_params=dict(saved.attr_params), slice_fields=False, tuple_result=None, refusal_returns=False, return_map={}, refusal_calls=())
                try:
                    term = self.block(body, [], dict(env), 0)
                    return '(' + ' '.join(x.strip() for x in term.splitlines()) + ')', rt
                except Unsupported as e:
                    last = e
            raise Unsupported(f'helper {name}: {last}')
        finally:
            self.spec = saved
            self.inlining.pop()

    # -- expressions: returns (lean, type) ---------------------------------------------------------
    def expr(self, e: ast.AST, env: dict[str, str]) -> tuple[str, str]:
        sp = self.spec
        if sp.opaque or sp.const_exprs:
            src = ast.unparse(self.norm(e)) if isinstance(e, ast.expr) else ast.unparse(e)
            if src in sp.opaque:
                name, t = sp.opaque[src]
                return f'x_{name}', t
            if src in sp.const_exprs:
                return sp.const_exprs[src]
        if isinstance(e, ast.Call) and isinstance(e.func, ast.Name) and e.func.id in sp.pure_calls and e.func.id not in env:
            callee = sp.pure_calls[e.func.id]
            if e.keywords or len(e.args) != len(callee.spec.params):
                raise Unsupported(f'call {ast.unparse(e)}')
            args = []
            for a, (pn, pt) in zip(e.args, callee.spec.params.items()):
                v, t = self.expr(a, env)
                if t != pt:
                    raise Unsupported(f'argument {pn} of {ast.unparse(e)}: {t} for {pt}')
                args.append(v)
            # the callee's attribute parameters and opaque inputs are the caller's, by name
            for (o, attr), t in callee.spec.attr_params.items():
                if sp.attr_params.get((o, attr)) != t:
                    raise Unsupported(f'{o}.{attr} is not declared for the caller of {e.func.id}')
                args.append(f'p_{o}_{attr}')
            for _src, (name, t) in callee.spec.opaque.items():
                if (name, t) not in sp.opaque.values():
                    raise Unsupported(f'opaque input {name} is not declared for the caller of {e.func.id}')
                args.append(f'x_{name}')
            return '(' + ' '.join([callee.name] + args) + ')', callee.ret
        if isinstance(e, ast.Call) and _dotted(e.func) == 'NotifyError' and len(e.args) >= 2:
            (a, ta), (b, tb) = self.expr(e.args[0], env), self.expr(e.args[1], env)
            if ta != 'int' or tb != 'int':
                raise Unsupported('NotifyError code/subcode not int')
            return f'(some ({a}, {b}) : Option (Int × Int))', 'err'
        if isinstance(e, ast.Constant) and e.value is None:
            return '(none : Option (Int × Int))', 'err'
        if isinstance(e, ast.Compare) and len(e.ops) == 1 and isinstance(e.ops[0], (ast.Is, ast.IsNot)) and isinstance(e.comparators[0], ast.Constant) and e.comparators[0].value is None:
            v, t = self.expr(e.left, env)
            if t != 'err':
                raise Unsupported(f'comparison with None of a {t}: {ast.unparse(e)}')
            return (f'({v}).isNone' if isinstance(e.ops[0], ast.Is) else f'({v}).isSome'), 'bool'
        if isinstance(e, ast.Constant):
            if isinstance(e.value, bool):
                return ('true' if e.value else 'false'), 'bool'
            if isinstance(e.value, int):
                return (f'({e.value} : Int)'), 'int'
            raise Unsupported(f'constant {e.value!r}')
        d = _dotted(e)
        if d is not None:
            if d in sp.consts:
                return f'({sp.consts[d]} : Int)', 'int'
            if isinstance(e, ast.Name):
                if e.id in env:
                    return f'v_{e.id}', env[e.id]
                if e.id in sp.params:
                    return f'p_{e.id}', sp.params[e.id]
                g = self.globs.get(e.id)
                if isinstance(g, bool):
                    return ('true' if g else 'false'), 'bool'
                if isinstance(g, int):
                    return f'({int(g)} : Int)', 'int'  # a module-level named constant
                raise Unsupported(f'name {e.id}')
            if isinstance(e, ast.Attribute) and isinstance(e.value, ast.Name):
                if e.value.id == 'self':
                    if e.attr in sp.fields:
                        return f's_{e.attr}', sp.fields[e.attr]
                    raise Unsupported(f'self.{e.attr} is not a declared field')
                key = (e.value.id, e.attr)
                if key in sp.attr_params:
                    return f'p_{e.value.id}_{e.attr}', sp.attr_params[key]
            raise Unsupported(f'name {d}')
        if isinstance(e, ast.Call) and isinstance(e.func, ast.Name) and e.func.id in ('min', 'max') and len(e.args) == 2 and not e.keywords and e.func.id not in env:
            (a, ta), (b, tb) = self.expr(e.args[0], env), self.expr(e.args[1], env)
            if ta != 'int' or tb != 'int':
                raise Unsupported(f'{e.func.id} of non-int: {ast.unparse(e)}')
            return f'({e.func.id} {a} {b})', 'int'
        if isinstance(e, ast.Call) and _dotted(e.func) in sp.identity_calls and len(e.args) == 1 and not e.keywords:
            return self.expr(e.args[0], env)
        if isinstance(e, ast.Call):
            got = self.inline_call(e, env)
            if got is not None:
                return got
        if isinstance(e, ast.Call):
            # int(time.time())
            if isinstance(e.func, ast.Name) and e.func.id == 'int' and len(e.args) == 1 and not e.keywords:
                a = e.args[0]
                if isinstance(a, ast.Call) and _dotted(a.func) == 'time.time' and not a.args:
                    if not sp.uses_now:
                        raise Unsupported('clock read in a function declared clock-free')
                    return 'now', 'int'
                v, t = self.expr(a, env)
                if t == 'int':
                    return v, 'int'
                if t == 'bool':
                    return f'(if {v} then (1 : Int) else 0)', 'int'
            raise Unsupported(f'call {ast.unparse(e)}')
        if isinstance(e, ast.UnaryOp):
            v, t = self.expr(e.operand, env)
            if isinstance(e.op, ast.Not):
                return f'(!{self.truth(v, t)})', 'bool'
            if isinstance(e.op, ast.USub) and t == 'int':
                return f'(-{v})', 'int'
            raise Unsupported(f'unary {ast.unparse(e)}')
        if isinstance(e, ast.BinOp):
            a, ta = self.expr(e.left, env)
            b, tb = self.expr(e.right, env)
            if ta != 'int' or tb != 'int':
                raise Unsupported(f'arithmetic on non-int: {ast.unparse(e)}')
            op = {ast.Add: '+', ast.Sub: '-', ast.Mult: '*'}.get(type(e.op))
            if op:
                return f'({a} {op} {b})', 'int'
            if isinstance(e.op, ast.FloorDiv):
                return f'(Int.fdiv {a} {b})', 'int'  # Python // rounds towards minus infinity
            if isinstance(e.op, ast.Mod):
                return f'(Int.fmod {a} {b})', 'int'
            raise Unsupported(f'operator {ast.unparse(e)}')
        if isinstance(e, ast.Compare):
            parts = []
            left, tl = self.expr(e.left, env)
            for op, right in zip(e.ops, e.comparators):
                r, tr = self.expr(right, env)
                if tl != tr:
                    raise Unsupported(f'comparison between {tl} and {tr}: {ast.unparse(e)}')
                sym = {ast.Eq: '==', ast.NotEq: '!=', ast.Lt: '<', ast.LtE: '≤', ast.Gt: '>', ast.GtE: '≥'}.get(type(op))
                if sym is None:
                    raise Unsupported(f'comparison {ast.unparse(e)}')
                if sym in ('==', '!='):
                    parts.append(f'({left} {sym} {r})')
                else:
                    if tl != 'int':
                        raise Unsupported(f'ordering on {tl}')
                    parts.append(f'(decide ({left} {sym} {r}))')
                left, tl = r, tr
            return ('(' + ' && '.join(parts) + ')') if len(parts) > 1 else parts[0], 'bool'
        if isinstance(e, ast.BoolOp):
            vals = [self.expr(v, env) for v in e.values]
            # Python's and/or return an operand; only the truth value is used in the kernels, so
            # the result is typed bool and each operand goes through truthiness
            op = ' && ' if isinstance(e.op, ast.And) else ' || '
            return '(' + op.join(self.truth(v, t) for v, t in vals) + ')', 'bool'
        if isinstance(e, ast.IfExp):
            c, tc = self.expr(e.test, env)
            a, ta = self.expr(e.body, env)
            b, tb = self.expr(e.orelse, env)
            if ta != tb:
                raise Unsupported(f'conditional expression of two types: {ast.unparse(e)}')
            return f'(if {self.truth(c, tc)} then {a} else {b})', ta
        raise Unsupported(f'expression {ast.unparse(e)}')

    def truth(self, v: str, t: str) -> str:
        if t == 'err':
            return f'({v}).isSome'
        return v if t == 'bool' else f'({v} != 0)'

    # -- statements --------------------------------------------------------------------------------
    def state(self) -> str:
        return '⟨' + ', '.join(f's_{f}' for f in self.spec.fields) + '⟩'

    def ret(self, val: str | None) -> str:
        v = val if val is not None else NONE_VAL[self.spec.ret]
        if self.spec.pure:
            return v
        return f'PyRes.ret {v} {self.state()}'

    def block(self, stmts: list[ast.stmt], rest: list[ast.stmt], env: dict[str, str], ind: int) -> str:
        """Lean term for `stmts` followed by `rest` (the continuation, already a statement list)."""
        pad = '  ' * ind
        todo = list(stmts) + list(rest)
        if not todo and self.resume:
            raise Unsupported(f'{self.fname}: a helper whose result is assigned can fall off its end')
        if not todo:
            return pad + self.ret(None)
        s, tail = todo[0], todo[1:]
        sp = self.spec
        if sp.skip_prefixes:
            src = ast.unparse(s)
            if any(src.startswith(p) for p in sp.skip_prefixes):
                return self.block(tail, [], env, ind)
        if isinstance(s, ast.Expr) and isinstance(s.value, ast.Constant) and isinstance(s.value.value, str):
            return self.block(tail, [], env, ind)  # docstring
        if isinstance(s, ast.Pass):
            return self.block(tail, [], env, ind)
        if isinstance(s, ast.Assert):
            return self.block(tail, [], env, ind)  # an assertion that holds computes nothing
        if isinstance(s, ast.Return) and self.resume:
            tgt, ktail = self.resume[-1]
            if s.value is None:
                raise Unsupported(f'{self.fname}: a helper whose result is assigned returns nothing')
            saved_resume, saved_inl = self.resume, self.inlining
            self.resume, self.inlining = self.resume[:-1], self.inlining[:-1]
            try:
                return self.block([ast.Assign(targets=[tgt], value=s.value, lineno=0, col_offset=0)] + list(ktail), [], env, ind)
            finally:
                self.resume, self.inlining = saved_resume, saved_inl
        if isinstance(s, ast.Return):
            if s.value is None:
                return pad + self.ret(None)
            if isinstance(s.value, ast.Constant) and s.value.value is None:
                return pad + self.ret(None)
            if isinstance(s.value, ast.Call) and _dotted(s.value.func) in sp.refusal_calls and len(s.value.args) >= 2:
                (a, ta), (b, tb) = self.expr(s.value.args[0], env), self.expr(s.value.args[1], env)
                if ta != 'int' or tb != 'int':
                    raise Unsupported(f'{self.fname}: refusal codes are not int: {ast.unparse(s.value)[:60]}')
                return pad + f'PyRes.raise {a} {b}'
            if sp.return_map and ast.unparse(s.value) in sp.return_map:
                a, b = sp.return_map[ast.unparse(s.value)]
                return pad + f'PyRes.raise x_{a} x_{b}'
            if sp.refusal_returns and isinstance(s.value, ast.Tuple) and len(s.value.elts) == 3:
                (a, ta), (b, tb) = (self.expr(x, env) for x in s.value.elts[:2])
                if ta != 'int' or tb != 'int':
                    raise Unsupported(f'{self.fname}: refusal codes are not int: {ast.unparse(s.value)[:60]}')
                return pad + f'PyRes.raise {a} {b}'
            if sp.tuple_result is not None and isinstance(s.value, ast.Tuple) and len(s.value.elts) > max(sp.tuple_result):
                i, j, k = sp.tuple_result
                err = s.value.elts[k]
                if isinstance(err, ast.Constant) and err.value is None:
                    (a, ta), (b, tb) = self.expr(s.value.elts[i], env), self.expr(s.value.elts[j], env)
                    if ta != 'int' or tb != 'int' or sp.ret != 'int*int':
                        raise Unsupported(f'{self.fname}: result tuple ({ta}, {tb}), declared {sp.ret}')
                    return pad + self.ret(f'({a}, {b})')
                if isinstance(err, ast.Call) and _dotted(err.func) in ('NotifyError', 'Notify') and len(err.args) >= 2:
                    (a, ta), (b, tb) = self.expr(err.args[0], env), self.expr(err.args[1], env)
                    if ta != 'int' or tb != 'int':
                        raise Unsupported('NotifyError code/subcode not int')
                    return pad + f'PyRes.raise {a} {b}'
                try:
                    ev, et = self.expr(err, env)
                except Unsupported:
                    ev, et = '', ''
                if et == 'err':
                    (a, ta), (b, tb) = self.expr(s.value.elts[i], env), self.expr(s.value.elts[j], env)
                    return pad + f'match {ev} with\n{pad}| some (c, s) => PyRes.raise c s\n{pad}| none => ' + self.ret(f'({a}, {b})')
                raise Unsupported(f'{self.fname}: error element of the result tuple: {ast.unparse(err)[:60]}')
            if isinstance(s.value, ast.Tuple) and sp.ret == 'int*int' and len(s.value.elts) == 2:
                (a, ta), (b, tb) = (self.expr(x, env) for x in s.value.elts)
                if ta != 'int' or tb != 'int':
                    raise Unsupported(f'{self.fname}: returns ({ta}, {tb}), declared int*int')
                return pad + self.ret(f'({a}, {b})')
            if sp.ret == 'refusal':
                # `return None` accepts; `return '<message>'` / `return f'…'` refuses: which message, by its position
                if isinstance(s.value, ast.Constant) and s.value.value is None:
                    return pad + self.ret('(none : Option Nat)')
                if isinstance(s.value, ast.JoinedStr) or (isinstance(s.value, ast.Constant) and isinstance(s.value.value, str)):
                    # numbered by source position (a statement behind an `if` without `else` is translated once per
                    # branch that reaches it: every copy carries the number of the one statement)
                    k = self.refusal_lines.index(s.lineno) + 1
                    return pad + self.ret(f'(some {k} : Option Nat)')
                raise Unsupported(f'{self.fname}: returns neither None nor a message: {ast.unparse(s.value)[:60]}')
            v, t = self.expr(s.value, env)
            if sp.ret == 'none':
                raise Unsupported(f'{self.fname}: returns a value but is declared to return None')
            if t != sp.ret:
                if sp.ret == 'bool':
                    v = self.truth(v, t)
                else:
                    raise Unsupported(f'{self.fname}: returns {t}, declared {sp.ret}')
            return pad + self.ret(v)
        if isinstance(s, ast.Raise):
            if sp.pure:
                raise Unsupported(f'{self.fname}: declared pure but raises')
            c = s.exc
            if isinstance(c, ast.Call) and _dotted(c.func) == 'Notify' and len(c.args) >= 2:
                a, ta = self.expr(c.args[0], env)
                b, tb = self.expr(c.args[1], env)
                if ta != 'int' or tb != 'int':
                    raise Unsupported('Notify code/subcode not int')
                return pad + f'PyRes.raise {a} {b}'
            if isinstance(c, ast.Call) and _dotted(c.func) in ('ValueError', 'RuntimeError', 'TypeError', 'AssertionError'):
                return pad + 'PyRes.raise (-1) (-1)'  # an exception which is not a Notify
            raise Unsupported(f'raise {ast.unparse(s)}')
        if isinstance(s, ast.Expr):
            if isinstance(s.value, ast.Call):
                d = _dotted(s.value.func) or ''
                if any(d.startswith(p) for p in sp.ignore_calls):
                    return self.block(tail, [], env, ind)
                m = self.self_call(s.value)
                if m:
                    return self.bind(m, s.value, None, tail, env, ind)
                f = s.value.func
                fd = _dotted(f) or ''
                if fd.startswith('self.') and fd[5:] in sp.effect_methods:
                    fld, lit = sp.effect_methods[fd[5:]]
                    if fld not in sp.fields:
                        raise Unsupported(f'effect {ast.unparse(s)[:60]}: {fld} is not a declared field')
                    return pad + f'let s_{fld} : {LEAN_T[sp.fields[fld]]} := {lit}\n' + self.block(tail, [], env, ind)
                if isinstance(s.value.func, ast.Name) and s.value.func.id in sp.effect_calls and len(s.value.args) == 1 and not s.value.keywords:
                    fld = sp.effect_calls[s.value.func.id]
                    v, t = self.expr(s.value.args[0], env)
                    if sp.fields.get(fld) != t:
                        raise Unsupported(f'effect {ast.unparse(s)}: field {fld} is not a {t}')
                    return pad + f'let s_{fld} : {LEAN_T[t]} := {v}\n' + self.block(tail, [], env, ind)
            raise Unsupported(f'statement {ast.unparse(s)}')
        if isinstance(s, (ast.Assign, ast.AnnAssign)):
            targets = s.targets if isinstance(s, ast.Assign) else [s.target]
            if len(targets) != 1 or s.value is None:
                raise Unsupported(f'assignment {ast.unparse(s)}')
            tgt = targets[0]
            if isinstance(s.value, ast.Call) and self.self_call(s.value):
                if not isinstance(tgt, ast.Name):
                    raise Unsupported(f'assignment {ast.unparse(s)}')
                return self.bind(self.self_call(s.value), s.value, tgt.id, tail, env, ind)
            # a helper whose result is assigned: its body runs here, every `return e` of it becomes `<targets> = e`
            # followed by what follows the call (the continuation is duplicated like that of an `if`)
            if isinstance(s.value, ast.Call) and not (ast.unparse(self.norm(s.value)) in sp.opaque or ast.unparse(self.norm(s.value)) in sp.const_exprs):
                parts = self.helper_parts(s.value)
                if parts is not None and not (len(parts[1]) == 1 and isinstance(parts[1][0], ast.Return)) or (parts is not None and isinstance(tgt, ast.Tuple)):
                    name, body = parts
                    helper_locals = {n.id for st in body for n in ast.walk(st) if isinstance(n, ast.Name) and isinstance(n.ctx, ast.Store)}
                    tnames = {n.id for n in ast.walk(tgt) if isinstance(n, ast.Name)}
                    later = {n.id for st in tail for n in ast.walk(st) if isinstance(n, ast.Name) and isinstance(n.ctx, ast.Load)}
                    clash = (helper_locals - tnames) & (later | set(env))
                    if clash:
                        raise Unsupported(f'helper {name} assigns {sorted(clash)}, which the caller uses too: not inlined')
                    self.inlining.append(name)
                    self.resume.append((tgt, tail))
                    try:
                        return self.block(body, [], env, ind)
                    finally:
                        self.resume.pop()
                        self.inlining.pop()
            if isinstance(tgt, ast.Tuple):
                val = s.value
                if isinstance(val, ast.Call):
                    parts = self.helper_parts(val)
                    if parts is not None and len(parts[1]) == 1 and isinstance(parts[1][0], ast.Return) and isinstance(parts[1][0].value, ast.Tuple):
                        val = parts[1][0].value
                if not (isinstance(val, ast.Tuple) and len(val.elts) == len(tgt.elts) and all(isinstance(x, ast.Name) for x in tgt.elts)):
                    raise Unsupported(f'assignment {ast.unparse(s)[:80]}')
                # all the values first, then the names (Python evaluates the right-hand side before it assigns)
                self.tmp += 1
                k = self.tmp
                out, env2 = '', dict(env)
                vals = [self.expr(x, env) for x in val.elts]
                for i, (v, t) in enumerate(vals):
                    out += pad + f'let t{k}_{i} : {LEAN_T[t]} := {v}\n'
                for i, (x, (v, t)) in enumerate(zip(tgt.elts, vals)):
                    out += pad + f'let v_{x.id} : {LEAN_T[t]} := t{k}_{i}\n'
                    env2[x.id] = t
                return out + self.block(tail, [], env2, ind)
            try:
                v, t = self.expr(s.value, env)
            except Unsupported:
                # an object-valued local (`sent_capa = self.sent_open.capabilities`): nothing to compute; where it is
                # read, what it stands for is put in its place (so that the inputs are recognised whatever they are
                # called locally, and so that a local that now stands for something else is a change)
                if isinstance(tgt, ast.Name) and _dotted(s.value) is not None and tgt.id not in env and tgt.id not in self.aliases:
                    self.aliases[tgt.id] = self.norm(s.value)
                    try:
                        return self.block(tail, [], env, ind)
                    finally:
                        del self.aliases[tgt.id]
                raise
            if isinstance(tgt, ast.Name):
                env2 = dict(env)
                env2[tgt.id] = t
                return pad + f'let v_{tgt.id} : {LEAN_T[t]} := {v}\n' + self.block(tail, [], env2, ind)
            if isinstance(tgt, ast.Attribute) and isinstance(tgt.value, ast.Name) and tgt.value.id == 'self':
                if sp.pure:
                    raise Unsupported(f'{self.fname}: a helper used as a value assigns self.{tgt.attr}')
                if tgt.attr not in sp.fields:
                    raise Unsupported(f'self.{tgt.attr} is not a declared field')
                ft = sp.fields[tgt.attr]
                if ft != t:
                    raise Unsupported(f'self.{tgt.attr} : {ft} assigned a {t}')
                return pad + f'let s_{tgt.attr} : {LEAN_T[t]} := {v}\n' + self.block(tail, [], env, ind)
            raise Unsupported(f'assignment target {ast.unparse(tgt)}')
        if isinstance(s, ast.AugAssign):
            op = {ast.Add: ast.Add, ast.Sub: ast.Sub, ast.Mult: ast.Mult}.get(type(s.op))
            if op is None:
                raise Unsupported(f'statement {ast.unparse(s)}')
            new = ast.Assign(targets=[s.target], value=ast.BinOp(left=s.target, op=s.op, right=s.value))
            return self.block([new] + tail, [], env, ind)
        if isinstance(s, ast.If):
            # a self-method call as the whole test (possibly under `not`) is bound first
            test = s.test
            neg = False
            if isinstance(test, ast.UnaryOp) and isinstance(test.op, ast.Not):
                inner, neg = test.operand, True
            else:
                inner = test
            if isinstance(inner, ast.Call) and self.self_call(inner):
                self.tmp += 1
                name = f'c{self.tmp}'
                newtest: ast.expr = ast.Name(id=name, ctx=ast.Load())
                if neg:
                    newtest = ast.UnaryOp(op=ast.Not(), operand=newtest)
                new_if = ast.If(test=newtest, body=s.body, orelse=s.orelse)
                return self.bind(self.self_call(inner), inner, name, [new_if] + tail, env, ind)
            c, tc = self.expr(test, env)
            # variables assigned in only one branch keep their Python scoping: a later use is
            # checked when it is translated (the environment of each branch travels with it)
            a = self.block(s.body, tail, env, ind + 1)
            b = self.block(s.orelse, tail, env, ind + 1)
            return pad + f'if {self.truth(c, tc)} then\n{a}\n{pad}else\n{b}'
        if isinstance(s, ast.Try) and not s.finalbody and not s.orelse:
            # `try: body except E: <only logging>`: what the handlers do has no effect on what is modelled, and the
            # exceptions themselves (a dead API process, a closed socket) are events of the model, not of the kernel:
            # the body is translated as it runs when nothing is raised
            for h in s.handlers:
                for hs in h.body:
                    src = ast.unparse(hs)
                    ok = isinstance(hs, ast.Pass) or any(src.startswith(p) for p in sp.skip_prefixes)
                    if isinstance(hs, ast.Expr) and isinstance(hs.value, ast.Call):
                        ok = ok or any((_dotted(hs.value.func) or '').startswith(p) for p in sp.ignore_calls)
                    if not ok:
                        raise Unsupported(f'{self.fname}: an exception handler that does something: {src[:60]}')
            return self.block(list(s.body) + tail, [], env, ind)
        raise Unsupported(f'statement {type(s).__name__}: {ast.unparse(s)[:80]}')

    def self_call(self, c: ast.Call) -> 'Translated | None':
        f = c.func
        if isinstance(f, ast.Attribute) and isinstance(f.value, ast.Name) and f.value.id == 'self' and f.attr in self.spec.methods:
            return self.spec.methods[f.attr]
        return None

    def bind(self, m: 'Translated', call: ast.Call, result: str | None, tail: list[ast.stmt], env: dict[str, str], ind: int) -> str:
        pad = '  ' * ind
        if call.keywords:
            raise Unsupported(f'keyword arguments in {ast.unparse(call)}')
        # arguments: the callee's parameters are matched by position against *its* spec order
        args = []
        callee = m.spec
        it = iter(call.args)
        for pname in callee.params:
            a = next(it, None)
            if a is None:
                raise Unsupported(f'missing argument {pname} in {ast.unparse(call)}')
            v, t = self.expr(a, {k: v for k, v in env.items()})
            args.append(v)
        # attribute parameters (message.TYPE …) are forwarded from an object parameter of the same name
        objs = sorted({o for (o, _a) in callee.attr_params})
        for o in objs:
            a = next(it, None)
            if not (isinstance(a, ast.Name) and any(k[0] == a.id for k in self.spec.attr_params)):
                raise Unsupported(f'object argument {o} of {ast.unparse(call)} must be an object parameter of the caller')
            for (oo, attr) in callee.attr_params:
                if oo == o:
                    if (a.id, attr) not in self.spec.attr_params:
                        raise Unsupported(f'{a.id}.{attr} is not declared for the caller')
                    args.append(f'p_{a.id}_{attr}')
        if next(it, None) is not None:
            raise Unsupported(f'too many arguments in {ast.unparse(call)}')
        if callee.uses_now:
            args.append('now')
        if list(callee.fields.items()) != list(self.spec.fields.items()):
            raise Unsupported('callee works on another state')
        env2 = dict(env)
        rname = '_r'
        if result is not None:
            env2[result] = callee.ret
            rname = f'v_{result}'
        rebinding = '⟨' + ', '.join(f's_{f}' for f in self.spec.fields) + '⟩'
        cont = self.block(tail, [], env2, ind + 1)
        return (
            pad + f'match {m.name} {self.state()} {" ".join(args)} with\n'
            + pad + '| PyRes.raise c s => PyRes.raise c s\n'
            + pad + f'| PyRes.ret {rname} {rebinding} =>\n' + cont
        )


def _stores(s: ast.AST) -> set[str]:
    """Names a statement may assign: locals, `self.<f>` (also through `self.<f>.method(...)`, `self.<f>[k] = …`)."""
    out: set[str] = set()
    for n in ast.walk(s):
        if isinstance(n, ast.Name) and isinstance(n.ctx, (ast.Store, ast.Del)):
            out.add(n.id)
        elif isinstance(n, ast.Attribute) and isinstance(n.value, ast.Name) and n.value.id == 'self':
            if isinstance(n.ctx, (ast.Store, ast.Del)):
                out.add('self.' + n.attr)
        if isinstance(n, (ast.Subscript, ast.Attribute)) and isinstance(n.ctx, (ast.Store, ast.Del)) and not (isinstance(n, ast.Attribute) and isinstance(n.value, ast.Name) and n.value.id == 'self'):
            b = n.value
            while isinstance(b, (ast.Subscript, ast.Attribute)) and not (isinstance(b, ast.Attribute) and isinstance(b.value, ast.Name) and b.value.id == 'self'):
                b = b.value
            if isinstance(b, ast.Attribute):
                out.add('self.' + b.attr)
            elif isinstance(b, ast.Name):
                out.add(b.id)
        if isinstance(n, ast.Call) and isinstance(n.func, ast.Attribute):
            b = n.func.value  # x.method(...): x may be changed by it
            if isinstance(b, ast.Attribute) and isinstance(b.value, ast.Name) and b.value.id == 'self':
                out.add('self.' + b.attr)
            # (a method called on a LOCAL is not counted: the locals the slice cares about are numbers, which no
            #  method changes, and objects that are only read through the declared inputs — assumed not to be
            #  modified inside the kernel, see the trusted base)
    return out


def _loads(s: ast.AST, opaque: dict) -> set[str]:
    """Names a statement reads, outside the expressions that are opaque inputs."""
    out: set[str] = set()

    def walk(n: ast.AST) -> None:
        if isinstance(n, ast.expr) and ast.unparse(n) in opaque:
            return
        if isinstance(n, ast.Name) and isinstance(n.ctx, ast.Load):
            out.add(n.id)
        elif isinstance(n, ast.Attribute) and isinstance(n.value, ast.Name) and n.value.id == 'self':
            if isinstance(n.ctx, ast.Load):
                out.add('self.' + n.attr)
            return
        for c in ast.iter_child_nodes(n):
            walk(c)

    walk(s)
    return out


def slice_body(body: list[ast.stmt], spec: Spec) -> list[ast.stmt]:
    """Backward slice on the declared fields: keep a statement iff it may assign a declared field or a name a
    kept statement after it reads (a `return`/`raise` is always kept).  Compound statements are kept or dropped
    whole.  Sound for the int/bool fields of the spec: such a value changes by assignment only."""
    needed = {'self.' + f for f in spec.fields}
    kept: list[ast.stmt] = []
    for s in reversed(body):
        if isinstance(s, ast.Expr) and isinstance(s.value, ast.Constant):
            continue
        always = any(isinstance(n, (ast.Return, ast.Raise)) for n in ast.walk(s))
        if isinstance(s, ast.Expr) and isinstance(s.value, ast.Call):
            d = _dotted(s.value.func) or ''
            always = always or (d.startswith('self.') and d[5:] in spec.effect_methods)  # a recorded effect
        if always or (_stores(s) & needed):
            kept.append(s)
            needed |= _loads(s, spec.opaque)
    return kept[::-1]


def lean_state_structure(cls: str, fields: dict[str, str]) -> str:
    out = [f'structure {cls}St where']
    for f, t in fields.items():
        out.append(f'  {f} : {LEAN_T[t]}')
    out.append('deriving DecidableEq, Repr')
    return '\n'.join(out)


def translate(fn: Any, spec: Spec, lean_name: str | None = None, nested: str | None = None) -> Translated:
    """`nested`: translate the function of that name defined inside `fn` (a closure of `fn`)."""
    src = textwrap.dedent(inspect.getsource(fn))
    tree = ast.parse(src)
    fdef = tree.body[0]
    if not isinstance(fdef, (ast.FunctionDef, ast.AsyncFunctionDef)):
        raise Unsupported('not a function')
    if nested is not None:
        inner = [n for n in ast.walk(fdef) if isinstance(n, ast.FunctionDef) and n.name == nested]
        if len(inner) != 1:
            raise Unsupported(f'{len(inner)} functions named {nested} inside {fdef.name}')
        fdef = inner[0]
        src = textwrap.dedent('\n'.join(src.splitlines()[fdef.lineno - 1 : fdef.end_lineno]))
    name = lean_name or f'{spec.cls}.{fdef.name}'
    # parameters: self, declared plain params, object params (those with attr_params), defaults ignored
    declared = [a.arg for a in fdef.args.args]
    if spec.kind == 'method':
        if not declared or declared[0] != 'self':
            raise Unsupported('not a method')
        rest = declared[1:]
    else:
        if declared and declared[0] == 'self':
            raise Unsupported('a method, declared as a function')
        rest = declared
    objs = sorted({o for (o, _a) in spec.attr_params})
    for a in rest:
        if a not in spec.params and a not in objs and a not in spec.object_params:
            raise Unsupported(f'parameter {a} of {fdef.name} is not declared in the spec')
    owner = None
    qn = getattr(fn, '__qualname__', '')
    if '.' in qn and '<locals>' not in qn:
        owner = getattr(inspect.getmodule(fn), qn.split('.')[0], None)
    local_defs = {n.name: n for n in fdef.body if isinstance(n, ast.FunctionDef)}
    if nested is not None:  # the other closures of the enclosing function are helpers too
        for n in ast.walk(tree.body[0]):
            if isinstance(n, ast.FunctionDef) and n is not fdef and n is not tree.body[0]:
                local_defs.setdefault(n.name, n)
    fdef.body = [n for n in fdef.body if not isinstance(n, ast.FunctionDef)]
    tr = _Tr(spec, fdef.name, getattr(fn, '__globals__', None), owner, local_defs)
    tr.refusal_lines = sorted({n.lineno for n in ast.walk(fdef) if isinstance(n, ast.Return) and (isinstance(n.value, ast.JoinedStr) or (isinstance(n.value, ast.Constant) and isinstance(n.value.value, str)))})
    left_out: list[str] = []
    if spec.slice_fields:
        full = list(fdef.body)
        fdef.body = slice_body(full, spec)
        left_out = [ast.unparse(x).splitlines()[0][:100] for x in full if x not in fdef.body and not (isinstance(x, ast.Expr) and isinstance(x.value, ast.Constant))]
    opening = ''.join(f'  let s_{f} : {LEAN_T[t]} := st.{f}\n' for f, t in spec.fields.items())
    body = tr.block(list(fdef.body), [], {}, 1)
    params = [(f'p_{p}', LEAN_T[t]) for p, t in spec.params.items() if p in declared]
    spec.params = {p: t for p, t in spec.params.items() if p in declared}
    for (o, a), t in spec.attr_params.items():
        params.append((f'p_{o}_{a}', LEAN_T[t]))
    for _src, (nm, t) in spec.opaque.items():
        params.append((f'x_{nm}', LEAN_T[t]))
    for _src, (a, b) in spec.return_map.items():
        params += [(f'x_{a}', 'Int'), (f'x_{b}', 'Int')]
    if spec.uses_now:
        params.append(('now', 'Int'))
    sig = ' '.join(f'({n} : {t})' for n, t in params)
    doc = '/-- translated from:\n' + '\n'.join('    ' + l for l in src.rstrip().splitlines()) + '\n-/'
    if left_out:
        doc = doc[:-3] + '\n    SLICE on the fields ' + ', '.join(spec.fields) + '; statements left out (they assign none of them):\n' + '\n'.join('      ' + l.replace('-/', '- /') for l in left_out) + '\n-/'
    doc = doc.replace('-/\n-/', '-/')
    if spec.pure:
        if spec.fields:
            raise Unsupported('a pure function has no state')
        lean = f'{doc}\ndef {name} {sig} : {RET_T[spec.ret]} :=\n{body}\n'
    else:
        lean = f'{doc}\ndef {name} (st : {spec.cls}St) {sig} : PyRes {spec.cls}St {RET_T[spec.ret]} :=\n{opening}{body}\n'
    return Translated(name=name, lean=lean, params=params, ret=spec.ret, spec=spec, source=src)


PRELUDE = '''/-- result of a translated Python method: the value returned with the state of `self` at that
    point, or `Notify(code, subcode)` raised (the state is then irrelevant: the session ends). -/
inductive PyRes (σ : Type) (α : Type) where
  | ret (v : α) (s : σ)
  | raise (code sub : Int)
deriving DecidableEq, Repr
'''
