"""C01 rig: routes written in the static-route TEXT grammar, sent through the REAL path

    Configuration.parse_route_text → Neighbor.resolve_self →
    UpdateCollection([RoutedNLRI(nlri, nexthop)], [], attributes).messages(negotiated)

for sessions negotiated from two real OPENs, next to the Lean model of that encoder (`drv_wireexa`)
and the RFC reference decoder (`drv_wire`), plus the mapping request → expected canonical report
that the oracle compares with (no decoding logic in it: it only re-states what the text says).

A request is plain JSON-serialisable data:
  {'prefix': '10.0.0.0', 'plen': 24, 'pathinfo': None | int, 'pi_dotted': bool,
   'labels': None | [int], 'rd': None | ['asn2', a, n] | ['ip', 'a.b.c.d', n] | ['asn4', a, n],
   'nh': ['4', 'a.b.c.d'] | ['6', 'x::y'] | ['self'],
   'attrs': [[keyword, value], …]   in the order written,
   'obj_aspath': None | [[type, [asn…]], …]   AS path added as an object (4-byte ASNs: the text parser
                                               cannot take them, finding F23)}
A shape is {'las','pas','asn4','peer_asn4','ap','xnh','em','ll','v6'}.
"""

from __future__ import annotations

import argparse
import contextlib
import io
import ipaddress
import socket
from typing import Any

from exabgp.bgp.message.open.capability.capabilities import Capabilities
from exabgp.bgp.message.open.capability.capability import Capability
from exabgp.bgp.message.open.routerid import RouterID
from exabgp.bgp.message.update.attribute.aspath import CONFED_SEQUENCE, CONFED_SET, SEQUENCE, SET, AS2Path

SEG_CLASS = {1: SET, 2: SEQUENCE, 3: CONFED_SEQUENCE, 4: CONFED_SET}
from exabgp.bgp.message.open.asn import ASN
from exabgp.bgp.message.update.collection import RoutedNLRI, UpdateCollection
from exabgp.protocol.family import AFI, SAFI
from exabgp.protocol.ip import IP
from exabgp.util.enumeration import TriState

from harness import sessions

FAMILIES = [(1, 1), (1, 2), (1, 4), (1, 128), (2, 1), (2, 2), (2, 4), (2, 128)]
FAM_TEXT = 'ipv4 unicast ipv4 multicast ipv4 nlri-mpls ipv4 mpls-vpn ipv6 unicast ipv6 multicast ipv6 nlri-mpls ipv6 mpls-vpn'
V4_LOCAL, V4_PEER = '10.255.0.1', '10.255.0.2'
V6_LOCAL, V6_PEER = '2001:db8:ffff::1', '2001:db8:ffff::2'
ROUTER_ID = '9.9.9.9'
LINK_LOCAL = 'fe80::c01'
WELL_KNOWN = {'no-export': 0xFFFFFF01, 'no-advertise': 0xFFFFFF02, 'no-export-subconfed': 0xFFFFFF03, 'nopeer': 0xFFFFFF04, 'blackhole': 0xFFFF029A}


def tri(b: Any) -> TriState:
    return TriState.TRUE if b else TriState.FALSE


def default_shape() -> dict:
    return {'las': 65000, 'pas': 65001, 'asn4': 1, 'peer_asn4': 1, 'ap': 0, 'xnh': 0, 'em': 1, 'll': 0, 'v6': 0}


# ---------------------------------------------------------------------------------------------
# sessions from two real OPENs

_sessions: dict = {}


def local_address_of(shape: dict) -> tuple[str, str]:
    """(local, peer) address of the session as configured; `la` = k picks the k-th pair so that several
    neighbours of one speaker have different local addresses."""
    k = int(shape.get('la', 0))
    if shape['v6']:
        return (V6_LOCAL, V6_PEER) if k == 0 else (f'2001:db8:ffff:{k}::1', f'2001:db8:ffff:{k}::2')
    return (V4_LOCAL, V4_PEER) if k == 0 else (f'10.255.{k}.1', f'10.255.{k}.2')


class Session:
    def __init__(self, shape: dict) -> None:
        self.shape = dict(shape)
        la, pa = local_address_of(shape)
        self.local_address = la
        cfg, n = sessions.make_config(local_as=shape['las'], peer_as=shape['pas'], families=FAM_TEXT, add_path=bool(shape['ap']), local_address=la, peer_address=pa)
        _, p = sessions.make_config(local_as=shape['pas'], peer_as=shape['las'], families=FAM_TEXT, add_path=bool(shape['ap']), local_address=pa, peer_address=la)
        n.session.router_id = RouterID(ROUTER_ID)
        p.session.router_id = RouterID('8.8.8.8')
        for x, a4 in ((n, shape['asn4']), (p, shape['peer_asn4'])):
            x.capability.asn4 = tri(a4)
            x.capability.extended_message = tri(shape['em'])
            if shape['ap']:
                x.capability.add_path = 3
            x.capability.nexthop = tri(shape['xnh'])
            x.capability.link_local_nexthop = tri(shape['ll'])
            if shape['xnh']:
                for a, s, h in Capabilities._NEXTHOP:
                    x.add_nexthop(a, s, h)
        if shape['ll']:
            n.session.local_link_local = IP.from_string(LINK_LOCAL)
        self.cfg, self.n = cfg, n
        self.neg = sessions.negotiate(n, peer_neighbor=p)
        self.words = sess_words(n, self.neg)

    @staticmethod
    def get(shape: dict) -> 'Session':
        key = tuple(sorted(shape.items()))
        if key not in _sessions:
            _sessions[key] = Session(shape)
        return _sessions[key]


def fams_word(fams: list[tuple[int, int]]) -> str:
    return '+'.join(f'{a}.{s}' for a, s in fams) if fams else '-'


def sess_words(n: Any, neg: Any) -> str:
    """SESS of drv_wireexa, read off the REAL neighbor / negotiated objects."""
    ap = [(a, s) for a, s in FAMILIES if neg.addpath.send(AFI.from_int(a), SAFI.from_int(s))]
    xnh = sorted({(int(a), int(s)) for a, s, h in neg.nexthop if int(h) == 2})
    ll = '-'
    if neg.linklocal_nexthop and not neg.is_multihop() and neg.link_local_address() is not None:
        ll = bytes(neg.link_local_address().pack_ip()).hex()
    rid = n.session.router_id
    return ' '.join(
        [
            str(int(n.session.local_as)),
            str(int(n.session.peer_as)),
            str(int(bool(neg.sent_open.capabilities.announced(Capability.CODE.FOUR_BYTES_ASN)))),
            str(int(bool(neg.asn4))),
            fams_word(ap),
            fams_word(xnh),
            str(int(neg.msg_size)),
            bytes(n.session.local_address.pack_ip()).hex(),
            bytes(rid.pack_ip()).hex() if rid is not None else '00000000',
            ll,
        ]
    )


def wire_params(words: str) -> str:
    """PARAMS of drv_wire for the receiver of a session described by SESS words."""
    w = words.split(' ')
    return f'{w[3]} {w[4]} {w[5]} {w[6]}'


# ---------------------------------------------------------------------------------------------
# request → text / model line / expected report


def ip_bytes(s: str) -> bytes:
    return socket.inet_pton(socket.AF_INET6 if ':' in s else socket.AF_INET, s)


def req_afi(req: dict) -> int:
    return 2 if ':' in req['prefix'] else 1


def req_safi(req: dict) -> int:
    """The grammar's rule: rd → mpls-vpn; label → nlri-mpls; else multicast when the (IPv4 or
    IPv4-mapped) address starts with 224..239, else unicast."""
    if req.get('rd') is not None:
        return 128
    if req.get('labels') is not None:
        return 4
    p = req['prefix']
    if ':' in p:
        if '::ffff:' in p.lower() and '.' in p:
            return 2 if 224 <= int(p.split(':')[-1].split('.')[0]) <= 239 else 1
        return 1
    return 2 if 224 <= int(p.split('.')[0]) <= 239 else 1


def rd_bytes(rd: list) -> bytes:
    kind, a, n = rd
    if kind == 'asn2':
        return bytes([0, 0]) + int(a).to_bytes(2, 'big') + int(n).to_bytes(4, 'big')
    if kind == 'ip':
        return bytes([0, 1]) + ip_bytes(a) + int(n).to_bytes(2, 'big')
    return bytes([0, 2]) + int(a).to_bytes(4, 'big') + int(n).to_bytes(2, 'big')


def rd_text(rd: list) -> str:
    return f'{rd[1]}:{rd[2]}'


def community_value(tok: str) -> int:
    if tok in WELL_KNOWN:
        return WELL_KNOWN[tok]
    if ':' in tok:
        a, b = tok.split(':')
        return (int(a) << 16) + int(b)
    if tok.lower().startswith('0x'):
        return int(tok, 16)
    return int(tok)


def ext_value(tok: str) -> bytes:
    """RFC 4360 §3.1 / §3.2 / §4 / §5: two-octet-AS and IPv4-address specific route target / origin."""
    if tok.lower().startswith('0x'):
        return bytes.fromhex(tok[2:])
    parts = tok.split(':')
    kind = 'target'
    if len(parts) == 3:
        kind = parts.pop(0)
    sub = {'target': 2, 'origin': 3}[kind]
    if '.' in parts[0]:
        return bytes([1, sub]) + ip_bytes(parts[0]) + int(parts[1]).to_bytes(2, 'big')
    return bytes([0, sub]) + int(parts[0]).to_bytes(2, 'big') + int(parts[1]).to_bytes(4, 'big')


def large_value(tok: str) -> tuple[int, int, int]:
    a, b, c = tok.split(':')
    return int(a), int(b), int(c)


def aspath_text(segs: list) -> str:
    if not segs:
        return '[ ]'
    return ' '.join(('[ ' + ' '.join(str(a) for a in asns) + ' ]') if t == 2 else ('( ' + ' '.join(str(a) for a in asns) + ' )') for t, asns in segs)


def list_text(toks: list[str], bare_single: bool = False) -> str:
    if bare_single and len(toks) == 1:
        return toks[0]
    return '[ ' + ' '.join(toks) + ' ]' if toks else '[ ]'


def req_text(req: dict) -> str:
    out = [f'route {req["prefix"]}/{req["plen"]}']
    nh = req['nh']
    fields = []
    fields.append('next-hop ' + ('self' if nh[0] == 'self' else nh[1]))
    if req.get('pathinfo') is not None:
        v = req['pathinfo']
        fields.append('path-information ' + (str(ipaddress.IPv4Address(v)) if req.get('pi_dotted') else str(v)))
    if req.get('labels') is not None:
        ls = req['labels']
        fields.append('label ' + (str(ls[0]) if len(ls) == 1 and req.get('label_bare') else '[ ' + ' '.join(str(x) for x in ls) + ' ]'))
    if req.get('rd') is not None:
        fields.append('rd ' + rd_text(req['rd']))
    order = req.get('field_order')
    if order:
        fields = [fields[i] for i in order if i < len(fields)] + [f for i, f in enumerate(fields) if i not in order]
    out += fields
    for kw, v in req['attrs']:
        if kw == 'origin':
            out.append('origin ' + v)
        elif kw == 'as-path':
            out.append('as-path ' + aspath_text(v))
        elif kw in ('med', 'local-preference'):
            out.append(f'{kw} {v}')
        elif kw == 'atomic-aggregate':
            out.append('atomic-aggregate')
        elif kw == 'aggregator':
            out.append(f'aggregator ( {v[0]}:{v[1]} )')
        elif kw == 'originator-id':
            out.append('originator-id ' + v)
        elif kw == 'cluster-list':
            out.append('cluster-list ' + list_text(v))
        elif kw in ('community', 'large-community', 'extended-community'):
            out.append(f'{kw} ' + list_text(v, bare_single=bool(req.get('bare_single'))))
        else:
            raise ValueError(kw)
    return ' '.join(out)


def hx(b: bytes) -> str:
    return b.hex() if b else '-'


def prefix_bytes(req: dict) -> bytes:
    return ip_bytes(req['prefix'])[: (req['plen'] + 7) // 8]


def segs_word(segs: list) -> str:
    return '|'.join(f'{t}:' + ','.join(str(a) for a in asns) for t, asns in segs) if segs else '-'


def attr_words(req: dict) -> list[str]:
    """Model attribute words (in the order written), values exactly as written."""
    out = []
    for kw, v in req['attrs']:
        if kw == 'origin':
            out.append('1~' + str({'igp': 0, 'egp': 1, 'incomplete': 2}[v]))
        elif kw == 'as-path':
            out.append('2~' + segs_word(v))
        elif kw == 'med':
            out.append(f'4~{v}')
        elif kw == 'local-preference':
            out.append(f'5~{v}')
        elif kw == 'atomic-aggregate':
            out.append('6~-')
        elif kw == 'aggregator':
            out.append(f'7~{v[0]}~' + ip_bytes(v[1]).hex())
        elif kw == 'community':
            out.append('8~' + (','.join(str(community_value(t)) for t in v) or '-'))
        elif kw == 'originator-id':
            out.append('9~' + ip_bytes(v).hex())
        elif kw == 'cluster-list':
            out.append('10~' + (','.join(str(int.from_bytes(ip_bytes(t), 'big')) for t in v) or '-'))
        elif kw == 'extended-community':
            out.append('16~' + (','.join(ext_value(t).hex() for t in v) or '-'))
        elif kw == 'large-community':
            out.append('32~' + (','.join('.'.join(str(x) for x in large_value(t)) for t in v) or '-'))
    if req.get('obj_aspath') is not None:
        out.append('2~' + segs_word(req['obj_aspath']))
    return out


def req_model(req: dict) -> str:
    nh = req['nh']
    nhw = 'self' if nh[0] == 'self' else f'{nh[0]}:' + ip_bytes(nh[1]).hex()
    return ' '.join(
        [
            f'{req_afi(req)}.{req_safi(req)}',
            str(req['plen']),
            hx(prefix_bytes(req)),
            '-' if req.get('pathinfo') is None else str(req['pathinfo']),
            ','.join(str(x) for x in req['labels']) if req.get('labels') else '-',
            hx(rd_bytes(req['rd'])) if req.get('rd') is not None else '-',
            nhw,
            ';'.join(attr_words(req)) or '-',
        ]
    )


def first_given(req: dict, kw: str) -> Any:
    for k, v in req['attrs']:
        if k == kw:
            return v
    return None


def chunk_segs(segs: list) -> list:
    """RFC 4271 §4.3: a segment holds at most 255 AS numbers, a longer one is written as several."""
    out = []
    for t, asns in segs:
        for i in range(0, len(asns), 255):
            out.append([t, asns[i : i + 255]])
    return out


def expected(req: dict, shape: dict, words: str) -> dict:
    """What an RFC decoder must find in the UPDATE, written down from the request and the session as
    configured: {'fam', 'nh' (hex or None = no address of that family), 'nlri', 'attrs': {code: value}}.
    Set-valued attributes are sorted lists of values; NEXT_HOP is not listed (it is checked with the route)."""
    afi, safi = req_afi(req), req_safi(req)
    ap = f'{afi}.{safi}' in words.split(' ')[4].split('+')  # ADD-PATH send as the two OPENs negotiated it for this family
    pid = (req['pathinfo'] if req.get('pathinfo') is not None else 0) if ap else None
    nlri = ':'.join(
        [
            '-' if pid is None else str(pid),
            ','.join(str(x) for x in req['labels']) if req.get('labels') else '-',
            hx(rd_bytes(req['rd'])) if req.get('rd') is not None else '-',
            str(req['plen']),
            hx(prefix_bytes(req)),
        ]
    )
    nh = req['nh']
    if nh[0] == 'self':
        local = local_address_of(shape)[0]
        nhx = ip_bytes(local).hex() if (':' in local) == (afi == 2) else None
    else:
        nhx = ip_bytes(nh[1]).hex()
    ibgp = shape['las'] == shape['pas']
    attrs: dict[int, Any] = {}
    o = first_given(req, 'origin')
    attrs[1] = str({'igp': 0, 'egp': 1, 'incomplete': 2}[o]) if o is not None else '0'
    path = first_given(req, 'as-path')
    if path is None and req.get('obj_aspath') is not None:
        path = req['obj_aspath']
    if path is None:
        path = [] if ibgp else [[2, [shape['las']]]]
    if not (shape.get('asn4', 1) and shape.get('peer_asn4', 1)):
        # a confederation member above 65535 has nothing to carry it on a 2-octet session (RFC 6793 3: no
        # confederation segment in AS4_PATH): it arrives as AS_TRANS (Props/C01 `c01_confed_path`)
        path = [[t, [23456 if t in (3, 4) and a > 65535 else a for a in asns]] for t, asns in path]
    attrs[2] = segs_word(chunk_segs(path))
    m = first_given(req, 'med')
    if m is not None:
        attrs[4] = str(m)
    lp = first_given(req, 'local-preference')
    if ibgp:
        attrs[5] = str(lp if lp is not None else 100)
    # eBGP: RFC 4271 §5.1.5 — LOCAL_PREF MUST NOT be sent to an external peer, asked for or not
    if first_given(req, 'atomic-aggregate') is not None:
        attrs[6] = '-'
    ag = first_given(req, 'aggregator')
    if ag is not None:
        attrs[7] = f'{ag[0]}~' + ip_bytes(ag[1]).hex()
    c = first_given(req, 'community')
    if c:
        attrs[8] = sorted({community_value(t) for t in c})
    oi = first_given(req, 'originator-id')
    if oi is not None:
        attrs[9] = ip_bytes(oi).hex()
    cl = first_given(req, 'cluster-list')
    if cl:
        attrs[10] = ','.join(str(int.from_bytes(ip_bytes(t), 'big')) for t in cl)
    ec = [t for k, v in req['attrs'] if k == 'extended-community' for t in v]
    if ec:
        attrs[16] = sorted({ext_value(t).hex() for t in ec})
    lc = first_given(req, 'large-community')
    if lc:
        attrs[32] = sorted({'.'.join(str(x) for x in large_value(t)) for t in lc})
    return {'fam': f'{afi}.{safi}', 'nh': nhx, 'nlri': nlri, 'attrs': attrs}


def parse_report(line: str) -> dict | None:
    """`ok eor=.. ann=.. wd=.. attrs=..` of drv_wire → fields; None for anything else."""
    if not line.startswith('ok '):
        return None
    f = dict(w.split('=', 1) for w in line[3:].split(' '))
    attrs: dict[int, str] = {}
    dup = False
    if f['attrs'] != '-':
        for a in f['attrs'].split(';'):
            code, _, val = a.partition('~')
            if int(code) in attrs:
                dup = True
            attrs[int(code)] = val
    return {'eor': f['eor'], 'ann': f['ann'], 'wd': f['wd'], 'attrs': attrs, 'dup': dup}


def judge(req: dict, shape: dict, words: str, outcome: tuple, report_line: str | None) -> tuple[str, str] | None:
    """The property's oracle on what the implementation did. None = holds; else (what, detail)."""
    exp = expected(req, shape, words)
    if outcome[0] == 'raised' and outcome[1] == 'error':
        # struct.error out of the packer for a route the grammar accepted: the route cannot be announced
        return ('raises:error', 'struct.error leaves UpdateCollection.messages(): the route is never announced')
    if outcome[0] != 'sent':
        # nothing on the wire (refusal with a diagnostic, or too large): the property speaks about the bytes that are emitted
        return None
    if report_line is None:
        return None
    rep = parse_report(report_line)
    if rep is None:
        return ('undecodable:' + report_line.replace('err ', '').replace(' ', '/'), f'the RFC decoder rejects the UPDATE: {report_line}')
    if rep['eor'] != '-' or rep['wd'] != '-':
        return ('extra', f'eor={rep["eor"]} wd={rep["wd"]}')
    anns = rep['ann'].split('+') if rep['ann'] != '-' else []
    if len(anns) != 1:
        return ('route-count', f'{len(anns)} routes announced: {rep["ann"]}')
    fam, nh, nlri = anns[0].split('/')
    if fam != exp['fam']:
        return ('family-changed', f'asked {exp["fam"]}, the UPDATE announces {fam}')
    if nlri != exp['nlri']:
        return ('nlri', f'asked {exp["nlri"]}, announced {nlri}')
    if exp['nh'] is None:
        return ('nexthop-self', f'next-hop self on a session whose local address has another family: sent {nh}')
    if nh != exp['nh']:
        return ('nexthop', f'asked {exp["nh"]}, announced {nh}')
    got = dict(rep['attrs'])
    if rep['dup']:
        return ('attr-dup', report_line)
    if 3 in got:  # NEXT_HOP next to MP_REACH is ignored by the receiver (RFC 4760 §3); in the classic case it IS the next hop
        if got[3] != exp['nh']:
            return ('attr:3', f'NEXT_HOP {got[3]} is not the requested next hop {exp["nh"]}')
        del got[3]
    want = exp['attrs']
    for code in sorted(set(got) | set(want)):
        g, w = got.get(code), want.get(code)
        if code in (8, 16, 32) and g is not None:
            g = sorted(set(int(x) for x in g.split(','))) if code == 8 else sorted(set(g.split(',')))
        if g != w:
            return (f'attr:{code}', f'attribute {code}: asked {w}, sent {g}')
    return None


# ---------------------------------------------------------------------------------------------
# the real code


def impl_encode(sess: Session, req: dict) -> tuple:
    """('sent', hex) | ('nothing',) | ('raised', exception name) | ('refused', why) | ('multi', [hex…])"""
    text = req_text(req)
    try:
        routes = sess.cfg.parse_route_text(text)
    except Exception as e:  # the parser let an exception out (finding F23 class)
        return ('refused', type(e).__name__)
    if len(routes) != 1:
        return ('refused', f'{len(routes)} routes')
    route = routes[0]
    try:
        if req.get('obj_aspath') is not None:
            segs = [SEG_CLASS[t]([ASN(a) for a in asns]) for t, asns in req['obj_aspath']]
            route.attributes.add(AS2Path.make_aspath(segs, asn4=True))
        route = sess.n.resolve_self(route)
        msgs = [bytes(m) for m in UpdateCollection([RoutedNLRI(route.nlri, route.nexthop)], [], route.attributes).messages(sess.neg)]
    except Exception as e:
        return ('raised', type(e).__name__)
    if not msgs:
        return ('nothing',)
    if len(msgs) > 1:
        return ('multi', [m[19:].hex() for m in msgs])
    m = msgs[0]
    if m[:16] != b'\xff' * 16 or int.from_bytes(m[16:18], 'big') != len(m) or m[18] != 2:
        return ('raised', 'bad-header')
    return ('sent', m[19:].hex())


def pack_route(sess: Session, route: Any) -> tuple:
    try:
        msgs = [bytes(m) for m in UpdateCollection([RoutedNLRI(route.nlri, route.nexthop)], [], route.attributes).messages(sess.neg)]
    except Exception as e:
        return ('raised', type(e).__name__)
    if not msgs:
        return ('nothing',)
    if len(msgs) > 1:
        return ('multi', [m[19:].hex() for m in msgs])
    return ('sent', msgs[0][19:].hex())


def impl_encode_shared(sesss: list[Session], req: dict, order: list[int]) -> list[tuple] | tuple:
    """ONE Route object parsed once, handed to the real `Configuration.announce_route(peers, route)` over
    several real neighbours (what the API `announce route` and `inject_route` do); what each neighbour's
    Adj-RIB-Out receives is then packed for that neighbour's session. `order` = the neighbours in the order
    they are served (indices into sesss, repetitions allowed: a neighbour served again later).
    Returns one outcome per entry of `order`."""
    text = req_text(req)
    cfg = sesss[0].cfg
    try:
        routes = cfg.parse_route_text(text)
    except Exception as e:
        return ('refused', type(e).__name__)
    if len(routes) != 1:
        return ('refused', f'{len(routes)} routes')
    route = routes[0]
    if req.get('obj_aspath') is not None:
        segs = [SEG_CLASS[t]([ASN(a) for a in asns]) for t, asns in req['obj_aspath']]
        route.attributes.add(AS2Path.make_aspath(segs, asn4=True))
    saved = cfg.neighbors
    outs: list[tuple] = []
    try:
        for i in order:
            s = sesss[i]
            got: list = []
            rib_out = s.n.rib.outgoing
            original = rib_out.add_to_rib
            rib_out.add_to_rib = lambda r, *a, **k: got.append(r)  # the Adj-RIB-Out only records what it is given
            cfg.neighbors = {'only': s.n}
            try:
                cfg.announce_route(['only'], route)
            except Exception as e:
                outs.append(('raised', type(e).__name__))
                continue
            finally:
                rib_out.add_to_rib = original
            if len(got) != 1:
                outs.append(('refused', f'{len(got)} routes reached the RIB'))
                continue
            outs.append(pack_route(s, got[0]))
    finally:
        cfg.neighbors = saved
    return outs


def model_outcome(line: str) -> tuple:
    w = line.split(' ')
    if w[0] == 'sent':
        return ('sent', '' if w[1] == '-' else w[1])
    return (w[0],)


def same_outcome(impl: tuple, model: tuple) -> bool:
    if impl[0] == 'sent':
        return model == impl
    if impl[0] == 'raised':
        return model[0] == 'raised'
    if impl[0] == 'nothing':
        return model[0] == 'nothing'
    return False


# ---------------------------------------------------------------------------------------------
# the `exabgp encode` command (src/exabgp/application/encode.py), in-process


def cli_encode(text: str, family: str, local_as: int, peer_as: int, add_path: bool) -> tuple:
    from exabgp.application import encode
    from exabgp.rib import RIB

    RIB._cache.clear()
    ns = argparse.Namespace(route=text, family=family, local_as=local_as, peer_as=peer_as, path_information=add_path, nlri_only=False, no_header=True, configuration=None, debug=False, pdb=False)
    buf = io.StringIO()
    try:
        with contextlib.redirect_stdout(buf):
            rc = encode.cmdline(ns)
    except SystemExit as e:
        return ('refused', f'exit {e.code}: {buf.getvalue().strip()[:80]}')
    except Exception as e:
        return ('raised', type(e).__name__)
    lines = [x for x in buf.getvalue().split('\n') if x]
    if rc != 0 or len(lines) != 1:
        return ('refused', f'rc={rc} lines={len(lines)}')
    return ('sent', lines[0].lower())


def cli_session_words(family: str, local_as: int, peer_as: int, add_path: bool) -> str:
    """SESS words of the session `exabgp encode` builds (same constructors, same arguments)."""
    from exabgp.configuration.check import _negotiated
    from exabgp.configuration.setup import create_minimal_configuration
    from exabgp.rib import RIB

    RIB._cache.clear()
    cfg = create_minimal_configuration(local_as=local_as, peer_as=peer_as, families=family, add_path=add_path)
    n = list(cfg.neighbors.values())[0]
    _, neg = _negotiated(n)
    return sess_words(n, neg)
