"""Rig for the healthcheck helper (C20).

Implementation side: the REAL `exabgp.application.healthcheck.main()` -> `parse()` -> `loop(options)`
runs in-process on a real argv; what it talks to is substituted from outside in the module's
namespace: `check`, `time.sleep`, `os.path.exists` (for the disable file only), `signal.signal`
(records the SIGTERM handler), `subprocess.call` (records the --execute commands), `sys.stdout` /
`sys.stdin`, the ip address helpers and logging setup.  A *script* decides what every check and
every look at the disable file returns and how the program is ended.

Daemon side: every line the helper wrote is given to the REAL `API.process` (dispatch_v6 + peer
selector + `api_route` = `Configuration.partial('static', …)`, the same parser as
`parse_route_text`) of a daemon whose peers are named like the helper's `--neighbor` options plus
two more; the result says whether the daemon accepts the line, which peers it selects and what
route it understood.
"""

from __future__ import annotations

import asyncio
import contextlib
import io
import ipaddress
import os
import signal
import subprocess
import sys
import time
from typing import Any
from unittest.mock import AsyncMock, MagicMock, patch

import exabgp.application.healthcheck as hc

DISABLE_PATH = '/nonexistent/verif-c20-disable'
FAST = 0.25
SLOW = 7.0
MAX_EVENTS = 20000


class RigAbort(BaseException):
    """The rig stops a run that does not follow the script (never expected)."""


class _Proxy:
    """Stands for a module inside healthcheck's namespace: named attributes replaced, the rest real."""

    def __init__(self, real: Any, **over: Any) -> None:
        self.__dict__['_real'] = real
        self.__dict__['_over'] = over

    def __getattr__(self, k: str) -> Any:
        over = self.__dict__['_over']
        if k in over:
            return over[k]
        return getattr(self.__dict__['_real'], k)


class _Out:
    def __init__(self, rig: 'Run', tty: bool) -> None:
        self.rig = rig
        self.tty = tty
        self.buf = ''

    def write(self, s: str) -> int:
        self.buf += s
        while '\n' in self.buf:
            line, self.buf = self.buf.split('\n', 1)
            self.rig.on_line(line)
        return len(s)

    def flush(self) -> None:
        self.rig.on_flush()

    def isatty(self) -> bool:
        return self.tty


class _In:
    def __init__(self, rig: 'Run') -> None:
        self.rig = rig

    def readline(self) -> str:
        self.rig.on_readline()
        return 'done\n'


def _group() -> dict:
    return {'file': None, 'ok': None, 'exec': [], 'setup': 0, 'remove': 0, 'lines': [], 'acks': 0, 'sleep': None}


class Run:
    """One scripted execution of the real helper.

    inputs: list of [file, ok] per iteration.
    exit:   ['interrupt']      KeyboardInterrupt inside the sleep that follows the last scripted iteration
            ['term-sleep']     SIGTERM (the registered handler is called) inside that sleep
            ['term-check']     SIGTERM when the next iteration starts looking (disable file / check)
            ['term-line', k]   SIGTERM right after the k-th line (k >= 1) of the whole run was written
                               (falls back to term-sleep when fewer lines are written)
    With --interval 0 the program may end by itself before the script is exhausted.
    """

    def __init__(self, argv: list[str], inputs: list[list[int]], exit_: list, tty: bool = False) -> None:
        self.argv = list(argv)
        self.inputs = [list(map(bool, i)) for i in inputs]
        self.exit = list(exit_)
        self.tty = tty
        self.groups: list[dict] = []
        self.cur: dict | None = None
        self.exitgrp: dict = _group()
        self.fired = False
        self.handler: Any = None
        self.nlines = 0
        self.nevents = 0
        self.startup = {'setup': 0, 'remove': 0}
        self.options: Any = None
        self.protocol_errors: list[str] = []
        self.logged: list[str] = []

    # -- script -------------------------------------------------------------------------------
    def _tick(self) -> None:
        self.nevents += 1
        if self.nevents > MAX_EVENTS:
            raise RigAbort('too many events')

    def _fire_term(self) -> None:
        self.fired = True
        self.cur = self.exitgrp
        if self.handler is None:
            raise RigAbort('no SIGTERM handler registered')
        self.handler(signal.SIGTERM, None)
        raise RigAbort('SIGTERM handler returned')

    def _fire_interrupt(self) -> None:
        self.fired = True
        self.cur = self.exitgrp
        raise KeyboardInterrupt

    def _iteration(self) -> dict:
        """The group of the iteration in progress (opened by its first look at the world)."""
        if self.fired:
            raise RigAbort('iteration started after the exit event')
        if self.cur is None:
            if len(self.groups) >= len(self.inputs):
                if self.exit[0] == 'term-check':
                    self._fire_term()
                raise RigAbort('script exhausted but the loop goes on')
            self.cur = _group()
            self.groups.append(self.cur)
        return self.cur

    def _input(self) -> list[bool]:
        return self.inputs[len(self.groups) - 1]

    def on_exists(self, path: str) -> bool:
        self._tick()
        g = self._iteration()
        if g['file'] is not None or g['ok'] is not None:
            self.protocol_errors.append('disable file looked at twice or after the check')
        g['file'] = self._input()[0]
        return g['file']

    def on_check(self, cmd: Any, timeout: Any) -> bool:
        self._tick()
        g = self._iteration()
        if g['ok'] is not None:
            self.protocol_errors.append('check called twice in one iteration')
        if (cmd, timeout) != (self.options.command, self.options.timeout):
            self.protocol_errors.append('check called with other arguments than the options')
        g['ok'] = self._input()[1]
        return g['ok']

    def on_exec(self, cmd: str, env: dict) -> int:
        self._tick()
        (self.cur if self.cur is not None else self._iteration())['exec'].append([cmd, env.get('STATE')])
        return 0

    def on_setup(self) -> None:
        self._tick()
        if self.cur is None:
            self.startup['setup'] += 1
        else:
            if self.cur['lines']:
                self.protocol_errors.append('setup_ips after lines')
            self.cur['setup'] += 1

    def on_remove(self) -> None:
        self._tick()
        if self.cur is None:
            self.startup['remove'] += 1
        else:
            self.cur['remove'] += 1

    def on_line(self, line: str) -> None:
        self._tick()
        if self.cur is None:
            self.protocol_errors.append('line written outside an iteration')
            self._iteration()
        self.cur['lines'].append(line)
        self.nlines += 1

    def _maybe_term_line(self) -> None:
        if not self.fired and self.exit[0] == 'term-line' and self.nlines == self.exit[1]:
            self._fire_term()

    def on_flush(self) -> None:
        self._tick()
        # without acknowledgements the flush is the last thing done for a line
        if self.options.no_ack or self.tty:
            self._maybe_term_line()

    def on_readline(self) -> None:
        self._tick()
        if self.cur is not None:
            self.cur['acks'] += 1
        self._maybe_term_line()

    def on_sleep(self, seconds: float) -> None:
        self._tick()
        if self.cur is None or self.fired:
            raise RigAbort('sleep outside an iteration')
        self.cur['sleep'] = 'fast' if seconds == FAST else 'slow' if seconds == SLOW else repr(seconds)
        self.cur = None
        if len(self.groups) >= len(self.inputs):
            if self.exit[0] == 'interrupt':
                self._fire_interrupt()
            if self.exit[0] in ('term-sleep', 'term-line'):
                self._fire_term()

    def on_signal(self, signum: int, handler: Any) -> None:
        if signum == signal.SIGTERM:
            self.handler = handler

    # -- execution ----------------------------------------------------------------------------
    def execute(self) -> dict:
        import logging

        class _H(logging.Handler):
            def emit(h, record: logging.LogRecord) -> None:  # noqa: N805
                if record.levelno >= logging.ERROR:
                    self.logged.append(record.getMessage())

        handler = _H()
        hc.logger.addHandler(handler)
        old_prop, old_level = hc.logger.propagate, hc.logger.level
        hc.logger.propagate = False
        hc.logger.setLevel(logging.ERROR)
        real_exists = os.path.exists

        def exists(p: Any) -> bool:
            if p == DISABLE_PATH:
                return self.on_exists(p)
            return real_exists(p)

        def forbidden(*a: Any, **k: Any) -> None:
            raise RigAbort('the helper started a real subprocess')

        out = _Out(self, self.tty)
        how, code, error = 'returned', None, None
        old_argv = sys.argv
        sys.argv = ['healthcheck'] + self.argv
        real_loop = hc.loop

        def loop(options: Any) -> None:
            # pass-through: note what main() hands to the real loop, then run the real loop
            self.options.loop_ips = list(options.ips)
            real_loop(options)

        try:
            with contextlib.redirect_stderr(io.StringIO()):
                self.options = hc.parse()
            self.options.loop_ips = None
            with (
                patch.object(hc, 'loop', loop),
                patch.object(hc, 'sys', _Proxy(sys, stdout=out, stdin=_In(self))),
                patch.object(hc, 'os', _Proxy(os, path=_Proxy(os.path, exists=exists))),
                patch.object(hc, 'time', _Proxy(time, sleep=self.on_sleep)),
                patch.object(hc, 'signal', _Proxy(signal, signal=self.on_signal)),
                patch.object(hc, 'subprocess', _Proxy(subprocess, call=lambda cmd, **k: self.on_exec(cmd, k.get('env', {})), Popen=forbidden, check_call=forbidden)),
                patch.object(hc, 'check', self.on_check),
                patch.object(hc, 'setup_ips', lambda *a, **k: self.on_setup()),
                patch.object(hc, 'remove_ips', lambda *a, **k: self.on_remove()),
                patch.object(hc, 'system_ips', lambda *a, **k: []),
                patch.object(hc, 'setup_logging', lambda *a, **k: None),
                patch.object(hc, 'drop_privileges', lambda *a, **k: None),
            ):
                try:
                    hc.main()
                    how = 'returned'
                except SystemExit as e:
                    how, code = 'exit', e.code
                except KeyboardInterrupt:
                    how = 'keyboard-interrupt-escaped'
                except RigAbort as e:
                    how, error = 'abort', str(e)
        except SystemExit as e:  # argparse refusing the argv
            how, code, error = 'argparse', e.code, 'argparse refused the command line'
        finally:
            sys.argv = old_argv
            hc.logger.removeHandler(handler)
            hc.logger.propagate = old_prop
            hc.logger.setLevel(old_level)
        if out.buf:
            self.protocol_errors.append('unterminated line: ' + out.buf)
        return {
            'groups': self.groups,
            'exit': self.exitgrp if self.fired else None,
            'fired': self.fired,
            'how': how,
            'code': code,
            'error': error,
            'startup': self.startup,
            'protocol_errors': self.protocol_errors,
            'logged': self.logged,
            'lines': [ln for g in self.groups for ln in g['lines']] + (self.exitgrp['lines'] if self.fired else []),
        }


def run_impl(argv: list[str], inputs: list[list[int]], exit_: list, tty: bool = False) -> tuple[dict, Any]:
    r = Run(argv, inputs, exit_, tty)
    res = r.execute()
    return res, r.options


# ---------------------------------------------------------------------------------------------
# options -> the model's configuration line


def _hex(s: str) -> str:
    return s.encode('ascii').hex()


def _ostr(v: Any) -> str:
    if v is None:
        return '-'
    v = str(v)
    return 'e' if v == '' else 'x' + _hex(v)


def _lst(xs: list[str]) -> str:
    return ','.join(_hex(x) for x in xs) if xs else '-'


def cfg_line(o: Any, tty: bool) -> str:
    """The real argparse Namespace rendered for `health cfg` (no interpretation beyond str())."""
    kv = {
        'rise': o.rise,
        'fall': o.fall,
        'disable': int(o.disable is not None),
        'debounce': int(bool(o.debounce)),
        'wod': int(bool(o.withdraw_on_down)),
        'izero': int(o.interval == 0),
        'noack': int(bool(o.no_ack)),
        'tty': int(tty),
        'ipdyn': int(bool(o.ip_dynamic)),
        'ipsetup': int(bool(o.ip_setup)),
        'up': o.up_metric,
        'down': o.down_metric,
        'dis': o.disabled_metric,
        'inc': o.increase,
        'lp': o.local_preference,
        'nh': _ostr(o.next_hop),
        'comm': _ostr(o.community),
        'dcomm': _ostr(o.disabled_community),
        'ext': _ostr(o.extended_community),
        'large': _ostr(o.large_community),
        'asp': _ostr(o.as_path),
        'uasp': _ostr(o.up_as_path),
        'dasp': _ostr(o.down_as_path),
        'xasp': _ostr(o.disabled_as_path),
        'pid': '-' if o.path_id is None else o.path_id,
        'ips': _lst([str(ip) for ip in o.ips]),
        'nbr': _lst([str(n) for n in (o.neighbors or [])]),
        'start': o.start_ip,
    }
    return 'health cfg ' + ' '.join(f'{k}={v}' for k, v in kv.items())


def decode_lines(field: str) -> list[str]:
    return [] if field == '-' else [bytes.fromhex(x).decode('ascii') for x in field.split(',')]


def parse_kv(out: str) -> dict:
    return dict(tok.split('=', 1) for tok in out.split(' ') if '=' in tok)


# ---------------------------------------------------------------------------------------------
# daemon side


class Daemon:
    """A daemon with the given peer addresses; `submit(line)` runs the real API.process."""

    def __init__(self, peer_addresses: list[str]) -> None:
        from exabgp.reactor.api import API
        from harness import sessions

        self.addresses = list(peer_addresses)
        self.names = []
        for pa in self.addresses:
            v6 = ':' in pa
            _, n = sessions.make_config(peer_address=pa, local_address='2001:db8:ffff::1' if v6 else '10.255.255.1')
            self.names.append(n.name())
        self.scheduled: list = []
        self.answers: list[str] = []
        self.applied: list = []
        r = MagicMock()
        r.peers = lambda service='': list(self.names)
        r.asynchronous.schedule = lambda service, command, coro: self.scheduled.append(coro)
        r.processes.get_sync = lambda service: False
        r.processes.answer_done = AsyncMock(side_effect=lambda s: self.answers.append('done'))
        r.processes.answer_error = AsyncMock(side_effect=lambda s, m='': self.answers.append('error'))
        r.processes.answer_error_sync = lambda s, m='': self.answers.append('error')
        r.configuration.announce_route = lambda peers, route: self.applied.append(('announce', list(peers), route))
        r.configuration.withdraw_route = lambda peers, route: self.applied.append(('withdraw', list(peers), route)) or True
        self.reactor = r
        self.api = API(r)
        self.cache: dict[str, dict] = {}

    def submit(self, line: str) -> dict:
        if line in self.cache:
            return self.cache[line]
        self.scheduled.clear()
        self.answers.clear()
        self.applied.clear()
        try:
            self.api.process(self.reactor, 'healthcheck', line)
            for coro in self.scheduled:
                asyncio.run(coro)
        except Exception as e:  # the daemon must not raise on a line either
            self.answers.append(f'raised {type(e).__name__}')
        res: dict = {'answers': list(self.answers), 'accepted': self.answers == ['done'], 'applied': [], 'reason': 'accepted'}
        if not res['accepted']:
            res['reason'] = self.why(line)
        for action, peers, route in self.applied:
            res['applied'].append({'action': action, 'peers': sorted(p.split(' ')[1] for p in peers), **describe_route(route)})
        self.cache[line] = res
        return res


def _why(self: Daemon, line: str) -> str:
    """Which stage of the daemon refuses a line (for the canonical form of a finding)."""
    from exabgp.reactor.api.dispatch.common import NoMatchingPeers, UnknownCommand
    from exabgp.reactor.api.dispatch.v6 import dispatch_v6

    try:
        handler, peers, remaining = dispatch_v6(line, self.reactor, 'healthcheck')
    except UnknownCommand:
        return 'unknown-command'
    except NoMatchingPeers:
        return 'no-matching-peers'
    except Exception as e:
        return 'dispatch-raised-' + type(e).__name__
    return 'route-refused'


Daemon.why = _why  # type: ignore[attr-defined]


def describe_route(route: Any) -> dict:
    from exabgp.bgp.message.update.attribute import Attribute

    d: dict = {'prefix': str(ipaddress.ip_network(route.nlri.cidr.prefix(), strict=False)), 'nexthop': str(route.nexthop)}
    pi = route.nlri.path_info
    d['pathid'] = int.from_bytes(pi.pack_path(), 'big') if pi else None
    a = route.attributes
    C = Attribute.CODE
    d['med'] = a[C.MED].med if C.MED in a else None
    d['lp'] = a[C.LOCAL_PREF].localpref if C.LOCAL_PREF in a else None
    d['community'] = sorted(str(c) for c in a[C.COMMUNITY].communities) if C.COMMUNITY in a else None
    d['extended'] = sorted(str(c) for c in a[C.EXTENDED_COMMUNITY].communities) if C.EXTENDED_COMMUNITY in a else None
    d['large'] = sorted(str(c) for c in a[C.LARGE_COMMUNITY].communities) if C.LARGE_COMMUNITY in a else None
    if C.AS_PATH in a:
        p = a[C.AS_PATH]
        d['aspath'] = [int(x) for x in p.as_seq] if not p.as_set else ['set']
    else:
        d['aspath'] = None
    known = {C.MED, C.LOCAL_PREF, C.COMMUNITY, C.EXTENDED_COMMUNITY, C.LARGE_COMMUNITY, C.AS_PATH, C.NEXT_HOP}
    d['other'] = sorted(int(c) for c in a if c not in known)
    return d
