"""The framing rig: the real Connection.reader_async on one end of a socketpair, driven by
`chunk` (TCP delivers these bytes now) and `cancel` (the read in progress is cancelled, which
is what `asyncio.wait_for(read_message(), 0.1)` in Peer._main does when it times out)."""

from __future__ import annotations

import asyncio
import socket

from exabgp.protocol.family import AFI
from exabgp.reactor.network.connection import Connection


class FrameRig:
    def __init__(self, msg_size: int) -> None:
        self.a, self.b = socket.socketpair()
        self.a.setblocking(False)
        self.b.setblocking(True)
        # generous buffers: a whole 64 KiB message may be written in one chunk
        for s in (self.a, self.b):
            s.setsockopt(socket.SOL_SOCKET, socket.SO_SNDBUF, 1 << 20)
            s.setsockopt(socket.SOL_SOCKET, socket.SO_RCVBUF, 1 << 20)
        self.conn = Connection(AFI.ipv4, '127.0.0.1', '127.0.0.1')
        self.conn.io = self.a
        self.conn.msg_size = msg_size
        self.loop = asyncio.new_event_loop()
        self.task: asyncio.Task | None = None
        self.dead = False

    def close(self) -> None:
        if self.task is not None and not self.task.done():
            self.task.cancel()
            self._spin()
        self.conn.close()  # cancels a receive still pending
        self._spin()
        self.loop.close()
        for s in (self.a, self.b):
            try:
                s.close()
            except OSError:
                pass

    def _spin(self, n: int = 4) -> None:
        for _ in range(n):
            self.loop.run_until_complete(asyncio.sleep(0))

    def _pump(self) -> list[str]:
        outs: list[str] = []
        while not self.dead:
            if self.task is None:
                self.task = self.loop.create_task(self.conn.reader_async())
            self._spin()
            if not self.task.done():
                break
            length, msg, header, body, err = self.task.result()
            self.task = None
            if err is not None:
                outs.append(f'err {err.code} {err.subcode}')
                self.dead = True
            else:
                outs.append(f'msg {msg} {bytes(body).hex() or "-"}')
        return outs

    def feed(self, bs: bytes) -> str:
        if self.dead:
            return '-'
        self.b.sendall(bs)
        return ';'.join(self._pump()) or '-'

    def feed_racing_cancel(self, bs: bytes, delay: int = 0) -> str:
        """The bytes arrive in the very event-loop iteration in which the caller's timeout fires:
        the socket future is completed first, then the task is cancelled (timer callbacks run
        after I/O callbacks), as `wait_for(read_message(), 0.1)` does when both coincide."""
        if self.dead:
            return '-'
        if self.task is None:
            self.task = self.loop.create_task(self.conn.reader_async())
            self._spin()
        task = self.task
        self.b.sendall(bs)

        # `delay` event-loop iterations pass between the arrival of the bytes and the cancellation:
        # 0 = the very iteration (see above); 1.. = the receive has completed, the reader coroutine
        # may or may not have been resumed with its result yet
        def later(n: int) -> None:
            if n <= 0:
                task.cancel()
            else:
                self.loop.call_soon(later, n - 1)

        self.loop.call_later(0, later, delay)
        self._spin(4 + delay)
        if task.done() and not task.cancelled():
            # the read completed before the cancellation took effect: deliver what it returned
            length, msg, header, body, err = task.result()
            self.task = None
            if err is not None:
                self.dead = True
                return f'err {err.code} {err.subcode}'
            first = f'msg {msg} {bytes(body).hex() or "-"}'
            rest = self._pump()
            return ';'.join([first] + rest)
        self.task = None
        return ';'.join(self._pump()) or '-'

    def cancel(self) -> str:
        if self.task is not None and not self.task.done():
            self.task.cancel()
            self._spin()
        self.task = None
        return 'ok'

    def setmax(self, m: int) -> str:
        self.conn.msg_size = m
        return 'ok'
