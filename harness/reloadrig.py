"""The reload rig: a real `Reactor` with a real `Configuration` read from a configuration FILE,
real `Peer`s created by the real `Reactor.reload()`, real per-neighbor RIBs (shared by neighbor
name through `RIB._cache`), and sessions that run the real `Peer._run()` coroutine:

  * `Peer._establish` is the only thing replaced on the session path (no network: it installs a
    real `Protocol` whose connection captures what is written, a `Negotiated` built from two real
    OPENs, the receive timer, and moves the FSM to ESTABLISHED); `Protocol.read_message` returns
    the scheduling NOP (a silent remote peer).  Everything else — the `_main` prologue
    (`replace_restart`), the `if self._neighbor:` block (`replace_reload`), `_send_route_updates`,
    the NOTIFICATION 6/3 of a reestablish, `_reset` and the neighbor swap — is the code of /repo.
  * API commands go through the real `API.process` (v4 dispatcher) and the real ASYNC scheduler;
    `Processes.write` is captured (there is no helper process).
  * What a remote peer holds is rebuilt from the captured bytes with the real decoder.

Abstract universe (shared with harness/ribrig.py): nlri ids 1..5 IPv4 unicast (family 1), 6..8
IPv6 unicast (family 2); attribute ids 1..3; next-hop ids 1..2; watchdog ids 1..2.
Neighbor names 1..4 are the peer addresses 127.0.0.2 … 127.0.0.5; the abstract session key is the
hold-time (key 1 = 180, key 2 = 90, key 3 = 60); `desc` is a field Neighbor.__eq__ ignores.
"""

from __future__ import annotations

import asyncio
import os
import shutil
import tempfile
from typing import Any

from exabgp.bgp.fsm import FSM
from exabgp.bgp.message import _NOP, Message
from exabgp.bgp.message.direction import Direction
from exabgp.bgp.message.update.attribute import Attribute
from exabgp.bgp.message.update.attribute.collection import AttributeCollection
from exabgp.bgp.timer import ReceiveTimer
from exabgp.configuration.configuration import Configuration
from exabgp.environment import getenv
from exabgp.reactor.api.processes import Processes
from exabgp.reactor.loop import Reactor
from exabgp.reactor.network.error import NetworkError
from exabgp.reactor.protocol import Protocol
from exabgp.rib import RIB

from harness import ribrig, sessions

ADDR = {1: '127.0.0.2', 2: '127.0.0.3', 3: '127.0.0.4', 4: '127.0.0.5'}
HOLD = {1: 180, 2: 90, 3: 60}
PROC = {1: 'svc', 2: 'other'}
FAMTXT = {1: 'ipv4 unicast', 2: 'ipv6 unicast'}


# ---------------------------------------------------------------------------------------------
# abstract configuration -> text


def route_line(r: list) -> str:
    n, a, h = r[0], r[1], r[2]
    wd = r[3] if len(r) > 3 else None
    extra = ''
    if wd:
        extra = f' watchdog w{wd[0]}' + (' withdraw' if wd[1] else '')
    return '        ' + ribrig.route_text(n, a, h, extra) + ';'


def nbr_lines(nb: dict) -> list[str]:
    """The lines of one neighbor section (one statement per line, so that a fault can be put at every line)."""
    out = [f'neighbor {ADDR[nb["name"]]} {{']
    out.append('    router-id 1.1.1.1;')
    out.append('    local-address 127.0.0.1;')
    out.append('    local-as 65000;')
    out.append('    peer-as 65001;')
    out.append(f'    hold-time {HOLD[nb["key"]]};')
    if nb.get('desc'):
        out.append(f'    description "{nb["desc"]}";')
    if not nb.get('adj', True):
        out.append('    adj-rib-out false;')
    out.append('    api {')
    out.append(f'        processes [ {nb.get("proc", "svc")} ];')
    out.append('    }')
    out.append('    family {')
    for f in nb['fams']:
        out.append(f'        {FAMTXT[f]};')
    out.append('    }')
    out.append('    static {')
    for r in nb['routes']:
        out.append(route_line(r))
    out.append('    }')
    out.append('}')
    return out


def config_lines(cfg: dict) -> list[str]:
    out = []
    for p in cfg['procs']:
        out.append(f'process {PROC[p]} {{')
        out.append('    run /bin/cat;')
        out.append('    encoder text;')
        out.append('}')
    for nb in cfg['nbrs']:
        out += nbr_lines(nb)
    return out


def nbr_end_lines(cfg: dict) -> list[int]:
    """Index (0-based) of the closing line of every neighbor section in config_lines(cfg)."""
    ends = []
    pos = 4 * len(cfg['procs'])
    for nb in cfg['nbrs']:
        pos += len(nbr_lines(nb))
        ends.append(pos - 1)
    return ends


def model_nbr(nb: dict) -> str:
    rs = []
    for r in nb['routes']:
        n, a, h = r[0], r[1], r[2]
        wd = r[3] if len(r) > 3 else None
        s = f'{n}:{ribrig.NLRI_FAM[n]}:{a}:{h}:{ribrig.grp_of(n, a, h)}'
        if wd:
            s += f':{wd[0]}:{int(wd[1])}'
        rs.append(s)
    fams = '.'.join(str(f) for f in nb['fams']) or '-'
    return f'{nb["name"]}/{nb["key"]}/{fams}/{int(nb.get("adj", True))}/' + (','.join(rs) or '-')


def model_load(cfg: dict, fault: str) -> str:
    procs = ','.join(str(p) for p in cfg['procs']) or '-'
    return f'reload load {fault} {procs} ' + ' '.join(model_nbr(nb) for nb in cfg['nbrs'])


# ---------------------------------------------------------------------------------------------
# the rig


class Session:
    def __init__(self, peer: Any, conn: Any, neg_in: Any, task: Any) -> None:
        self.peer = peer
        self.conn = conn
        self.neg_in = neg_in
        self.task = task
        self.iterations = 0
        self.last_send_iter = 0
        self.events: list[tuple] = []  # decoded, in order
        self.decoded = 0
        self.notifications: list[tuple] = []
        self.fams: set[int] = set()  # families of the neighbor definition the session was opened with
        self.yield_in_read = False  # make read_message a suspension point (a peer waiting for its socket)
        self.in_read = False
        self.gate: Any = None
        self.kill = False  # the next read finds the connection gone


class ReloadRig:
    def __init__(self) -> None:
        AttributeCollection.cached = None
        AttributeCollection.previous = b''
        RIB._cache.clear()
        self.dir = tempfile.mkdtemp(prefix='c17-')
        self.path = os.path.join(self.dir, 'exabgp.conf')
        self._saved_version = getenv().api.version
        getenv().api.version = 4
        self.cfg = Configuration([self.path])
        self.reactor = Reactor(self.cfg)
        self.reactor.processes = Processes()
        self.answers: list[tuple[str, str]] = []
        p = self.reactor.processes
        for name in PROC.values():
            p._ackjson[name] = False
            p._ack[name] = True

        def write(service: str, string: Any, peer: Any = None) -> bool:
            self.answers.append((service, str(string)))
            return True

        async def flush() -> None:
            return None

        p.write = write  # type: ignore[method-assign]
        p.flush_write_queue = flush  # type: ignore[method-assign]
        self.loop = asyncio.new_event_loop()
        self.sessions: dict[str, list[Session]] = {}  # neighbor name (real) -> sessions, in order
        self.nlri_by_text = {v: k for k, v in ribrig.NLRIS.items()}
        self.key_of = {ADDR[k]: k for k in ADDR}
        self._names: dict[int, str] = {}

    def close(self) -> None:
        try:
            for ss in self.sessions.values():
                for s in ss:
                    if s.task is not None and not s.task.done():
                        s.task.cancel()
            self.loop.run_until_complete(asyncio.sleep(0))
        except Exception:
            pass
        self.loop.close()
        getenv().api.version = self._saved_version
        shutil.rmtree(self.dir, ignore_errors=True)
        RIB._cache.clear()

    # -- names --------------------------------------------------------------------------------

    def abstract_name(self, real: str) -> int:
        return self.key_of[real.split(' ')[1]]

    def real_name(self, a: int) -> str | None:
        for k in list(self.reactor._peers) + list(self.cfg.neighbors) + list(RIB._cache):
            if k.split(' ')[1:2] == [ADDR[a]]:
                self._names[a] = k
                return k
        return self._names.get(a)  # a neighbor that existed and was removed

    def peer(self, a: int) -> Any:
        k = self.real_name(a)
        return self.reactor._peers.get(k) if k else None

    # -- configuration ------------------------------------------------------------------------

    def write_file(self, text: str | None) -> None:
        if text is None:
            if os.path.exists(self.path):
                os.unlink(self.path)
            return
        with open(self.path, 'w') as f:
            f.write(text)

    def reload(self) -> bool:
        """The real Reactor.reload(), then what the reactor's main loop does with peers that were removed."""
        for a in ADDR:
            self.real_name(a)
        ok = bool(self.reactor.reload())
        for key, peer in list(self.reactor._peers.items()):
            if not peer._restart:
                # removed: the reactor drops it when its task has ended (NOTIFICATION 6/3 if it was
                # established); the task itself keeps running in `sessions` until the next settle()
                del self.reactor._peers[key]
        return ok

    # -- sessions -----------------------------------------------------------------------------

    def _negotiate(self, neighbor: Any, direction: Any) -> Any:
        saved = dict(RIB._cache)
        try:
            return sessions.negotiate(neighbor, direction=direction)
        finally:
            RIB._cache.clear()
            RIB._cache.update(saved)

    def establish(self, a: int) -> str:
        """Start a session of peer `a`: the real Peer._run() with the transport replaced."""
        peer = self.peer(a)
        if peer is None:
            return 'none'
        if peer.fsm == FSM.ESTABLISHED:
            return 'up'
        key = self.real_name(a)
        sess = Session(peer, sessions.CaptureConnection(), None, None)

        async def fake_establish() -> None:
            neighbor = peer.neighbor
            sess.fams = {ribrig.FAM_ID[f] for f in neighbor.families() if f in ribrig.FAM_ID}
            neg = self._negotiate(neighbor, Direction.OUT)
            sess.neg_in = self._negotiate(neighbor, Direction.IN)
            proto = Protocol(peer)
            proto.connection = sess.conn
            proto.negotiated = neg
            orig_writer = sess.conn.writer_async

            async def writer(raw: bytes) -> None:
                sess.last_send_iter = sess.iterations
                await orig_writer(raw)

            sess.conn.writer_async = writer  # type: ignore[method-assign]

            async def read_message() -> Any:
                # a silent remote peer.  Without `yield_in_read` this is not a suspension point, so that an
                # idle peer can only be suspended in the sleep that ends a `_main` iteration
                sess.iterations += 1
                if sess.kill:
                    raise NetworkError('connection lost (rig)')
                if sess.yield_in_read:
                    sess.in_read = True
                    try:
                        await sess.gate.wait()  # released by the harness (or cut by _main's 0.1 s timeout)
                    finally:
                        sess.in_read = False
                return _NOP

            proto.read_message = read_message  # type: ignore[method-assign]
            peer.proto = proto
            peer.recv_timer = ReceiveTimer(sess.conn.session, neg.holdtime, 4, 0)
            peer.fsm.change(FSM.ESTABLISHED)

        peer._establish = fake_establish  # type: ignore[method-assign]

        async def start() -> None:
            sess.task = asyncio.ensure_future(peer._run())
            await asyncio.sleep(0)

        self.loop.run_until_complete(start())
        self.sessions.setdefault(key, []).append(sess)
        return 'ok'

    def current(self, a: int) -> Session | None:
        key = self.real_name(a)
        ss = self.sessions.get(key or '', [])
        return ss[-1] if ss else None

    def settle(self, limit: float = 5.0) -> None:
        """Run the loop until every running session has gone through two whole `_main` iterations
        without sending anything, with nothing queued and no neighbor definition pending."""

        async def wait() -> None:
            deadline = self.loop.time() + limit
            while self.loop.time() < deadline:
                busy = False
                for ss in self.sessions.values():
                    s = ss[-1]
                    if s.task is None or s.task.done():
                        continue
                    p = s.peer
                    if p.fsm != FSM.ESTABLISHED:
                        busy = True
                    elif p.neighbor.rib.outgoing.pending() or p._neighbor is not None or s.iterations < s.last_send_iter + 3:
                        busy = True
                if not busy:
                    return
                await asyncio.sleep(0.0005)
            raise RuntimeError('sessions did not settle')

        self.loop.run_until_complete(wait())
        for ss in self.sessions.values():
            for s in ss:
                self._decode_new(s)

    def park_in_read(self, a: int) -> bool:
        """Run the loop until the session of `a` is suspended inside read_message — past the loop top of
        its current `_main` iteration, where a peer waiting for its socket spends its time."""
        s = self.current(a)
        if s is None or s.task is None or s.task.done():
            return False
        s.gate = asyncio.Event()
        s.yield_in_read = True

        async def wait() -> None:
            for _ in range(200000):
                if s.in_read or s.task.done():
                    return
                await asyncio.sleep(0)

        self.loop.run_until_complete(wait())
        return s.in_read

    def release(self, a: int) -> None:
        s = self.current(a)
        if s is not None and s.gate is not None:
            s.yield_in_read = False
            s.gate.set()

    def spin(self, a: int, iterations: int) -> None:
        """Let the session of `a` run for about that many `_main` iterations."""
        s = self.current(a)
        if s is None or s.task is None or s.task.done():
            return

        async def wait() -> None:
            target = s.iterations + iterations
            for _ in range(10000):
                if s.iterations >= target or s.task.done():
                    return
                await asyncio.sleep(0)

        self.loop.run_until_complete(wait())

    def lose(self, a: int) -> bool:
        """The session of `a` is lost (the read fails with a NetworkError): the real `_run` goes through
        `_reset`.  False if there was no established session."""
        s = self.current(a)
        peer = self.peer(a)
        if s is None or s.task is None or s.task.done() or peer is None or not peer.established():
            return False
        s.kill = True
        self.wait_down(a)
        return True

    def pending(self) -> str:
        """`ParseNeighbor._attach`: the sections parsed and not yet bound to their RIB."""
        rows = [str(self.abstract_name(nb.name())) for nb, _ in getattr(self.cfg.neighbor, '_attach', [])]
        return ','.join(rows) or '-'

    def wait_down(self, a: int) -> bool:
        """Wait for the session of `a` to end (teardown requested by reestablish())."""
        s = self.current(a)
        if s is None or s.task is None:
            return True
        try:
            self.loop.run_until_complete(asyncio.wait_for(asyncio.shield(s.task), 5))
        except Exception:
            return False
        self._decode_new(s)
        return True

    # -- wire ---------------------------------------------------------------------------------

    def ident(self, nlri: Any, attributes: Any, nexthop: Any) -> tuple[int, int, int, int]:
        n = self.nlri_by_text[str(nlri).split(' ')[0]]
        med = attributes.get(Attribute.CODE.MED, None)
        a = int(med.med) if med is not None else 0
        table = ribrig.NH4 if ribrig.NLRI_FAM[n] == 1 else ribrig.NH6
        h = {v: k for k, v in table.items()}.get(str(nexthop), 0)
        return (n, ribrig.NLRI_FAM[n], a, h)

    def _decode_new(self, s: Session) -> None:
        for raw in s.conn.sent[s.decoded :]:
            kind = raw[18]
            body = raw[19:]
            if kind == 3:
                s.notifications.append((body[0], body[1]))
                continue
            if kind != 2:
                continue
            AttributeCollection.cached = None
            AttributeCollection.previous = b''
            msg = Message.unpack(2, body, s.neg_in)
            if getattr(msg, 'IS_EOR', False) or type(msg).__name__ == 'EOR':
                continue
            data = msg.data
            for nlri in data.withdraws:
                n = self.nlri_by_text[str(nlri).split(' ')[0]]
                s.events.append(('W', n, ribrig.NLRI_FAM[n]))
            for routed in data.announces:
                s.events.append(('A',) + self.ident(routed.nlri, data.attributes, routed.nexthop))
        s.decoded = len(s.conn.sent)

    # -- API ----------------------------------------------------------------------------------

    def api(self, command: str, service: str = 'svc') -> list[str]:
        """One API command through the real dispatcher and scheduler; returns what was answered."""
        before = len(self.answers)
        self.reactor.api.process(self.reactor, service, command)

        async def run() -> None:
            for _ in range(100):
                if not self.reactor.asynchronous._async:
                    return
                await self.reactor.asynchronous._run_async()

        self.loop.run_until_complete(run())
        return [s for svc, s in self.answers[before:] if svc == service]

    def api_route(self, a: int, action: str, n: int, at: int, h: int) -> list[str]:
        return self.api(f'neighbor {ADDR[a]} {action} ' + ribrig.route_text(n, at, h))

    # -- state --------------------------------------------------------------------------------

    def rid(self, route: Any) -> tuple[int, int, int, int]:
        return self.ident(route.nlri, route.attributes, route.nexthop)

    def rib_state(self, outgoing: Any) -> str:
        cache = sorted(self.rid(r) for fam in outgoing._seen.values() for r in fam.values())
        ann = sorted(self.rid(r) for r in outgoing._new_nlri.values())
        wd = sorted(self.nlri_by_text[str(nlri).split(' ')[0]] for d in outgoing._pending_withdraws.values() for nlri, _ in d.values())
        fams = sorted(ribrig.FAM_ID[f] for f in outgoing.families)
        fmt = lambda rs: ','.join('%d:%d:%d:%d' % r for r in rs) or '-'
        return f'c={fmt(cache)};a={fmt(ann)};w={",".join(map(str, wd)) or "-"};p={int(outgoing.pending())};f={".".join(map(str, fams)) or "-"}'

    def ribs(self) -> dict[int, str]:
        out = {}
        for name, rib in RIB._cache.items():
            if name.startswith('disabled-'):
                continue
            out[self.abstract_name(name)] = self.rib_state(rib.outgoing)
        return out

    def nbrs(self) -> str:
        rows = []
        for name, nb in self.cfg.neighbors.items():
            key = {v: k for k, v in HOLD.items()}[int(nb.hold_time)]
            fams = '.'.join(str(ribrig.FAM_ID[f]) for f in nb.families()) or '-'
            rows.append(f'{self.abstract_name(name)}:{key}:{fams}:{int(nb.adj_rib_out)}:{len(nb.routes)}')
        return ','.join(rows) or '-'

    def procs(self) -> str:
        inv = {v: k for k, v in PROC.items()}
        return ','.join(str(x) for x in sorted(inv[p] for p in self.cfg.processes if p in inv)) or '-'

    def peers(self) -> list[str]:
        rows = []
        for name, p in self.reactor._peers.items():
            key = {v: k for k, v in HOLD.items()}[int(p.neighbor.hold_time)]
            rows.append(f'{self.abstract_name(name)}:{key}:{int(p.fsm == FSM.ESTABLISHED)}:{int(bool(p._teardown))}:{int(p._neighbor is not None)}:{int(p.neighbor.previous is not None)}')
        return sorted(rows)

    def snapshot(self) -> dict:
        """Everything the atomicity oracle compares: identities of the neighbor objects, every RIB."""
        return {
            'neighbors': [(k, id(v)) for k, v in self.cfg.neighbors.items()],
            'nbrs': self.nbrs(),
            'procs': sorted(self.cfg.processes),
            'ribs': self.ribs(),
            'peers': self.peers(),
            'sent': {k: [len(s.conn.sent) for s in ss] for k, ss in self.sessions.items()},
        }

    def table(self, a: int) -> dict[int, tuple[int, int]]:
        """What the remote peer of `a` holds now: the events of its CURRENT session applied in order."""
        s = self.current(a)
        t: dict[int, tuple[int, int]] = {}
        if s is None:
            return t
        self._decode_new(s)
        for ev in s.events:
            if ev[0] == 'A':
                t[ev[1]] = (ev[3], ev[4])
            else:
                t.pop(ev[1], None)
        return t
