"""The rig of C13: drives the REAL decode -> encode -> Processes.write chain of /repo in-process and
captures the bytes that reach the API pipe.

    Message.unpack(msg_id, body, negotiated)            (real decoder)
      -> Processes.message / packets / notification / up / down / ...   (real dispatch)
        -> Response.JSON / Response.Text / Response.V4.JSON / Response.V4.Text   (real encoders)
          -> Processes.write  ->  bytes(f'{string}\\n', 'ascii')  ->  os.write(pipe)   (real writer)

The "API process" is a pipe whose read end the rig drains after every event.  Nothing of ExaBGP
is re-implemented here; the wire builders below only assemble *input* bytes.
"""

from __future__ import annotations

import fcntl
import glob
import json
import os
import re
import socket
import struct
from typing import Any, Callable, Iterable

from harness import sessions

from exabgp.bgp.message import Message
from exabgp.bgp.message.notification import Notify
from exabgp.bgp.message.update.attribute.collection import AttributeCollection
from exabgp.configuration.neighbor.api import ParseAPI
from exabgp.reactor.api.processes import Processes
from exabgp.reactor.api.response import Response
from exabgp.version import json as json_version, json_v4 as json_v4_version, text_v4 as text_v4_version

REPO = os.environ.get('VERIF_REPO', '/repo')

# ---------------------------------------------------------------------------------------------
# wire builders (inputs only)


def attr(flag: int, code: int, value: bytes) -> bytes:
    if len(value) > 255 or flag & 0x10:
        return bytes([flag | 0x10, code]) + struct.pack('!H', len(value)) + value
    return bytes([flag, code, len(value)]) + value


ORIGIN = attr(0x40, 1, b'\x00')
ASPATH0 = attr(0x40, 2, b'')
ASPATH1 = attr(0x40, 2, bytes([2, 1]) + struct.pack('!L', 65001))
NEXTHOP = attr(0x40, 3, bytes([10, 0, 0, 1]))
BASE_ATTRS = ORIGIN + ASPATH0 + NEXTHOP
NLRI24 = bytes([24, 10, 0, 0])


def update_body(attrs: bytes, nlri: bytes = b'', withdrawn: bytes = b'') -> bytes:
    return struct.pack('!H', len(withdrawn)) + withdrawn + struct.pack('!H', len(attrs)) + attrs + nlri


def mp_reach(afi: int, safi: int, nexthop: bytes, nlri: bytes) -> bytes:
    return attr(0x90, 14, struct.pack('!HB', afi, safi) + bytes([len(nexthop)]) + nexthop + b'\x00' + nlri)


def mp_unreach(afi: int, safi: int, nlri: bytes) -> bytes:
    return attr(0x90, 15, struct.pack('!HB', afi, safi) + nlri)


def cap(code: int, value: bytes) -> bytes:
    return bytes([code, len(value)]) + value


def open_body(caps: list[bytes], asn: int = 65001, hold: int = 180, rid: bytes = bytes([2, 2, 2, 2]), one_param_each: bool = False) -> bytes:
    if one_param_each:
        params = b''.join(bytes([2, len(c)]) + c for c in caps)
    else:
        blob = b''.join(caps)
        params = bytes([2, len(blob)]) + blob if blob else b''
    if len(params) > 255:
        raise ValueError('parameters too long')
    return bytes([4]) + struct.pack('!HH', asn if asn < 65536 else 23456, hold) + rid + bytes([len(params)]) + params


CAP_MP4 = cap(1, struct.pack('!HBB', 1, 0, 1))
CAP_ASN4 = cap(65, struct.pack('!L', 65001))


def hostname_cap(host: bytes, domain: bytes) -> bytes:
    return cap(73, bytes([len(host)]) + host + bytes([len(domain)]) + domain)


def software_cap(version: bytes) -> bytes:
    return cap(75, bytes([len(version)]) + version)


def notification_body(code: int, subcode: int, data: bytes = b'') -> bytes:
    return bytes([code, subcode]) + data


def shutdown_body(subcode: int, text: bytes, declared: int | None = None, trailer: bytes = b'') -> bytes:
    return bytes([6, subcode, len(text) if declared is None else declared]) + text + trailer


def operational_body(what: int, payload: bytes, declared: int | None = None) -> bytes:
    return struct.pack('!HH', what, len(payload) if declared is None else declared) + payload


def refresh_body(afi: int, safi: int, reserved: int = 0) -> bytes:
    return struct.pack('!HBB', afi, reserved, safi)


def ls_tlv(code: int, payload: bytes) -> bytes:
    return struct.pack('!HH', code, len(payload)) + payload


def header(msg_id: int, body: bytes) -> bytes:
    return b'\xff' * 16 + struct.pack('!HB', 19 + len(body), msg_id)


# ---------------------------------------------------------------------------------------------
# hostile content

MARK = 'Zq7M'

HOSTILE_TEXT: list[str] = [
    '"',
    '\\',
    '\\"',
    '\n',
    '\r\n',
    '\r',
    '\t',
    '\x00',
    '\x1b[31m',
    '\x7f',
    '\x08\x0c',
    '}{',
    '" }, { "type": "down',
    '", "state": "down", "reason": "',
    '"} }\n{ "exabgp": "6.0.0", "type": "state", "neighbor": { "state": "down" } }',
    '\\u0022',
    '\\u000a',
    '\\',
    "'",
    '[ ] ( ) ; #',
    '\nneighbor 1.2.3.4 down - forged',
    '\r\nneighbor 1.2.3.4 update end',
    ' header 0xFFFF body 0x00',
    'caf\u00e9',
    '\u00a0',
    '\u0085',
    '\u2028',
    '\u2029',
    '\u202e',
    '\ufeff',
    '\ufffd',
    '\U0001f600',
    '\u0000\u0001\u001f',
    '{"a": 1}',
    '[1, 2]',
    'null',
    'true',
    '0x00',
    '%s %d {} {0}',
    '</script>',
    'a' * 200,
]

HOSTILE_BYTES: list[bytes] = [
    b'\xff',
    b'\xff\xfe\xfd',
    b'\xc3',
    b'\xc3\x28',
    b'\xe2\x82',
    b'\xed\xa0\x80',  # a surrogate, UTF-8 encoded
    b'\xf4\x90\x80\x80',  # above U+10FFFF
    b'\xc0\xaf',  # overlong
    b'\x80',
    b'\x00\xff"\\\n',
    bytes(range(256)),
]


def hostile_payloads() -> list[bytes]:
    """Every hostile content as bytes, each carrying the marker on both sides where it fits."""
    out: list[bytes] = []
    m = MARK.encode()
    for t in HOSTILE_TEXT:
        out.append(m + t.encode('utf-8') + m)
    for b in HOSTILE_BYTES:
        out.append(m + b + m)
    out.append(b'')
    out.append(m)
    return out


def bucket(payload: bytes) -> str:
    """Class of a hostile payload, for the input distribution and for canonical forms."""
    core = payload
    try:
        s = core.decode('utf-8')
    except UnicodeDecodeError:
        return 'invalid-utf8'
    if any(ord(c) < 0x20 or ord(c) == 0x7F for c in s):
        if '\n' in s or '\r' in s:
            return 'line-break'
        return 'control'
    if any(ord(c) > 0x7E for c in s):
        if any(c in '\u0085\u2028\u2029' for c in s):
            return 'unicode-line-break'
        return 'non-ascii'
    if '"' in s or '\\' in s:
        return 'quote-backslash'
    if any(c in s for c in '{}[]'):
        return 'json-fragment'
    return 'ascii'


# ---------------------------------------------------------------------------------------------
# the rig


class _FakeProcess:
    """What Processes keeps per API program: only `.stdin` / `.stdout` are touched by write()."""

    def __init__(self, w: int) -> None:
        self.stdin = os.fdopen(w, 'wb', buffering=0)
        self.stdout = None


ENCODERS = ('json6', 'json4', 'text6', 'text4', 'json6c')  # json6c: exabgp.api.compact = true
IS_JSON = {'json6': True, 'json4': True, 'text6': False, 'text4': False, 'json6c': True}
VERSION = {'json6': json_version, 'json4': json_v4_version, 'text6': json_version, 'text4': text_v4_version, 'json6c': json_version}

SESSION_SHAPES = {
    # name: (families, add_path, asn4, local_as, peer_as)
    'all': ('all', False, True, 65000, 65001),
    'all-addpath': ('all', True, True, 65000, 65001),
    'asn2': ('ipv4 unicast ipv6 unicast', False, False, 65000, 65001),
    'ibgp': ('all', False, True, 65000, 65000),
}


class Emitted:
    __slots__ = ('enc', 'data', 'error', 'returned')

    def __init__(self, enc: str, data: bytes, error: str | None, returned: Any) -> None:
        self.enc = enc
        self.data = data
        self.error = error
        self.returned = returned


class Rig:
    def __init__(self) -> None:
        self.proc = Processes()
        self.proc.silence = False
        self._r: dict[str, int] = {}
        mk = {
            'json6': lambda: Response.JSON(json_version),
            'json4': lambda: Response.V4.JSON(json_v4_version),
            'text6': lambda: Response.Text(json_version),
            'text4': lambda: Response.V4.Text(text_v4_version),
            'json6c': lambda: Response.JSON(json_version),
        }
        for name in ENCODERS:
            r, w = os.pipe()
            try:
                fcntl.fcntl(w, 1031, 1 << 20)  # F_SETPIPE_SZ
            except OSError:
                pass
            os.set_blocking(r, False)
            os.set_blocking(w, False)
            self._r[name] = r
            self.proc._process[name] = _FakeProcess(w)  # type: ignore[assignment]
            self.proc._encoder[name] = mk[name]()
        self.proc._encoder['json6c'].compact = True  # what `exabgp.api.compact` sets in JSON.__init__
        self._sessions: dict[str, tuple] = {}
        self.host = socket.gethostname()

    def close(self) -> None:
        for name in ENCODERS:
            try:
                os.close(self._r[name])
                self.proc._process[name].stdin.close()
            except OSError:
                pass

    def session(self, name: str) -> tuple:
        if name not in self._sessions:
            fam, ap, asn4, las, pas = SESSION_SHAPES[name]
            cfg, n = sessions.make_config(local_as=las, peer_as=pas, families=fam, add_path=ap)
            neg = sessions.negotiate(n, asn4=asn4)
            peer, proto = sessions.make_peer(n, neg)
            self._sessions[name] = (n, neg, peer)
        return self._sessions[name]

    def add_session(self, name: str, neighbor, negotiated) -> None:
        peer, proto = sessions.make_peer(neighbor, negotiated)
        self._sessions[name] = (neighbor, negotiated, peer)

    def _drain(self, enc: str) -> bytes:
        out = b''
        while True:
            try:
                chunk = os.read(self._r[enc], 1 << 20)
            except BlockingIOError:
                break
            if not chunk:
                break
            out += chunk
        return out

    def _call(self, enc: str, neighbor, key: str, fn: Callable[[], Any]) -> Emitted:
        neighbor.api = ParseAPI.flatten({})
        neighbor.api[key] = [enc]
        self._drain(enc)
        error = None
        returned = None
        try:
            returned = fn()
        except Exception as e:  # noqa: BLE001 - whatever escapes the writer is the observation
            import traceback

            tb = [f for f in traceback.extract_tb(e.__traceback__) if '/exabgp/' in f.filename]
            where = f'{os.path.basename(tb[-1].filename)}:{tb[-1].name}' if tb else '?'
            error = f'{type(e).__name__} @{where}: {e}'
        return Emitted(enc, self._drain(enc), error, returned)

    # -- events ------------------------------------------------------------------------------

    def decode(self, sess: str, msg_id: int, body: bytes):
        """The real decoder, with the process-wide attribute cache reset (C19 is another check)."""
        n, neg, peer = self.session(sess)
        AttributeCollection.cached = None
        AttributeCollection.previous = b''
        return Message.unpack(msg_id, memoryview(bytearray(body)), neg)  # writable, as the receive buffer of the real reader is

    def message(self, enc: str, sess: str, msg_id: int, message, hdr: bytes, body: bytes, direction: str = 'receive') -> Emitted:
        n, neg, peer = self.session(sess)
        short = Message.CODE.short(msg_id)
        return self._call(enc, n, f'{direction}-{short}', lambda: self.proc.message(msg_id, peer, direction, message, hdr, body, neg))

    def packets(self, enc: str, sess: str, msg_id: int, hdr: bytes, body: bytes, direction: str = 'receive') -> Emitted:
        n, neg, peer = self.session(sess)
        return self._call(enc, n, f'{direction}-packets', lambda: self.proc.packets(n, direction, msg_id, hdr, body, neg))

    def notification(self, enc: str, sess: str, notify, hdr: bytes, body: bytes, direction: str = 'receive') -> Emitted:
        n, neg, peer = self.session(sess)
        return self._call(enc, n, 'neighbor-changes', lambda: self.proc.notification(n, direction, notify, hdr, body, neg))

    def state(self, enc: str, sess: str, what: str, arg: Any = None) -> Emitted:
        n, neg, peer = self.session(sess)
        if what == 'up':
            return self._call(enc, n, 'neighbor-changes', lambda: self.proc.up(n))
        if what == 'connected':
            return self._call(enc, n, 'neighbor-changes', lambda: self.proc.connected(n))
        if what == 'down':
            return self._call(enc, n, 'neighbor-changes', lambda: self.proc.down(n, arg))
        if what == 'negotiated':
            return self._call(enc, n, 'negotiated', lambda: self.proc.negotiated(n, neg))
        if what == 'fsm':
            return self._call(enc, n, 'fsm', lambda: self.proc.fsm(n, peer.fsm))
        if what == 'signal':
            return self._call(enc, n, 'signal', lambda: self.proc.signal(n, arg))
        raise ValueError(what)


# ---------------------------------------------------------------------------------------------
# seeds


def seeds_ci() -> list[tuple[str, int, bytes]]:
    """(origin, msg_id, body) of every `raw:` line of /repo/qa/encoding/*.ci"""
    out = []
    for path in sorted(glob.glob(f'{REPO}/qa/encoding/*.ci')):
        for line in open(path, errors='replace'):
            parts = line.strip().split(':')
            if len(parts) >= 6 and parts[1] == 'raw':
                try:
                    out.append((os.path.basename(path), int(parts[4], 16), bytes.fromhex(parts[5])))
                except ValueError:
                    continue
    return out


def seeds_decoding() -> list[tuple[str, int, bytes]]:
    """(origin, msg_id, body) of /repo/qa/decoding/* (line 1: kind, line 2: hex)"""
    out = []
    for path in sorted(glob.glob(f'{REPO}/qa/decoding/*')):
        lines = open(path, errors='replace').read().split('\n')
        if len(lines) < 2:
            continue
        kind = lines[0].split()
        try:
            raw = bytes.fromhex(lines[1].strip().replace(':', ''))
        except ValueError:
            continue
        if raw.startswith(b'\xff' * 16):
            out.append((os.path.basename(path), raw[18], raw[19:]))
        elif kind and kind[0] == 'open':
            out.append((os.path.basename(path), 1, raw))
        elif kind and kind[0] == 'update':
            out.append((os.path.basename(path), 2, raw))
        elif kind and kind[0] == 'nlri':
            # a bare NLRI: wrap it in MP_REACH of its family
            from exabgp.protocol.family import AFI, SAFI

            afi = int(AFI.from_string(kind[1]))
            safi = int(SAFI.from_string(kind[2]))
            out.append((os.path.basename(path), 2, update_body(ORIGIN + ASPATH0 + mp_reach(afi, safi, bytes([10, 0, 0, 1]), raw))))
    return out


def seeds_conf(limit: int | None = None) -> tuple[list[tuple[str, Any, Any, bytes]], dict]:
    """Every route of every /repo/etc/exabgp/*.conf that loads, packed by the real encoder for the
    session its own neighbor negotiates (as `exabgp.configuration.check.check_generation` does).
    Returns ([(origin, neighbor, negotiated_in, body)], stats)."""
    import copy

    from exabgp.bgp.message.update.collection import UpdateCollection
    from exabgp.bgp.message.update.nlri.nlri import NLRI  # noqa: F401
    from exabgp.configuration.check import _negotiated
    from exabgp.configuration.configuration import Configuration
    from exabgp.rib import RIB
    from exabgp.rib.route import Route  # noqa: F401

    try:
        from exabgp.bgp.message.update.collection import RoutedNLRI
    except ImportError:  # pragma: no cover
        from exabgp.bgp.message.update import RoutedNLRI  # type: ignore

    out: list[tuple[str, Any, Any, bytes]] = []
    stats = {'conf-files': 0, 'conf-loaded': 0, 'conf-routes': 0, 'conf-packed': 0}
    for path in sorted(glob.glob(f'{REPO}/etc/exabgp/*.conf')):
        stats['conf-files'] += 1
        RIB._cache.clear()
        try:
            cfg = Configuration([path])
            if not cfg.reload():
                continue
        except BaseException:  # noqa: BLE001 - a configuration that does not load is not a seed
            continue
        stats['conf-loaded'] += 1
        for name, neighbor in cfg.neighbors.items():
            try:
                nb = copy.deepcopy(neighbor)
                nb.session.local_as = nb.session.peer_as
                neg_in, neg_out = _negotiated(nb)
                if not nb.rib.enabled:
                    continue
                for _ in nb.rib.outgoing.updates(False):
                    pass
                for route in nb.rib.outgoing.cached_routes():
                    stats['conf-routes'] += 1
                    try:
                        for packed in UpdateCollection([RoutedNLRI(route.nlri, route.nexthop)], [], route.attributes).messages(neg_out):
                            body = packed[19:] if packed.startswith(b'\xff' * 16) else packed
                            out.append((os.path.basename(path), nb, neg_in, bytes(body)))
                            stats['conf-packed'] += 1
                    except Exception:  # noqa: BLE001 - a route that cannot be packed is C18's subject
                        continue
            except Exception:  # noqa: BLE001
                continue
        if limit and len(out) >= limit:
            break
    RIB._cache.clear()
    return out, stats


def split_attributes(body: bytes) -> tuple[bytes, list[tuple[int, int, bytes]], bytes] | None:
    """UPDATE body -> (withdrawn, [(flag, code, value)], nlri); None when it does not frame."""
    try:
        wl = struct.unpack('!H', body[:2])[0]
        withdrawn = body[2 : 2 + wl]
        al = struct.unpack('!H', body[2 + wl : 4 + wl])[0]
        data = body[4 + wl : 4 + wl + al]
        nlri = body[4 + wl + al :]
        if len(data) != al:
            return None
        attrs = []
        while data:
            flag, code = data[0], data[1]
            if flag & 0x10:
                ln = struct.unpack('!H', data[2:4])[0]
                val, data = data[4 : 4 + ln], data[4 + ln :]
            else:
                ln = data[2]
                val, data = data[3 : 3 + ln], data[3 + ln :]
            if len(val) != ln:
                return None
            attrs.append((flag, code, bytes(val)))
        return bytes(withdrawn), attrs, bytes(nlri)
    except (IndexError, struct.error):
        return None


def split_tlvs(data: bytes) -> list[tuple[int, bytes]] | None:
    out = []
    while data:
        if len(data) < 4:
            return None
        code, ln = struct.unpack('!HH', data[:4])
        if len(data) < 4 + ln:
            return None
        out.append((code, bytes(data[4 : 4 + ln])))
        data = data[4 + ln :]
    return out


# ---------------------------------------------------------------------------------------------
# canonical tree helpers (operate on what the LEAN parser returned, re-read by json.loads)


def pairs_hook(pairs: list[tuple[str, Any]]) -> Any:
    return ('obj', pairs)


def load_pairs(text: str) -> Any:
    """Python's own reading of a line, keeping duplicate keys and number literals (for the diff
    against the Lean parser and for naming the path of a duplicate)."""
    return json.loads(text, object_pairs_hook=pairs_hook, parse_float=lambda s: ('num', s), parse_int=lambda s: ('num', s), parse_constant=lambda s: ('const', s))


def canon_render(t: Any) -> str:
    """The Lean `render` of a tree read by `load_pairs` (same spacing, same escaping: json.dumps)."""
    if isinstance(t, tuple) and t[0] == 'obj':
        if not t[1]:
            return '{ }'
        return '{ ' + ', '.join(json.dumps(k) + ': ' + canon_render(v) for k, v in t[1]) + ' }'
    if isinstance(t, tuple) and t[0] == 'num':
        return t[1]
    if isinstance(t, tuple) and t[0] == 'const':
        return t[1]
    if isinstance(t, list):
        if not t:
            return '[ ]'
        return '[ ' + ', '.join(canon_render(v) for v in t) + ' ]'
    if t is None:
        return 'null'
    if t is True:
        return 'true'
    if t is False:
        return 'false'
    if isinstance(t, str):
        return json.dumps(t)
    raise TypeError(type(t))


def dup_paths(t: Any, path: tuple = ()) -> list[list[str]]:
    out = []
    if isinstance(t, tuple) and t[0] == 'obj':
        seen = set()
        for k, v in t[1]:
            if k in seen:
                out.append(list(path + (k,)))
            seen.add(k)
            out += dup_paths(v, path + (k,))
    elif isinstance(t, list):
        for v in t:
            out += dup_paths(v, path + ('*',))
    return out


def to_plain(t: Any) -> Any:
    if isinstance(t, tuple) and t[0] == 'obj':
        return {k: to_plain(v) for k, v in t[1]}
    if isinstance(t, tuple) and t[0] in ('num', 'const'):
        return t[1]
    if isinstance(t, list):
        return [to_plain(v) for v in t]
    return t


def marker_in_keys(t: Any) -> list[str]:
    out = []
    if isinstance(t, tuple) and t[0] == 'obj':
        for k, v in t[1]:
            if MARK in k:
                out.append(k)
            out += marker_in_keys(v)
    elif isinstance(t, list):
        for v in t:
            out += marker_in_keys(v)
    return out


def marker_in_leaves(t: Any) -> int:
    if isinstance(t, tuple) and t[0] == 'obj':
        return sum(marker_in_leaves(v) for _, v in t[1])
    if isinstance(t, list):
        return sum(marker_in_leaves(v) for v in t)
    if isinstance(t, str):
        return t.count(MARK)
    return 0


def attribute_level(path: list[str]) -> list[str]:
    """A position inside an attribute's own value is named by the attribute: every repeated or
    misplaced member inside e.g. `tunnel-encap` has one cause (its TLVs are rendered as they come)."""
    for i in range(len(path) - 1):
        if path[i] == 'attribute' and i + 2 < len(path):
            return path[: i + 2] + ['...']
    return path


def key_shape(k: str) -> str:
    """Keys that are values by design (addresses, prefixes) or end in a code number
    (`tunnel-type-7`, `unknown-subtlv-3`, `attribute-0x23-0xC0`): abstracted for canonical forms."""
    if re.fullmatch(r'[0-9a-fA-F:.]+(/\d+)?', k) and any(c in k for c in '.:') and any(c.isdigit() for c in k):
        return '<ip>'
    k = re.sub(r'0x[0-9A-Fa-f]+', '<x>', k)
    return re.sub(r'-\d+$', '-<n>', k)


def enclosing_path(text: str) -> list[str]:
    """Keys of the containers open at the end of `text` (a prefix of a record), `*` for arrays."""
    stack: list[str] = []
    pending = '*'
    i, n = 0, len(text)
    while i < n:
        c = text[i]
        if c == '"':
            j = i + 1
            while j < n and text[j] != '"':
                j += 2 if text[j] == '\\' else 1
            word = text[i + 1 : j]
            k = j + 1
            while k < n and text[k] == ' ':
                k += 1
            if k < n and text[k] == ':':
                pending = word
            i = j + 1
            continue
        if c in '{[':
            stack.append(pending if c == '{' or pending != '*' else '*')
            pending = '*'
        elif c in '}]':
            if stack:
                stack.pop()
            pending = '*'
        elif c == ',':
            pending = '*'
        i += 1
    return stack


def family_shape(k: str) -> str:
    return '<family>' if re.fullmatch(r'(ipv4|ipv6|l2vpn|bgp-ls) [a-z0-9-]+', k) else key_shape(k)


def bad_context(rec: bytes, pos: int) -> dict:
    """Where the Lean parser stopped, as a canonical form: the containers open at that point and
    the offending token (numbers abstracted; NaN / Infinity named as what they are)."""
    tok = re.split(r'[ ,\]\}]', rec[pos : pos + 24].decode('ascii', 'replace'), maxsplit=1)[0]
    if tok in ('NaN', 'Infinity', '-Infinity'):
        return {'token': 'non-finite-number'}
    raw = enclosing_path(rec[:pos].decode('ascii', 'replace'))[1:]
    path = ['<family>' if i and raw[i - 1] in ('announce', 'withdraw') else family_shape(k) for i, k in enumerate(raw)]
    return {'in': path, 'token': re.sub(r'\d+', '<n>', tok)[:16]}
