#!/venv/bin/python
"""Run the repository's pinned suite (hooks off) and compare with /root/.vp/BASELINE.json:
every test of stable_pass must pass. Exit 0 iff so."""
import json, os, subprocess, sys, tempfile, xml.etree.ElementTree as ET

def main() -> int:
    base = json.load(open('/root/.vp/BASELINE.json'))
    env = dict(os.environ)
    env.pop('EXABGP_VERIF', None)
    # a pyenv shim that launched us pins its own interpreter for every `python3` below us: undo that
    for k in ('PYENV_VERSION', 'PYENV_DIR', 'PYENV_HOOK_PATH', '_PYENV_INSTALL_PREFIX'):
        env.pop(k, None)
    env['PATH'] = ':'.join(p for p in env.get('PATH', '').split(':') if not any(x in p for x in ('/.pyenv/versions/', '/.pyenv/libexec', '/.pyenv/plugins/')))
    with tempfile.TemporaryDirectory() as d:
        out = os.path.join(d, 'junit.xml')
        cmd = base['cmd'].replace('<file>', out) + ' ' + ' '.join(sys.argv[1:])
        subprocess.run(cmd, shell=True, env=env, stdout=subprocess.DEVNULL, stderr=subprocess.DEVNULL)
        passed = set()
        for tc in ET.parse(out).getroot().iter('testcase'):
            if not any(c.tag in ('failure', 'error', 'skipped') for c in tc):
                passed.add(f"{tc.get('classname')}::{tc.get('name')}")
    # junit classnames include the class for methods; BASELINE ids are module[.Class]::name
    missing = [t for t in base['stable_pass'] if t not in passed]
    if sys.argv[1:]:
        missing = [t for t in missing if any(a.replace('/', '.').replace('.py', '') in t for a in sys.argv[1:])]
    print(f'passed={len(passed)} stable_pass={len(base["stable_pass"])} missing={len(missing)}')
    for t in missing[:40]:
        print('MISSING', t)
    return 0 if not missing else 1

if __name__ == '__main__':
    sys.exit(main())
