#!/usr/bin/env python3
"""Run the repository's pinned suite (hooks off) and compare with /root/.vp/BASELINE.json:
every test of stable_pass must pass. Exit 0 iff so."""
import json, os, subprocess, sys, tempfile, xml.etree.ElementTree as ET

def main() -> int:
    base = json.load(open('/root/.vp/BASELINE.json'))
    env = dict(os.environ)
    env.pop('EXABGP_VERIF', None)
    with tempfile.TemporaryDirectory() as d:
        out = os.path.join(d, 'junit.xml')
        cmd = base['cmd'].replace('<file>', out)
        subprocess.run(cmd, shell=True, env=env, stdout=subprocess.DEVNULL, stderr=subprocess.DEVNULL)
        passed = set()
        for tc in ET.parse(out).getroot().iter('testcase'):
            if not any(c.tag in ('failure', 'error', 'skipped') for c in tc):
                passed.add(f"{tc.get('classname')}::{tc.get('name')}")
    # junit classnames include the class for methods; BASELINE ids are module[.Class]::name
    missing = [t for t in base['stable_pass'] if t not in passed]
    print(f'passed={len(passed)} stable_pass={len(base["stable_pass"])} missing={len(missing)}')
    for t in missing[:40]:
        print('MISSING', t)
    return 0 if not missing else 1

if __name__ == '__main__':
    sys.exit(main())
