"""The FlowSpec rig: drives the REAL text parser, Flow.pack_nlri and Flow.unpack_nlri of /repo in-process,
and holds the Python side of the abstract rule vocabulary shared with the Lean driver `drv_flow`.

Vocabulary (see lean/ExaModel/Driver/Flow.lean):
    text component  ('t4', ty, addr, len) | ('t6', ty, addr, len, off) | ('o', ty, flags, value)
                    flags = IOperation.operations as the parser builds them (AND 0x40 | operator bits)
    abstract comp   ('p4', ty, len, pat) | ('p6', ty, len, off, pat) | ('op', ty, [(f, v), ...])
                    f = and*8 + lt*4 + gt*2 + eq (bitmask: gt = NOT, eq = MATCH)
"""

from __future__ import annotations

import ipaddress
import json
import os
from typing import Any

os.environ.setdefault('exabgp_log_enable', 'false')

from unittest.mock import MagicMock  # noqa: E402

from exabgp.bgp.message import Action  # noqa: E402
from exabgp.bgp.message.update.nlri.flow import Flow, IOperation, IPrefix4, IPrefix6  # noqa: E402
from exabgp.bgp.message.update.nlri.nlri import NLRI  # noqa: E402
from exabgp.protocol.family import AFI, SAFI  # noqa: E402
from exabgp.reactor.api import API  # noqa: E402

from harness.tables import flow as tables  # noqa: E402

KEYWORDS = tables.keyword_table()
NAMES = tables.value_names()
COMPONENTS = tables.component_table()
KIND = {cid: kind for cid, kind, _, _ in COMPONENTS[2]}  # ID -> 0 prefix / 1 numeric / 2 binary (IPv6 table is the superset)
KEYWORD_OF: dict[tuple[int, int], list[str]] = {}  # (ID, afi) -> keywords usable for it
for _kw, (_id, _kind, _cls, _sizes, _afi) in KEYWORDS.items():
    if _kind == 0:
        continue
    for a in (1, 2):
        if _afi in (None, a):
            KEYWORD_OF.setdefault((_id, a), []).append(_kw)

_api: API | None = None


def api() -> API:
    global _api
    if _api is None:
        _api = API(MagicMock())
    return _api


# ---------------------------------------------------------------------------------------------
# text -> real parse -> real pack


def parse(inner: str) -> dict:
    """`announce flow route { <inner> }` through the real API parser."""
    a = api()
    try:
        routes = a.api_flow('announce flow route { %s }' % inner)
    except Exception as e:  # an exception escaping the parser
        return {'status': 'exc', 'error': f'{type(e).__name__}: {e}'[:200]}
    if not routes:
        return {'status': 'refused', 'error': str(a.configuration.error).strip().replace('\n', ' | ')[:200]}
    if len(routes) != 1:
        return {'status': 'exc', 'error': f'{len(routes)} routes'}
    return {'status': 'ok', 'route': routes[0]}


def pack(route: Any) -> dict:
    try:
        b = bytes(route.nlri.pack_nlri(None))
    except Exception as e:
        return {'status': 'raise', 'error': type(e).__name__, 'msg': str(e)[:120]}
    return {'status': 'ok', 'v6': int(route.nlri.afi == AFI.ipv6), 'vpn': int(route.nlri.safi == SAFI.flow_vpn), 'hex': b.hex()}


def communities(route: Any) -> list[str]:
    """The extended communities of the route as hex strings, in the order the attribute packs them."""
    out = []
    for code in (16, 25):
        if code in route.attributes:
            attr = route.attributes[code]
            body = bytes(attr.pack_attribute(None))
            # flags, code, length (extended-length aware)
            hdr = 4 if body[0] & 0x10 else 3
            body = body[hdr:]
            size = 8 if code == 16 else 20
            out += [body[i : i + size].hex() for i in range(0, len(body), size)]
    return out


# ---------------------------------------------------------------------------------------------
# bytes -> real unpack


def hx(b: bytes) -> str:
    return b.hex() if b else '-'


def show_impl_rules(nlri: Any) -> list[str]:
    out = []
    for cid in sorted(nlri.rules):
        rules = nlri.rules[cid]
        if cid in (1, 2):
            for r in rules:
                p = bytes(r._packed)
                if isinstance(r, IPrefix6):
                    out.append(f'p6:{cid}:{p[0]}:{r._offset}:{hx(p[1:])}')
                elif isinstance(r, IPrefix4):
                    out.append(f'p4:{cid}:{p[0]}:{hx(p[1:])}')
                else:
                    out.append(f'?:{cid}')
        else:
            terms = []
            for r in rules:
                assert isinstance(r, IOperation)
                terms.append(f'{int(r.operations)}/{int(r.value)}')
            out.append(f'op:{cid}:' + ','.join(terms))
    return out


def decode(v6: int, vpn: int, data: bytes) -> dict:
    afi = AFI.ipv6 if v6 else AFI.ipv4
    safi = SAFI.flow_vpn if vpn else SAFI.flow_ip
    try:
        nlri, over = Flow.unpack_nlri(afi, safi, data, Action.ANNOUNCE, None, None)
    except Exception as e:
        return {'status': 'raise', 'error': type(e).__name__, 'msg': str(e)[:120]}
    if nlri is NLRI.INVALID:
        return {'status': 'invalid', 'rest': hx(bytes(over))}
    res: dict = {'status': 'ok', 'rest': hx(bytes(over))}
    try:
        res['comps'] = show_impl_rules(nlri)
        rd = nlri.rd
        from exabgp.bgp.message.update.nlri.qualifier import RouteDistinguisher

        res['rd'] = '-' if rd is RouteDistinguisher.NORD else hx(bytes(rd.pack_rd()))
        res['json'] = nlri.json()
        res['ext'] = nlri.extensive()
        try:
            res['json_ok'] = isinstance(json.loads(res['json']), dict)
        except Exception:
            res['json_ok'] = False
    except Exception as e:
        res['status'] = 'render-raise'
        res['error'] = f'{type(e).__name__}: {e}'[:160]
    return res


# ---------------------------------------------------------------------------------------------
# abstract vocabulary


def show_tcomp(c: tuple) -> str:
    return ':'.join(str(x) for x in c)


def show_comp(c: tuple) -> str:
    if c[0] == 'op':
        return f'op:{c[1]}:' + ','.join(f'{f}/{v}' for f, v in c[2])
    return ':'.join(str(x) for x in c)


def parse_comp(s: str) -> tuple:
    p = s.split(':')
    if p[0] == 'op':
        return ('op', int(p[1]), [tuple(int(x) for x in t.split('/')) for t in p[2].split(',')])
    return (p[0],) + tuple(int(x) for x in p[1:])


def flags_to_f(kind: int, flags: int, first: bool) -> int:
    """IOperation.operations -> abstract f (and, lt, gt, eq). RFC 8955: the AND bit of the first operator
    is always unset; the lt position is a reserved bit for bitmask operators."""
    a = 0 if first else (flags >> 6) & 1
    lt = (flags >> 2) & 1 if kind == 1 else 0
    return a * 8 + lt * 4 + ((flags >> 1) & 1) * 2 + (flags & 1)


def to_rule(tcomps: list[tuple]) -> list[tuple]:
    """What the operator wrote, as an abstract rule: one component per ID in ascending order, the operator
    lists of a repeated keyword concatenated, a prefix as the `len - off` pattern bits it selects.
    Written independently of the Lean `toRule` (the correspondence compares the two)."""
    rule = []
    for cid in range(1, 14):
        group = [c for c in tcomps if c[1] == cid]
        if not group:
            continue
        if cid in (1, 2):
            for c in group:  # a repeated prefix keyword stays repeated (and is then not a well-formed rule)
                if c[0] == 't4':
                    _, ty, addr, ln = c
                    pat = (addr >> max(32 - ln, 0)) & ((1 << ln) - 1) if ln <= 32 else addr
                    rule.append(('p4', ty, ln, pat))
                else:
                    _, ty, addr, ln, off = c
                    bits = max(ln - off, 0)
                    pat = (addr >> max(128 - ln, 0)) & ((1 << bits) - 1) if ln <= 128 else addr
                    rule.append(('p6', ty, ln, off, pat))
        else:
            kind = KIND[cid]
            terms = []
            for i, c in enumerate(group):
                terms.append((flags_to_f(kind, c[2], i == 0), c[3]))
            rule.append(('op', cid, terms))
    return rule


NUM_OPS = {1: '=', 2: '>', 4: '<', 3: '>=', 5: '<=', 6: '!=', 7: 'true', 0: 'false'}
BIN_OPS = {0: '', 2: '!', 1: '=', 3: '!='}


def ip4(addr: int) -> str:
    return str(ipaddress.IPv4Address(addr))


def ip6(addr: int) -> str:
    return str(ipaddress.IPv6Address(addr))
