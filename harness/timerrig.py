"""Rig for M-Timer (C12 part a): the REAL `ReceiveTimer`, `SendTimer` and `KA` classes of /repo, with
the `time` name of `exabgp.bgp.timer` replaced by a settable clock, a real `Protocol` whose
connection captures what `new_keepalive` writes, and the real `Peer._read_open` under a
virtual-time event loop.

The rig speaks the same line protocol as `drv_timer` (see lean/ExaModel/Driver/Timer.lean), so one
script can be given to both and the answers diffed line by line:

  timer init <H> <tRecvMs> <tSendMs> | rinit <H> <code> <sub> <t> | sinit <H> <t>
  timer check <t> <kind> | recv <t> <kind> | need <t> | send <t> <netok> | poll <t> <kind> | state
  timer out <t> <update|eor|refresh|operational>   ExaBGP itself writes, through the REAL Protocol.new_update_generator
                                                   → Protocol.send / new_eor / new_refresh / new_operational of the Protocol the KA uses
  timer estab-recv <local> <peer> <t> | estab-send <local> <peer> <t>   timers created from a Negotiated fed with two real OPENs
  timer keepalive <H> | kind <name> | openwait <waitS> <arrivalMs|never>

`run_establishment` drives the real `Peer.run()` (through harness/sessionrig.py: socketpair, scripted
remote, virtual time) and records every call the peer makes on its own ReceiveTimer / SendTimer.

Reusable by the session rig (part b): `TimerRig().line('timer init 90 0 0')`, `…line('timer poll 30000 nop')`.
"""

from __future__ import annotations

import asyncio
import heapq
import selectors
from typing import Any

from exabgp.bgp import timer as timer_mod
from exabgp.bgp.message import Message, KeepAlive, Notify, _NOP
from exabgp.bgp.message.scheduling import _AWAKE, _DONE
from exabgp.bgp.message.open.holdtime import HoldTime
from exabgp.reactor.keepalive import KA
from exabgp.reactor.network.error import NetworkError

from harness import sessions


class Clock:
    """Stands for the `time` module inside exabgp.bgp.timer: `time.time()` = ms / 1000 (a float,
    as the real one), so the code's own `int(time.time())` does the truncation."""

    def __init__(self) -> None:
        self.ms = 0

    def time(self) -> float:
        return self.ms / 1000.0


class VirtualLoop(asyncio.SelectorEventLoop):
    """Event loop whose clock jumps to the next timer when nothing is ready."""

    def __init__(self) -> None:
        super().__init__(selectors.DefaultSelector())
        self._vnow = 1_000_000.0

    def time(self) -> float:
        return self._vnow

    def _run_once(self) -> None:
        while self._scheduled and self._scheduled[0]._cancelled:
            h = heapq.heappop(self._scheduled)
            h._scheduled = False
            self._timer_cancelled_count = max(0, self._timer_cancelled_count - 1)
        if not self._ready and self._scheduled:
            events = self._selector.select(0)
            if events:
                self._process_events(events)
            elif self._scheduled[0]._when > self._vnow:
                self._vnow = self._scheduled[0]._when
        super()._run_once()


class _Conn(sessions.CaptureConnection):
    """Capture connection that stamps every write with the rig clock and can be made to fail."""

    def __init__(self, clock: Clock) -> None:
        super().__init__()
        self.clock = clock
        self.fail = False
        self.writes: list[tuple[int, bytes]] = []

    async def writer_async(self, raw: bytes) -> None:
        if self.fail:
            raise NetworkError('rig: write failed')
        self.writes.append((self.clock.ms, bytes(raw)))


_shared: dict[str, Any] = {}


def _session_objects() -> tuple[Any, Any, Any]:
    """One real neighbor / Negotiated / Peer+Protocol for the whole run (building them is slow)."""
    if not _shared:
        cfg, n = sessions.make_config()
        neg = sessions.negotiate(n)
        peer, proto = sessions.make_peer(n, neg)
        _shared.update(cfg=cfg, n=n, neg=neg, peer=peer, proto=proto, serial=0)
    return _shared['neg'], _shared['peer'], _shared['proto']


def _open_with_hold(hold: int, peer_side: bool) -> Any:
    """A real OPEN carrying `hold`; the peer's one goes through the wire (pack + unpack)."""
    n = _shared['n']
    if not peer_side:
        saved = n.hold_time
        n.hold_time = HoldTime(hold)
        try:
            return sessions.open_of(n)
        finally:
            n.hold_time = saved
    if 'pn' not in _shared:
        _, pn = sessions.make_config(local_as=65001, peer_as=65000, local_address='127.0.0.2', peer_address='127.0.0.1')
        from exabgp.bgp.message.open.routerid import RouterID

        pn.session.router_id = RouterID('2.2.2.2')
        _shared['pn'] = pn
    pn = _shared['pn']
    from exabgp.bgp.message.direction import Direction
    from exabgp.bgp.message.open.capability.negotiated import Negotiated

    pn.hold_time = HoldTime(hold)
    raw = sessions.open_of(pn).pack_message(Negotiated.make_negotiated(pn, Direction.OUT))
    return Message.unpack(1, raw[19:], _shared['neg'])


def kind_objects() -> dict[str, Any]:
    """name (as in the generated table) -> a real message object of that kind."""
    if 'kinds' in _shared:
        return _shared['kinds']
    neg, peer, proto = _session_objects()
    k: dict[str, Any] = {'nop': _NOP, 'awake': _AWAKE, 'done': _DONE}
    k['keepalive'] = Message.unpack(4, b'', neg)
    k['update'] = Message.unpack(2, b'\x00\x00\x00\x00', neg)  # what read_message returns for an (empty) UPDATE
    k['refresh'] = Message.unpack(5, b'\x00\x01\x00\x01', neg)
    k['notification'] = Message.unpack(3, b'\x06\x02', neg)
    k['open'] = sessions.open_of(_shared['n'])
    k['operational'] = Message.registered_message[Message.CODE.OPERATIONAL]  # class: only TYPE / SCHEDULING are read
    assert isinstance(k['keepalive'], KeepAlive)
    _shared['kinds'] = k
    return k


class TimerRig:
    def __init__(self) -> None:
        self.clock = Clock()
        self.neg, self.peer, self.proto = _session_objects()
        self.conn = _Conn(self.clock)
        self.proto.connection = self.conn
        self.kinds = kind_objects()
        self.loop = asyncio.new_event_loop()
        self._saved_time = timer_mod.time
        timer_mod.time = self.clock
        self._saved_hold = self.neg.holdtime
        self.recv: Any = None
        self.ka: Any = None
        self.closed: tuple[int, int, int] | None = None
        self.line('timer init 0 0 0')

    def close(self) -> None:
        timer_mod.time = self._saved_time
        self.neg.holdtime = self._saved_hold
        self.loop.close()

    # -- construction (the calls `_establish` and `_main` make)
    def _rinit(self, hold: int, code: int, sub: int, t: int) -> None:
        self.clock.ms = t
        self.neg.holdtime = HoldTime(hold)
        self.recv = timer_mod.ReceiveTimer(self.proto.connection.session, self.proto.negotiated.holdtime, code, sub)
        self.closed = None

    def _sinit(self, hold: int, t: int) -> None:
        self.clock.ms = t
        self.neg.holdtime = HoldTime(hold)
        self.ka = KA(self.proto.connection.session, self.proto)

    def _negotiate(self, local: int, peer: int) -> None:
        """Feed the real Negotiated with our OPEN (hold `local`) and the peer's (hold `peer`): it computes
        `holdtime` itself; the timers are then built from `proto.negotiated.holdtime` as the peer does."""
        self.neg.sent(_open_with_hold(local, False))
        self.neg.received(_open_with_hold(peer, True))

    def _out(self, what: str) -> None:
        """ExaBGP writes a message through the real send paths of the Protocol the KA object uses."""
        from exabgp.protocol.family import AFI, SAFI

        n, cfg = _shared['n'], _shared['cfg']
        before = len(self.conn.writes)
        if what == 'update':
            _shared['serial'] += 1
            k = _shared['serial']
            r = cfg.parse_route_text(f'route 10.{k // 250 % 250}.{k % 250}.0/24 next-hop 192.0.2.1 med {k}')[0]
            r = n.resolve_self(r)
            n.rib.outgoing.add_to_rib(r, True)

            async def drain() -> None:
                async for _ in self.proto.new_update_generator(True):
                    pass

            self.loop.run_until_complete(drain())
            want = 2
        elif what == 'eor':
            self.loop.run_until_complete(self.proto.new_eor(AFI.ipv4, SAFI.unicast))
            want = 2
        elif what == 'refresh':
            self.loop.run_until_complete(self.proto.new_refresh(self.kinds['refresh']))
            want = 5
        elif what == 'operational':
            from exabgp.bgp.message.operational import Advisory

            adm = Advisory.ADM(AFI.ipv4, SAFI.unicast, 'rig')
            self.loop.run_until_complete(self.proto.new_operational(adm, self.proto.negotiated))
            want = 6
        else:
            raise KeyError(what)
        new = self.conn.writes[before:]
        if not new or any(raw[18] != want for _, raw in new):
            raise RuntimeError(f'rig: out {what} wrote {[raw[18] for _, raw in new]}')

    def state(self) -> str:
        r, s = self.recv, self.ka.send_timer
        c = '-' if self.closed is None else '%d:%d:%d' % self.closed
        return 'r=%d,%d,%d,%d,%d,%d s=%d,%d,%d c=%s' % (int(r.holdtime), r.code, r.subcode, r.last_read, r.last_print, int(r.single), s.keepalive, s.last_print, s.last_sent, c)

    def _send(self, netok: bool) -> str:
        self.conn.fail = not netok
        try:
            return 'true' if self.loop.run_until_complete(self.ka.send_if_needed()) else 'false'
        except Notify as e:
            return f'notify {e.code} {e.subcode}'
        finally:
            self.conn.fail = False

    def line(self, text: str) -> str:
        ws = text.split()
        if len(ws) < 2 or ws[0] != 'timer':
            return 'bad-op'
        op, a = ws[1], ws[2:]
        try:
            if op == 'init' and len(a) == 3:
                h, tr, ts = map(int, a)
                code, sub = 4, 0  # what Peer._establish passes (checked against the generated table by the check)
                self._rinit(h, code, sub, tr)
                self._sinit(h, ts)
                return 'ok ; ' + self.state()
            if op == 'rinit' and len(a) == 4:
                self._rinit(*map(int, a))
                return 'ok ; ' + self.state()
            if op == 'sinit' and len(a) == 2:
                self._sinit(*map(int, a))
                return 'ok ; ' + self.state()
            if op == 'check' and len(a) == 2:
                self.clock.ms = int(a[0])
                try:
                    res = 'true' if self.recv.check_ka_timer(self.kinds[a[1]]) else 'false'
                except Notify as e:
                    res = f'notify {e.code} {e.subcode}'
                return res + ' ; ' + self.state()
            if op == 'recv' and len(a) == 2:
                self.clock.ms = int(a[0])
                try:
                    self.recv.check_ka(self.kinds[a[1]])
                    res = 'ok'
                except Notify as e:
                    res = f'notify {e.code} {e.subcode}'
                return res + ' ; ' + self.state()
            if op == 'need' and len(a) == 1:
                self.clock.ms = int(a[0])
                res = 'true' if self.ka.send_timer.need_ka() else 'false'
                return res + ' ; ' + self.state()
            if op == 'send' and len(a) == 2 and a[1] in '01':
                self.clock.ms = int(a[0])
                return self._send(a[1] == '1') + ' ; ' + self.state()
            if op == 'poll' and len(a) == 2:
                # the two timer lines of the `while` loop of Peer._main, and `_run`'s `except Notify`
                if self.closed is not None:
                    return 'dead ; ' + self.state()
                self.clock.ms = int(a[0])
                try:
                    self.recv.check_ka(self.kinds[a[1]])
                    sent = self.loop.run_until_complete(self.ka.send_if_needed())
                    res = 'ka' if sent else 'idle'
                except Notify as e:
                    self.closed = (self.clock.ms, e.code, e.subcode)
                    res = f'notify {e.code} {e.subcode}'
                return res + ' ; ' + self.state()
            if op == 'out' and len(a) == 2:
                self.clock.ms = int(a[0])
                self._out(a[1])
                return 'idle ; ' + self.state()
            if op == 'estab-recv' and len(a) == 3:
                local, peer, t = map(int, a)
                self._negotiate(local, peer)
                self.clock.ms = t
                self.recv = timer_mod.ReceiveTimer(self.proto.connection.session, self.proto.negotiated.holdtime, 4, 0)
                self.closed = None
                return 'ok ; ' + self.state()
            if op == 'estab-send' and len(a) == 3:
                local, peer, t = map(int, a)
                self._negotiate(local, peer)
                self.clock.ms = t
                self.ka = KA(self.proto.connection.session, self.proto)
                return 'ok ; ' + self.state()
            if op == 'state' and not a:
                return self.state()
            if op == 'keepalive' and len(a) == 1:
                return str(HoldTime(int(a[0])).keepalive())
            if op == 'kind' and len(a) == 1:
                m = self.kinds[a[0]]
                return f'{m.TYPE[0]} {int(m.SCHEDULING)}'
            if op == 'openwait' and len(a) == 2:
                return open_wait(int(a[0]), None if a[1] == 'never' else int(a[1]))
        except (KeyError, ValueError):
            return 'bad-op'
        return 'bad-op'


def open_wait(wait_s: int, arrival_ms: int | None) -> str:
    """The real `Peer._read_open` with `exabgp.bgp.openwait = wait_s`; the peer's OPEN is complete
    `arrival_ms` after the call (never if None). Virtual time: costs microseconds."""
    from exabgp.environment import getenv

    neg, peer, proto = _session_objects()
    the_open = kind_objects()['open']

    async def read_open(ip: str) -> Any:
        if arrival_ms is None:
            await asyncio.Event().wait()
        await asyncio.sleep(arrival_ms / 1000.0)
        return the_open

    env = getenv()
    saved = env.bgp.openwait
    saved_ro = proto.__dict__.get('read_open')
    env.bgp.openwait = wait_s
    proto.read_open = read_open
    loop = VirtualLoop()
    try:
        t0 = loop.time()
        try:
            got = loop.run_until_complete(peer._read_open())
            assert got is the_open
            res = 'opened'
        except Notify as e:
            res = f'notify {e.code} {e.subcode}'
            # the timeout must have fired at the configured wait, not earlier or later
            assert abs((loop.time() - t0) - wait_s) < 1e-6, (loop.time() - t0, wait_s)
        return res
    finally:
        loop.close()
        env.bgp.openwait = saved
        if saved_ro is None:
            del proto.__dict__['read_open']
        else:
            proto.read_open = saved_ro


# ---------------------------------------------------------------------------------------------
# establishment stream: the real Peer.run() under virtual time, observed at its own timers


def _ms_of(t: float) -> int:
    """Clock reading (float seconds) → integer ms such that ms // 1000 == int(t), i.e. the model is
    given exactly the whole second the code saw (floats near a second boundary)."""
    sec = int(t)
    ms = int(round(t * 1000))
    if ms // 1000 < sec:
        ms = sec * 1000
    elif ms // 1000 > sec:
        ms = sec * 1000 + 999
    return ms


class TimerRecorder:
    """Wraps (from outside) the methods of ReceiveTimer / SendTimer for the duration of a scenario and
    records every call the peer makes on them, with the clock reading and the object's state after."""

    def __init__(self) -> None:
        self.records: list[dict] = []
        self.oc: dict | None = None  # the OPENCONFIRM wait: {'tW', 'reads': [(t, kind)], 'out'}
        self._in_oc = False
        self._saved: dict = {}
        self._nested = 0
        kinds = kind_objects()
        self._names = {(m.TYPE[0], int(m.SCHEDULING)): name for name, m in kinds.items()}

    def _now(self) -> int:
        return _ms_of(timer_mod.time.time())

    def _kind(self, m: Any) -> str:
        return self._names.get((m.TYPE[0], int(m.SCHEDULING)), f'?{m.TYPE[0]}/{int(m.SCHEDULING)}')

    @staticmethod
    def _r(o: Any) -> str:
        return '%d,%d,%d,%d,%d,%d' % (int(o.holdtime), o.code, o.subcode, o.last_read, o.last_print, int(o.single))

    @staticmethod
    def _s(o: Any) -> str:
        return '%d,%d,%d' % (o.keepalive, o.last_print, o.last_sent)

    def __enter__(self) -> 'TimerRecorder':
        RT, ST = timer_mod.ReceiveTimer, timer_mod.SendTimer
        self._saved = {(RT, n): getattr(RT, n) for n in ('__init__', 'check_ka_timer', 'check_ka')}
        self._saved.update({(ST, n): getattr(ST, n) for n in ('__init__', 'need_ka')})
        rec = self

        def r_init(obj: Any, *a: Any, **k: Any) -> None:
            t = rec._now()
            rec._saved[(RT, '__init__')](obj, *a, **k)
            rec.records.append({'op': 'rinit', 't': t, 'state': rec._r(obj)})

        def call(obj: Any, name: str, op: str, message: Any) -> Any:
            t = rec._now()
            outer = rec._nested == 0
            rec._nested += 1
            try:
                res = rec._saved[(RT, name)](obj, message)
                out = 'ok' if name == 'check_ka' else ('true' if res else 'false')
                return res
            except Notify as e:
                out = f'notify {e.code} {e.subcode}'
                raise
            finally:
                rec._nested -= 1
                if outer:
                    rec.records.append({'op': op, 't': t, 'kind': rec._kind(message), 'res': out, 'state': rec._r(obj)})

        def check_ka_timer(obj: Any, message: Any = _NOP) -> bool:
            return call(obj, 'check_ka_timer', 'check', message)

        def check_ka(obj: Any, message: Any = _NOP) -> None:
            return call(obj, 'check_ka', 'recv', message)

        def s_init(obj: Any, *a: Any, **k: Any) -> None:
            t = rec._now()
            rec._saved[(ST, '__init__')](obj, *a, **k)
            rec.records.append({'op': 'sinit', 't': t, 'state': rec._s(obj)})

        def need_ka(obj: Any) -> bool:
            t = rec._now()
            res = rec._saved[(ST, 'need_ka')](obj)
            rec.records.append({'op': 'need', 't': t, 'res': 'true' if res else 'false', 'state': rec._s(obj)})
            return res

        RT.__init__, RT.check_ka_timer, RT.check_ka = r_init, check_ka_timer, check_ka  # type: ignore[method-assign]
        ST.__init__, ST.need_ka = s_init, need_ka  # type: ignore[method-assign]

        # OPENCONFIRM: Peer._read_ka (entry = the wait begins; exit = established / Notify) and what
        # Protocol.read_message hands to read_keepalive meanwhile
        from exabgp.reactor.peer.peer import Peer
        from exabgp.reactor.protocol import Protocol

        self._saved[(Peer, '_read_ka')] = Peer._read_ka
        self._saved[(Protocol, 'read_message')] = Protocol.read_message

        async def _read_ka(peer: Any) -> None:
            rec.oc = {'tW': rec._now(), 'reads': [], 'out': 'waiting'}
            rec._in_oc = True
            try:
                r = await rec._saved[(Peer, '_read_ka')](peer)
                rec.oc['out'] = f'established {rec._now()}'
                return r
            except Notify as e:
                rec.oc['out'] = f'notify {rec._now()} {e.code} {e.subcode}'
                raise
            finally:
                rec._in_oc = False

        async def read_message(proto: Any) -> Any:
            m = await rec._saved[(Protocol, 'read_message')](proto)
            if rec._in_oc:
                rec.oc['reads'].append((rec._now(), rec._kind(m)))
            return m

        Peer._read_ka = _read_ka  # type: ignore[method-assign]
        Protocol.read_message = read_message  # type: ignore[method-assign]
        return self

    def __exit__(self, *a: Any) -> None:
        for (klass, name), f in self._saved.items():
            setattr(klass, name, f)


def run_establishment(local: int, peer: int, arrivals_ms: list[int], arrival_kind: str = 'keepalive', routes: int = 0, until_ms: int | None = None, stage: str = 'established', api_events: list | None = None, cfg_extra: dict | None = None) -> dict:
    """Real OPEN exchange (our hold time `local`, the peer's `peer`), real `_establish` and `_main` of a
    real Peer over a socketpair under virtual time (harness/sessionrig.run_hold_scenario); the remote
    writes `arrival_kind` at `arrivals_ms` after ESTABLISHED and is silent otherwise.  With
    `stage='openconfirm'` the remote sends only its OPEN: the arrivals are counted from the moment the
    peer sits in OPENCONFIRM, and the first one (if any) is what ends the wait of `Peer._read_ka`.
    Returns the scenario result plus 'records' (calls on the peer's own timers), 'oc' (the OPENCONFIRM
    wait as the peer lived it: entry time, every read_message result with its clock reading, outcome)
    and 'until_ms'."""
    from harness import sessionrig

    sessionrig.install()
    h = min(local, peer)
    if until_ms is None:
        last = max(arrivals_ms) if arrivals_ms else 0
        until_ms = last + ((h + 5) * 1000 if h else (max(local, peer) + 8) * 1000)
    with TimerRecorder() as rec:
        res = sessionrig.run_hold_scenario(local, list(arrivals_ms), until_ms=until_ms, stage=stage, peer_hold=peer, routes=routes, arrival_kind=arrival_kind, api_events=api_events, cfg_extra=cfg_extra)
    res['records'] = rec.records
    res['oc'] = rec.oc
    res['until_ms'] = until_ms
    return res


def establishment_lines(local: int, peer: int, records: list[dict]) -> tuple[list[str], list[str]]:
    """The recorded calls as a model script, and what the implementation answered, line for line
    (`<result> <own timer state>`)."""
    lines, impl = [], []
    for r in records:
        op = r['op']
        if op == 'rinit':
            lines.append(f'timer estab-recv {local} {peer} {r["t"]}')
            impl.append('ok r=' + r['state'])
        elif op == 'sinit':
            lines.append(f'timer estab-send {local} {peer} {r["t"]}')
            impl.append('ok s=' + r['state'])
        elif op in ('check', 'recv'):
            lines.append(f'timer {op} {r["t"]} {r["kind"]}')
            impl.append(r['res'] + ' r=' + r['state'])
        elif op == 'need':
            lines.append(f'timer need {r["t"]}')
            impl.append(r['res'] + ' s=' + r['state'])
    return lines, impl


def openconfirm_line(local: int, peer: int, oc: dict, until_ms: int) -> str:
    """The OPENCONFIRM wait the peer lived, as one model query. `now`: the end of the observation is at
    least `until_ms` after the wait began (and not before whatever happened)."""
    now = oc['tW'] + until_ms
    for t, _ in oc['reads']:
        now = max(now, t)
    if oc['out'] != 'waiting':
        now = max(now, int(oc['out'].split()[1]))
    arr = ','.join(f'{t}:{k}' for t, k in oc['reads']) or '-'
    return f'timer openconfirm {local} {peer} {oc["tW"]} {now} {arr}'


def model_view(op_line: str, model_answer: str) -> str:
    """Reduce a driver answer `<res> ; r=… s=… c=…` to the part the recorded call can be compared with."""
    if ' ; ' not in model_answer:
        return model_answer
    res, st = model_answer.split(' ; ')
    parts = dict(x.split('=', 1) for x in st.split(' '))
    which = 's' if op_line.split()[1] in ('estab-send', 'need') else 'r'
    return f'{res} {which}={parts[which]}'
