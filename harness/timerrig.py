"""Rig for M-Timer (C12 part a): the REAL `ReceiveTimer`, `SendTimer` and `KA` classes of /repo, with
the `time` name of `exabgp.bgp.timer` replaced by a settable clock, a real `Protocol` whose
connection captures what `new_keepalive` writes, and the real `Peer._read_open` under a
virtual-time event loop.

The rig speaks the same line protocol as `drv_timer` (see lean/ExaModel/Driver/Timer.lean), so one
script can be given to both and the answers diffed line by line:

  timer init <H> <tRecvMs> <tSendMs> | rinit <H> <code> <sub> <t> | sinit <H> <t>
  timer check <t> <kind> | recv <t> <kind> | need <t> | send <t> <netok> | poll <t> <kind> | state
  timer keepalive <H> | kind <name> | openwait <waitS> <arrivalMs|never>

Reusable by the session rig (part b): `TimerRig().line('timer init 90 0 0')`, `…line('timer poll 30000 nop')`.
"""

from __future__ import annotations

import asyncio
import heapq
import selectors
from typing import Any

from exabgp.bgp import timer as timer_mod
from exabgp.bgp.message import Message, KeepAlive, Notify, _NOP
from exabgp.bgp.message.scheduling import _AWAKE, _DONE
from exabgp.bgp.message.open.holdtime import HoldTime
from exabgp.reactor.keepalive import KA
from exabgp.reactor.network.error import NetworkError

from harness import sessions


class Clock:
    """Stands for the `time` module inside exabgp.bgp.timer: `time.time()` = ms / 1000 (a float,
    as the real one), so the code's own `int(time.time())` does the truncation."""

    def __init__(self) -> None:
        self.ms = 0

    def time(self) -> float:
        return self.ms / 1000.0


class VirtualLoop(asyncio.SelectorEventLoop):
    """Event loop whose clock jumps to the next timer when nothing is ready."""

    def __init__(self) -> None:
        super().__init__(selectors.DefaultSelector())
        self._vnow = 1_000_000.0

    def time(self) -> float:
        return self._vnow

    def _run_once(self) -> None:
        while self._scheduled and self._scheduled[0]._cancelled:
            h = heapq.heappop(self._scheduled)
            h._scheduled = False
            self._timer_cancelled_count = max(0, self._timer_cancelled_count - 1)
        if not self._ready and self._scheduled:
            events = self._selector.select(0)
            if events:
                self._process_events(events)
            elif self._scheduled[0]._when > self._vnow:
                self._vnow = self._scheduled[0]._when
        super()._run_once()


class _Conn(sessions.CaptureConnection):
    """Capture connection that stamps every write with the rig clock and can be made to fail."""

    def __init__(self, clock: Clock) -> None:
        super().__init__()
        self.clock = clock
        self.fail = False
        self.writes: list[tuple[int, bytes]] = []

    async def writer_async(self, raw: bytes) -> None:
        if self.fail:
            raise NetworkError('rig: write failed')
        self.writes.append((self.clock.ms, bytes(raw)))


_shared: dict[str, Any] = {}


def _session_objects() -> tuple[Any, Any, Any]:
    """One real neighbor / Negotiated / Peer+Protocol for the whole run (building them is slow)."""
    if not _shared:
        cfg, n = sessions.make_config()
        neg = sessions.negotiate(n)
        peer, proto = sessions.make_peer(n, neg)
        _shared.update(n=n, neg=neg, peer=peer, proto=proto)
    return _shared['neg'], _shared['peer'], _shared['proto']


def kind_objects() -> dict[str, Any]:
    """name (as in the generated table) -> a real message object of that kind."""
    if 'kinds' in _shared:
        return _shared['kinds']
    neg, peer, proto = _session_objects()
    k: dict[str, Any] = {'nop': _NOP, 'awake': _AWAKE, 'done': _DONE}
    k['keepalive'] = Message.unpack(4, b'', neg)
    k['update'] = Message.unpack(2, b'\x00\x00\x00\x00', neg)  # what read_message returns for an (empty) UPDATE
    k['refresh'] = Message.unpack(5, b'\x00\x01\x00\x01', neg)
    k['notification'] = Message.unpack(3, b'\x06\x02', neg)
    k['open'] = sessions.open_of(_shared['n'])
    k['operational'] = Message.registered_message[Message.CODE.OPERATIONAL]  # class: only TYPE / SCHEDULING are read
    assert isinstance(k['keepalive'], KeepAlive)
    _shared['kinds'] = k
    return k


class TimerRig:
    def __init__(self) -> None:
        self.clock = Clock()
        self.neg, self.peer, self.proto = _session_objects()
        self.conn = _Conn(self.clock)
        self.proto.connection = self.conn
        self.kinds = kind_objects()
        self.loop = asyncio.new_event_loop()
        self._saved_time = timer_mod.time
        timer_mod.time = self.clock
        self._saved_hold = self.neg.holdtime
        self.recv: Any = None
        self.ka: Any = None
        self.closed: tuple[int, int, int] | None = None
        self.line('timer init 0 0 0')

    def close(self) -> None:
        timer_mod.time = self._saved_time
        self.neg.holdtime = self._saved_hold
        self.loop.close()

    # -- construction (the calls `_establish` and `_main` make)
    def _rinit(self, hold: int, code: int, sub: int, t: int) -> None:
        self.clock.ms = t
        self.neg.holdtime = HoldTime(hold)
        self.recv = timer_mod.ReceiveTimer(self.proto.connection.session, self.proto.negotiated.holdtime, code, sub)
        self.closed = None

    def _sinit(self, hold: int, t: int) -> None:
        self.clock.ms = t
        self.neg.holdtime = HoldTime(hold)
        self.ka = KA(self.proto.connection.session, self.proto)

    def state(self) -> str:
        r, s = self.recv, self.ka.send_timer
        c = '-' if self.closed is None else '%d:%d:%d' % self.closed
        return 'r=%d,%d,%d,%d,%d,%d s=%d,%d,%d c=%s' % (int(r.holdtime), r.code, r.subcode, r.last_read, r.last_print, int(r.single), s.keepalive, s.last_print, s.last_sent, c)

    def _send(self, netok: bool) -> str:
        self.conn.fail = not netok
        try:
            return 'true' if self.loop.run_until_complete(self.ka.send_if_needed()) else 'false'
        except Notify as e:
            return f'notify {e.code} {e.subcode}'
        finally:
            self.conn.fail = False

    def line(self, text: str) -> str:
        ws = text.split()
        if len(ws) < 2 or ws[0] != 'timer':
            return 'bad-op'
        op, a = ws[1], ws[2:]
        try:
            if op == 'init' and len(a) == 3:
                h, tr, ts = map(int, a)
                code, sub = 4, 0  # what Peer._establish passes (checked against the generated table by the check)
                self._rinit(h, code, sub, tr)
                self._sinit(h, ts)
                return 'ok ; ' + self.state()
            if op == 'rinit' and len(a) == 4:
                self._rinit(*map(int, a))
                return 'ok ; ' + self.state()
            if op == 'sinit' and len(a) == 2:
                self._sinit(*map(int, a))
                return 'ok ; ' + self.state()
            if op == 'check' and len(a) == 2:
                self.clock.ms = int(a[0])
                try:
                    res = 'true' if self.recv.check_ka_timer(self.kinds[a[1]]) else 'false'
                except Notify as e:
                    res = f'notify {e.code} {e.subcode}'
                return res + ' ; ' + self.state()
            if op == 'recv' and len(a) == 2:
                self.clock.ms = int(a[0])
                try:
                    self.recv.check_ka(self.kinds[a[1]])
                    res = 'ok'
                except Notify as e:
                    res = f'notify {e.code} {e.subcode}'
                return res + ' ; ' + self.state()
            if op == 'need' and len(a) == 1:
                self.clock.ms = int(a[0])
                res = 'true' if self.ka.send_timer.need_ka() else 'false'
                return res + ' ; ' + self.state()
            if op == 'send' and len(a) == 2 and a[1] in '01':
                self.clock.ms = int(a[0])
                return self._send(a[1] == '1') + ' ; ' + self.state()
            if op == 'poll' and len(a) == 2:
                # the two timer lines of the `while` loop of Peer._main, and `_run`'s `except Notify`
                if self.closed is not None:
                    return 'dead ; ' + self.state()
                self.clock.ms = int(a[0])
                try:
                    self.recv.check_ka(self.kinds[a[1]])
                    sent = self.loop.run_until_complete(self.ka.send_if_needed())
                    res = 'ka' if sent else 'idle'
                except Notify as e:
                    self.closed = (self.clock.ms, e.code, e.subcode)
                    res = f'notify {e.code} {e.subcode}'
                return res + ' ; ' + self.state()
            if op == 'state' and not a:
                return self.state()
            if op == 'keepalive' and len(a) == 1:
                return str(HoldTime(int(a[0])).keepalive())
            if op == 'kind' and len(a) == 1:
                m = self.kinds[a[0]]
                return f'{m.TYPE[0]} {int(m.SCHEDULING)}'
            if op == 'openwait' and len(a) == 2:
                return open_wait(int(a[0]), None if a[1] == 'never' else int(a[1]))
        except (KeyError, ValueError):
            return 'bad-op'
        return 'bad-op'


def open_wait(wait_s: int, arrival_ms: int | None) -> str:
    """The real `Peer._read_open` with `exabgp.bgp.openwait = wait_s`; the peer's OPEN is complete
    `arrival_ms` after the call (never if None). Virtual time: costs microseconds."""
    from exabgp.environment import getenv

    neg, peer, proto = _session_objects()
    the_open = kind_objects()['open']

    async def read_open(ip: str) -> Any:
        if arrival_ms is None:
            await asyncio.Event().wait()
        await asyncio.sleep(arrival_ms / 1000.0)
        return the_open

    env = getenv()
    saved = env.bgp.openwait
    saved_ro = proto.__dict__.get('read_open')
    env.bgp.openwait = wait_s
    proto.read_open = read_open
    loop = VirtualLoop()
    try:
        t0 = loop.time()
        try:
            got = loop.run_until_complete(peer._read_open())
            assert got is the_open
            res = 'opened'
        except Notify as e:
            res = f'notify {e.code} {e.subcode}'
            # the timeout must have fired at the configured wait, not earlier or later
            assert abs((loop.time() - t0) - wait_s) < 1e-6, (loop.time() - t0, wait_s)
        return res
    finally:
        loop.close()
        env.bgp.openwait = saved
        if saved_ro is None:
            del proto.__dict__['read_open']
        else:
            proto.read_open = saved_ro
