"""`Peer.handle_connection` of /repo (what an incoming connection meets: refused with 6/3, refused with 6/7, or
adopted after the connection in hand is closed) translated statement by statement into Lean (C05, C10) — see
harness/pylite.py.

Inputs of the kernel, by source text: `self._teardown is not None`, `self.fsm == FSM.ESTABLISHED`,
`self.fsm == FSM.OPENCONFIRM`, `bytes(remote_id) < bytes(local_id)`.  `self.proto` is looked at for its truth value
only (a Protocol object or None): a bool field; `Protocol(self).accept(connection)` is "a protocol object".
`self._close(...)` is recorded in the ghost field `closed`.  The two reads of the BGP identifiers are left out by
name; the log lines, `fsm_runner.clear()` and `_delay.reset()` have no effect on what is modelled."""

from __future__ import annotations

from harness import pylite


def ast_arg_is(fn, call: str, arg: str) -> bool:
    """Is there exactly one call `<call>(<arg>)` in the function?"""
    import ast
    import inspect
    import textwrap

    tree = ast.parse(textwrap.dedent(inspect.getsource(fn)))
    hits = [n for n in ast.walk(tree) if isinstance(n, ast.Call) and ast.unparse(n.func) == call]
    return len(hits) == 1 and len(hits[0].args) == 1 and ast.unparse(hits[0].args[0]) == arg


def generate() -> dict[str, str]:
    from exabgp.reactor.peer.peer import Peer

    fields = {'_restart': 'bool', 'proto': 'bool', 'closed': 'bool'}
    spec = pylite.Spec(
        cls='Peer', fields=fields, ret='none', uses_now=False, object_params=('connection',),
        opaque={
            'self._teardown is not None': ('teardownSet', 'bool'),
            'self.fsm == FSM.ESTABLISHED': ('fsmEstablished', 'bool'),
            'self.fsm == FSM.OPENCONFIRM': ('fsmOpenconfirm', 'bool'),
            'bytes(remote_id) < bytes(local_id)': ('remoteIdLower', 'bool'),
        },
        const_exprs={'Protocol(self).accept(connection)': ('true', 'bool')},
        refusal_calls=('connection.notification',),
        effect_methods={'_close': ('closed', 'true')},
        ignore_calls=('log.', 'self.fsm_runner.', 'self._delay.'),
        skip_prefixes=('local_id = self.neighbor.session.router_id.pack_ip()', 'remote_id = self.proto.negotiated.received_open.router_id.pack_ip()'),
    )
    t = pylite.translate(Peer.handle_connection, spec)
    # ---- can_reconnect: exabgp.tcp.attempts ------------------------------------------------------------------------
    afields = {'max_connection_attempts': 'int', 'connection_attempts': 'int'}
    t2 = pylite.translate(Peer.can_reconnect, pylite.Spec(cls='Attempts', fields=afields, ret='bool', uses_now=False))
    # ---- _reset: what the end of a session leaves behind ------------------------------------------------------------
    rfields = {'_restart': 'bool', '_teardown': 'bool', 'closed': 'bool', 'rib_reset': 'bool'}
    t3 = pylite.translate(
        Peer._reset,
        pylite.Spec(
            cls='Reset', fields=rfields, ret='none', uses_now=False, params={}, object_params=('message', 'error'),
            opaque={'self.neighbor.ephemeral': ('ephemeral', 'bool')},
            const_exprs={'None': ('false', 'bool')},  # `_teardown` is looked at for being set or not: a bool field, None = not set
            effect_methods={'_close': ('closed', 'true'), 'neighbor.reset_rib': ('rib_reset', 'true')},
            ignore_calls=('log.', 'self.fsm_runner.'),
            skip_prefixes=('if self._neighbor:',),  # the neighbor definition of a reload is taken over: M-Reload (C17)
        ),
    )
    # ---- teardown / reestablish / stop: what the API and the reactor ask of a peer ------------------------------------
    from exabgp.bgp.fsm import FSM

    cfields = {'_teardown': 'int', '_restart': 'bool', 'fsm_idle': 'bool'}
    cspec = lambda **kw: pylite.Spec(cls='Control', fields=cfields, ret='none', uses_now=False, slice_fields=True, object_params=('restart_neighbor',),  # noqa: E731
                                     effect_methods={'fsm.change': ('fsm_idle', 'true')}, ignore_calls=('log.', 'self._delay.', 'self.stats.'), **kw)
    t4 = pylite.translate(Peer.teardown, cspec(params={'code': 'int', 'restart': 'bool'}))
    t5 = pylite.translate(Peer.reestablish, cspec())
    t6 = pylite.translate(Peer.stop, cspec())
    idle_ok = ast_arg_is(Peer.stop, 'self.fsm.change', 'FSM.IDLE')
    # ---- _close: what leaving a session does -------------------------------------------------------------------------
    xfields = {'proto': 'bool', 'down_called': 'bool', 'fsm_idle': 'bool', 'proto_closed': 'bool'}
    t7 = pylite.translate(
        Peer._close,
        pylite.Spec(
            cls='Close', fields=xfields, ret='none', uses_now=False, object_params=('message', 'error'),
            opaque={
                'self.fsm not in (FSM.IDLE, FSM.ACTIVE)': ('fsmBeyondActive', 'bool'),
                'self.neighbor.api': ('hasApi', 'bool'),
                "self.neighbor.api['neighbor-changes']": ('neighborChanges', 'bool'),
            },
            const_exprs={'None': ('false', 'bool')},
            effect_methods={'reactor.processes.down': ('down_called', 'true'), 'fsm.change': ('fsm_idle', 'true'), 'proto.close': ('proto_closed', 'true')},
            ignore_calls=('log.', 'self.stats.', 'self._delay.'),
            skip_prefixes=('message = ',),
        ),
    )
    close_idle_ok = ast_arg_is(Peer._close, 'self.fsm.change', 'FSM.IDLE')
    out = [
        '/-! `Peer.handle_connection` of `exabgp/reactor/peer/peer.py`, translated by `harness/pylite.py` (read next to the',
        '    source). `raise c s`: the incoming connection is answered with NOTIFICATION c/s and closed. -/',
        'set_option linter.unusedVariables false',
        'namespace Exa.Generated.PyPeer',
        '',
        pylite.PRELUDE,
        pylite.lean_state_structure('Peer', fields),
        '',
        t.lean,
        pylite.lean_state_structure('Attempts', afields),
        '',
        t2.lean,
        pylite.lean_state_structure('Reset', rfields),
        '',
        t3.lean,
        pylite.lean_state_structure('Control', cfields),
        '',
        '/-- `Peer.stop` hands `FSM.IDLE` to `self.fsm.change` (read from the call) -/',
        f'def stopChangesToIdle : Bool := {"true" if idle_ok else "false"}',
        '',
        t4.lean,
        t5.lean,
        t6.lean,
        pylite.lean_state_structure('Close', xfields),
        '',
        '/-- `Peer._close` hands `FSM.IDLE` to `self.fsm.change` (read from the call) -/',
        f'def closeChangesToIdle : Bool := {"true" if close_idle_ok else "false"}',
        '',
        t7.lean,
        'end Exa.Generated.PyPeer',
        '',
    ]
    return {'PyPeer.lean': '\n'.join(out)}
