"""The timer kernels of /repo translated statement by statement into Lean (C12) — see harness/pylite.py.

  exabgp/bgp/timer.py   ReceiveTimer.check_ka_timer, ReceiveTimer.check_ka, SendTimer.need_ka

`Props/C12.lean` proves that these generated definitions compute what the hand-written model
`Model/Timer.lean` computes (for every state, message kind and clock value), so a change to a
comparison, to the order of the statements or to an operand in timer.py breaks a proof obligation
directly, whatever the correspondence runs happen to sample."""

from __future__ import annotations

from harness import pylite


def generate() -> dict[str, str]:
    from exabgp.bgp import timer as T
    from exabgp.bgp.message import KeepAlive

    assert len(KeepAlive.TYPE) == 1
    recv_fields = {'holdtime': 'int', 'last_print': 'int', 'last_read': 'int', 'code': 'int', 'subcode': 'int', 'single': 'bool'}
    msg = {('message', 'TYPE'): 'int', ('message', 'SCHEDULING'): 'int'}
    consts = {'KeepAlive.TYPE': KeepAlive.TYPE[0]}
    t1 = pylite.translate(T.ReceiveTimer.check_ka_timer, pylite.Spec(cls='ReceiveTimer', fields=recv_fields, attr_params=dict(msg), consts=consts, ret='bool'))
    t2 = pylite.translate(
        T.ReceiveTimer.check_ka,
        pylite.Spec(cls='ReceiveTimer', fields=recv_fields, attr_params=dict(msg), consts=consts, ret='none', methods={'check_ka_timer': t1}),
    )
    send_fields = {'keepalive': 'int', 'last_print': 'int', 'last_sent': 'int'}
    t3 = pylite.translate(T.SendTimer.need_ka, pylite.Spec(cls='SendTimer', fields=send_fields, ret='bool'))
    out = [
        '/-! Python kernels of `exabgp/bgp/timer.py`, translated by `harness/pylite.py` (read next to the source). -/',
        'set_option linter.unusedVariables false',
        'namespace Exa.Generated.PyTimer',
        '',
        pylite.PRELUDE,
        pylite.lean_state_structure('ReceiveTimer', recv_fields),
        '',
        pylite.lean_state_structure('SendTimer', send_fields),
        '',
        t1.lean,
        t2.lean,
        t3.lean,
        'end Exa.Generated.PyTimer',
        '',
    ]
    return {'PyTimer.lean': '\n'.join(out)}
