"""NLRI registry and Family.size: which (afi, safi) have a decoder, next-hop lengths, RD size,
which SAFIs carry labels / a route distinguisher, which families may negotiate ADD-PATH / RFC 8950."""


def generate() -> dict[str, str]:
    import exabgp.bgp.message.update  # noqa: F401
    from exabgp.bgp.message.open.capability.capabilities import Capabilities
    from exabgp.bgp.message.update.nlri.nlri import NLRI
    from exabgp.protocol.family import SAFI, Family

    reg = sorted({(int(a), int(s)) for a, s in NLRI.registered_families})
    assert {f'{a}/{s}' for a, s in NLRI.registered_families} == set(NLRI.registered_nlri), 'registry keys changed'
    size = sorted((int(a), int(s), [int(x) for x in nh], int(rd)) for (a, s), (nh, rd) in Family.size.items())
    safis = sorted({s for _, s in reg} | {s for _, s, _, _ in size})
    has_label = [s for s in safis if SAFI.from_int(s).has_label()]
    has_rd = [s for s in safis if SAFI.from_int(s).has_rd()]
    addpath = [(int(a), int(s)) for a, s in Capabilities._ADD_PATH]
    nexthop = [(int(a), int(s), int(h)) for a, s, h in Capabilities._NEXTHOP]
    lean = 'namespace Exa.Generated.FamilyTable\n\n'
    lean += '/-- `NLRI.registered_nlri`: (afi, safi) with a decoder -/\n'
    lean += 'def registeredNlri : List (Nat × Nat) :=\n  [' + ', '.join(f'({a}, {s})' for a, s in reg) + ']\n\n'
    lean += '/-- `Family.size`: (afi, safi, allowed next-hop lengths, RD size) -/\n'
    lean += 'def familySize : List (Nat × Nat × List Nat × Nat) :=\n  [' + ',\n   '.join(f'({a}, {s}, {nh}, {rd})' for a, s, nh, rd in size) + ']\n\n'
    lean += f'/-- SAFIs for which `SAFI.has_label()` -/\ndef safiHasLabel : List Nat := {has_label}\n'
    lean += f'/-- SAFIs for which `SAFI.has_rd()` -/\ndef safiHasRd : List Nat := {has_rd}\n'
    lean += '/-- `Capabilities._ADD_PATH` -/\ndef addPathFamilies : List (Nat × Nat) :=\n  [' + ', '.join(f'({a}, {s})' for a, s in addpath) + ']\n'
    lean += '/-- `Capabilities._NEXTHOP`: (afi, safi, next-hop afi) -/\ndef extNextHop : List (Nat × Nat × Nat) :=\n  [' + ', '.join(f'({a}, {s}, {h})' for a, s, h in nexthop) + ']\n'
    lean += '\nend Exa.Generated.FamilyTable\n'
    return {'FamilyTable.lean': lean}
