"""Message header constants and the per-type length rule (Message.Length lambdas, read by AST)."""

import ast
import inspect
import textwrap


def generate() -> dict[str, str]:
    from exabgp.bgp.message.message import Message
    from exabgp.bgp.message.open.capability.extended import ExtendedMessage
    from exabgp.reactor.network import connection
    import exabgp.reactor.protocol  # noqa: F401  (imports every message class the reactor registers)

    src = inspect.getsource(Message)
    tree = ast.parse(textwrap.dedent(src))
    rules = []  # (code, op, const)
    ops = {ast.GtE: 'ge', ast.Eq: 'eq', ast.LtE: 'le', ast.Gt: 'gt', ast.Lt: 'lt'}
    found = False
    for node in ast.walk(tree):
        if isinstance(node, ast.AnnAssign) and getattr(node.target, 'id', None) == 'Length':
            found = True
            d = node.value
            assert isinstance(d, ast.Dict)
            for k, v in zip(d.keys, d.values):
                # key: CODE.NAME ; value: lambda _: _ OP const
                assert isinstance(k, ast.Attribute) and isinstance(k.value, ast.Name) and k.value.id == 'CODE', ast.dump(k)
                code = int(getattr(Message.CODE, k.attr))
                assert isinstance(v, ast.Lambda) and len(v.args.args) == 1, ast.dump(v)
                arg = v.args.args[0].arg
                body = v.body
                assert isinstance(body, ast.Compare) and len(body.ops) == 1 and isinstance(body.left, ast.Name) and body.left.id == arg, ast.dump(body)
                assert isinstance(body.comparators[0], ast.Constant) and isinstance(body.comparators[0].value, int)
                rules.append((code, ops[type(body.ops[0])], body.comparators[0].value))
    if not found:
        raise RuntimeError('Message.Length not found')
    # cross-check the AST reading against the live lambdas on a sweep of lengths
    for code, op, c in rules:
        f = Message.Length[code]
        for n in range(0, 70000, 1) if False else list(range(0, 64)) + [4095, 4096, 4097, 65534, 65535, 65536]:
            want = {'ge': n >= c, 'eq': n == c, 'le': n <= c, 'gt': n > c, 'lt': n < c}[op]
            assert bool(f(n)) == want, (code, n)
    assert set(Message.Length) == {r[0] for r in rules}
    default_min = connection.MIN_BGP_MESSAGE_LENGTH
    assert connection._default_length_validator(default_min) and not connection._default_length_validator(default_min - 1)
    known = sorted(int(c) for c in Message.CODE.MESSAGES)
    registered = sorted(int(c) for c in Message.registered_message)
    lean = f'''import ExaModel.Bytes
namespace Exa.Generated.MsgLength

inductive Cmp where | ge | eq | le | gt | lt
deriving DecidableEq, Repr

/-- `Message.Length`: (message type, comparison, constant) -/
def lengthRules : List (Nat × Cmp × Nat) :=
  [{', '.join(f'({c}, Cmp.{o}, {k})' for c, o, k in sorted(rules))}]

/-- `_default_length_validator`: minimum length accepted for a type without a rule -/
def defaultMin : Nat := {default_min}

def headerLen : Nat := {Message.HEADER_LEN}
def marker : List Nat := {list(Message.MARKER)}
def initialSize : Nat := {ExtendedMessage.INITIAL_SIZE}
def extendedSize : Nat := {ExtendedMessage.EXTENDED_SIZE}
/-- `Message.CODE.MESSAGES`: the type codes read_message accepts -/
def knownTypes : List Nat := {known}
/-- `Message.registered_message`: the type codes with a decoder -/
def registeredTypes : List Nat := {registered}

end Exa.Generated.MsgLength
'''
    return {'MsgLength.lean': lean}
