"""Message header constants and the per-type length rule (Message.Length: every validator run on every length)."""



def generate() -> dict[str, str]:
    from exabgp.bgp.message.message import Message
    from exabgp.bgp.message.open.capability.extended import ExtendedMessage
    from exabgp.reactor.network import connection
    import exabgp.reactor.protocol  # noqa: F401  (imports every message class the reactor registers)

    # the rule of every type is MEASURED: the validator is run on every length a header can carry (0 … 65535, and a
    # few beyond) and the set it accepts must be one of `>= c`, `== c`, `<= c` (a rule written `> c` or `< c` is the
    # same set as `>= c + 1` / `<= c - 1`); how the validators are written (lambdas, functions, a table) does not matter
    rules = []  # (code, op, const)
    top = 65535 + 64
    for code, f in sorted(Message.Length.items(), key=lambda kv: int(kv[0])):
        acc = [n for n in range(top + 1) if bool(f(n))]
        if not acc:
            raise RuntimeError(f'Message.Length[{int(code)}] accepts no length at all')
        lo, hi = acc[0], acc[-1]
        if acc != list(range(lo, hi + 1)):
            raise RuntimeError(f'Message.Length[{int(code)}]: the accepted lengths are not an interval')
        if lo == hi:
            rules.append((int(code), 'eq', lo))
        elif hi == top:
            rules.append((int(code), 'ge', lo))
        elif lo == 0:
            rules.append((int(code), 'le', hi))
        else:
            raise RuntimeError(f'Message.Length[{int(code)}]: accepts exactly [{lo}, {hi}], which is none of >= c, == c, <= c')
    assert set(Message.Length) == {r[0] for r in rules}
    default_min = connection.MIN_BGP_MESSAGE_LENGTH
    assert connection._default_length_validator(default_min) and not connection._default_length_validator(default_min - 1)
    known = sorted(int(c) for c in Message.CODE.MESSAGES)
    registered = sorted(int(c) for c in Message.registered_message)
    lean = f'''import ExaModel.Bytes
namespace Exa.Generated.MsgLength

inductive Cmp where | ge | eq | le | gt | lt
deriving DecidableEq, Repr

/-- `Message.Length`: (message type, comparison, constant) -/
def lengthRules : List (Nat × Cmp × Nat) :=
  [{', '.join(f'({c}, Cmp.{o}, {k})' for c, o, k in sorted(rules))}]

/-- `_default_length_validator`: minimum length accepted for a type without a rule -/
def defaultMin : Nat := {default_min}

def headerLen : Nat := {Message.HEADER_LEN}
def marker : List Nat := {list(Message.MARKER)}
def initialSize : Nat := {ExtendedMessage.INITIAL_SIZE}
def extendedSize : Nat := {ExtendedMessage.EXTENDED_SIZE}
/-- `Message.CODE.MESSAGES`: the type codes read_message accepts -/
def knownTypes : List Nat := {known}
/-- `Message.registered_message`: the type codes with a decoder -/
def registeredTypes : List Nat := {registered}

end Exa.Generated.MsgLength
'''
    return {'MsgLength.lean': lean}
