"""`Negotiated.validate` of /repo (the refusals of a peer OPEN after negotiation: 2/2, 2/3, 2/6, multisession) translated
statement by statement into Lean (C07) — see harness/pylite.py.

Inputs of the kernel (declared by source text): the AS numbers, the hold time of the peer's OPEN, and three facts about
the BGP identifiers / the multisession result that are computed elsewhere.  The tail of the method (the family
mismatch list, which refuses nothing) is skipped."""

from __future__ import annotations

from harness import pylite


def generate() -> dict[str, str]:
    from exabgp.bgp.message.open.capability.negotiated import Negotiated
    from exabgp.bgp.message.open.holdtime import HoldTime

    opaque = {
        'neighbor.session.peer_as': ('cfgPeerAs', 'int'),
        'self.peer_as': ('peerAs', 'int'),
        "self.received_open.router_id == RouterID('0.0.0.0')": ('idZero', 'bool'),
        'neighbor.session.local_as': ('cfgLocalAs', 'int'),
        'self.received_open.router_id == neighbor.session.router_id': ('idOurs', 'bool'),
        'self.received_open.hold_time': ('hold', 'int'),
        'isinstance(self.multisession, tuple)': ('msRefused', 'bool'),
    }
    t = pylite.translate(
        Negotiated.validate,
        pylite.Spec(
            cls='Negotiated', fields={}, params={}, object_params=('neighbor',), consts={'HoldTime.MIN': int(HoldTime.MIN)}, ret='none', uses_now=False,
            opaque=opaque, refusal_returns=True, return_map={'self.multisession': ('msCode', 'msSub')},
            skip_prefixes=('sent_mp', 'recv_mp', 's: set', 'r: set', 'mismatch = ', 'for family in mismatch'),
        ),
    )
    out = [
        '/-! `Negotiated.validate` of `exabgp/bgp/message/open/capability/negotiated.py`, translated by `harness/pylite.py`. -/',
        'set_option linter.unusedVariables false',
        'namespace Exa.Generated.PyNego',
        '',
        pylite.PRELUDE,
        pylite.lean_state_structure('Negotiated', {}),
        '',
        t.lean,
        'end Exa.Generated.PyNego',
        '',
    ]
    return {'PyNego.lean': '\n'.join(out)}
