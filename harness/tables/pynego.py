"""`Negotiated.validate` of /repo (the refusals of a peer OPEN after negotiation: 2/2, 2/3, 2/6, multisession) translated
statement by statement into Lean (C07) — see harness/pylite.py.

Inputs of the kernel (declared by source text): the AS numbers, the hold time of the peer's OPEN, and three facts about
the BGP identifiers / the multisession result that are computed elsewhere.  The tail of the method (the family
mismatch list, which refuses nothing) is skipped."""

from __future__ import annotations

from harness import pylite


def generate() -> dict[str, str]:
    from exabgp.bgp.message.open.capability.negotiated import Negotiated
    from exabgp.bgp.message.open.holdtime import HoldTime

    opaque = {
        'neighbor.session.peer_as': ('cfgPeerAs', 'int'),
        'self.peer_as': ('peerAs', 'int'),
        "self.received_open.router_id == RouterID('0.0.0.0')": ('idZero', 'bool'),
        'neighbor.session.local_as': ('cfgLocalAs', 'int'),
        'self.received_open.router_id == neighbor.session.router_id': ('idOurs', 'bool'),
        'self.received_open.hold_time': ('hold', 'int'),
        'isinstance(self.multisession, tuple)': ('msRefused', 'bool'),
    }
    t = pylite.translate(
        Negotiated.validate,
        pylite.Spec(
            cls='Negotiated', fields={}, params={}, object_params=('neighbor',), consts={'HoldTime.MIN': int(HoldTime.MIN)}, ret='none', uses_now=False,
            opaque=opaque, refusal_returns=True, return_map={'self.multisession': ('msCode', 'msSub')},
            skip_prefixes=('sent_mp', 'recv_mp', 's: set', 'r: set', 'mismatch = ', 'for family in mismatch'),
        ),
    )
    # ---- the scalar part of Negotiated._negotiate -----------------------------------------------------------------
    from exabgp.bgp.message.open.capability.extended import ExtendedMessage
    from exabgp.bgp.message.open.capability.refresh import REFRESH

    caps = {'FOUR_BYTES_ASN': 'Asn4', 'OPERATIONAL': 'Operational', 'ENHANCED_ROUTE_REFRESH': 'Enhanced', 'ROUTE_REFRESH': 'Refresh', 'EXTENDED_MESSAGE': 'ExtMsg', 'LINK_LOCAL_NEXTHOP': 'LinkLocal'}
    nopaque = {
        'self.sent_open.hold_time': ('sentHold', 'int'),
        'self.received_open.hold_time': ('recvHold', 'int'),
        'self.sent_open.asn': ('sentAs', 'int'),
        'self.received_open.asn': ('recvAs', 'int'),
        'self.sent_open.capabilities.get(Capability.CODE.FOUR_BYTES_ASN, None)': ('sentAsn4Value', 'int'),
        'self.received_open.capabilities.get(Capability.CODE.FOUR_BYTES_ASN, None)': ('recvAsn4Value', 'int'),
        'isinstance(sent_asn4, ASN)': ('sentAsn4IsAsn', 'bool'),
        'isinstance(asn4_capa, ASN)': ('recvAsn4IsAsn', 'bool'),
    }
    for code, nm in caps.items():
        nopaque[f'self.sent_open.capabilities.announced(Capability.CODE.{code})'] = ('s' + nm, 'bool')
        nopaque[f'self.received_open.capabilities.announced(Capability.CODE.{code})'] = ('r' + nm, 'bool')
    # the inputs are named from `self`: a local such as `sent_capa` is expanded to what it was assigned
    # (`self.sent_open.capabilities`) before an input is recognised, so exchanging the two locals is a change
    nfields = {'holdtime': 'int', 'asn4': 'bool', 'operational': 'bool', 'local_as': 'int', 'peer_as': 'int', 'refresh': 'int', 'msg_size': 'int', 'linklocal_nexthop': 'bool'}
    t2 = pylite.translate(
        Negotiated._negotiate,
        pylite.Spec(
            cls='Negotiating', fields=nfields, ret='none', uses_now=False, opaque=nopaque, slice_fields=True, identity_calls=('HoldTime',),
            consts={'REFRESH.ENHANCED': int(REFRESH.ENHANCED), 'REFRESH.NORMAL': int(REFRESH.NORMAL), 'ExtendedMessage.EXTENDED_SIZE': int(ExtendedMessage.EXTENDED_SIZE)},
        ),
        lean_name='Negotiating.negotiate_scalars',
    )
    init = f'/-- `Negotiated.__init__`: the values `_negotiate` starts from (REFRESH.ABSENT, ExtendedMessage.INITIAL_SIZE) -/\ndef refreshAbsent : Int := {int(REFRESH.ABSENT)}\ndef initialSize : Int := {int(ExtendedMessage.INITIAL_SIZE)}\n'
    # ---- Open.unpack_message: the fixed part of a received OPEN ------------------------------------------------------
    from exabgp.bgp.message import Message
    from exabgp.bgp.message.open import Open
    from exabgp.bgp.message.open.version import Version

    t3 = pylite.translate(
        Open.unpack_message.__func__,
        pylite.Spec(
            cls='OpenFixed', fields={}, ret='bool', uses_now=False, kind='function', object_params=('cls', 'data', 'negotiated'),
            opaque={'len(data)': ('dataLen', 'int'), 'data[0]': ('version', 'int')},
            consts={'cls.MINIMUM_BODY_SIZE': int(Open.MINIMUM_BODY_SIZE), 'Version.BGP_4': int(Version.BGP_4), 'Message.HEADER_LEN': int(Message.HEADER_LEN)},
            # the fixed part is accepted: the optional parameters are read next (M-OpenCodec `decodeOptional`)
            const_exprs={'cls(data[0:9], Capabilities.unpack(data[9:]))': ('true', 'bool')},
        ),
        lean_name='OpenFixed.unpack_message',
    )
    out = [
        '/-! `Negotiated.validate` of `exabgp/bgp/message/open/capability/negotiated.py`, translated by `harness/pylite.py`. -/',
        'set_option linter.unusedVariables false',
        'namespace Exa.Generated.PyNego',
        '',
        pylite.PRELUDE,
        pylite.lean_state_structure('Negotiated', {}),
        '',
        t.lean,
        pylite.lean_state_structure('Negotiating', nfields),
        '',
        init,
        t2.lean,
        pylite.lean_state_structure('OpenFixed', {}),
        '',
        t3.lean,
        'end Exa.Generated.PyNego',
        '',
    ]
    return {'PyNego.lean': '\n'.join(out)}
