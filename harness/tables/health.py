"""healthcheck.py tables: the `States` enum, the state tuples the nested functions of `loop` test
membership in (read by AST), and the argparse defaults of the options the automaton reads."""

import argparse
import ast
import inspect
import textwrap


def _state_tuple(node: ast.expr) -> list[str]:
    assert isinstance(node, ast.Tuple), ast.dump(node)
    out = []
    for e in node.elts:
        assert isinstance(e, ast.Attribute) and isinstance(e.value, ast.Name) and e.value.id == 'States', ast.dump(e)
        out.append(e.attr)
    return out


def _membership_tests(fn: ast.FunctionDef, var: str) -> list[tuple[str, list[str]]]:
    """Every `<var> in (States.X, ...)` / `<var> not in (...)` of a function body, in source order,
    not descending into nested function definitions."""
    found = []

    def walk(node: ast.AST) -> None:
        for child in ast.iter_child_nodes(node):
            if isinstance(child, (ast.FunctionDef, ast.AsyncFunctionDef, ast.Lambda)):
                continue
            if isinstance(child, ast.Compare) and len(child.ops) == 1 and isinstance(child.ops[0], (ast.In, ast.NotIn)):
                if isinstance(child.left, ast.Name) and child.left.id == var and isinstance(child.comparators[0], ast.Tuple):
                    found.append(('in' if isinstance(child.ops[0], ast.In) else 'notin', _state_tuple(child.comparators[0])))
            walk(child)

    walk(fn)
    return found


def generate() -> dict[str, str]:
    from exabgp.application import healthcheck

    names = [s.name for s in healthcheck.States]
    for s in healthcheck.States:
        assert s.value == s.name, s

    tree = ast.parse(textwrap.dedent(inspect.getsource(healthcheck.loop)))
    loop_fn = tree.body[0]
    assert isinstance(loop_fn, ast.FunctionDef) and loop_fn.name == 'loop'
    nested = {n.name: n for n in loop_fn.body if isinstance(n, ast.FunctionDef)}
    for need in ('exabgp', 'trigger', 'one'):
        assert need in nested, f'healthcheck.loop no longer has a nested function {need}'
    # which targets get past the early returns at the top of `exabgp(target)`: the leading `if <test on target>: return`
    # statements are evaluated for every state (any mix of `in` / `not in` a tuple of states, `==`, `!=`, `is`, `is not`)
    def holds(test: ast.expr, name: str) -> bool:
        if isinstance(test, ast.BoolOp):
            vals = [holds(v, name) for v in test.values]
            return all(vals) if isinstance(test.op, ast.And) else any(vals)
        if isinstance(test, ast.UnaryOp) and isinstance(test.op, ast.Not):
            return not holds(test.operand, name)
        assert isinstance(test, ast.Compare) and len(test.ops) == 1 and isinstance(test.left, ast.Name) and test.left.id == 'target', ast.dump(test)
        op, right = test.ops[0], test.comparators[0]
        if isinstance(op, (ast.In, ast.NotIn)):
            member = name in _state_tuple(right)
            return member if isinstance(op, ast.In) else not member
        assert isinstance(right, ast.Attribute) and isinstance(right.value, ast.Name) and right.value.id == 'States', ast.dump(right)
        same = right.attr == name
        if isinstance(op, (ast.Eq, ast.Is)):
            return same
        assert isinstance(op, (ast.NotEq, ast.IsNot)), ast.dump(op)
        return not same

    guards = []
    for st in nested['exabgp'].body:
        if isinstance(st, ast.Expr) and isinstance(st.value, ast.Constant) and isinstance(st.value.value, str):
            continue  # docstring
        if isinstance(st, ast.If) and not st.orelse and len(st.body) == 1 and isinstance(st.body[0], ast.Return) and st.body[0].value is None:
            guards.append(st.test)
            continue
        break
    assert guards, 'exabgp(target) no longer starts with its early returns'
    handled = [n for n in names if not any(holds(g, n) for g in guards)]
    silent: list[str] = []
    tests = _membership_tests(nested['exabgp'], 'target')
    community_swap = [t[1] for t in tests if t[0] == 'in']
    assert ['DOWN', 'DISABLED'] in community_swap, tests
    main_tests = _membership_tests(loop_fn, 'state')
    assert len(main_tests) == 1 and main_tests[0][0] == 'in', main_tests
    fast = main_tests[0][1]

    parser = argparse.ArgumentParser()
    healthcheck.setargs(parser)
    d = {k: parser.get_default(k) for k in ('rise', 'fall', 'up_metric', 'down_metric', 'disabled_metric', 'increase', 'local_preference')}
    for v in d.values():
        assert isinstance(v, int)

    def lst(xs: list[str]) -> str:
        return '[' + ', '.join(f'"{x}"' for x in xs) + ']'

    lean = f'''namespace Exa.Generated.HealthTable

/-- `States` enum of healthcheck.py, in declaration order (value = name) -/
def states : List String := {lst(names)}

/-- `exabgp(target)`: the targets that get past the early returns at the top (evaluated guard by guard for every state) -/
def exabgpHandled : List String := {lst(handled)}
/-- kept for the statement of `c20_tables`: nothing is silent among the above -/
def exabgpSilent : List String := {lst(silent)}
/-- main loop: `if state in (...): time.sleep(options.fast)` -/
def fastSleepStates : List String := {lst(fast)}

/-- argparse defaults -/
def defaultRise : Int := {d['rise']}
def defaultFall : Int := {d['fall']}
def defaultUpMetric : Int := {d['up_metric']}
def defaultDownMetric : Int := {d['down_metric']}
def defaultDisabledMetric : Int := {d['disabled_metric']}
def defaultIncrease : Int := {d['increase']}
def defaultLocalPreference : Int := {d['local_preference']}

end Exa.Generated.HealthTable
'''
    return {'HealthTable.lean': lean}
