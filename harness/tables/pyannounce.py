"""`validate_announce_nlri` of /repo (bgp/message/update/collection.py: "the single source of truth for announce
validation" — what the encoder refuses, what the API applies before it answers and, since /repo 29dac11, what a
configuration file is refused for) translated statement by statement into Lean (C18) — see harness/pylite.py.

Inputs of the kernel, by source text: whether the family is FlowSpec, whether the next hop is the undefined one,
whether the SAFI carries labels / a route distinguisher, whether the NLRI object has none.  The result is `none`
(accepted) or `some k` (refused with the k-th message of the source)."""

from __future__ import annotations

from harness import pylite


def generate() -> dict[str, str]:
    from exabgp.bgp.message.update.collection import validate_announce_nlri

    spec = pylite.Spec(
        cls='Announce', fields={}, ret='refusal', uses_now=False, kind='function', pure=True, object_params=('nlri', 'nexthop'),
        opaque={
            'nlri.safi not in (SAFI.flow_ip, SAFI.flow_vpn)': ('notFlow', 'bool'),
            'nexthop.afi == AFI.undefined': ('nhUndefined', 'bool'),
            'nlri.safi.has_label()': ('safiHasLabel', 'bool'),
            'isinstance(nlri, Label) and nlri.labels is Labels.NOLABEL': ('noLabel', 'bool'),
            'nlri.safi.has_rd()': ('safiHasRd', 'bool'),
            'isinstance(nlri, IPVPN) and nlri.rd is RouteDistinguisher.NORD': ('noRd', 'bool'),
        },
    )
    t = pylite.translate(validate_announce_nlri, spec)
    out = [
        '/-! `validate_announce_nlri` of `exabgp/bgp/message/update/collection.py`, translated by `harness/pylite.py` (read next',
        '    to the source). `none`: the announce is accepted; `some k`: refused with the k-th message of the source. -/',
        'set_option linter.unusedVariables false',
        'namespace Exa.Generated.PyAnnounce',
        '',
        pylite.PRELUDE,
        t.lean,
        'end Exa.Generated.PyAnnounce',
        '',
    ]
    return {'PyAnnounce.lean': '\n'.join(out)}
