"""NLRI and path-attribute registries (C15): every registered (afi, safi) with its decoder class,
every registered attribute (id, flag) with its class, the per-family sub-registries (EVPN, MVPN,
MUP, BGP-LS route types, extended communities, PMSI tunnel types, prefix-SID TLVs, BGP-LS
attribute TLVs, tunnel-encapsulation sub-TLVs) and the framing constants the decoders compare
against (FlowSpec 240/4095/shift, VPLS 17, RTC 32/96/13, SR-policy 12/24, path-id 4, RD sizes)."""

from __future__ import annotations


def _s(x) -> str:
    return '"' + str(x).replace('"', "'") + '"'


def registries() -> dict:
    """The live registries as plain data (also used by harness/roundtriprig.py)."""
    import exabgp.reactor.protocol  # noqa: F401  (imports everything the reactor registers)
    import exabgp.configuration.configuration  # noqa: F401  (... and what the configuration parser registers: the daemon always loads both; without it the result depends on who imported what before)
    from exabgp.bgp.message.update.attribute.attribute import Attribute
    from exabgp.bgp.message.update.attribute.bgpls.linkstate import LinkState
    from exabgp.bgp.message.update.attribute.community.extended.community import ExtendedCommunity, ExtendedCommunityIPv6
    from exabgp.bgp.message.update.attribute.pmsi import PMSI
    from exabgp.bgp.message.update.attribute.sr.prefixsid import PrefixSid
    from exabgp.bgp.message.update.nlri.bgpls.nlri import BGPLS
    from exabgp.bgp.message.update.nlri.evpn.nlri import EVPN
    from exabgp.bgp.message.update.nlri.mup.nlri import MUP
    from exabgp.bgp.message.update.nlri.mvpn.nlri import MVPN
    from exabgp.bgp.message.update.nlri.nlri import NLRI
    from exabgp.protocol.family import AFI, SAFI, Family

    fams = []
    for key, klass in NLRI.registered_nlri.items():
        a, s = key.split('/')
        afi = next(x for x in (AFI.ipv4, AFI.ipv6, AFI.l2vpn, AFI.bgpls) if str(x) == a)
        safi = SAFI.from_int(next(c for c in range(256) if str(SAFI.from_int(c)) == s))
        fams.append((int(afi), int(safi), klass.__name__))
    fams.sort()
    if len(fams) != len(NLRI.registered_nlri):
        raise RuntimeError('family registry keys are not unique after parsing')
    attrs = sorted((int(aid), int(flag), klass.__name__) for (aid, flag), klass in Attribute.registered_attributes.items())
    out = {
        'families': fams,
        'attributes': attrs,
        'evpn': sorted((int(c), k.__name__) for c, k in EVPN.registered_evpn.items()),
        'mvpn': sorted((int(c), k.__name__) for c, k in MVPN.registered_mvpn.items()),
        'mup': sorted((int(key.split(':')[0]), int(key.split(':')[1]), k.__name__) for key, k in MUP.registered_mup.items()),
        'bgpls': sorted((int(c), k.__name__) for c, k in BGPLS.registered_bgpls.items()),
        'extended': sorted((int(t), int(s), k.__name__) for (t, s), k in ExtendedCommunity.registered_extended.items()),
        'extended6': sorted((int(t), int(s), k.__name__) for (t, s), k in (ExtendedCommunityIPv6.registered_extended or {}).items()),
        'pmsi': sorted((int(c), k.__name__) for c, k in PMSI._pmsi_known.items()),
        'prefixsid': sorted((int(c), k.__name__) for c, k in PrefixSid.registered_srids.items()),
        'linkstate': sorted((int(c), k.__name__) for c, k in LinkState.registered_lsids.items()),
        'rd_size': sorted((int(a), int(s), int(v[1])) for (a, s), v in Family.size.items()),
        'has_label': sorted(int(c) for c in range(256) if SAFI.from_int(c).has_label()),
    }
    try:
        from exabgp.bgp.message.update.attribute.tunnel_encap.tlv import TunnelEncapTLV

        reg = getattr(TunnelEncapTLV, 'registered_sub_tlvs', None) or getattr(TunnelEncapTLV, 'registered_subtlvs', {})
        out['tunnel'] = sorted((int(c), k.__name__) for c, k in reg.items())
    except Exception:
        out['tunnel'] = []
    return out


def constants() -> dict:
    from exabgp.bgp.message.update.nlri import flow, inet, ipvpn, rtc, sr_policy, vpls
    from exabgp.bgp.message.update.nlri.evpn.nlri import EVPN
    from exabgp.bgp.message.update.nlri.qualifier.path import PathInfo

    # the two switches of `Flow._encode_length`, read by probing the live method: the smallest payload
    # that takes the two-octet form and the smallest one the encoder refuses
    probe = flow.Flow.make_flow()

    def form(n: int) -> int:
        try:
            return len(bytes(probe._encode_length(bytes(n)))) - n
        except Exception:  # noqa: BLE001
            return 0

    compact_limit = next(n for n in range(0, 5000) if form(n) != 1)
    encode_limit = next(n for n in range(compact_limit, 70000) if form(n) != 2)
    if any(form(n) != 1 for n in range(compact_limit)) or any(form(n) != 2 for n in range(compact_limit, encode_limit)):
        raise RuntimeError('Flow._encode_length is not the two-threshold function the model assumes')
    return {
        'flowCompactLimit': compact_limit,
        'flowEncodeLimit': encode_limit,
        'flowExtendedMask': flow.FLOW_LENGTH_EXTENDED_MASK,
        'flowExtendedValue': flow.FLOW_LENGTH_EXTENDED_VALUE,
        'flowLowerMask': flow.FLOW_LENGTH_LOWER_MASK,
        'flowShift': flow.FLOW_LENGTH_EXTENDED_SHIFT,
        'flowCompactMax': flow.FLOW_LENGTH_COMPACT_MAX,
        'flowExtendedMax': flow.FLOW_LENGTH_EXTENDED_MAX,
        'vplsPayloadSize': vpls.VPLS_PAYLOAD_SIZE,
        'rtcMinBits': rtc.RTC_PREFIX_MIN_BITS,
        'rtcMaxBits': rtc.RTC_PREFIX_MAX_BITS,
        'rtcFullLength': rtc.RTC.PACKED_LENGTH_FULL,
        'srPolicyV4Size': sr_policy._IPV4_NLRI_SIZE,
        'srPolicyV6Size': sr_policy._IPV6_NLRI_SIZE,
        'pathInfoSize': inet.PATH_INFO_SIZE,
        'pathInfoLength': PathInfo.LENGTH,
        'labelSizeBits': inet.LABEL_SIZE_BITS,
        'rdSize': ipvpn.RD_SIZE,
        'evpnHeaderSize': EVPN.HEADER_SIZE,
    }


def generate() -> dict[str, str]:
    r = registries()
    c = constants()
    # the sentinels of the index code, read from the live objects (a replay of the F15 shape in
    # harness/props/C15.py checks the code still uses them)
    lean = 'namespace Exa.Generated.Registry\n\n'
    lean += '/-- `NLRI.registered_nlri`: (afi, safi, decoder class) -/\n'
    lean += 'def families : List (Nat × Nat × String) :=\n  [' + ', '.join(f'({a}, {s}, {_s(k)})' for a, s, k in r['families']) + ']\n\n'
    lean += '/-- `Attribute.registered_attributes`: (attribute id, flag with EXTENDED_LENGTH, class) -/\n'
    lean += 'def attributes : List (Nat × Nat × String) :=\n  [' + ', '.join(f'({a}, {f}, {_s(k)})' for a, f, k in r['attributes']) + ']\n\n'
    for name, doc in (
        ('evpn', '`EVPN.registered_evpn`: route type → class'),
        ('mvpn', '`MVPN.registered_mvpn`: route type → class'),
        ('bgpls', '`BGPLS.registered_bgpls`: NLRI type → class'),
        ('pmsi', '`PMSI._pmsi_known`: tunnel type → class'),
        ('prefixsid', '`PrefixSid.registered_srids`: TLV type → class'),
        ('linkstate', '`LinkState.registered_lsids`: TLV type → class'),
        ('tunnel', 'tunnel-encapsulation sub-TLV registry'),
    ):
        lean += f'/-- {doc} -/\n'
        lean += f'def {name} : List (Nat × String) :=\n  [' + ', '.join(f'({a}, {_s(k)})' for a, k in r[name]) + ']\n\n'
    for name, doc in (
        ('mup', '`MUP.registered_mup`: (architecture, route type) → class'),
        ('extended', '`ExtendedCommunity.registered_extended`: (type & 0x3F… as registered, subtype) → class'),
        ('extended6', '`ExtendedCommunityIPv6.registered_extended`'),
    ):
        lean += f'/-- {doc} -/\n'
        lean += f'def {name} : List (Nat × Nat × String) :=\n  [' + ', '.join(f'({a}, {b}, {_s(k)})' for a, b, k in r[name]) + ']\n\n'
    lean += '/-- `Family.size`: (afi, safi, RD size) -/\n'
    lean += 'def rdSizes : List (Nat × Nat × Nat) :=\n  [' + ', '.join(f'({a}, {s}, {n})' for a, s, n in r['rd_size']) + ']\n\n'
    lean += '/-- SAFIs for which `SAFI.has_label()` -/\n'
    lean += f'def labelSafis : List Nat := {r["has_label"]}\n\n'
    lean += '/-- the BGP-LS NLRI types with a decoder (the VPN form drops the RD only for these) -/\n'
    lean += f'def bgplsCodes : List Nat := {[a for a, _ in r["bgpls"]]}\n\n'
    for k, v in c.items():
        lean += f'def {k} : Nat := {int(v)}\n'
    lean += '\nend Exa.Generated.Registry\n'
    return {'Registry.lean': lean}
