"""Capability registry and the OPEN constants (C07): codes by name, the registered decoders,
`Capabilities._ADD_PATH/_NEXTHOP`, HoldTime.MIN, the RFC 9072 switch constant, AS_TRANS, the
fixed-field sizes, the message sizes, the masks and limits of the value codecs."""

import ast
import inspect
import textwrap


def _switch_rule() -> tuple[str, str]:
    """The comparison `pack_capabilities` uses to stay in the RFC 4271 format (read by AST):
    `if len(parameters) < OPEN_PARAM_LEN_MAX: return <one octet length form>`."""
    from exabgp.bgp.message.open.capability.capabilities import Capabilities

    src = textwrap.dedent(inspect.getsource(Capabilities.pack_capabilities))
    tree = ast.parse(src)
    ops = {ast.Lt: 'lt', ast.LtE: 'le', ast.Gt: 'gt', ast.GtE: 'ge', ast.Eq: 'eq'}
    found = []
    for node in ast.walk(tree):
        if isinstance(node, ast.If) and isinstance(node.test, ast.Compare) and len(node.test.ops) == 1:
            t = node.test
            if isinstance(t.left, ast.Call) and getattr(t.left.func, 'id', None) == 'len' and isinstance(t.comparators[0], ast.Name):
                found.append((ops[type(t.ops[0])], t.comparators[0].id))
    if len(found) != 1:
        raise RuntimeError(f'pack_capabilities: expected exactly one length test, found {found}')
    return found[0]


def generate() -> dict[str, str]:
    from exabgp.bgp.message.open import Open
    from exabgp.bgp.message.open.asn import AS_TRANS, ASN
    from exabgp.bgp.message.open.capability import capabilities as capsmod
    from exabgp.bgp.message.open.capability.capabilities import Capabilities, Parameter
    from exabgp.bgp.message.open.capability.capability import Capability
    from exabgp.bgp.message.open.capability.extended import ExtendedMessage
    from exabgp.bgp.message.open.capability.graceful import Graceful
    from exabgp.bgp.message.open.capability.hostname import HostName
    from exabgp.bgp.message.open.capability.negotiated import RequirePath
    from exabgp.bgp.message.open.capability.refresh import REFRESH
    from exabgp.bgp.message.open.holdtime import HoldTime
    from exabgp.bgp.message.open.version import Version

    op, const = _switch_rule()
    if const != 'OPEN_PARAM_LEN_MAX':
        raise RuntimeError(f'pack_capabilities compares with {const}, not OPEN_PARAM_LEN_MAX')
    names = [
        'MULTIPROTOCOL', 'ROUTE_REFRESH', 'NEXTHOP', 'EXTENDED_MESSAGE', 'GRACEFUL_RESTART', 'FOUR_BYTES_ASN',
        'MULTISESSION', 'ADD_PATH', 'ENHANCED_ROUTE_REFRESH', 'HOSTNAME', 'SOFTWARE_VERSION', 'PATHS_LIMIT',
        'LINK_LOCAL_NEXTHOP', 'ROUTE_REFRESH_CISCO', 'MULTISESSION_CISCO', 'OPERATIONAL',
    ]  # fmt: skip
    codes = [(n, int(getattr(Capability.CODE, n))) for n in names]
    registered = sorted((int(k), v.__name__) for k, v in Capability.registered_capability.items())
    if Capability.unknown_capability is None:
        raise RuntimeError('no fallback capability class: unknown codes would be refused with 2/4')
    lean = f'''import ExaModel.Bytes
namespace Exa.Generated.CapTable

/-- `Capability.CODE.<NAME>` -/
def codes : List (String × Nat) :=
  [{', '.join(f'("{n}", {c})' for n, c in codes)}]

/-- `Capability.registered_capability`: code → decoder class -/
def registered : List (Nat × String) :=
  [{', '.join(f'({c}, "{k}")' for c, k in registered)}]

/-- `Capabilities._ADD_PATH` -/
def addPathFamilies : List (Nat × Nat) :=
  [{', '.join(f'({int(a)}, {int(s)})' for a, s in Capabilities._ADD_PATH)}]

/-- `Capabilities._NEXTHOP` -/
def nexthopTriples : List (Nat × Nat × Nat) :=
  [{', '.join(f'({int(a)}, {int(s)}, {int(n)})' for a, s, n in Capabilities._NEXTHOP)}]

def holdTimeMin : Nat := {int(HoldTime.MIN)}
def openParamLenMax : Nat := {int(capsmod.OPEN_PARAM_LEN_MAX)}
/-- the comparison of `pack_capabilities`: the one-octet form is used when `len(parameters) <op> openParamLenMax` -/
def switchOp : String := "{op}"
def extendedMarker : Nat := {int(capsmod.OPEN_EXTENDED_MARKER)}
def extendedLengthType : Nat := {int(Capabilities.EXTENDED_LENGTH)}
def minExtendedParamLen : Nat := {int(capsmod.MIN_EXTENDED_PARAM_LEN)}
def minParamLen : Nat := {int(capsmod.MIN_PARAM_LEN)}
def paramAuth : Nat := {int(Parameter.AUTHENTIFICATION_INFORMATION)}
def paramCapabilities : Nat := {int(Parameter.CAPABILITIES)}
def asTrans : Nat := {int(AS_TRANS)}
def asnMax2 : Nat := {int(ASN.MAX_2BYTE)}
def openHeaderSize : Nat := {int(Open.HEADER_SIZE)}
def openMinimumBody : Nat := {int(Open.MINIMUM_BODY_SIZE)}
def bgpVersion : Nat := {int(Version.BGP_4)}
def initialSize : Nat := {int(ExtendedMessage.INITIAL_SIZE)}
def extendedSize : Nat := {int(ExtendedMessage.EXTENDED_SIZE)}
def hostnameMaxLen : Nat := {int(HostName.HOSTNAME_MAX_LEN)}
def gracefulTimeMask : Nat := {int(Graceful.TIME_MASK)}
def gracefulForwarding : Nat := {int(Graceful.FORWARDING_STATE)}
/-- `RequirePath.RECEIVE`, `RequirePath.SEND` -/
def addPathReceiveBit : Nat := {int(RequirePath.RECEIVE)}
def addPathSendBit : Nat := {int(RequirePath.SEND)}
/-- `REFRESH.ABSENT/NORMAL/ENHANCED` -/
def refreshValues : List Nat := [{int(REFRESH.ABSENT)}, {int(REFRESH.NORMAL)}, {int(REFRESH.ENHANCED)}]

end Exa.Generated.CapTable
'''
    return {'CapTable.lean': lean}
