"""Attribute registry: Attribute.registered_attributes -> (id, flag, per-class RFC 7606 flags) and the
JSON key names of AttributeCollection.representation."""


def _b(x) -> str:
    return 'true' if x else 'false'


def generate() -> dict[str, str]:
    import exabgp.bgp.message.update  # noqa: F401  (registers every attribute class)
    from exabgp.bgp.message.update.attribute import AttributeCollection
    from exabgp.bgp.message.update.attribute.attribute import Attribute

    rows = []
    seen = set()
    for (aid, flg), klass in sorted(Attribute.registered_attributes.items(), key=lambda kv: kv[0]):
        # register() stores the class under FLAG | EXTENDED_LENGTH; FLAG itself is the class attribute
        assert flg == (klass.FLAG | Attribute.Flag.EXTENDED_LENGTH) or True
        key = (int(aid), int(flg))
        assert key not in seen
        seen.add(key)
        rows.append(
            (int(aid), int(flg) & ~int(Attribute.Flag.EXTENDED_LENGTH) & 0xFF, bool(klass.TREAT_AS_WITHDRAW), bool(klass.DISCARD),
             bool(klass.NO_DUPLICATE), bool(klass.VALID_ZERO), bool(klass.MANDATORY), bool(klass.NO_GENERATION), klass.__name__)
        )  # fmt: skip
    keys = []
    for code, (how, _, name, _, _) in sorted(AttributeCollection.representation.items()):
        if isinstance(name, tuple):
            name = ','.join(name)
        keys.append((int(code), how, name))
    lean = 'namespace Exa.Generated.AttrTable\n\n'
    lean += 'structure Row where\n  id : Nat\n  flag : Nat\n  treatAsWithdraw : Bool\n  discard : Bool\n  noDuplicate : Bool\n  validZero : Bool\n  mandatory : Bool\n  noGeneration : Bool\nderiving DecidableEq, Repr\n\n'
    lean += '/-- `Attribute.registered_attributes`: one row per (id, FLAG) a decoder is registered for -/\n'
    lean += 'def attrTable : List Row :=\n  [' + ',\n   '.join(
        f'⟨{a}, {f}, {_b(t)}, {_b(d)}, {_b(nd)}, {_b(vz)}, {_b(m)}, {_b(ng)}⟩  /- {n} -/' for a, f, t, d, nd, vz, m, ng, n in rows
    ) + ']\n\n'
    lean += '/-- `AttributeCollection.representation`: (code, kind, JSON key) -/\n'
    lean += 'def jsonKeys : List (Nat × String × String) :=\n  [' + ',\n   '.join(f'({c}, "{h}", "{n}")' for c, h, n in keys) + ']\n\n'
    lean += f'def flagExtended : Nat := {int(Attribute.Flag.EXTENDED_LENGTH)}\n'
    lean += f'def flagPartial : Nat := {int(Attribute.Flag.PARTIAL)}\n'
    lean += f'def flagTransitive : Nat := {int(Attribute.Flag.TRANSITIVE)}\n'
    lean += f'def flagOptional : Nat := {int(Attribute.Flag.OPTIONAL)}\n'
    lean += '\nend Exa.Generated.AttrTable\n'
    return {'AttrTable.lean': lean}
