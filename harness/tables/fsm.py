"""FSM.STATE and FSM.transition (bgp/fsm.py) -> Generated/FsmTable.lean.

`FSM.change()` does not enforce the table (the check is commented out); whether it still does not
is recorded too (read by AST), so that an edit which starts enforcing it is visible."""

import ast
import inspect
import textwrap


def generate() -> dict[str, str]:
    from exabgp.bgp.fsm import FSM

    states = [(s.name, int(s)) for s in FSM.STATE]
    table = [(int(to), [int(f) for f in froms]) for to, froms in FSM.transition.items()]
    # does change() raise on a transition which is not in the table?
    src = textwrap.dedent(inspect.getsource(FSM.change))
    tree = ast.parse(src)
    enforced = any(isinstance(n, ast.Raise) for n in ast.walk(tree))
    lean = f'''namespace Exa.Generated.FsmTable

/-- `FSM.STATE`: (name, value) -/
def states : List (String × Nat) :=
  [{', '.join(f'("{n}", {v})' for n, v in states)}]

/-- `FSM.transition`: (to, [from, ...]) by state value -/
def transition : List (Nat × List Nat) :=
  [{', '.join(f'({to}, [{", ".join(map(str, fr))}])' for to, fr in table)}]

/-- does `FSM.change` raise on a transition outside the table? -/
def enforced : Bool := {'true' if enforced else 'false'}

end Exa.Generated.FsmTable
'''
    return {'FsmTable.lean': lean}
