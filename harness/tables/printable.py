"""`str.isprintable()` of the interpreter that runs ExaBGP, as a table of non-printable ranges.

`exabgp.reactor.api.response.text.oneline` decides per character with `character.isprintable()`;
that predicate is a table of the Unicode database CPython was built with.  It is extracted whole
(all of U+0000..U+10FFFF) so that the Lean model of `oneline` (Model/Json.lean) uses the very
predicate the code uses; C13 proves by `decide +kernel` over this table that every C0/C1 control,
DEL, NBSP and the Unicode line/paragraph separators are non-printable (and therefore escaped) and
that on ASCII it is exactly 0x20..0x7E.
"""



def ranges() -> list[tuple[int, int]]:
    rs: list[tuple[int, int]] = []
    start = None
    for c in range(0x110000):
        p = chr(c).isprintable()
        if not p and start is None:
            start = c
        if p and start is not None:
            rs.append((start, c - 1))
            start = None
    if start is not None:
        rs.append((start, 0x10FFFF))
    return rs


def generate() -> dict[str, str]:
    import unicodedata

    # the table is the interpreter's Unicode database only; whether `oneline` still decides with it is what the
    # function correspondence of harness/props/C13.py (text.oneline against the model on every code point class) checks
    rs = ranges()
    rows = ',\n   '.join(', '.join(f'({lo}, {hi})' for lo, hi in rs[i : i + 8]) for i in range(0, len(rs), 8))
    lean = f'''namespace Exa.Generated.Printable

/-- Unicode database version of the interpreter the table was read from. -/
def unidata : String := "{unicodedata.unidata_version}"

/-- inclusive ranges of code points `c` with `chr(c).isprintable() == False`, ascending -/
def nonPrintable : List (Nat × Nat) :=
  [{rows}]

end Exa.Generated.Printable
'''
    return {'Printable.lean': lean}
