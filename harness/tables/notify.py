"""Notification._str_code / _str_subcode (bgp/message/notification.py) -> Generated/NotifyTable.lean."""


def esc(s: str) -> str:
    return s.replace('\\', '\\\\').replace('"', '\\"')


def generate() -> dict[str, str]:
    from exabgp.bgp.message.notification import Notification

    codes = sorted(Notification._str_code.items())
    subs = sorted(Notification._str_subcode.items())
    lean = f'''namespace Exa.Generated.NotifyTable

/-- `Notification._str_code`: (code, text) -/
def codes : List (Nat × String) :=
  [{', '.join(f'({c}, "{esc(t)}")' for c, t in codes)}]

/-- `Notification._str_subcode`: (code, subcode, text) -/
def subcodes : List (Nat × Nat × String) :=
  [{', '.join(f'({c}, {s}, "{esc(t)}")' for (c, s), t in subs)}]

end Exa.Generated.NotifyTable
'''
    return {'NotifyTable.lean': lean}
