"""Constants of the hold / keepalive timers (C12), re-read from /repo on every run.

* `HoldTime.MIN / MAX / KEEPALIVE_DIVISOR`                      (class attributes)
* TYPE byte and SCHEDULING value of every message class the main loop can hand to the timers
  (`_NOP`, `_AWAKE`, `_DONE` and `Message.registered_message`)  (introspection)
* the literals in the source, read by AST:
    `ReceiveTimer(session, holdtime, 4, 0)`        in `Peer._establish`
    `raise Notify(2, 6, …)`                        in `ReceiveTimer.check_ka`
    `raise Notify(4, 0, …)`                        in `KA.send_if_needed`
    `raise Notify(5, 1, …)`                        in `Peer._read_open` (TimeoutError handler)
    `asyncio.wait_for(read_message(), timeout=0.1)` in `Peer._main`
    `asyncio.wait_for(self.proto.read_keepalive(), timeout=int(holdtime) or None)` … `raise Notify(4, 0, …)`
                                                   in `Peer._read_ka` (OPENCONFIRM; absent → `openConfirmHasTimer = false`)
    `raise Notify(5, 2)`                           in `Protocol.read_keepalive` (first message is not a KEEPALIVE)
* default of `exabgp.bgp.openwait`.
Anything that does not have the expected shape raises (= translator error = broken obligation).
"""

from __future__ import annotations

import ast
import inspect
import textwrap


def _fn(tree: ast.AST, name: str) -> ast.AST:
    for node in ast.walk(tree):
        if isinstance(node, (ast.FunctionDef, ast.AsyncFunctionDef)) and node.name == name:
            return node
    raise RuntimeError(f'function {name} not found')


def _calls(node: ast.AST, fname: str) -> list[ast.Call]:
    out = []
    for n in ast.walk(node):
        if isinstance(n, ast.Call):
            f = n.func
            if (isinstance(f, ast.Name) and f.id == fname) or (isinstance(f, ast.Attribute) and f.attr == fname):
                out.append(n)
    return out


def _ints(call: ast.Call, idx: list[int], globs: dict | None = None) -> tuple[int, ...]:
    """Integer arguments of a call: literals, or module-level names bound to integers (`globs`)."""
    vals = []
    for i in idx:
        a = call.args[i]
        if isinstance(a, ast.Constant) and isinstance(a.value, int):
            vals.append(int(a.value))
        elif isinstance(a, ast.Name) and globs is not None and isinstance(globs.get(a.id), int) and not isinstance(globs.get(a.id), bool):
            vals.append(int(globs[a.id]))
        else:
            raise RuntimeError(f'argument {i} of {ast.dump(call)[:80]} is not an integer literal or a module-level integer')
    return tuple(vals)


def _one(xs: list, what: str):
    if len(xs) != 1:
        raise RuntimeError(f'expected exactly one {what}, found {len(xs)}')
    return xs[0]


def generate() -> dict[str, str]:
    from exabgp.bgp.message import Message, KeepAlive, _NOP
    from exabgp.bgp.message.scheduling import _AWAKE, _DONE
    from exabgp.bgp.message.open.holdtime import HoldTime
    from exabgp.bgp import timer as timer_mod
    from exabgp.reactor import keepalive as ka_mod
    from exabgp.reactor.peer import peer as peer_mod
    from exabgp.environment import getenv
    from exabgp.environment.config import BgpSection

    # -- message kinds
    kinds = []
    for name, obj in (('nop', _NOP), ('awake', _AWAKE), ('done', _DONE)):
        kinds.append((name, obj.TYPE[0], int(obj.SCHEDULING)))
    for code, klass in sorted(Message.registered_message.items(), key=lambda kv: int(kv[0])):
        name = Message.CODE.short(int(code)) if hasattr(Message.CODE, 'short') else str(int(code))
        assert len(klass.TYPE) == 1 and klass.TYPE[0] == int(code), (code, klass)
        kinds.append((str(name).lower().replace(' ', '-').replace('_', '-'), klass.TYPE[0], int(klass.SCHEDULING)))
    assert len({k[0] for k in kinds}) == len(kinds), kinds
    assert len(KeepAlive.TYPE) == 1

    # -- literals
    peer_tree = ast.parse(textwrap.dedent(inspect.getsource(peer_mod.Peer)))
    hold = _ints(_one(_calls(_fn(peer_tree, '_establish'), 'ReceiveTimer'), 'ReceiveTimer(...) in _establish'), [2, 3], vars(peer_mod))
    ro = _fn(peer_tree, '_read_open')
    handlers = [h for h in ast.walk(ro) if isinstance(h, ast.ExceptHandler)]
    h = _one(handlers, 'except handler in _read_open')
    assert 'TimeoutError' in ast.dump(h.type), ast.dump(h.type)
    openwait = _ints(_one(_calls(h, 'Notify'), 'Notify in _read_open handler'), [0, 1], vars(peer_mod))
    wf = _one(_calls(ro, 'wait_for'), 'wait_for in _read_open')
    kw = {k.arg: k.value for k in wf.keywords}
    assert isinstance(kw.get('timeout'), ast.Name) and kw['timeout'].id == 'wait', ast.dump(wf)
    assigns = [n for n in ast.walk(ro) if isinstance(n, ast.Assign) and getattr(n.targets[0], 'id', None) == 'wait']
    assert 'openwait' in ast.dump(_one(assigns, 'assignment to wait').value)
    mainfn = _fn(peer_tree, '_main')
    wfm = _one(_calls(mainfn, 'wait_for'), 'wait_for in _main')
    kwm = {k.arg: k.value for k in wfm.keywords}
    assert isinstance(kwm.get('timeout'), ast.Constant), ast.dump(wfm)
    read_timeout_ms = round(float(kwm['timeout'].value) * 1000)
    assert read_timeout_ms / 1000 == float(kwm['timeout'].value)

    # OPENCONFIRM: the wait for the first KEEPALIVE
    rk = _fn(peer_tree, '_read_ka')
    oc_has_timer, oc_notify = False, (0, 0)
    wfs = _calls(rk, 'wait_for')
    if wfs:
        wfk = _one(wfs, 'wait_for in _read_ka')
        assert 'read_keepalive' in ast.dump(wfk.args[0]), ast.dump(wfk)
        kwk = {k.arg: k.value for k in wfk.keywords}
        tmo = kwk.get('timeout')
        # timeout = int(<negotiated hold time>) or None : whole seconds of the hold time, no timer when it is 0
        assert isinstance(tmo, ast.BoolOp) and isinstance(tmo.op, ast.Or) and len(tmo.values) == 2, ast.dump(wfk)
        a, b = tmo.values
        assert isinstance(a, ast.Call) and getattr(a.func, 'id', None) == 'int' and isinstance(a.args[0], ast.Name), ast.dump(a)
        assert isinstance(b, ast.Constant) and b.value is None, ast.dump(b)
        src_var = a.args[0].id
        asg = [n for n in ast.walk(rk) if isinstance(n, ast.Assign) and getattr(n.targets[0], 'id', None) == src_var]
        assert 'negotiated' in ast.dump(_one(asg, f'assignment to {src_var}').value) and 'holdtime' in ast.dump(asg[0].value)
        hk = _one([x for x in ast.walk(rk) if isinstance(x, ast.ExceptHandler)], 'except handler in _read_ka')
        assert 'TimeoutError' in ast.dump(hk.type), ast.dump(hk.type)
        oc_notify = _ints(_one(_calls(hk, 'Notify'), 'Notify in _read_ka handler'), [0, 1], vars(peer_mod))
        oc_has_timer = True
    from exabgp.reactor import protocol as proto_mod

    proto_tree = ast.parse(textwrap.dedent(inspect.getsource(proto_mod.Protocol)))
    oc_unexpected = _ints(_one(_calls(_fn(proto_tree, 'read_keepalive'), 'Notify'), 'Notify in read_keepalive'), [0, 1], vars(proto_mod))

    timer_tree = ast.parse(inspect.getsource(timer_mod))
    h0ka = _ints(_one(_calls(_fn(timer_tree, 'check_ka'), 'Notify'), 'Notify in check_ka'), [0, 1], vars(timer_mod))
    ka_tree = ast.parse(inspect.getsource(ka_mod))
    kanet = _ints(_one(_calls(_fn(ka_tree, 'send_if_needed'), 'Notify'), 'Notify in send_if_needed'), [0, 1], vars(ka_mod))

    # default of the openwait option (class-level option descriptor default)
    default_wait = None
    for attr in ('openwait',):
        opt = BgpSection.__dict__.get(attr)
        default_wait = getattr(opt, 'default', None)
    if not isinstance(default_wait, int):
        default_wait = int(getenv().bgp.openwait)

    # `HoldTime.keepalive()` is written with a true division (`int(self / DIVISOR)`): floating point.  Every hold time a
    # session can have is a 16-bit number, so the method is simply run on all of them and compared with the floor
    # division the model uses; the exceptions (none) are the generated fact.
    ka_deviations = [h for h in range(int(HoldTime.MAX) + 1) if int(HoldTime(h).keepalive()) != h // int(HoldTime.KEEPALIVE_DIVISOR)]
    pair = lambda p: f'({p[0]}, {p[1]})'
    lean = f'''namespace Exa.Generated.TimerTable

/-- the hold times 0 … `HoldTime.MAX` for which `HoldTime(h).keepalive()` (a float division truncated by `int`)
    is not `h / KEEPALIVE_DIVISOR` rounded down: the real method run on every one of them on this run -/
def keepaliveDeviations : List Nat := [{', '.join(map(str, ka_deviations[:50]))}]

/-- `HoldTime.MIN`, `HoldTime.MAX`, `HoldTime.KEEPALIVE_DIVISOR` -/
def holdMin : Nat := {int(HoldTime.MIN)}
def holdMax : Nat := {int(HoldTime.MAX)}
def kaDivisor : Nat := {int(HoldTime.KEEPALIVE_DIVISOR)}

/-- `KeepAlive.TYPE[0]` -/
def keepaliveType : Nat := {KeepAlive.TYPE[0]}

/-- what `Peer._main` can hand to the timers: (name, `TYPE[0]`, `int(SCHEDULING)`) -/
def kinds : List (String × Nat × Nat) :=
  [{', '.join(f'("{n}", {t}, {s})' for n, t, s in kinds)}]

/-- `ReceiveTimer(session, holdtime, code, subcode)` in `Peer._establish` -/
def holdNotify : Nat × Nat := {pair(hold)}
/-- `raise Notify(code, subcode, …)` in `ReceiveTimer.check_ka` (second KEEPALIVE with hold time 0) -/
def h0KaNotify : Nat × Nat := {pair(h0ka)}
/-- `raise Notify(code, subcode, …)` in `KA.send_if_needed` (NetworkError while sending) -/
def kaNetNotify : Nat × Nat := {pair(kanet)}
/-- `raise Notify(code, subcode, …)` in `Peer._read_open` (asyncio.TimeoutError) -/
def openWaitNotify : Nat × Nat := {pair(openwait)}
/-- `asyncio.wait_for(self.proto.read_message(), timeout=…)` in `Peer._main`, in ms -/
def readTimeoutMs : Nat := {read_timeout_ms}
/-- `Peer._read_ka` awaits the first KEEPALIVE under `asyncio.wait_for(…, timeout=int(holdtime) or None)` -/
def openConfirmHasTimer : Bool := {'true' if oc_has_timer else 'false'}
/-- `raise Notify(code, subcode, …)` in `Peer._read_ka` (asyncio.TimeoutError); (0, 0) when there is no timer -/
def openConfirmNotify : Nat × Nat := {pair(oc_notify)}
/-- `raise Notify(code, subcode)` in `Protocol.read_keepalive` (the first message is not a KEEPALIVE) -/
def openConfirmUnexpected : Nat × Nat := {pair(oc_unexpected)}
/-- default of `exabgp.bgp.openwait`, seconds -/
def openWaitDefaultS : Nat := {default_wait}

end Exa.Generated.TimerTable
'''
    return {'TimerTable.lean': lean}
