"""The NOTIFICATION (code, subcode) tables of /repo (C03), re-read on every run.

* `definedCodes`   = keys of `Notification._str_subcode`  (what ExaBGP itself calls a defined code/subcode)
* `definedMajor`   = keys of `Notification._str_code`
* `raisedCodes`    = every literal `Notify(<int>, <int>, …)` / `Notify.make_notify(<int>, <int>, …)` call in
                     src/exabgp (read by AST): the error sites of the real decoders and of the reactor
* `dynamicSites`   = number of `Notify(...)` calls whose code or subcode is not an integer literal (they forward
                     a code computed elsewhere: `Notify(*error)`, `Notify(notify.code, notify.subcode, …)`);
                     a change of that number is visible in the generated file
The Lean side (Props/C03.lean) proves: every error the reference decoder can return is in `definedCodes`,
every literal raise site of /repo is in `definedCodes`, and `definedCodes` contains the RFC 4271 table.
"""

from __future__ import annotations

import ast
import os
from pathlib import Path


def _is_notify_call(call: ast.Call) -> bool:
    f = call.func
    if isinstance(f, ast.Name) and f.id == 'Notify':
        return True
    if isinstance(f, ast.Attribute) and f.attr in ('make_notify',) and isinstance(f.value, ast.Name) and f.value.id == 'Notify':
        return True
    return False


def scan_sites(src: Path) -> tuple[list[tuple[int, int, str]], list[str]]:
    """(literal sites as (code, subcode, file:line), dynamic sites as file:line)."""
    lit: list[tuple[int, int, str]] = []
    dyn: list[str] = []
    for path in sorted(src.rglob('*.py')):
        try:
            tree = ast.parse(path.read_text())
        except SyntaxError as e:  # pragma: no cover
            raise RuntimeError(f'cannot parse {path}: {e}') from None
        rel = str(path.relative_to(src))
        for node in ast.walk(tree):
            if isinstance(node, ast.Call) and _is_notify_call(node):
                a = node.args
                if len(a) >= 2 and all(isinstance(x, ast.Constant) and isinstance(x.value, int) and not isinstance(x.value, bool) for x in a[:2]):
                    lit.append((int(a[0].value), int(a[1].value), f'{rel}:{node.lineno}'))
                else:
                    dyn.append(f'{rel}:{node.lineno}')
    return lit, dyn


def defined_codes() -> list[tuple[int, int]]:
    from exabgp.bgp.message.notification import Notification

    return sorted((int(c), int(s)) for (c, s) in Notification._str_subcode)


def generate() -> dict[str, str]:
    from exabgp.bgp.message.notification import Notification

    src = Path(os.environ.get('VERIF_REPO', '/repo')) / 'src' / 'exabgp'
    defined = defined_codes()
    for c, s in defined:
        assert 0 <= c < 256 and 0 <= s < 256, (c, s)
    major = sorted(int(c) for c in Notification._str_code)
    lit, dyn = scan_sites(src)
    if not lit:
        raise RuntimeError('no Notify(<int>, <int>) site found: the scan no longer matches the source')
    raised = sorted({(c, s) for c, s, _ in lit})
    # per-file summary, so a reader can diff the table against the source
    by_code: dict[tuple[int, int], int] = {}
    for c, s, _ in lit:
        by_code[(c, s)] = by_code.get((c, s), 0) + 1
    summary = ', '.join(f'{c}/{s}×{k}' for (c, s), k in sorted(by_code.items()))
    lean = f'''namespace Exa.Generated.NotifyCodes

/-- keys of `Notification._str_subcode`: the (code, subcode) pairs ExaBGP defines -/
def definedCodes : List (Nat × Nat) :=
  [{', '.join(f'({c}, {s})' for c, s in defined)}]

/-- keys of `Notification._str_code` -/
def definedMajor : List Nat := {major}

/-- every literal `Notify(code, subcode, …)` in src/exabgp ({len(lit)} call sites: {summary}) -/
def raisedCodes : List (Nat × Nat) :=
  [{', '.join(f'({c}, {s})' for c, s in raised)}]

/-- `Notify(...)` calls whose code/subcode is computed elsewhere (forwarded): {', '.join(dyn)} -/
def dynamicSites : Nat := {len(dyn)}

end Exa.Generated.NotifyCodes
'''
    return {'NotifyCodes.lean': lean}
