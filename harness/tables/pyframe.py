"""The header checks of the framing reader of /repo translated statement by statement into Lean (C06) — see
harness/pylite.py.

  exabgp/reactor/network/connection.py   Connection.reader_async

What is translated is the decision the reader takes on a complete 19-octet header, in the order the source takes
it: marker, length against 19 and the negotiated maximum, the per-type length rule (not for a NOTIFICATION), the
empty body.  The reads themselves (`await self._reader_async(n)`, the resumption of a cancelled read through
`_pending_header`) are I/O: they are the subject of M-Frame's `feed` / `cancel` and of the correspondence, and are
left out here by name (`skip_prefixes`).  Inputs of the kernel, by source text: `header[:16] != Message.MARKER`,
`header[18]`, `int.from_bytes(header[16:18], 'big')`, `validator(length)`.

`Props/C06.lean` proves the generated definition equal to `Frame.hdrErr` (with `validator(length)` instantiated by
the generated per-type table), so a changed comparison, bound, order or exemption in the reader breaks a proof
obligation whatever the streams of the correspondence happen to contain."""

from __future__ import annotations

from harness import pylite


def generate() -> dict[str, str]:
    from exabgp.bgp.message import Message
    from exabgp.reactor.network.connection import Connection

    fields = {'msg_size': 'int'}
    spec = pylite.Spec(
        cls='Connection',
        fields=fields,
        ret='int*int',
        uses_now=False,
        consts={'Message.HEADER_LEN': int(Message.HEADER_LEN), 'Message.CODE.NOTIFICATION': int(Message.CODE.NOTIFICATION)},
        opaque={
            'header[:16] != Message.MARKER': ('badMarker', 'bool'),
            'header[18]': ('msgType', 'int'),
            "int.from_bytes(header[16:18], 'big')": ('length', 'int'),
            'validator(length)': ('lengthOk', 'bool'),
        },
        # I/O and bookkeeping of buffers: the header is read (or taken over from a cancelled call), the body is read
        skip_prefixes=('header = self._pending_header', 'self._pending_header = None', 'if header is None:', 'report = ', 'validator = Message.Length.get(msg, _default_length_validator)', 'try:'),
        tuple_result=(0, 1, 4),
    )
    t = pylite.translate(Connection.reader_async, spec, lean_name='Connection.reader_async_header')
    out = [
        '/-! The header decision of `Connection.reader_async` (exabgp/reactor/network/connection.py), translated by',
        '    `harness/pylite.py` (read next to the source). `ret (length, type)`: the body of `length - 19` octets is read',
        '    next (or is empty); `raise c s`: NotifyError(c, s). -/',
        'set_option linter.unusedVariables false',
        'namespace Exa.Generated.PyFrame',
        '',
        pylite.PRELUDE,
        pylite.lean_state_structure('Connection', fields),
        '',
        t.lean,
        'end Exa.Generated.PyFrame',
        '',
    ]
    return {'PyFrame.lean': '\n'.join(out)}
