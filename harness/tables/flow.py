"""FlowSpec component table, operator bit constants, NLRI length constants and the traffic-action
community codes, re-extracted from /repo on every run (C16).

    flow.decode / flow.factory   -> (component ID, operator family, VALUE_SIZES) per AFI
    CommonOperator/NumericOperator/BinaryOperator bit constants
    FLOW_LENGTH_* constants of Flow._encode_length / Flow.unpack_nlri
    traffic.py: COMMUNITY_TYPE / COMMUNITY_SUBTYPE of every action class

Python-side helpers (`component_table()`, `keyword_table()`, `value_names()`) give the harness the
same tables, so that no ID, size or name is typed by hand in harness/props/C16.py either.
"""

from __future__ import annotations


def component_table() -> dict[int, list[tuple[int, int, tuple[int, ...], str]]]:
    """{afi number: [(ID, kind code 0 prefix/1 numeric/2 binary, VALUE_SIZES, class name)]} sorted by ID."""
    from exabgp.bgp.message.update.nlri import flow
    from exabgp.protocol.family import AFI

    kinds = {'prefix': 0, 'numeric': 1, 'binary': 2}
    out: dict[int, list] = {}
    for afi in (AFI.ipv4, AFI.ipv6):
        rows = []
        assert set(flow.decode[afi]) == set(flow.factory[afi]), 'decode and factory disagree'
        for cid in sorted(flow.decode[afi]):
            klass = flow.factory[afi][cid]
            kind = kinds[flow.decode[afi][cid]]
            sizes = tuple(klass.VALUE_SIZES) if kind else ()
            if kind:
                # the encoder family decides the width actually written: cross-check VALUE_SIZES against it
                probe = {1: 0xFF, 2: 0xFFFF, 4: 0xFFFFFFFF}
                obj = klass(0, klass.decoder(b'\x00'))
                got = []
                for w in (1, 2, 4):
                    try:
                        n, b = obj.encode(probe[w])
                        if n == w and len(b) == w:
                            got.append(w)
                    except Exception:
                        pass
                assert tuple(got) == sizes, (klass.__name__, got, sizes)
            rows.append((int(cid), kind, sizes, klass.__name__))
        out[int(afi)] = rows
    return out


def keyword_table() -> dict[str, tuple[int, int, str, tuple[int, ...], int | None]]:
    """{match keyword: (ID, kind, class name, VALUE_SIZES, afi of the class or None when both)}."""
    from exabgp.configuration.flow.match import ParseFlowMatch
    from exabgp.configuration.flow import parser as fp
    from exabgp.bgp.message.update.nlri import flow
    import inspect
    import re

    out = {}
    for kw, fn in ParseFlowMatch.known.items():
        if fn in (fp.source, fp.destination):
            out[kw] = (1 if fn is fp.destination else 2, 0, fn.__name__, (), None)
            continue
        src = inspect.getsource(fn)
        m = re.search(r'_generic_condition\(tokeniser,\s*(\w+)\)', src)
        assert m, kw
        klass = getattr(flow, m.group(1))
        kind = 2 if klass.OPERATION == 'binary' else 1
        v4 = issubclass(klass, flow.FlowIPv4)
        v6 = issubclass(klass, flow.FlowIPv6)
        afi = None if (v4 and v6) else (1 if v4 else 2)
        out[kw] = (int(klass.ID), kind, klass.__name__, tuple(klass.VALUE_SIZES), afi)
    return out


def value_names() -> dict[str, dict[str, int]]:
    from exabgp.protocol import Protocol
    from exabgp.protocol.ip.fragment import Fragment
    from exabgp.protocol.ip.icmp import ICMPCode, ICMPType
    from exabgp.protocol.ip.tcp.flag import TCPFlag

    return {
        'protocol': dict(Protocol.codes),
        'tcp-flags': dict(TCPFlag.codes),
        'fragment': dict(Fragment.codes),
        'icmp-type': dict(ICMPType.codes),
        'icmp-code': dict(ICMPCode.codes),
    }


def action_codes() -> list[tuple[str, int, int, int]]:
    """[(class name, type, subtype, size)] of the traffic action communities."""
    from exabgp.bgp.message.update.attribute.community.extended import traffic
    from exabgp.bgp.message.update.attribute.community.extended import ExtendedCommunity, ExtendedCommunityIPv6

    rows = []
    for name in sorted(dir(traffic)):
        k = getattr(traffic, name)
        if isinstance(k, type) and k.__module__ == traffic.__name__ and issubclass(k, (ExtendedCommunity, ExtendedCommunityIPv6)):
            rows.append((name, int(k.COMMUNITY_TYPE), int(k.COMMUNITY_SUBTYPE), 20 if issubclass(k, ExtendedCommunityIPv6) else 8))
    return rows


def lean_rows(rows) -> str:
    return '[' + ', '.join(f'({i}, {k}, {list(s)})' for i, k, s, _ in rows) + ']'


def generate() -> dict[str, str]:
    from exabgp.bgp.message.update.nlri import flow
    from exabgp.bgp.message.update.nlri.flow import BinaryOperator, CommonOperator, NumericOperator

    t = component_table()
    acts = action_codes()
    size_rows = sorted({(i, max(s)) for afi in t for i, k, s, _ in t[afi] if k})
    assert len({i for i, _ in size_rows}) == len(size_rows), 'a component ID has different widths per AFI'
    lean = f'''namespace Exa.Generated.FlowTable

/-- `flow.decode` / `flow.factory` for AFI ipv4: (component ID, 0 prefix / 1 numeric / 2 binary, VALUE_SIZES) -/
def table4 : List (Nat × Nat × List Nat) := {lean_rows(t[1])}
/-- the same for AFI ipv6 -/
def table6 : List (Nat × Nat × List Nat) := {lean_rows(t[2])}

/-- largest entry of `VALUE_SIZES` of the class registered under an ID (1 when the ID has none) -/
def sizeOf (id : Nat) : Nat :=
  match [{', '.join(f'({i}, {m})' for i, m in size_rows)}].lookup id with
  | some m => m
  | none => 1

/-- `CommonOperator.EOL/AND/LEN`, `NumericOperator.LT/GT/EQ`, `BinaryOperator.NOT/MATCH` -/
def opEOL : Nat := {CommonOperator.EOL}
def opAND : Nat := {CommonOperator.AND}
def opLEN : Nat := {CommonOperator.LEN}
def numLT : Nat := {NumericOperator.LT}
def numGT : Nat := {NumericOperator.GT}
def numEQ : Nat := {NumericOperator.EQ}
def binNOT : Nat := {BinaryOperator.NOT}
def binMATCH : Nat := {BinaryOperator.MATCH}
/-- `CommonOperator.power`: length code → bytes -/
def power : List (Nat × Nat) := {sorted((int(k), int(v)) for k, v in CommonOperator.power.items())}

/-- `FLOW_LENGTH_*` -/
def lengthCompactMax : Nat := {flow.FLOW_LENGTH_COMPACT_MAX}
def lengthExtendedMax : Nat := {flow.FLOW_LENGTH_EXTENDED_MAX}
def lengthExtendedValue : Nat := {flow.FLOW_LENGTH_EXTENDED_VALUE}
def lengthExtendedMask : Nat := {flow.FLOW_LENGTH_EXTENDED_MASK}
def lengthLowerMask : Nat := {flow.FLOW_LENGTH_LOWER_MASK}
def lengthExtendedShift : Nat := {flow.FLOW_LENGTH_EXTENDED_SHIFT}

/-- traffic.py: (class, COMMUNITY_TYPE, COMMUNITY_SUBTYPE, size in bytes) -/
def actionCodes : List (String × Nat × Nat × Nat) := [{', '.join(f'("{n}", {a}, {b}, {c})' for n, a, b, c in acts)}]

end Exa.Generated.FlowTable
'''
    return {'FlowTable.lean': lean}
