"""The numeric limits the text parsers of /repo compare against (M-Fields, property C18).

Every row is (field name of lean/ExaModel/Model/Fields.lean, largest value the parser lets through),
read from the constants the parser functions use.  `Props/C18.lean` proves the rows against the
RFC limits of the model (`parser_constants_*`), so editing a constant in /repo changes a proof
obligation.  Constants that are local variables or literals inside a function body are read with
`ast` from the function source."""

from __future__ import annotations

import ast
import inspect
import textwrap


def _const_in(func, name: str) -> int:
    """Value of the assignment `name = <int expr>` inside a function body."""
    tree = ast.parse(textwrap.dedent(inspect.getsource(func)))
    for node in ast.walk(tree):
        if isinstance(node, ast.Assign) and len(node.targets) == 1 and getattr(node.targets[0], 'id', None) == name:
            return int(ast.literal_eval(node.value))
    raise RuntimeError(f'{name} not found in {func.__name__}')


def generate() -> dict[str, str]:
    from exabgp.bgp.message.open.asn import ASN, AS_TRANS
    from exabgp.bgp.message.update.attribute.aspath import ASPath
    from exabgp.bgp.message.update.attribute.community.initial.community import Community
    from exabgp.bgp.message.update.attribute.community.large.community import LargeCommunity
    from exabgp.bgp.message.update.nlri import flow as nflow
    from exabgp.bgp.message.update.nlri.qualifier import Labels
    from exabgp.configuration.flow import parser as fparser
    from exabgp.configuration.l2vpn import parser as vparser
    from exabgp.configuration.static import parser as sparser
    from exabgp.protocol.family import AFI

    rows: list[tuple[str, int]] = []

    def row(name: str, value: int) -> None:
        rows.append((name, int(value)))

    # AS numbers: ASN.from_string refuses above MAX_4BYTE
    row('asPathAsn4', ASN.MAX_4BYTE)
    row('asPathAsn2', ASN.MAX_4BYTE)
    row('aggregatorAsn4', ASN.MAX_4BYTE)
    row('aggregatorAsn2', ASN.MAX_4BYTE)
    # communities: the single-number form is checked against Community.MAX
    row('communityPlain', Community.MAX)
    # labels
    row('label', Labels.MAX)
    row('labelInner', Labels.MAX)
    # AIGP (local constant of the parser function)
    row('aigp', _const_in(sparser.aigp, 'AIGP_MAX'))
    # extended communities: struct letters of _ENCODE against _SIZE_B/_H/_L
    size = {'B': sparser._SIZE_B, 'H': sparser._SIZE_H, 'L': sparser._SIZE_L}
    enc = sparser._ENCODE
    assert enc['target'] == 'HL' and enc['target4'] == 'LH' and enc['origin'] == 'HL' and enc['origin4'] == 'LH', enc
    assert enc['l2info'] == 'BBHH', enc
    row('extAdmin', size[enc['target4'][0]])
    row('extLocalA16', size[enc['target'][1]])
    row('extLocalA32', size[enc['target4'][1]])
    row('l2infoEncaps', size[enc['l2info'][0]])
    row('l2infoControl', size[enc['l2info'][1]])
    row('l2infoMtu', size[enc['l2info'][2]])
    row('l2infoPref', size[enc['l2info'][3]])
    row('extIpOctet', sparser._SIZE_B)
    # prefix lengths
    row('mask4', AFI.ipv4.mask())
    row('mask6', AFI.ipv6.mask())
    # VPLS
    row('vplsEndpoint', vparser.VPLS_PARAM_MAX)
    row('vplsOffset', vparser.VPLS_PARAM_MAX)
    row('vplsSize', vparser.VPLS_PARAM_MAX)
    row('vplsBase', getattr(vparser, 'VPLS_LABEL_MAX', vparser.VPLS_PARAM_MAX))
    # FlowSpec
    row('flowPacketLength', nflow.MAX_PACKET_LENGTH)
    row('flowDscp', nflow.MAX_DSCP_VALUE)
    row('flowTrafficClass', nflow.MAX_TRAFFIC_CLASS)
    row('flowLabel', nflow.MAX_FLOW_LABEL)
    row('markDscp', fparser.DSCP_MAX_VALUE)
    row('redirectAdmin', ASN.MAX_4BYTE)
    row('redirectLocalA16', pow(2, fparser.LOCAL_ADMIN_32_BITS) - 1)
    row('redirectLocalA32', pow(2, fparser.LOCAL_ADMIN_16_BITS) - 1)

    # widest value each FlowSpec component class encodes (VALUE_SIZES), in bytes
    comp = {
        'flowProtocol': nflow.FlowIPProtocol,
        'flowNextHeader': nflow.FlowNextHeader,
        'flowPort': nflow.FlowAnyPort,
        'flowDstPort': nflow.FlowDestinationPort,
        'flowSrcPort': nflow.FlowSourcePort,
        'flowIcmpType': nflow.FlowICMPType,
        'flowIcmpCode': nflow.FlowICMPCode,
        'flowTcpFlags': nflow.FlowTCPFlag,
        'flowPacketLength': nflow.FlowPacketLength,
        'flowDscp': nflow.FlowDSCP,
        'flowTrafficClass': nflow.FlowTrafficClass,
        'flowFragment': nflow.FlowFragment,
        'flowLabel': nflow.FlowFlowLabel,
    }
    widths = [(name, max(k.VALUE_SIZES)) for name, k in comp.items()]

    lean = f'''namespace Exa.Generated.FieldLimits

/-- (field, largest value the text parser of /repo lets through) -/
def parserMax : List (String × Nat) :=
  [{', '.join(f'("{n}", {v})' for n, v in rows)}]

/-- (FlowSpec component field, widest value in bytes the component class encodes: max VALUE_SIZES) -/
def flowWidth : List (String × Nat) :=
  [{', '.join(f'("{n}", {v})' for n, v in widths)}]

/-- `ASPath.SEGMENT_MAX_LENGTH`, `AS_TRANS`, `ASN.MAX_2BYTE` -/
def segmentMax : Nat := {int(ASPath.SEGMENT_MAX_LENGTH)}
def asTrans : Nat := {int(AS_TRANS)}
def asn2Max : Nat := {int(ASN.MAX_2BYTE)}

/-- `LargeCommunity.MAX` (the whole 96-bit number) -/
def largeCommunityMax : Nat := {int(LargeCommunity.MAX)}

end Exa.Generated.FieldLimits
'''
    return {'FieldLimits.lean': lean}
