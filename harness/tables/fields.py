"""Every bound the text parsers of /repo test on a numeric token, per field of M-Fields (property C18).

For each `Field` of lean/ExaModel/Model/Fields.lean one row `(name, lo, hi)`: the inclusive range of
plain decimal values the parser lets through for that field (in the text template the sweep of
harness/props/C18.py uses).  `Props/C18.lean` proves `accepts f v <-> 0 <= v /\\ fits f v` from these
rows, so a bound that changes in /repo changes a proof obligation.

How a row is obtained (this is the translation, nothing is typed in by hand but WHERE to look):

* `Cmp(function, 'text of the comparison', kind, 'expression of the bound')` — the function's source
  is parsed with `ast`; a `Compare` node whose `ast.unparse` is exactly that text must exist (a bound
  that disappears, or whose operator or operands change, is a TRANSLATOR ERROR = broken obligation);
  the bound expression is evaluated in the function's module (so the value of a constant is the
  value in the source now).  kind: `refuse>` (x > C refuses: hi = C), `refuse>=` (hi = C - 1),
  `accept<` (hi = C - 1), `accept<=` (hi = C), `refuse<0` (lo = 0), `accept0<=` (lo = 0).
* `Has(function, 'text')` — a call / expression with that text must exist in the function
  (`value.isdigit()`: no sign gets through, lo = 0; `_sendable('community', len(communities))`: the
  length check is wired to this keyword).
* `Builtin(reason)` — the bound is enforced by the C library / interpreter (`socket.inet_pton`,
  `bytes([n])`), there is no comparison in the parser source to read: the range is measured by
  probing (4 octet fields).
* hi of a row = min of its upper evidences, lo = max of its lower evidences.

Every row is then cross-checked against the LIVE parser function (called directly, with a real
`Tokeniser`) at lo - 1, lo, hi, hi + 1: the reading of the source and the behaviour must agree.
"""

from __future__ import annotations

import ast
import inspect
import struct
import textwrap
from dataclasses import dataclass
from typing import Any, Callable


class Translator(Exception):
    pass


_TREES: dict[Any, ast.AST] = {}


def _tree(func) -> ast.AST:
    key = getattr(func, '__func__', func)
    if key not in _TREES:
        _TREES[key] = ast.parse(textwrap.dedent(inspect.getsource(func)))
    return _TREES[key]


def _globals(func) -> dict:
    f = getattr(func, '__func__', func)
    return dict(f.__globals__)


def _local_consts(func) -> dict:
    """NAME = <literal expression> assignments inside the function (AIGP_MAX, maximum is handled apart)."""
    out = {}
    for node in ast.walk(_tree(func)):
        if isinstance(node, ast.Assign) and len(node.targets) == 1 and isinstance(node.targets[0], ast.Name):
            try:
                out.setdefault(node.targets[0].id, ast.literal_eval(node.value))
            except (ValueError, SyntaxError):
                pass
    return out


@dataclass
class Cmp:
    func: Any
    text: str
    kind: str
    bound: str | None = None
    extra: dict | None = None

    def value(self) -> tuple[str, int]:
        texts = {ast.unparse(n) for n in ast.walk(_tree(self.func)) if isinstance(n, ast.Compare)}
        if self.text not in texts:
            raise Translator(f'{self.func.__qualname__}: comparison `{self.text}` is gone (have: {sorted(texts)})')
        if self.kind in ('refuse<0', 'accept0<='):
            return 'lo', 0
        env = _globals(self.func)
        env.update(_local_consts(self.func))
        env.update(self.extra or {})
        c = int(eval(compile(ast.parse(self.bound, mode='eval'), '<bound>', 'eval'), env))  # noqa: S307 — an expression of the repo's own source
        return 'hi', {'refuse>': c, 'refuse>=': c - 1, 'accept<': c - 1, 'accept<=': c}[self.kind]

    def origin(self) -> str:
        return f'{self.func.__qualname__}: {self.text}'


@dataclass
class Has:
    func: Any
    text: str
    lo: bool = False  # the expression is what keeps a sign out (isdigit and friends)

    def value(self) -> tuple[str, int] | None:
        texts = {ast.unparse(n) for n in ast.walk(_tree(self.func)) if isinstance(n, (ast.Call, ast.Compare, ast.Assign, ast.Attribute))}
        if self.text not in texts:
            raise Translator(f'{self.func.__qualname__}: `{self.text}` is gone')
        return ('lo', 0) if self.lo else None

    def origin(self) -> str:
        return f'{self.func.__qualname__}: {self.text}'


@dataclass
class Builtin:
    reason: str
    lo: int
    hi: int

    def origin(self) -> str:
        return f'builtin: {self.reason}'


REFUSAL = (ValueError, OSError, IndexError, struct.error)


def _read_bounds(name: str, evidence: list) -> tuple[int, int, bool]:
    los: list[int] = []
    his: list[int] = []
    builtin_only = True
    for e in evidence:
        if isinstance(e, Builtin):
            los.append(e.lo)
            his.append(e.hi)
            continue
        v = e.value()
        if v is None:
            continue
        (los if v[0] == 'lo' else his).append(v[1])
        if v[0] == 'hi':
            builtin_only = False
    if not his or not los:
        raise Translator(f'{name}: no {"upper" if not his else "lower"} bound found in the source')
    return max(los), min(his), builtin_only


_CEIL = 1 << 200


def _measure(name: str, probe: Callable[[int], bool]) -> tuple[int, int]:
    """The accepted range of a field by probing: a witness, the two edges by doubling + bisection, and then the
    assumption the bisection rests on (the accepted set is ONE interval) tested at every 2^k - 1, 2^k, 2^k + 1
    and their negatives up to 2^130, and at 64 evenly spread inner points."""
    witness = next((w for w in (1, 0, 2, 7, 19, 100, 1500, 70000) if probe(w)), None)
    if witness is None:
        raise Translator(f'{name}: the comparison moved and no small value is accepted, nothing to measure from')
    step, good = 1, witness
    while probe(good + step):
        good += step
        step *= 2
        if good > _CEIL:
            raise Translator(f'{name}: the comparison moved and the parser accepts values beyond 2^200')
    bad = good + step
    while bad - good > 1:
        mid = (good + bad) // 2
        good, bad = (mid, bad) if probe(mid) else (good, mid)
    hi = good
    step, good = 1, witness
    while probe(good - step):
        good -= step
        step *= 2
        if good < -_CEIL:
            raise Translator(f'{name}: the comparison moved and the parser accepts values below -2^200')
    bad = good - step
    while good - bad > 1:
        mid = (good + bad) // 2
        good, bad = (mid, bad) if probe(mid) else (good, mid)
    lo = good
    points = {s * ((1 << k) + d) for k in range(131) for d in (-1, 0, 1) for s in (1, -1)}
    points |= {lo + (hi - lo) * i // 64 for i in range(65)}
    for v in sorted(points):
        if probe(v) != (lo <= v <= hi):
            raise Translator(f'{name}: the comparison moved and what the parser accepts is not one interval: measured [{lo}, {hi}], {v} is {"accepted" if probe(v) else "refused"}')
    return lo, hi


def generate() -> dict[str, str]:
    from exabgp.bgp.message.open.asn import AS_TRANS, ASN
    from exabgp.bgp.message.open.capability.asn4 import ASN4
    from exabgp.bgp.message.update.attribute.aspath import ASPath
    from exabgp.bgp.message.update.attribute.community.large.community import LargeCommunity
    from exabgp.bgp.message.update.attribute.localpref import LocalPreference
    from exabgp.bgp.message.update.attribute.med import MED
    from exabgp.bgp.message.update.nlri import flow as nflow
    from exabgp.configuration.core.parser import Tokeniser
    from exabgp.configuration.flow import parser as fp
    from exabgp.configuration.l2vpn import parser as vp
    from exabgp.configuration.static import mpls
    from exabgp.configuration.static import parser as sp
    from exabgp.protocol.ip.netmask import NetMask
    from exabgp.protocol.resource import Resource

    def tok(*words: str):
        t = Tokeniser()
        t.replenish(list(words))
        return t

    def run(thunk: Callable[[], Any]) -> bool:
        try:
            r = thunk()
            if inspect.isgenerator(r):
                r = list(r)
                if not r:
                    return False
            return True
        except REFUSAL:
            return False

    isdigit_value = lambda f: Has(f, 'value.isdigit()', lo=True)  # noqa: E731
    asn_hi = Cmp(ASN.from_string, 'as_number > cls.MAX_4BYTE', 'refuse>', 'cls.MAX_4BYTE', {'cls': ASN})
    asn_lo = Has(ASN.from_string, '_decimal(value)', lo=True)
    enc = getattr(sp, '_ENCODE', None)

    def ext(letter_of: tuple[str, int]):
        """The bound `_encode` applies to a component: by the struct letter of `_ENCODE[form][index]`."""
        # the forms `_encode` switches between: a number above _SIZE_H is the four-octet AS form, a dotted one the IPv4 form
        if enc is None or enc.get('target') != 'HL' or enc.get('target-asn4') != 'LH' or enc.get('target4') != 'LH' or enc.get('l2info') != 'BBHH':
            raise Translator(f'_ENCODE changed: {enc}')
        form, index = letter_of
        letter = enc[form][index]
        cmp_text = {'B': 'value > _SIZE_B', 'H': 'value > _SIZE_H', 'L': 'value > _SIZE_L'}[letter]
        sel_text = {'B': "size == 'B'", 'H': "size == 'H'", 'L': "size in ('L', 'f')"}[letter]
        return [Cmp(sp._encode, cmp_text, 'refuse>', {'B': '_SIZE_B', 'H': '_SIZE_H', 'L': '_SIZE_L'}[letter]), Has(sp._encode, sel_text), Has(sp._digit, 'string.isdigit()', lo=True)]


    def flow(klass, conv_evidence: list):
        return [Cmp(fp._generic_condition, '0 <= number < 1 << 8 * max(klass.VALUE_SIZES)', 'accept<', '1 << 8 * max(klass.VALUE_SIZES)', {'klass': klass}), Cmp(fp._generic_condition, '0 <= number < 1 << 8 * max(klass.VALUE_SIZES)', 'accept0<=')] + conv_evidence

    resource = [Cmp(Resource._value, '0 <= value <= RESOURCE_VALUE_MAX', 'accept<=', 'RESOURCE_VALUE_MAX')]

    def netmask_max(afi_name: str) -> int:
        """`maximum = N` in the branch `afi == AFI.<name>` of NetMask.make_netmask."""
        for node in ast.walk(_tree(NetMask.make_netmask)):
            if isinstance(node, ast.If) and ast.unparse(node.test) == f'afi == AFI.{afi_name}':
                for st in node.body:
                    if isinstance(st, ast.Assign) and ast.unparse(st.targets[0]) == 'maximum':
                        return int(ast.literal_eval(st.value))
        raise Translator(f'NetMask.make_netmask: no `maximum = …` under afi == AFI.{afi_name}')

    def mask(afi_name: str):
        m = netmask_max(afi_name)
        return [Cmp(NetMask.make_netmask, 'value > maximum', 'refuse>', 'maximum', {'maximum': m}), Cmp(NetMask.make_netmask, 'value < 0', 'refuse<0'), Has(sp.prefix, 'mask_str.isdigit()', lo=True)]

    def prefix_bits(func, call_text: str) -> int:
        v = Has(func, call_text)
        v.value()
        return int(call_text.split(',')[1].strip(' )'))

    def flow_mask(call_text: str):
        bits = prefix_bits(fp.destination, call_text)
        prefix_bits(fp.source, call_text)
        return [Has(fp.destination, call_text), Cmp(fp._prefix_bounds, '0 <= netmask <= bits', 'accept<=', 'bits', {'bits': bits}), Cmp(fp._prefix_bounds, '0 <= netmask <= bits', 'accept0<=')]

    # list lengths: the parser hands the byte length to _sendable; unit = bytes one element adds to the attribute
    sendable = Cmp(sp._sendable, 'size > ATTRIBUTE_VALUE_MAX', 'refuse>', 'ATTRIBUTE_VALUE_MAX')
    try:
        value_max = sendable.value()[1]
    except Translator:
        value_max = _measure('_sendable', lambda v: v >= 0 and run(lambda: sp._sendable('x', v)))[1]

    def unit_of(parse: Callable[[int], Any]) -> int:
        return len(parse(2)) - len(parse(1))

    units = {
        'attrLen': unit_of(lambda n: sp.attribute(tok('[', '0x99', '0xc0', '0x' + '00' * n, ']'))),
        'communitiesCount': unit_of(lambda n: sp.community(tok('[', *[f'1:{i}' for i in range(n)], ']'))),
        'largeCommunitiesCount': unit_of(lambda n: sp.large_community(tok('[', *[f'1:2:{i}' for i in range(n)], ']'))),
        'extCommunitiesCount': unit_of(lambda n: sp.extended_community(tok('[', *[f'target:1:{i}' for i in range(n)], ']'))),
        'clusterCount': unit_of(lambda n: sp.cluster_list(tok('[', *[f'10.0.0.{i}' for i in range(n)], ']'))),
    }
    count_call = {
        'attrLen': Has(sp.attribute, "_sendable('attribute', len(data_bytes))"),
        'communitiesCount': Has(sp.community, "_sendable('community', len(communities))"),
        'largeCommunitiesCount': Has(sp.large_community, "_sendable('large-community', len(large_communities))"),
        'extCommunitiesCount': Has(sp.extended_community, "_sendable('extended-community', len(communities))"),
        'clusterCount': Has(sp.cluster_list, "_sendable('cluster-list', len(clusterids) * IPv4.BYTES)"),
    }

    rd = mpls.route_distinguisher
    rows: list[tuple[str, list, Callable[[int], bool] | None]] = [
        ('asPathAsn4', [asn_hi, asn_lo], lambda v: run(lambda: sp.as_path(tok('[', '64512', str(v), '64513', ']')))),
        ('asPathAsn2', [asn_hi, asn_lo], lambda v: run(lambda: sp.as_path(tok('[', '64512', str(v), '64513', ']')))),
        ('aggregatorAsn4', [asn_hi, asn_lo], lambda v: run(lambda: sp.aggregator(tok('(', f'{v}:1.2.3.4', ')')))),
        ('aggregatorAsn2', [asn_hi, asn_lo], lambda v: run(lambda: sp.aggregator(tok('(', f'{v}:1.2.3.4', ')')))),
        ('aggregatorOctet', [Builtin('RouterID -> socket.inet_pton', 0, 255)], lambda v: run(lambda: sp.aggregator(tok('(', f'65000:1.2.3.{v}', ')')))),
        ('originatorOctet', [Builtin('OriginatorID.from_string -> socket.inet_pton', 0, 255), Has(sp.originator_id, '_.isdigit()', lo=True)], lambda v: run(lambda: sp.originator_id(tok(f'1.2.3.{v}')))),
        ('clusterOctet', [Builtin('ClusterID.from_string -> socket.inet_pton', 0, 255)], lambda v: run(lambda: sp.cluster_list(tok('[', f'1.2.3.{v}', ']')))),
        ('communityHigh', [Cmp(sp._community, 'prefix_int > _SIZE_H', 'refuse>', '_SIZE_H'), Has(sp._community, 'prefix.isdigit()', lo=True)], lambda v: run(lambda: sp._community(f'{v}:1'))),
        ('communityLow', [Cmp(sp._community, 'suffix_int > _SIZE_H', 'refuse>', '_SIZE_H'), Has(sp._community, 'suffix.isdigit()', lo=True)], lambda v: run(lambda: sp._community(f'1:{v}'))),
        ('communityPlain', [Cmp(sp._community, 'number > Community.MAX', 'refuse>', 'Community.MAX'), isdigit_value(sp._community)], lambda v: run(lambda: sp._community(f'{v}'))),
        ('largeGlobal', [Cmp(sp._large_community, 'i > _SIZE_L', 'refuse>', '_SIZE_L'), Has(sp._large_community, 'c.isdigit()', lo=True)], lambda v: run(lambda: sp._large_community(f'{v}:1:1'))),
        ('largeLocal1', [Cmp(sp._large_community, 'i > _SIZE_L', 'refuse>', '_SIZE_L'), Has(sp._large_community, 'c.isdigit()', lo=True)], lambda v: run(lambda: sp._large_community(f'1:{v}:1'))),
        ('largeLocal2', [Cmp(sp._large_community, 'i > _SIZE_L', 'refuse>', '_SIZE_L'), Has(sp._large_community, 'c.isdigit()', lo=True)], lambda v: run(lambda: sp._large_community(f'1:1:{v}'))),
        ('extAdmin', lambda: ext(('target-asn4', 0)) + [Has(sp._encode, 'components[0] > _SIZE_H')], lambda v: run(lambda: sp._extended_community(f'target:{v}:1'))),
        ('extLocalA16', lambda: ext(('target', 1)), lambda v: run(lambda: sp._extended_community(f'target:1:{v}'))),
        ('extLocalA32', lambda: ext(('target-asn4', 1)), lambda v: run(lambda: sp._extended_community(f'target:70000:{v}'))),
        ('extIpOctet', [Cmp(sp._ip, 'number > _SIZE_B', 'refuse>', '_SIZE_B'), Has(sp._ip, 'part.isdigit()', lo=True)], lambda v: run(lambda: sp._extended_community(f'target:1.2.3.{v}:1'))),
        ('extLocalIp', lambda: ext(('target4', 1)), lambda v: run(lambda: sp._extended_community(f'target:1.2.3.4:{v}'))),
        ('l2infoEncaps', lambda: ext(('l2info', 0)), lambda v: run(lambda: sp._extended_community(f'l2info:{v}:0:1500:111'))),
        ('l2infoControl', lambda: ext(('l2info', 1)), lambda v: run(lambda: sp._extended_community(f'l2info:19:{v}:1500:111'))),
        ('l2infoMtu', lambda: ext(('l2info', 2)), lambda v: run(lambda: sp._extended_community(f'l2info:19:0:{v}:111'))),
        ('l2infoPref', lambda: ext(('l2info', 3)), lambda v: run(lambda: sp._extended_community(f'l2info:19:0:1500:{v}'))),
        ('med', [Cmp(MED.from_int, '0 <= med <= 4294967295', 'accept<=', '4294967295'), isdigit_value(sp.med)], lambda v: run(lambda: sp.med(tok(str(v))))),
        ('localPref', [Cmp(LocalPreference.from_int, '0 <= localpref <= 4294967295', 'accept<=', '4294967295'), isdigit_value(sp.local_preference)], lambda v: run(lambda: sp.local_preference(tok(str(v))))),
        ('aigp', [Cmp(sp.aigp, 'number > AIGP_MAX', 'refuse>', 'AIGP_MAX'), Cmp(sp.aigp, 'number < 0', 'refuse<0')], lambda v: run(lambda: sp.aigp(tok(str(v))))),
        ('attrCode', [Cmp(sp.attribute, 'code_int > ATTRIBUTE_BYTE_MAX', 'refuse>', 'ATTRIBUTE_BYTE_MAX'), Has(sp.attribute, "code.startswith('0x')", lo=True)], lambda v: run(lambda: sp.attribute(tok('[', hex(v), '0xc0', '0xdeadbeef', ']')))),
        ('attrFlag', [Cmp(sp.attribute, 'flag_int > ATTRIBUTE_BYTE_MAX', 'refuse>', 'ATTRIBUTE_BYTE_MAX'), Has(sp.attribute, "flag.startswith('0x')", lo=True)], lambda v: run(lambda: sp.attribute(tok('[', '0x99', hex(v), '0xdeadbeef', ']')))),
    ]
    for name in ('attrLen', 'communitiesCount', 'largeCommunitiesCount', 'extCommunitiesCount', 'clusterCount'):
        u = units[name]
        ev = [count_call[name], Cmp(sp._sendable, 'size > ATTRIBUTE_VALUE_MAX', 'refuse>', f'ATTRIBUTE_VALUE_MAX // {u}'), Builtin('a length is not negative', 0, value_max // u)]
        rows.append((name, ev, (lambda u: lambda v: v >= 0 and run(lambda: sp._sendable('x', v * u)))(u)))
    rows += [
        ('label', [Cmp(mpls.label, 'lbl > Labels.MAX', 'refuse>', 'Labels.MAX'), Cmp(mpls.label, 'lbl < 0', 'refuse<0')], lambda v: run(lambda: mpls.label(tok(str(v))))),
        ('labelInner', [Cmp(mpls.label, 'lbl > Labels.MAX', 'refuse>', 'Labels.MAX'), Cmp(mpls.label, 'lbl < 0', 'refuse<0')], lambda v: run(lambda: mpls.label(tok('[', str(v), '7', ']')))),
        ('rdAdmin', [Cmp(rd, 'number < pow(2, 32)', 'accept<', 'pow(2, 32)'), Has(rd, 'suffix < pow(2, 16)'), Has(rd, 'prefix.isdigit()', lo=True)], lambda v: run(lambda: rd(tok(f'{v}:1')))),
        ('rdAssignedA16', [Cmp(rd, 'suffix < pow(2, 32)', 'accept<', 'pow(2, 32)'), Has(rd, 'number < pow(2, 16)'), Has(rd, 'assigned.isdigit()', lo=True)], lambda v: run(lambda: rd(tok(f'1:{v}')))),
        ('rdAssignedA32', [Cmp(rd, 'suffix < pow(2, 16)', 'accept<', 'pow(2, 16)'), Has(rd, 'assigned.isdigit()', lo=True)], lambda v: run(lambda: rd(tok(f'70000:{v}')))),
        ('rdIpOctet', [Cmp(rd, 'int(_) <= 255', 'accept<=', '255'), Has(rd, '_.isdigit()', lo=True)], lambda v: run(lambda: rd(tok(f'1.2.3.{v}:1')))),
        ('rdAssignedIp', [Cmp(rd, 'suffix >= pow(2, 16)', 'refuse>=', 'pow(2, 16)'), Has(rd, 'assigned.isdigit()', lo=True)], lambda v: run(lambda: rd(tok(f'1.2.3.4:{v}')))),
        ('pathInfo', [Cmp(sp.path_information, 'number > _SIZE_L', 'refuse>', '_SIZE_L'), Has(sp.path_information, 'pi.isdigit()', lo=True)], lambda v: run(lambda: sp.path_information(tok(str(v))))),
        ('pathInfoOctet', [Builtin('PathInfo.make_from_ip -> bytes([int(octet)])', 0, 255)], lambda v: run(lambda: sp.path_information(tok(f'1.2.3.{v}')))),
        ('mask4', lambda: mask('ipv4'), lambda v: run(lambda: sp.prefix(tok(f'0.0.0.0/{v}')))),
        ('mask6', lambda: mask('ipv6'), lambda v: run(lambda: sp.prefix(tok(f'::/{v}')))),
        ('vplsEndpoint', [Cmp(vp.vpls_endpoint, 'number > VPLS_PARAM_MAX', 'refuse>', 'VPLS_PARAM_MAX'), Cmp(vp.vpls_endpoint, 'number < 0', 'refuse<0')], lambda v: run(lambda: vp.vpls_endpoint(tok(str(v))))),
        ('vplsOffset', [Cmp(vp.vpls_offset, 'number > VPLS_PARAM_MAX', 'refuse>', 'VPLS_PARAM_MAX'), Cmp(vp.vpls_offset, 'number < 0', 'refuse<0')], lambda v: run(lambda: vp.vpls_offset(tok(str(v))))),
        ('vplsSize', [Cmp(vp.vpls_size, 'number > VPLS_PARAM_MAX', 'refuse>', 'VPLS_PARAM_MAX'), Cmp(vp.vpls_size, 'number < 0', 'refuse<0')], lambda v: run(lambda: vp.vpls_size(tok(str(v))))),
        ('vplsBase', [Cmp(vp.vpls_base, 'number > VPLS_LABEL_MAX', 'refuse>', 'VPLS_LABEL_MAX'), Cmp(vp.vpls_base, 'number < 0', 'refuse<0')], lambda v: run(lambda: vp.vpls_base(tok(str(v))))),
        ('flowProtocol', flow(nflow.FlowIPProtocol, resource), lambda v: run(lambda: fp.protocol(tok(str(v))))),
        ('flowNextHeader', flow(nflow.FlowNextHeader, resource), lambda v: run(lambda: fp.next_header(tok(str(v))))),
        ('flowPort', flow(nflow.FlowAnyPort, resource), lambda v: run(lambda: fp.any_port(tok(str(v))))),
        ('flowDstPort', flow(nflow.FlowDestinationPort, resource), lambda v: run(lambda: fp.destination_port(tok(str(v))))),
        ('flowSrcPort', flow(nflow.FlowSourcePort, resource), lambda v: run(lambda: fp.source_port(tok(str(v))))),
        ('flowIcmpType', flow(nflow.FlowICMPType, resource), lambda v: run(lambda: fp.icmp_type(tok(str(v))))),
        ('flowIcmpCode', flow(nflow.FlowICMPCode, resource), lambda v: run(lambda: fp.icmp_code(tok(str(v))))),
        ('flowTcpFlags', flow(nflow.FlowTCPFlag, resource), lambda v: run(lambda: fp.tcp_flags(tok(str(v))))),
        ('flowPacketLength', flow(nflow.FlowPacketLength, [Cmp(nflow.packet_length, 'number > MAX_PACKET_LENGTH', 'refuse>', 'MAX_PACKET_LENGTH')]), lambda v: run(lambda: fp.packet_length(tok(str(v))))),
        ('flowDscp', flow(nflow.FlowDSCP, [Cmp(nflow.dscp_value, 'number > MAX_DSCP_VALUE', 'refuse>', 'MAX_DSCP_VALUE'), Cmp(nflow.dscp_value, 'number < 0', 'refuse<0')]), lambda v: run(lambda: fp.dscp(tok(str(v))))),
        ('flowTrafficClass', flow(nflow.FlowTrafficClass, [Cmp(nflow.class_value, 'number > MAX_TRAFFIC_CLASS', 'refuse>', 'MAX_TRAFFIC_CLASS'), Cmp(nflow.class_value, 'number < 0', 'refuse<0')]), lambda v: run(lambda: fp.traffic_class(tok(str(v))))),
        ('flowFragment', flow(nflow.FlowFragment, resource), lambda v: run(lambda: fp.fragment(tok(str(v))))),
        ('flowLabel', flow(nflow.FlowFlowLabel, [Cmp(nflow.label_value, 'number > MAX_FLOW_LABEL', 'refuse>', 'MAX_FLOW_LABEL'), Cmp(nflow.label_value, 'number < 0', 'refuse<0')]), lambda v: run(lambda: fp.flow_label(tok(str(v))))),
        ('flowMask4', lambda: flow_mask('_prefix_bounds(int(netmask), 32)'), lambda v: run(lambda: fp.destination(tok(f'0.0.0.0/{v}')))),
        ('flowMask6', lambda: flow_mask('_prefix_bounds(int(netmask), 128)'), lambda v: run(lambda: fp.destination(tok(f'::/{v}')))),
        # swept with a prefix length of 128 (`::/128/<offset>`): `offset >= netmask` refuses from 128 on
        ('flowOffset6', [Has(fp.destination, '_prefix_bounds(int(netmask), 128, int(offset))'), Cmp(fp._prefix_bounds, 'offset >= netmask', 'refuse>=', 'netmask', {'netmask': 128}), Cmp(fp._prefix_bounds, 'offset < 0', 'refuse<0')], lambda v: run(lambda: fp.destination(tok(f'::/128/{v}')))),
        ('redirectAdmin', [Has(fp.redirect, 'ASN4.validate(asn)'), Cmp(ASN4.validate, '0 <= value <= ASN.MAX_4BYTE', 'accept<=', 'ASN.MAX_4BYTE'), Has(fp.redirect, 'prefix.isdigit()', lo=True)], lambda v: run(lambda: fp.redirect(tok(f'{v}:1')))),
        ('redirectLocalA16', [Cmp(fp.redirect, 'nn_int >= pow(2, LOCAL_ADMIN_32_BITS)', 'refuse>=', 'pow(2, LOCAL_ADMIN_32_BITS)'), Has(fp.redirect, 'asn > ASN.MAX_2BYTE'), Has(fp.redirect, 'suffix.isdigit()', lo=True)], lambda v: run(lambda: fp.redirect(tok(f'1:{v}')))),
        ('redirectLocalA32', [Cmp(fp.redirect, 'nn_int >= pow(2, LOCAL_ADMIN_16_BITS)', 'refuse>=', 'pow(2, LOCAL_ADMIN_16_BITS)'), Has(fp.redirect, 'suffix.isdigit()', lo=True)], lambda v: run(lambda: fp.redirect(tok(f'70000:{v}')))),
        ('markDscp', [Cmp(fp.mark, 'dscp_value > DSCP_MAX_VALUE', 'refuse>', 'DSCP_MAX_VALUE'), Cmp(fp.mark, 'dscp_value < 0', 'refuse<0'), isdigit_value(fp.mark)], lambda v: run(lambda: fp.mark(tok(str(v))))),
    ]

    out_rows: list[tuple[str, int, int]] = []
    origins: list[tuple[str, str]] = []
    from_source = 0
    measured_rows = 0
    for name, evidence, probe in rows:
        try:
            if callable(evidence):  # evidence whose construction already reads the source
                evidence = evidence()
            lo, hi, builtin_only = _read_bounds(name, evidence)
            origin = ' ; '.join(e.origin() for e in evidence)
        except Translator as moved:
            # the comparison is not where it was (renamed local, extracted helper, table of limits): the range is
            # MEASURED on the live parser instead, and the origin says so; a bound that really changed then shows
            # as a changed row = a changed proof obligation, a harmless rewrite as the same row
            lo, hi = _measure(name, probe)
            builtin_only = True
            measured_rows += 1
            origin = f'measured on the live parser (source evidence moved: {moved})'
        if not builtin_only:
            from_source += 1
        # the reading of the source against the live function
        for v, want in ((lo - 1, False), (lo, True), (hi, True), (hi + 1, False)):
            got = probe(v)
            if got != want:
                raise Translator(f'{name}: the source says [{lo}, {hi}] and the parser {"accepts" if got else "refuses"} {v}')
        out_rows.append((name, lo, hi))
        origins.append((name, origin))

    # widest value each FlowSpec component class encodes (VALUE_SIZES), in bytes
    comp = {
        'flowProtocol': nflow.FlowIPProtocol, 'flowNextHeader': nflow.FlowNextHeader, 'flowPort': nflow.FlowAnyPort,
        'flowDstPort': nflow.FlowDestinationPort, 'flowSrcPort': nflow.FlowSourcePort, 'flowIcmpType': nflow.FlowICMPType,
        'flowIcmpCode': nflow.FlowICMPCode, 'flowTcpFlags': nflow.FlowTCPFlag, 'flowPacketLength': nflow.FlowPacketLength,
        'flowDscp': nflow.FlowDSCP, 'flowTrafficClass': nflow.FlowTrafficClass, 'flowFragment': nflow.FlowFragment, 'flowLabel': nflow.FlowFlowLabel,
    }  # fmt: skip
    widths = [(n, max(k.VALUE_SIZES)) for n, k in comp.items()]

    esc = lambda s: s.replace('\\', '\\\\').replace('"', '\\"')  # noqa: E731
    lean = f'''namespace Exa.Generated.FieldLimits

/-- (field, smallest, largest) plain decimal value the text parser of /repo lets through for the field —
    every bound read from a comparison of the parser source (see `boundOrigin`), cross-checked against
    the live parser at both ends. {len(out_rows)} fields, {from_source} bounded by comparisons in the source,
    {len(out_rows) - from_source} by the C library / interpreter only. -/
def parserBounds : List (String × Int × Int) :=
  [{', '.join(f'("{n}", {lo}, {hi})' for n, lo, hi in out_rows)}]

/-- where each bound was read -/
def boundOrigin : List (String × String) :=
  [{', '.join(f'("{n}", "{esc(o)}")' for n, o in origins)}]

/-- number of fields whose upper bound is a comparison in the parser source -/
def boundedBySource : Nat := {from_source}

/-- `ATTRIBUTE_VALUE_MAX` (static/parser.py `_sendable`) and the bytes one list element adds -/
def attributeValueMax : Nat := {value_max}
def countUnits : List (String × Nat) := [{', '.join(f'("{n}", {u})' for n, u in units.items())}]

/-- (FlowSpec component field, widest value in bytes the component class encodes: max VALUE_SIZES) -/
def flowWidth : List (String × Nat) :=
  [{', '.join(f'("{n}", {v})' for n, v in widths)}]

/-- `ASPath.SEGMENT_MAX_LENGTH`, `AS_TRANS`, `ASN.MAX_2BYTE` -/
def segmentMax : Nat := {int(ASPath.SEGMENT_MAX_LENGTH)}
def asTrans : Nat := {int(AS_TRANS)}
def asn2Max : Nat := {int(ASN.MAX_2BYTE)}

/-- `LargeCommunity.MAX` (the whole 96-bit number) -/
def largeCommunityMax : Nat := {int(LargeCommunity.MAX)}

end Exa.Generated.FieldLimits
'''
    return {'FieldLimits.lean': lean}
