"""The healthcheck state machine of /repo translated statement by statement into Lean (C20) — see harness/pylite.py.

  exabgp/application/healthcheck.py   loop() → trigger(target), one(checks, state)   (closures of `loop`)

Inputs of the kernel that are not computed by it (declared, by source text):
  `options.disable is not None`                  → x_hasDisable
  `os.path.exists(options.disable)`              → x_file
  `check(options.command, options.timeout)`      → x_ok
`exabgp(state)` is recorded as the effect `emitted := state` (−1 = not called).  Statements of `trigger`
that run the operator's `--execute` commands are skipped (they do not touch `checks`, `state` or what is
announced).  `States.<NAME>` are numbered in the order of the enum (checked against Generated/HealthTable)."""

from __future__ import annotations

from harness import pylite


def generate() -> dict[str, str]:
    from exabgp.application import healthcheck as H

    names = [s.name for s in H.States]
    consts = {f'States.{n}': i for i, n in enumerate(names)}
    opts = {('options', 'rise'): 'int', ('options', 'fall'): 'int'}
    trig = pylite.translate(
        H.loop,
        pylite.Spec(
            cls='Health', fields={}, params={'target': 'int'}, attr_params=dict(opts), consts=consts, ret='int', uses_now=False,
            kind='function', pure=True, ignore_calls=('logger.',),
            skip_prefixes=('cmds: list[str] = []', 'cmds.extend(', 'for cmd in cmds:'),
        ),
        nested='trigger',
    )
    opaque = {
        'options.disable is not None': ('hasDisable', 'bool'),
        'os.path.exists(options.disable)': ('file', 'bool'),
        'check(options.command, options.timeout)': ('ok', 'bool'),
    }
    opts1 = dict(opts)
    opts1[('options', 'debounce')] = 'bool'
    one = pylite.translate(
        H.loop,
        pylite.Spec(
            cls='Health', fields={'emitted': 'int'}, params={'checks': 'int', 'state': 'int'}, attr_params=opts1, consts=consts,
            ret='int*int', uses_now=False, kind='function', ignore_calls=('logger.',), opaque=opaque,
            pure_calls={'trigger': trig}, effect_calls={'exabgp': 'emitted'},
        ),
        nested='one',
    )
    out = [
        '/-! The state machine of `exabgp/application/healthcheck.py` (`trigger`, `one`), translated by `harness/pylite.py`. -/',
        'set_option linter.unusedVariables false',
        'namespace Exa.Generated.PyHealth',
        '',
        pylite.PRELUDE,
        '/-- `class States`: the members in order, numbered from 0 -/',
        'def stateNames : List String := [' + ', '.join(f'"{n}"' for n in names) + ']',
        '',
        pylite.lean_state_structure('Health', {'emitted': 'int'}),
        '',
        trig.lean,
        one.lean,
        'end Exa.Generated.PyHealth',
        '',
    ]
    return {'PyHealth.lean': '\n'.join(out)}
