"""API tables for M-Api (C14): reader constants, selector keys, the v4 translation table, the v6
dispatch tree (flattened to paths), the announce/withdraw type tables, the handlers that fall back
to "all peers", and the layout of `Neighbor.name()`.

Everything is read from the live objects of /repo (import + introspection; `ast` for the
read size, which is a literal argument of `os.read`).  Words are emitted as byte lists so that
the model never touches `String`.
"""

from __future__ import annotations

import ast
import inspect
import textwrap


def b(s: str) -> str:
    return '[' + ', '.join(str(c) for c in s.encode('ascii')) + ']'


def blist(words) -> str:
    return '[' + ', '.join(b(w) for w in words) + ']'


# keywords the hand-written model refers to (only an encoding convenience: text -> bytes)
KEYWORDS = {
    'neighbor': 'neighbor', 'peer': 'peer', 'announce': 'announce', 'withdraw': 'withdraw', 'teardown': 'teardown',
    'group': 'group', 'start': 'start', 'endw': 'end', 'star': '*', 'lbr': '[', 'rbr': ']', 'comma': ',',
    'in': 'in', 'out': 'out', 'json': 'json', 'text': 'text', 'sync': 'sync', 'async': 'async', 'watchdog': 'watchdog',
    'api': 'api', 'version': 'version', 'show': 'show', 'flush': 'flush', 'clear': 'clear', 'create': 'create',
    'delete': 'delete', 'adjrib': 'adj-rib', 'daemon': 'daemon', 'session': 'session', 'system': 'system', 'rib': 'rib',
    'attribute': 'attribute', 'attributes': 'attributes', 'four': '4', 'six': '6',
}


def handler_name(f) -> str:
    return f.__module__.rsplit('.', 1)[-1] + '_' + f.__name__


def generate() -> dict[str, str]:
    from exabgp.reactor.api.processes import Processes
    from exabgp.reactor.api.command import limit
    from exabgp.reactor.api.command import announce as announce_cmd
    from exabgp.reactor.api.command import watchdog as watchdog_cmd
    from exabgp.reactor.api.dispatch import common, v4, v6
    from exabgp.configuration.setup import create_minimal_configuration

    # -- reader ---------------------------------------------------------------------------------
    src = textwrap.dedent(inspect.getsource(Processes._async_reader_callback))
    sizes = []
    for node in ast.walk(ast.parse(src)):
        if isinstance(node, ast.Call) and isinstance(node.func, ast.Attribute) and node.func.attr == 'read' and getattr(node.func.value, 'id', None) == 'os':
            assert isinstance(node.args[1], ast.Constant)
            sizes.append(node.args[1].value)
    assert len(sizes) == 1, sizes
    assert "split('\\n', 1)" in src and 'line.rstrip()' in src and "startswith('debug ')" in src and 'formated(line)' in src, 'reader loop changed shape'

    # -- selector keys ----------------------------------------------------------------------------
    keys_limit = sorted(limit.SELECTOR_KEYS)
    keys_dispatch = sorted(common.SELECTOR_KEYS)

    # -- Neighbor.name(): key words in order ------------------------------------------------------
    cfg = create_minimal_configuration(peer_address='10.0.0.1', local_address='10.0.0.2', local_as=1, peer_as=2)
    name = list(cfg.neighbors.values())[0].name().split(' ')
    assert len(name) == 12, name
    name_keys = name[0::2]

    # -- v4 ---------------------------------------------------------------------------------------
    simple = sorted(v4.V4_SIMPLE_TRANSLATIONS.items())
    ann_sub = sorted(v4.ANNOUNCE_SUBCOMMANDS)
    wd_sub = sorted(v4.WITHDRAW_SUBCOMMANDS)

    # -- v6 tree ----------------------------------------------------------------------------------
    tree = v6._get_v6_tree()
    paths: list[tuple[list, str]] = []
    handlers: dict[str, None] = {}

    def walk(node, prefix):
        if callable(node):
            h = handler_name(node)
            handlers.setdefault(h)
            paths.append((prefix, h))
            return
        assert isinstance(node, dict)
        for k, v in node.items():
            walk(v, prefix + [None if k == common.SELECTOR_KEY else k])

    walk(tree, [])
    needs = sorted(handler_name(h) for h in v6._v6_needs_peers())
    for h in needs:
        handlers.setdefault(h)

    def resolve(table, name):
        mod = watchdog_cmd if 'watchdog' in name else announce_cmd
        return handler_name(getattr(mod, name))

    v6_ann = sorted((k, resolve(announce_cmd._V6_ANNOUNCE_HANDLERS, v)) for k, v in announce_cmd._V6_ANNOUNCE_HANDLERS.items())
    v6_wd = sorted((k, resolve(announce_cmd._V6_WITHDRAW_HANDLERS, v)) for k, v in announce_cmd._V6_WITHDRAW_HANDLERS.items())
    for _, h in v6_ann + v6_wd:
        handlers.setdefault(h)
    # the v4 neighbor path names its handlers in code (not a table): make sure they exist
    from exabgp.reactor.api.command import neighbor as neighbor_cmd
    from exabgp.reactor.api.command import reactor as reactor_cmd

    for f in (neighbor_cmd.teardown, reactor_cmd.comment):
        handlers.setdefault(handler_name(f))

    def elem(e):
        return 'Elem.sel' if e is None else f'Elem.tok {b(e)}'

    hs = sorted(handlers)
    lean = f'''namespace Exa.Generated.ApiTable

/-- `Processes.MAX_COMMAND_SIZE` -/
def maxCommandSize : Nat := {Processes.MAX_COMMAND_SIZE}
/-- the size argument of `os.read` in `_async_reader_callback` -/
def readSize : Nat := {sizes[0]}

/-- `command/limit.py: SELECTOR_KEYS` (sorted) -/
def selectorKeys : List (List Nat) := {blist(keys_limit)}
/-- `dispatch/common.py: SELECTOR_KEYS` (sorted) -/
def selectorKeysDispatch : List (List Nat) := {blist(keys_dispatch)}
/-- the key words of `Neighbor.name()` in order (every second word) -/
def nameKeys : List (List Nat) := {blist(name_keys)}

/-- `V4_SIMPLE_TRANSLATIONS`: keyword -> v6 prefix words -/
def v4Simple : List (List Nat × List (List Nat)) :=
  [{', '.join(f'({b(k)}, {blist(v.split())})' for k, v in simple)}]
/-- `ANNOUNCE_SUBCOMMANDS`, `WITHDRAW_SUBCOMMANDS` -/
def announceSub : List (List Nat) := {blist(ann_sub)}
def withdrawSub : List (List Nat) := {blist(wd_sub)}

/-- every handler function reachable from the dispatchers -/
inductive Handler where
{chr(10).join('  | ' + h for h in hs)}
deriving DecidableEq, Repr

inductive Elem where
  | tok (t : List Nat)
  | sel
deriving DecidableEq, Repr

/-- the v6 dispatch tree, one entry per leaf: (path, handler); `Elem.sel` is `SELECTOR_KEY` -/
def v6Paths : List (List Elem × Handler) :=
  [{(',' + chr(10) + '   ').join('([' + ', '.join(elem(e) for e in p) + '], Handler.' + h + ')' for p, h in paths)}]

/-- `_v6_needs_peers()` -/
def needsPeers : List Handler := [{', '.join('Handler.' + h for h in needs)}]

/-- `_V6_ANNOUNCE_HANDLERS`, `_V6_WITHDRAW_HANDLERS`: type word -> handler -/
def v6AnnounceTypes : List (List Nat × Handler) := [{', '.join(f'({b(k)}, Handler.{h})' for k, h in v6_ann)}]
def v6WithdrawTypes : List (List Nat × Handler) := [{', '.join(f'({b(k)}, Handler.{h})' for k, h in v6_wd)}]

namespace Kw
{chr(10).join(f'def k_{k} : List Nat := {b(v)}' for k, v in sorted(KEYWORDS.items()))}
/-- `'debug '` (with the space) -/
def debugPrefix : List Nat := {b('debug ')}
end Kw

end Exa.Generated.ApiTable
'''
    return {'ApiTable.lean': lean}
