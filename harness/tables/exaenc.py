"""Constants of ExaBGP's UPDATE *encoder* (C01): the (ID, FLAG) of every attribute class the packer
emits, the extended-length threshold, AS_TRANS, the AS_PATH segment limit, the MP_REACH header
constants, the RD size `Family.size` gives the MP next hop of each IP family, and — read from the
AST of `UpdateCollection.messages` — the SAFIs whose IPv4 routes are put in the classic NLRI field."""

import ast
import inspect
import textwrap


def _classic_safis() -> tuple[list[int], list[int]]:
    """The two `is_v4 = is_v4 and nlri.safi in [...]` / `nlri.safi == ...` tests of messages():
    (announce side, withdraw side) as lists of SAFI numbers."""
    from exabgp.bgp.message.update.collection import UpdateCollection
    from exabgp.protocol.family import SAFI

    tree = ast.parse(textwrap.dedent(inspect.getsource(UpdateCollection.messages)))
    found: list[list[int]] = []

    def safi_of(node: ast.AST) -> int:
        assert isinstance(node, ast.Attribute) and isinstance(node.value, ast.Name) and node.value.id == 'SAFI', ast.dump(node)
        return int(getattr(SAFI, node.attr))

    for node in ast.walk(tree):
        if not (isinstance(node, ast.Assign) and len(node.targets) == 1 and getattr(node.targets[0], 'id', None) == 'is_v4'):
            continue
        v = node.value
        if not (isinstance(v, ast.BoolOp) and isinstance(v.op, ast.And) and len(v.values) == 2):
            continue
        cmp_ = v.values[1]
        if not (isinstance(cmp_, ast.Compare) and isinstance(cmp_.left, ast.Attribute) and cmp_.left.attr == 'safi' and len(cmp_.ops) == 1):
            continue
        rhs = cmp_.comparators[0]
        if isinstance(cmp_.ops[0], ast.In):
            assert isinstance(rhs, (ast.List, ast.Tuple)), ast.dump(rhs)
            found.append(sorted(safi_of(e) for e in rhs.elts))
        elif isinstance(cmp_.ops[0], ast.Eq):
            found.append([safi_of(rhs)])
        else:
            raise RuntimeError('messages(): unreadable safi test ' + ast.dump(cmp_))
    if len(found) != 2:
        raise RuntimeError(f'messages(): expected two `is_v4 and nlri.safi …` tests, found {len(found)}')
    return found[0], found[1]


def _default_path_asn4() -> bool:
    """Is the default AS_PATH `[local_asn]` of `AttributeCollection.pack_attribute` held in 4-octet storage?

    Measured, not read: an eBGP session (two real OPENs) whose local AS is 70000 packs a collection without
    AS_PATH; with 2-octet storage `struct.pack('!H', 70000)` raises (F39), with 4-octet storage the packed
    attributes carry AS_PATH 02 01 00011170. Where the default is built (inline, a helper, a table of
    callables) does not matter to this reading."""
    import struct

    from exabgp.bgp.message.direction import Direction
    from exabgp.bgp.message.update.attribute.collection import AttributeCollection
    from exabgp.bgp.message.update.attribute.origin import Origin

    from harness import sessions

    _, n = sessions.make_config(local_as=70000, peer_as=65001, families='ipv4 unicast')
    _, p = sessions.make_config(local_as=65001, peer_as=70000, families='ipv4 unicast', local_address='127.0.0.2', peer_address='127.0.0.1')
    out = sessions.negotiate(n, peer_neighbor=p, direction=Direction.OUT)
    if not out.asn4:
        raise RuntimeError('rig: ASN4 was not negotiated by the two OPENs')
    attrs = AttributeCollection()
    attrs.add(Origin.from_int(0))
    try:
        packed = attrs.pack_attribute(out, True)
    except struct.error:
        return False
    if bytes([0x40, 0x02, 0x06, 0x02, 0x01, 0x00, 0x01, 0x11, 0x70]) not in packed:
        raise RuntimeError(f'pack_attribute: the default AS_PATH of local AS 70000 is not (AS_SEQUENCE 70000): {packed.hex()}')
    return True


def _nexthop_family_guard() -> bool:
    """Does `UpdateCollection.messages` consult `negotiated.nexthop` (the RFC 8950 families) before it
    packs an announce, i.e. is a route whose next hop has a family the session cannot carry left out?"""
    from exabgp.bgp.message.update.collection import UpdateCollection

    tree = ast.parse(textwrap.dedent(inspect.getsource(UpdateCollection.messages)))
    for node in ast.walk(tree):
        if isinstance(node, ast.Attribute) and node.attr == 'nexthop' and isinstance(node.value, ast.Name) and node.value.id == 'negotiated':
            return True
    return False


def generate() -> dict[str, str]:
    from exabgp.bgp.message.open.asn import AS_TRANS
    from exabgp.bgp.message.update.attribute import attribute as attribute_mod
    from exabgp.bgp.message.update.attribute.aggregator import Aggregator, Aggregator4
    from exabgp.bgp.message.update.attribute.aspath import AS4Path, ASPath
    from exabgp.bgp.message.update.attribute.atomicaggregate import AtomicAggregate
    from exabgp.bgp.message.update.attribute.clusterlist import ClusterList
    from exabgp.bgp.message.update.attribute.community.initial.communities import Communities
    from exabgp.bgp.message.update.attribute.community.extended.communities import ExtendedCommunities
    from exabgp.bgp.message.update.attribute.community.large.communities import LargeCommunities
    from exabgp.bgp.message.update.attribute.localpref import LocalPreference
    from exabgp.bgp.message.update.attribute.med import MED
    from exabgp.bgp.message.update.attribute.nexthop import NextHop
    from exabgp.bgp.message.update.attribute.origin import Origin
    from exabgp.bgp.message.update.attribute.originatorid import OriginatorID
    from exabgp.bgp.message.update.nlri.collection import MPNLRICollection
    from exabgp.bgp.message.update.nlri.qualifier import PathInfo
    from exabgp.protocol.family import AFI, SAFI, Family

    classes = [Origin, ASPath, NextHop, MED, LocalPreference, AtomicAggregate, Aggregator, Communities,
               OriginatorID, ClusterList, ExtendedCommunities, AS4Path, Aggregator4, LargeCommunities]  # fmt: skip
    rows = sorted((int(c.ID), int(c.FLAG), c.__name__) for c in classes)
    assert len({r[0] for r in rows}) == len(rows)
    ann, wd = _classic_safis()
    rd = []
    for afi in (AFI.ipv4, AFI.ipv6):
        for safi in (SAFI.unicast, SAFI.multicast, SAFI.nlri_mpls, SAFI.mpls_vpn):
            _, size = Family.size.get((afi, safi), (0, 0))
            rd.append((int(afi), int(safi), int(size)))
    nopath = list(bytes(PathInfo.NOPATH.pack_path()))
    dp4 = 'true' if _default_path_asn4() else 'false'
    nhg = 'true' if _nexthop_family_guard() else 'false'
    lean = f'''namespace Exa.Generated.ExaEncTable

/-- (ID, FLAG) of the attribute classes `AttributeCollection.pack_attribute` can emit for a static route -/
def encFlags : List (Nat × Nat) :=
  [{', '.join(f'({i}, {f}) /- {n} -/' for i, f, n in rows)}]

/-- `ATTR_LENGTH_EXTENDED_MAX` (attribute.py): longest value sent with a 1-byte length -/
def attrLenExtendedMax : Nat := {int(attribute_mod.ATTR_LENGTH_EXTENDED_MAX)}
/-- `Attribute.Flag.EXTENDED_LENGTH` / `Attribute.Flag.OPTIONAL` -/
def flagExtended : Nat := {int(attribute_mod.Attribute.Flag.EXTENDED_LENGTH)}
def flagOptional : Nat := {int(attribute_mod.Attribute.Flag.OPTIONAL)}
/-- `AS_TRANS` (asn.py) and `ASN.MAX_2BYTE` -/
def exaAsTrans : Nat := {int(AS_TRANS)}
def asnMax2 : Nat := {int(AS_TRANS.MAX_2BYTE)}
/-- `ASPath.SEGMENT_MAX_LENGTH` -/
def segmentMax : Nat := {int(ASPath.SEGMENT_MAX_LENGTH)}
/-- `MPNLRICollection._FLAG_OPTIONAL`, `_CODE_MP_REACH_NLRI` -/
def mpFlag : Nat := {int(MPNLRICollection._FLAG_OPTIONAL)}
def mpReachCode : Nat := {int(MPNLRICollection._CODE_MP_REACH_NLRI)}
/-- `UpdateCollection.messages`: SAFIs whose IPv4 announces (with an IPv4 next hop) / withdraws go
    into the NLRI / WITHDRAWN ROUTES fields instead of MP_REACH / MP_UNREACH (read from the AST) -/
def classicSafisAnnounce : List Nat := {ann}
def classicSafisWithdraw : List Nat := {wd}
/-- `Family.size`: (afi, safi, size of the zero RD in front of the MP next hop) -/
def nhRdSize : List (Nat × Nat × Nat) :=
  [{', '.join(f'({a}, {s}, {z})' for a, s, z in rd)}]
/-- `AttributeCollection.pack_attribute`: the default AS_PATH `[local_asn]` is built with `asn4=True`
    (read from the AST); when false it is packed with 2-octet AS numbers and a larger local AS raises -/
def defaultPathAsn4 : Bool := {dp4}
/-- `UpdateCollection.messages` consults `negotiated.nexthop` (read from the AST): an announce whose next
    hop has a family the session cannot carry (IPv4 for an IPv6 route; IPv6 for an IPv4 route without RFC 8950
    for that family) is left out of the UPDATE. False on the tree where such routes are packed as they come. -/
def nhFamilyGuard : Bool := {nhg}
/-- `PathInfo.NOPATH.pack_path()`: what is sent when ADD-PATH is negotiated and no path-information was given -/
def noPath : List Nat := {nopath}

end Exa.Generated.ExaEncTable
'''
    return {'ExaEncTable.lean': lean}
