"""Tables of the decode-side process-wide state (C19):

* `Attribute.registered_attributes` and `Capability.registered_capability` as code -> class,
  because `Attribute.klass` / `Capability.klass` execute `kls.ID = <code>` on the class;
* every read `negotiated.<field>` made on the decode side under bgp/message/update/attribute/
  (read by AST), because that is what a sound key of `AttributeCollection.cached` must contain;
* which registered attribute classes are what `AttributeCollection.unpack` refuses to cache
  (MP_REACH_NLRI / MP_UNREACH_NLRI), read by AST from `unpack`.
"""

from __future__ import annotations

import ast
import inspect
import textwrap
from pathlib import Path

# functions that are the *encode* side or pure rendering: a read of `negotiated` there cannot
# influence what a decoder returns
ENCODE_SIDE = ('pack', '_pack', 'json', '__str__', '__repr__', 'extensive', 'string', 'make_', 'from_set')


def _reads(root: Path) -> list[tuple[str, str, str]]:
    rows: list[tuple[str, str, str]] = []
    for path in sorted(root.rglob('*.py')):
        mod = str(path.relative_to(root))[:-3].replace('/', '.')
        tree = ast.parse(path.read_text())
        for fn in ast.walk(tree):
            if not isinstance(fn, (ast.FunctionDef, ast.AsyncFunctionDef)):
                continue
            if fn.name.startswith(ENCODE_SIDE):
                continue
            for node in ast.walk(fn):
                if isinstance(node, ast.Attribute) and isinstance(node.value, ast.Name) and node.value.id in ('negotiated', 'ctx'):
                    rows.append((mod, fn.name, node.attr))
                # `self._context.<field>` / `getattr(negotiated, 'x')`
                if isinstance(node, ast.Call) and getattr(node.func, 'id', None) == 'getattr' and node.args and getattr(node.args[0], 'id', None) == 'negotiated':
                    fld = node.args[1].value if len(node.args) > 1 and isinstance(node.args[1], ast.Constant) else '*'
                    rows.append((mod, fn.name, str(fld)))
    return sorted(set(rows))


def _uncached_codes() -> list[str]:
    """The attribute codes whose presence makes `AttributeCollection.unpack` reset its one-entry cache instead of
    storing the result.  Decided by PROBING the real function (a well-formed attribute block per code, then a look at
    `AttributeCollection.cached`), so that it does not depend on how the test is written in the source."""
    import struct

    from exabgp.bgp.message.update.attribute.attribute import Attribute
    from exabgp.bgp.message.update.attribute.collection import AttributeCollection

    from harness import sessions

    _, n = sessions.make_config(families='ipv4 unicast ipv6 unicast')
    neg = sessions.negotiate(n)

    def tlv(flag: int, code: int, val: bytes) -> bytes:
        return bytes([flag, code, len(val)]) + val

    origin = tlv(0x40, 1, b'\x00')
    aspath = tlv(0x40, 2, b'\x02\x01' + struct.pack('!I', 65001))
    nh = tlv(0x40, 3, bytes([192, 0, 2, 1]))
    base = origin + aspath + nh
    probes = {
        1: base, 2: base, 3: base,
        4: base + tlv(0x80, 4, struct.pack('!I', 5)),
        5: base + tlv(0x40, 5, struct.pack('!I', 100)),
        6: base + tlv(0x40, 6, b''),
        7: base + tlv(0xC0, 7, struct.pack('!I', 65001) + bytes([10, 0, 0, 1])),
        8: base + tlv(0xC0, 8, struct.pack('!HH', 65000, 1)),
        9: base + tlv(0x80, 9, bytes([10, 0, 0, 2])),
        10: base + tlv(0x80, 10, bytes([10, 0, 0, 3])),
        14: origin + aspath + tlv(0x80, 14, struct.pack('!HBB', 2, 1, 16) + bytes(15) + b'\x01' + b'\x00' + bytes([32, 0x20, 0x01, 0x0d, 0xb8])),
        15: tlv(0x80, 15, struct.pack('!HB', 2, 1) + bytes([32, 0x20, 0x01, 0x0d, 0xb8])),
        16: base + tlv(0xC0, 16, bytes([0, 2]) + struct.pack('!HI', 65000, 1)),
        32: base + tlv(0xC0, 32, struct.pack('!III', 65000, 1, 2)),
    }  # fmt: skip
    saved = (AttributeCollection.cached, AttributeCollection.previous, getattr(AttributeCollection, 'previous_context', None))
    names = {int(getattr(Attribute.CODE, k)): k for k in dir(Attribute.CODE) if k.isupper() and isinstance(getattr(Attribute.CODE, k), int)}
    out: list[str] = []
    try:
        for code, block in sorted(probes.items()):
            AttributeCollection.cached = None
            AttributeCollection.previous = b''
            got = AttributeCollection.unpack(block, neg)
            if code not in got:
                raise RuntimeError(f'probe for attribute {code} was not decoded: {got}')
            if AttributeCollection.cached is None:
                out.append(names[code])
    finally:
        AttributeCollection.cached, AttributeCollection.previous = saved[0], saved[1]
        if saved[2] is not None or hasattr(AttributeCollection, 'previous_context'):
            AttributeCollection.previous_context = saved[2]
    if not out:
        raise RuntimeError('AttributeCollection.unpack stores every probe: nothing is left uncached')
    return sorted(set(out))


def generate() -> dict[str, str]:
    import exabgp.reactor.protocol  # noqa: F401  (imports every message / attribute / capability class)
    from exabgp.bgp.message.open.capability.capability import Capability
    from exabgp.bgp.message.update.attribute.attribute import Attribute
    import exabgp.bgp.message.update.attribute as attrpkg

    def table(reg: dict, code_of) -> tuple[list[tuple[int, int]], list[str], list[tuple[int, int]]]:
        classes = sorted({f'{k.__module__}.{k.__qualname__}' for k in reg.values()})
        idx = {c: i for i, c in enumerate(classes)}
        rows = sorted({(int(code_of(key)), idx[f'{k.__module__}.{k.__qualname__}']) for key, k in reg.items()})
        by_code: dict[int, int] = {}
        for c, k in rows:
            if by_code.setdefault(c, k) != k:
                raise RuntimeError(f'code {c} is registered for two classes')
        # value of ID in the class body (what an instance reads before any dispatch)
        # (read in a process that has decoded nothing: the translator)
        body = sorted({(idx[f'{k.__module__}.{k.__qualname__}'], int(k.ID)) for k in reg.values()})
        return rows, classes, body

    arows, aclasses, abody = table(Attribute.registered_attributes, lambda key: key[0])
    crows, cclasses, cbody = table(Capability.registered_capability, lambda key: key)
    reads = _reads(Path(attrpkg.__file__).parent)
    uncached = _uncached_codes()
    uncached_codes = sorted(int(getattr(Attribute.CODE, n)) for n in uncached)
    # the modules of the classes whose results are never stored
    mp_modules = sorted({k.__module__.rsplit('.', 1)[1] for (aid, _), k in Attribute.registered_attributes.items() if aid in uncached_codes})

    def pairs(rows) -> str:
        return '[' + ', '.join(f'({a}, {b})' for a, b in rows) + ']'

    lean = f'''import ExaModel.AList
namespace Exa.Generated.DecodeCacheTable

/-- `Attribute.registered_attributes`: attribute code ↦ class (index into `attrClasses`) -/
def attrRegistry : List (Nat × Nat) := {pairs(arows)}
def attrClasses : List String := [{', '.join(f'"{c}"' for c in aclasses)}]
/-- class ↦ `ID` in the class body -/
def attrClassID : List (Nat × Nat) := {pairs(abody)}

/-- `Capability.registered_capability`: capability code ↦ class (index into `capClasses`) -/
def capRegistry : List (Nat × Nat) := {pairs(crows)}
def capClasses : List String := [{', '.join(f'"{c}"' for c in cclasses)}]
def capClassID : List (Nat × Nat) := {pairs(cbody)}

/-- every read `negotiated.<field>` on the decode side of bgp/message/update/attribute/:
    (module, function, field) -/
def reads : List (String × String × String) :=
  [{', '.join(f'("{m}", "{f}", "{x}")' for m, f, x in reads)}]

/-- the attribute codes whose presence makes `AttributeCollection.unpack` reset instead of store -/
def uncachedCodes : List Nat := {uncached_codes}
/-- the modules of the classes registered for those codes -/
def uncachedModules : List String := [{', '.join(f'"{m}"' for m in mp_modules)}]

end Exa.Generated.DecodeCacheTable
'''
    return {'DecodeCacheTable.lean': lean}
