"""Tables of the decode-side process-wide state (C19):

* `Attribute.registered_attributes` and `Capability.registered_capability` as code -> class,
  because `Attribute.klass` / `Capability.klass` execute `kls.ID = <code>` on the class;
* every read `negotiated.<field>` made on the decode side under bgp/message/update/attribute/
  (read by AST), because that is what a sound key of `AttributeCollection.cached` must contain;
* which registered attribute classes are what `AttributeCollection.unpack` refuses to cache
  (MP_REACH_NLRI / MP_UNREACH_NLRI), read by AST from `unpack`.
"""

from __future__ import annotations

import ast
import inspect
import textwrap
from pathlib import Path

# functions that are the *encode* side or pure rendering: a read of `negotiated` there cannot
# influence what a decoder returns
ENCODE_SIDE = ('pack', '_pack', 'json', '__str__', '__repr__', 'extensive', 'string', 'make_', 'from_set')


def _reads(root: Path) -> list[tuple[str, str, str]]:
    rows: list[tuple[str, str, str]] = []
    for path in sorted(root.rglob('*.py')):
        mod = str(path.relative_to(root))[:-3].replace('/', '.')
        tree = ast.parse(path.read_text())
        for fn in ast.walk(tree):
            if not isinstance(fn, (ast.FunctionDef, ast.AsyncFunctionDef)):
                continue
            if fn.name.startswith(ENCODE_SIDE):
                continue
            for node in ast.walk(fn):
                if isinstance(node, ast.Attribute) and isinstance(node.value, ast.Name) and node.value.id in ('negotiated', 'ctx'):
                    rows.append((mod, fn.name, node.attr))
                # `self._context.<field>` / `getattr(negotiated, 'x')`
                if isinstance(node, ast.Call) and getattr(node.func, 'id', None) == 'getattr' and node.args and getattr(node.args[0], 'id', None) == 'negotiated':
                    fld = node.args[1].value if len(node.args) > 1 and isinstance(node.args[1], ast.Constant) else '*'
                    rows.append((mod, fn.name, str(fld)))
    return sorted(set(rows))


def _uncached_codes() -> list[str]:
    """The attribute codes named in the `not in attributes` test guarding the store in unpack."""
    from exabgp.bgp.message.update.attribute.collection import AttributeCollection

    src = textwrap.dedent(inspect.getsource(AttributeCollection.unpack.__func__))
    tree = ast.parse(src)
    names: list[str] = []
    for node in ast.walk(tree):
        if isinstance(node, ast.If):
            for cmp in ast.walk(node.test):
                if isinstance(cmp, ast.Compare) and len(cmp.ops) == 1 and isinstance(cmp.ops[0], ast.NotIn):
                    left = cmp.left
                    if isinstance(left, ast.Attribute) and isinstance(left.value, ast.Attribute) and left.value.attr == 'CODE':
                        names.append(left.attr)
    if not names:
        raise RuntimeError('AttributeCollection.unpack: the test guarding the store was not found')
    return sorted(set(names))


def generate() -> dict[str, str]:
    import exabgp.reactor.protocol  # noqa: F401  (imports every message / attribute / capability class)
    from exabgp.bgp.message.open.capability.capability import Capability
    from exabgp.bgp.message.update.attribute.attribute import Attribute
    import exabgp.bgp.message.update.attribute as attrpkg

    def table(reg: dict, code_of) -> tuple[list[tuple[int, int]], list[str], list[tuple[int, int]]]:
        classes = sorted({f'{k.__module__}.{k.__qualname__}' for k in reg.values()})
        idx = {c: i for i, c in enumerate(classes)}
        rows = sorted({(int(code_of(key)), idx[f'{k.__module__}.{k.__qualname__}']) for key, k in reg.items()})
        by_code: dict[int, int] = {}
        for c, k in rows:
            if by_code.setdefault(c, k) != k:
                raise RuntimeError(f'code {c} is registered for two classes')
        # value of ID in the class body (what an instance reads before any dispatch)
        # (read in a process that has decoded nothing: the translator)
        body = sorted({(idx[f'{k.__module__}.{k.__qualname__}'], int(k.ID)) for k in reg.values()})
        return rows, classes, body

    arows, aclasses, abody = table(Attribute.registered_attributes, lambda key: key[0])
    crows, cclasses, cbody = table(Capability.registered_capability, lambda key: key)
    reads = _reads(Path(attrpkg.__file__).parent)
    uncached = _uncached_codes()
    uncached_codes = sorted(int(getattr(Attribute.CODE, n)) for n in uncached)
    # the modules of the classes whose results are never stored
    mp_modules = sorted({k.__module__.rsplit('.', 1)[1] for (aid, _), k in Attribute.registered_attributes.items() if aid in uncached_codes})

    def pairs(rows) -> str:
        return '[' + ', '.join(f'({a}, {b})' for a, b in rows) + ']'

    lean = f'''import ExaModel.AList
namespace Exa.Generated.DecodeCacheTable

/-- `Attribute.registered_attributes`: attribute code ↦ class (index into `attrClasses`) -/
def attrRegistry : List (Nat × Nat) := {pairs(arows)}
def attrClasses : List String := [{', '.join(f'"{c}"' for c in aclasses)}]
/-- class ↦ `ID` in the class body -/
def attrClassID : List (Nat × Nat) := {pairs(abody)}

/-- `Capability.registered_capability`: capability code ↦ class (index into `capClasses`) -/
def capRegistry : List (Nat × Nat) := {pairs(crows)}
def capClasses : List String := [{', '.join(f'"{c}"' for c in cclasses)}]
def capClassID : List (Nat × Nat) := {pairs(cbody)}

/-- every read `negotiated.<field>` on the decode side of bgp/message/update/attribute/:
    (module, function, field) -/
def reads : List (String × String × String) :=
  [{', '.join(f'("{m}", "{f}", "{x}")' for m, f, x in reads)}]

/-- the attribute codes whose presence makes `AttributeCollection.unpack` reset instead of store -/
def uncachedCodes : List Nat := {uncached_codes}
/-- the modules of the classes registered for those codes -/
def uncachedModules : List String := [{', '.join(f'"{m}"' for m in mp_modules)}]

end Exa.Generated.DecodeCacheTable
'''
    return {'DecodeCacheTable.lean': lean}
