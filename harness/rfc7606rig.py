"""C08 rig: well-formed UPDATEs from the Lean reference encoder (drv_wire), single-attribute corruptions at
the byte level, the REAL decode paths of /repo (Message.unpack -> .data -> Response.JSON.update,
Protocol.read_message with a stub connection, UpdateHandler -> Adj-RIB-In), an RFC reading of the corrupted
bytes written independently of the Lean model (the oracle), and the line protocol of drv_attr7606.

Nothing here re-implements ExaBGP: the `Session` methods call its entry points; `rfc_walk` / `wf_attr` are the
harness's own reading of RFC 4271 §4.3/§5, RFC 7606 §3/§7 and friends, used only to judge what came out."""

from __future__ import annotations

import asyncio
import json
from typing import Any
from unittest.mock import MagicMock

from harness import common, sessions

# ---------------------------------------------------------------------------------------------
# RFC side (oracle): attribute syntax, independent of the Lean model and of ExaBGP

# code -> (optional, transitive)
FLAG_SPEC = {1: (0, 1), 2: (0, 1), 3: (0, 1), 4: (1, 0), 5: (0, 1), 6: (0, 1), 7: (1, 1), 8: (1, 1), 9: (1, 0), 10: (1, 0),
             14: (1, 0), 15: (1, 0), 16: (1, 1), 17: (1, 1), 18: (1, 1), 25: (1, 1), 32: (1, 1)}  # fmt: skip
# RFC 7606 §7 (+ RFC 6793 §6 for 17/18, RFC 8092 §6 for 32): W = treat-as-withdraw, D = attribute discard, R = session reset
RFC_CLASS = {1: 'W', 2: 'W', 3: 'W', 4: 'W', 5: 'W', 6: 'D', 7: 'D', 8: 'W', 9: 'W', 10: 'W', 14: 'R', 15: 'R', 16: 'W', 17: 'D', 18: 'D', 25: 'W', 32: 'W'}  # fmt: skip
NAMES = {1: 'origin', 2: 'as-path', 3: 'next-hop', 4: 'med', 5: 'local-preference', 6: 'atomic-aggregate', 7: 'aggregator', 8: 'community',
         9: 'originator-id', 10: 'cluster-list', 14: 'mp-reach', 15: 'mp-unreach', 16: 'extended-community', 17: 'as4-path', 18: 'as4-aggregator',
         25: 'extended-community-ipv6', 32: 'large-community'}  # fmt: skip


def segs_ok(v: bytes, width: int) -> bool:
    i = 0
    while i < len(v):
        if len(v) - i < 2:
            return False
        t, c = v[i], v[i + 1]
        if t < 1 or t > 4 or c == 0:
            return False
        i += 2 + c * width
        if i > len(v):
            return False
    return True


def wf_value(code: int, v: bytes, asn4: bool) -> bool:
    n = len(v)
    if code == 1:
        return n == 1 and v[0] <= 2
    if code == 2:
        return segs_ok(v, 4 if asn4 else 2)
    if code in (3, 4, 5, 9):
        return n == 4
    if code == 6:
        return n == 0
    if code == 7:
        return n == (8 if asn4 else 6)
    if code in (8, 10):
        return n > 0 and n % 4 == 0
    if code == 14:
        return n >= 5 and n >= 5 + v[3]
    if code == 15:
        return n >= 3
    if code == 16:
        return n > 0 and n % 8 == 0
    if code == 17:
        return segs_ok(v, 4)
    if code == 18:
        return n == 8
    if code == 25:
        return n > 0 and n % 20 == 0
    if code == 32:
        return n > 0 and n % 12 == 0
    return True  # no syntax known for the code


def wf_flags(code: int, flag: int) -> bool:
    if code not in FLAG_SPEC:
        return True
    o, t = FLAG_SPEC[code]
    return ((flag >> 7) & 1) == o and ((flag >> 6) & 1) == t


def rfc_walk(block: bytes) -> tuple[list[dict], bool]:
    """RFC 4271 §4.3 walk. Each occurrence: flag, code, declared length, value bytes present, overrun.
    Second result: the block ends inside an attribute header."""
    out = []
    i = 0
    n = len(block)
    while i < n:
        if n - i < 3:
            return out, True
        flag, code = block[i], block[i + 1]
        if flag & 0x10:
            if n - i < 4:
                return out, True
            ln = int.from_bytes(block[i + 2 : i + 4], 'big')
            off = i + 4
        else:
            ln = block[i + 2]
            off = i + 3
        val = block[off : off + ln]
        out.append({'flag': flag, 'code': code, 'dlen': ln, 'val': val, 'overrun': len(val) < ln})
        i = off + ln
    return out, False


def split_body(body: bytes) -> tuple[bytes, bytes, bytes]:
    wl = int.from_bytes(body[0:2], 'big')
    al = int.from_bytes(body[2 + wl : 4 + wl], 'big')
    return body[2 : 2 + wl], body[4 + wl : 4 + wl + al], body[4 + wl + al :]


def join_body(wd: bytes, block: bytes, nlri: bytes) -> bytes:
    return len(wd).to_bytes(2, 'big') + wd + len(block).to_bytes(2, 'big') + block + nlri


def tlv(flag: int, code: int, val: bytes, dlen: int | None = None) -> bytes:
    ln = len(val) if dlen is None else dlen
    if flag & 0x10:
        return bytes([flag, code]) + (ln & 0xFFFF).to_bytes(2, 'big') + val
    return bytes([flag, code, ln & 0xFF]) + val


# ---------------------------------------------------------------------------------------------
# Base UPDATEs through the reference encoder


def _ip4(rng) -> str:
    return bytes([rng.choice([10, 172, 192]), rng.randrange(256), rng.randrange(256), rng.randrange(1, 255)]).hex()


def _flags(o: int, t: int, ext: int) -> str:
    return f'{o}{t}0{ext}'


def gen_base(rng, asn4: bool, kind: str, want: list[int] | None = None) -> dict:
    """A well-formed UpdateSem in drv_wire's text form. kind: v4 | mp | v4mp (IPv4 NLRI + MP_UNREACH)."""
    big = asn4 and rng.random() < 0.5
    asns = [rng.choice([65001, 64512, 1, 23456 if not asn4 else 4200000001] if big else [65001, 64512, 1, 3356]) for _ in range(rng.randrange(1, 5))]
    segs = '2:' + ','.join(map(str, asns))
    if rng.random() < 0.3:
        segs += '|1:' + ','.join(str(rng.choice([7, 8, 9])) for _ in range(rng.randrange(1, 3)))
    e = lambda: int(rng.random() < 0.15)  # extended length on a short attribute: legal  # noqa: E731
    attr: dict[int, str] = {}
    attr[1] = f'{_flags(0, 1, e())}~1~{rng.randrange(3)}'
    attr[2] = f'{_flags(0, 1, e())}~2~{segs}'
    if kind in ('v4', 'v4mp'):
        attr[3] = f'{_flags(0, 1, e())}~3~{_ip4(rng)}'
    attr[4] = f'{_flags(1, 0, e())}~4~{rng.choice([0, 1, 100, 4294967295])}'
    attr[5] = f'{_flags(0, 1, e())}~5~{rng.choice([0, 100, 4294967295])}'
    attr[6] = f'{_flags(0, 1, e())}~6~-'
    attr[7] = f'{_flags(1, 1, e())}~7~{65001 if not big else 4200000001}~{_ip4(rng)}'
    attr[8] = f'{_flags(1, 1, e())}~8~' + ','.join(str(rng.choice([4259840100, 65536, 4294967041])) for _ in range(rng.randrange(1, 4)))
    attr[9] = f'{_flags(1, 0, e())}~9~{_ip4(rng)}'
    attr[10] = f'{_flags(1, 0, e())}~10~' + ','.join(str(rng.randrange(1, 1 << 32)) for _ in range(rng.randrange(1, 3)))
    attr[16] = f'{_flags(1, 1, e())}~16~' + ','.join(rng.choice(['0002fde800000001', '0102c0a8000100c8']) for _ in range(rng.randrange(1, 3)))
    attr[32] = f'{_flags(1, 1, e())}~32~' + ','.join(f'{rng.randrange(1, 70000)}.{rng.randrange(5)}.{rng.randrange(5)}' for _ in range(rng.randrange(1, 3)))
    attr[25] = f'{_flags(1, 1, e())}~25~' + (bytes([0, 2]) + bytes(16) + bytes([0, 1])).hex() * rng.randrange(1, 3)
    attr[99] = f'{_flags(1, 1, e())}~99~' + (bytes(rng.randrange(256) for _ in range(rng.randrange(0, 6))).hex() or '-')
    attr[100] = f'{_flags(1, 0, e())}~100~' + (bytes(rng.randrange(256) for _ in range(rng.randrange(1, 6))).hex())
    if not asn4:
        attr[17] = f'{_flags(1, 1, e())}~17~2:' + ','.join(str(rng.choice([65001, 64512, 3356])) for _ in range(rng.randrange(1, 3)))
        attr[18] = f'{_flags(1, 1, e())}~18~65001~{_ip4(rng)}'
    nl6 = ['-:-:-:64:20010db800010002', '-:-:-:48:20010db8ffff', '-:-:-:128:20010db8000000000000000000000001', '-:-:-:0:-']
    nl4 = ['-:-:-:24:0a0000', '-:-:-:16:0a01', '-:-:-:32:c0a80001', '-:-:-:8:0b', '-:-:-:0:-']
    if kind in ('mp',):
        nh = '20010db8000000000000000000000001' + ('fe800000000000000000000000000001' if rng.random() < 0.3 else '')
        attr[14] = f'{_flags(1, 0, e())}~14~2.1~{nh}~' + '+'.join(rng.sample(nl6, rng.randrange(1, 3)))
    if kind in ('v4mp',) or (kind == 'mp' and rng.random() < 0.3):
        attr[15] = f'{_flags(1, 0, e())}~15~2.1~' + '+'.join(rng.sample(nl6, rng.randrange(1, 3)))
    mandatory = [1, 2] + ([3] if kind != 'mp' else []) + ([14] if kind == 'mp' else []) + ([15] if kind == 'v4mp' else [])
    optional = [c for c in attr if c not in mandatory]
    chosen = set(mandatory) | set(want or [])
    for c in optional:
        if rng.random() < 0.35:
            chosen.add(c)
    # the peer may send the attributes in any order (RFC 4271 §5: SHOULD be ordered, not MUST)
    order = sorted(c for c in chosen if c in attr)
    if rng.random() < 0.25:
        rng.shuffle(order)
    nlri = '+'.join(rng.sample(nl4, rng.randrange(1, 3))) if kind != 'mp' else '-'
    wd = '-:-:-:16:0a09' if rng.random() < 0.3 and kind != 'mp' else '-'
    return {'asn4': asn4, 'kind': kind, 'w': wd, 'a': ';'.join(attr[c] for c in order), 'n': nlri, 'codes': order}


def minimal_base(asn4: bool, kind: str, code: int) -> dict:
    """Fixed smallest base carrying `code` (shrinking target)."""
    attr = {
        1: '0100~1~0', 2: '0100~2~2:65001', 3: '0100~3~0a000001', 4: '1000~4~5', 5: '0100~5~100', 6: '0100~6~-', 7: '1100~7~65001~0a000001',
        8: '1100~8~4259840100', 9: '1000~9~0a000002', 10: '1000~10~167772163', 16: '1100~16~0002fde800000001', 32: '1100~32~1.2.3',
        25: '1100~25~' + (bytes([0, 2]) + bytes(16) + bytes([0, 1])).hex(), 99: '1100~99~616263', 100: '1000~100~6162',
        17: '1100~17~2:65001', 18: '1100~18~65001~0a000001', 14: '1000~14~2.1~20010db8000000000000000000000001~-:-:-:64:20010db800010002',
        15: '1000~15~2.1~-:-:-:48:20010db8ffff',
    }  # fmt: skip
    codes = [1, 2] + ([3] if kind != 'mp' else []) + ([14] if kind == 'mp' else []) + ([15] if kind == 'v4mp' else [])
    if code not in codes:
        codes.append(code)
    codes = sorted(codes)
    return {'asn4': asn4, 'kind': kind, 'w': '-', 'a': ';'.join(attr[c] for c in codes), 'n': '-:-:-:24:0a0000' if kind != 'mp' else '-', 'codes': codes}


def wire_params(asn4: bool) -> str:
    return f'{int(asn4)} - - 65535'


def encode_bases(bases: list[dict]) -> list[bytes]:
    lines = [f'wire encode {wire_params(b["asn4"])} {b["w"]} {b["a"]} {b["n"]}' for b in bases]
    out = common.run_driver('drv_wire', lines)
    res = []
    for b, o in zip(bases, out):
        if o == 'bad-op':
            raise common.Infra(f'drv_wire refused a base UPDATE: {b}')
        res.append(b'' if o == '-' else bytes.fromhex(o))
    return res


# ---------------------------------------------------------------------------------------------
# Corruptions. Each takes the TLV list of the base block and the index of the target and returns the
# corrupted block (bytes), or None when it does not apply. `group` is the canonical corruption kind.

GROUPS = {
    'len+1': 'length', 'len-1': 'length', 'len0': 'length', 'huge': 'length', 'len+4': 'length', 'self-tlv': 'length',
    'flag-opt': 'flags', 'flag-trans': 'flags', 'flag-both': 'flags',
    'flag-part': 'flag-noise', 'flag-ext': 'flag-noise', 'flag-low': 'flag-noise',
    'value-a': 'value', 'value-b': 'value', 'value-c': 'value', 'value-d': 'value',
    'trunc-header1': 'truncation', 'trunc-header2': 'truncation', 'trunc-value': 'truncation',
    'overrun-last1': 'overrun', 'overrun-last4': 'overrun', 'overrun-last200': 'overrun', 'overrun-empty': 'overrun', 'overrun-mid': 'overrun-mid',
    'dup-next': 'duplication', 'dup-end': 'duplication', 'dup-diff': 'duplication',
}  # fmt: skip
KINDS = list(GROUPS)


def ser(ts: list[dict]) -> bytes:
    return b''.join(t['raw'] for t in ts)


def base_tlvs(block: bytes) -> list[dict]:
    occ, cut = rfc_walk(block)
    assert not cut
    i = 0
    for o in occ:
        hdr = 4 if o['flag'] & 0x10 else 3
        o['raw'] = block[i : i + hdr + o['dlen']]
        i += hdr + o['dlen']
    return occ


def bad_value(code: int, v: bytes, which: str, asn4: bool) -> bytes | None:
    """A value the RFC syntax rejects although the TLV framing is consistent; `which` in a..d selects the variant."""
    if code == 1:
        return {'a': b'\x03', 'b': b'\x09', 'c': b'\xff'}.get(which)
    if code in (2, 17) and len(v) >= 2:
        b = bytearray(v)
        if which == 'a':
            b[0] = 0  # segment type 0
        elif which == 'b':
            b[0] = 5  # segment type 5
        elif which == 'c':  # first segment with no AS number (RFC 7606 §7.2), framing consistent
            width = 4 if (asn4 or code == 17) else 2
            return bytes([v[0], 0]) + v[2 + v[1] * width :]
        else:
            b[1] = min(255, b[1] + 1)  # one AS number more than there are bytes
        return bytes(b)
    if code == 3:
        return {'a': bytes(16), 'b': bytes(range(32, 48))}.get(which)  # 16 bytes: an IPv6 address is not a NEXT_HOP (RFC 7606 §7.3)
    if code == 14 and len(v) >= 5:
        b = bytearray(v)
        if which == 'a':
            b[3] = len(v) & 0xFF  # next-hop length runs past the attribute
        elif which == 'b':
            b[3] = 255
        else:
            return None
        return bytes(b)
    return None


def corrupt(kind: str, ts: list[dict], i: int, rng, asn4: bool) -> bytes | None:
    t = ts[i]
    flag, code, v = t['flag'], t['code'], t['val']
    pre, post = ser(ts[:i]), ser(ts[i + 1 :])
    if kind == 'len+1':
        return pre + tlv(flag, code, v + bytes([rng.randrange(256)])) + post
    if kind == 'self-tlv':
        # the value is the attribute's own TLV: what a table keyed by whole attributes instead of values would know
        return pre + tlv(flag, code, tlv(flag, code, v)) + post if len(v) + 3 <= 255 else None
    if kind == 'len+4':
        return pre + tlv(flag, code, v + bytes(rng.randrange(256) for _ in range(4))) + post
    if kind == 'len-1':
        return pre + tlv(flag, code, v[:-1]) + post if v else None
    if kind == 'len0':
        return pre + tlv(flag, code, b'') + post if v else None
    if kind == 'huge':
        n = rng.choice([255, 256, 300, 1000])
        return pre + tlv(flag | (0x10 if n > 255 else 0), code, (v * (n // max(1, len(v)) + 1))[:n] if v else bytes(n)) + post
    if kind == 'flag-opt':
        return pre + tlv(flag ^ 0x80, code, v) + post
    if kind == 'flag-trans':
        return pre + tlv(flag ^ 0x40, code, v) + post
    if kind == 'flag-both':
        return pre + tlv(flag ^ 0xC0, code, v) + post
    if kind == 'flag-part':
        return pre + tlv(flag ^ 0x20, code, v) + post
    if kind == 'flag-ext':
        if flag & 0x10:
            return pre + tlv(flag & ~0x10, code, v) + post if len(v) < 256 else None
        return pre + tlv(flag | 0x10, code, v) + post
    if kind == 'flag-low':
        return pre + tlv(flag | rng.choice([1, 2, 4, 8, 15]), code, v) + post
    if kind.startswith('value-'):
        b = bad_value(code, v, kind[-1], asn4)
        return None if b is None else pre + tlv(flag, code, b) + post
    # truncation of the block: the target becomes the last attribute and the block ends inside it
    rest = ser(ts[:i] + ts[i + 1 :])
    if kind == 'trunc-header1':
        return rest + t['raw'][:1]
    if kind == 'trunc-header2':
        return rest + t['raw'][:2] if not (flag & 0x10) else rest + t['raw'][:3]
    if kind == 'trunc-value':
        hdr = 4 if flag & 0x10 else 3
        if not v:
            return None
        return rest + t['raw'][: hdr + rng.randrange(0, len(v))]
    # overrun past the block: the target is last, its declared length exceeds what is left
    if kind in ('overrun-last1', 'overrun-last4', 'overrun-last200'):
        k = int(kind[len('overrun-last') :])
        if not (flag & 0x10) and len(v) + k > 255:
            return None
        return rest + tlv(flag, code, v, dlen=len(v) + k)
    if kind == 'overrun-empty':  # declared length, no value byte at all
        return rest + tlv(flag, code, b'', dlen=max(1, len(v)))
    if kind == 'overrun-mid':  # declared length swallows the following attribute(s): consistent framing, wrong length
        if not post:
            return None
        k = rng.randrange(1, min(len(post), 255 - len(v) if not (flag & 0x10) else len(post)) + 1) if len(v) < 255 or flag & 0x10 else 0
        if k <= 0:
            return None
        return pre + tlv(flag, code, v, dlen=len(v) + k) + post
    if kind == 'dup-next':
        return pre + t['raw'] + t['raw'] + post
    if kind == 'dup-end':
        return pre + t['raw'] + post + t['raw']
    if kind == 'dup-diff':  # a second occurrence that is itself malformed: must not replace or join the first
        return pre + t['raw'] + post + tlv(flag, code, v + b'\x01')
    raise ValueError(kind)


# ---------------------------------------------------------------------------------------------
# The real code


def _notify_str(e) -> str:
    return f'notify {e.code} {e.subcode}'


class Session:
    """One negotiated session (ipv4 unicast + ipv6 unicast, no ADD-PATH) with a real Peer / Protocol."""

    def __init__(self, asn4: bool) -> None:
        from exabgp.bgp.message.direction import Direction

        self.asn4 = asn4
        self.cfg, self.n = sessions.make_config()
        self.neg = sessions.negotiate(self.n, direction=Direction.IN, asn4=asn4)
        self.peer, self.proto = sessions.make_peer(self.n, self.neg)
        self.n.api['receive-update'] = True
        self.n.api['receive-parsed'] = True
        self.events: list = []
        self.peer.reactor.processes.message = lambda *a: self.events.append(a)
        self.loop = asyncio.new_event_loop()
        self.families = '+'.join(f'{int(a)}.{int(s)}' for a, s in self.neg.families)

    def close(self) -> None:
        self.loop.close()

    keep_caches = False  # history pass: what earlier messages (of any session) left in the process-wide caches stays

    def reset(self) -> None:
        from exabgp.bgp.message.update.attribute import AttributeCollection

        if not Session.keep_caches:
            AttributeCollection.cached = None
            AttributeCollection.previous = b''
        self.n.rib.incoming.clear()
        self.events.clear()

    # -- canonical forms ------------------------------------------------------------------

    def _route(self, nlri) -> str:
        afi, safi = nlri.family().afi_safi()
        raw = bytes(nlri.pack_nlri(self.neg))
        return f'{int(afi)}.{int(safi)}/-:-:-:{raw[0]}:{raw[1:].hex() or "-"}'

    @staticmethod
    def _kept(attributes) -> tuple[list[tuple[int, int, str]], bool, bool]:
        kept = []
        taw = disc = False
        for code, a in attributes.items():
            if code == 0xFFFF:
                taw = True
            elif code == 0xFFFE:
                disc = True
            elif code >= 0xFF00:
                continue
            else:
                packed = getattr(a, '_packed', None)
                kept.append((int(code), int(a.FLAG), bytes(packed).hex() if packed is not None else '?'))
        return kept, taw, disc

    # -- entry points -----------------------------------------------------------------------

    def unpack(self, body: bytes) -> dict:
        """Message.unpack(2, body, negotiated) -> .data -> the JSON event."""
        from exabgp.bgp.message import Message
        from exabgp.bgp.message.notification import Notify
        from exabgp.reactor.api.response import Response

        self.reset()
        try:
            m = Message.unpack(2, memoryview(bytearray(body)), self.neg)  # writable, as the receive buffer of the real reader is
        except Notify as e:
            return {'out': _notify_str(e)}
        except Exception as e:  # noqa: BLE001
            return {'out': f'raise {type(e).__name__}'}
        if getattr(m, 'IS_EOR', False):
            return {'out': 'ok', 'eor': True, 'announce': [], 'withdraw': [], 'kept': [], 'taw': False, 'disc': False, 'json': {}}
        try:
            d = m.data
            kept, taw, disc = self._kept(d.attributes)
            res = {
                'out': 'ok', 'eor': False,
                'announce': [self._route(r.nlri) for r in d.announces],
                'withdraw': [self._route(x) for x in d.withdraws],
                'kept': kept, 'taw': taw, 'disc': disc,
            }  # fmt: skip
            text = Response.JSON('6.0.0').update(self.n, 'receive', d, b'', b'', self.neg)
            res['json'] = json.loads(text)['neighbor']['message'].get('update', {})
            return res
        except Notify as e:
            return {'out': _notify_str(e)}
        except Exception as e:  # noqa: BLE001
            return {'out': f'raise {type(e).__name__}'}

    def read(self, body: bytes) -> dict:
        """Protocol.read_message on a stub connection that delivers this UPDATE, then UpdateHandler -> Adj-RIB-In."""
        from exabgp.bgp.message.notification import Notify
        from exabgp.reactor.api.response import Response
        from exabgp.reactor.peer.context import PeerContext
        from exabgp.reactor.peer.handlers import UpdateHandler

        self.reset()
        header = b'\xff' * 16 + (19 + len(body)).to_bytes(2, 'big') + b'\x02'

        async def reader_async():
            return 19 + len(body), 2, memoryview(header), memoryview(body), None

        self.proto.connection.reader_async = reader_async
        res: dict[str, Any] = {'api': None, 'ribin': []}
        try:
            m = self.loop.run_until_complete(self.proto.read_message())
        except Notify as e:
            res['out'] = _notify_str(e)
            return res
        except Exception as e:  # noqa: BLE001
            res['out'] = f'raise {type(e).__name__}'
            return res
        if self.events:
            _, peer, direction, message, hdr, bdy, neg = self.events[-1]
            if getattr(message, 'IS_EOR', False):
                res['api'] = {}  # the JSON event of an End-of-RIB is C13's business (it is not valid JSON on this tree)
            else:
                res['api'] = json.loads(Response.JSON('6.0.0').update(peer.neighbor, direction, message.data, hdr, bdy, neg))['neighbor']['message'].get('update', {})
        handler = UpdateHandler()
        if getattr(m, 'IS_EOR', False):
            res['out'] = 'eor'
        elif handler.can_handle(m):
            res['out'] = 'update'
            ctx = PeerContext(proto=self.proto, neighbor=self.n, negotiated=self.neg, refresh_enhanced=False, routes_per_iteration=25, peer_id='rig', stats=self.peer.stats)
            self.loop.run_until_complete(handler.handle_async(ctx, m))
            for route in self.n.rib.incoming.cached_routes():
                kept, _, _ = self._kept(route.attributes)
                res['ribin'].append((self._route(route.nlri), kept))
        else:
            res['out'] = 'nop'
        return res


# ---------------------------------------------------------------------------------------------
# Model side


def model_lines(fix: str, sess: Session, body: bytes) -> str:
    return f'attr7606 decode {fix} {wire_params(sess.asn4)} {sess.families} {body.hex() or "-"}'


def dedup12(hexv: str) -> str:
    seen, out = set(), []
    for i in range(0, len(hexv), 24):
        c = hexv[i : i + 24]
        if c not in seen:
            seen.add(c)
            out.append(c)
    return ''.join(out)


def canon_kept(items: list[tuple[int, str, str]], has17: bool) -> list[str]:
    """(code, flag-or-'' , value hex) -> comparable strings. The flag is compared for unknown codes only (the
    class FLAG of a known attribute is not what was on the wire); LARGE_COMMUNITY is de-duplicated by the
    code; the AS_PATH of an UPDATE that also carries AS4_PATH is compared by presence only (merge: C02)."""
    out = []
    for code, flag, val in items:
        if code == 32:
            val = dedup12(val)
        if code == 2 and has17:
            val = 'm'
        known = code in FLAG_SPEC or code in (22, 23, 26, 29, 40)
        out.append(f'{code}:{"" if known else flag}:{val or "-"}')
    return out


def canon_impl(u: dict, has17: bool) -> str:
    if u['out'] != 'ok':
        return 'raise' if u['out'].startswith('raise') else 'err ' + u['out'][len('notify ') :]
    kept = canon_kept([(c, str(f), v) for c, f, v in u['kept'] if c not in (14, 15)], has17)
    return 'ok ann=%s wd=%s kept=%s taw=%d disc=%d' % ('+'.join(u['announce']) or '-', '+'.join(u['withdraw']) or '-', ','.join(kept) or '-', u['taw'], u['disc'])


def canon_model(line: str, has17: bool) -> str:
    if not line.startswith('ok '):
        return line
    f = dict(w.split('=', 1) for w in line[3:].split(' '))
    items = []
    if f['kept'] != '-':
        for k in f['kept'].split(','):
            c, fl, v = k.split(':')
            items.append((int(c), fl, '' if v == '-' else v))
    kept = canon_kept(items, has17)
    return 'ok ann=%s wd=%s kept=%s taw=%s disc=%s' % (f['ann'], f['wd'], ','.join(kept) or '-', f['taw'], f['disc'])


def expected_read(model: str) -> str:
    """What Protocol.read_message does, derived from the model's answer for Message.unpack."""
    if model.startswith('err '):
        return 'notify ' + model[4:]
    if model == 'raise':
        return 'notify 1 0'
    if model.startswith('ok '):
        f = dict(w.split('=', 1) for w in model[3:].split(' '))
        if f['ann'] == '-' and f['wd'] == '-' and f['kept'] == '-' and f['taw'] == '0' and f['disc'] == '0':
            return 'eor'
        return 'nop' if f['disc'] == '1' else 'update'
    return model
