"""Rig for C18 (M-Fields): route / flow / vpls / attribute TEXT through the real entry points of
/repo, the accepted definitions through the real encoder for every session shape, the bytes that
come out through (a) the real decoder and (b) a small UPDATE walker written here from the RFC
layouts, which hands the raw field bytes to the Lean reference decoder (`drv_fields`).

Entry points driven (all real, in-process):
    Configuration.parse_route_text            programmatic entry
    API.api_route / api_attributes / api_flow / api_vpls    what the API command handlers call
    reactor.api.command.announce.announce_*   the command handlers themselves (error reply / done)
    Configuration([file]).reload()            a configuration file on disk
    UpdateCollection(...).messages(negotiated)  the encoder,  Message.unpack  the decoder
"""

from __future__ import annotations

import asyncio
import os
import re
import signal
import tempfile
from dataclasses import dataclass, field
from typing import Any, Callable
from unittest.mock import AsyncMock, MagicMock

from exabgp.bgp.message import Message
from exabgp.bgp.message.direction import Direction
from exabgp.bgp.message.update.attribute import AttributeCollection
from exabgp.bgp.message.update.collection import RoutedNLRI, UpdateCollection
from exabgp.configuration.configuration import Configuration
from exabgp.reactor.api import API
from exabgp.reactor.api.command import announce as api_announce
from exabgp.rib import RIB
from exabgp.util.enumeration import TriState

from harness import sessions

FAMILIES = 'ipv4 unicast ipv6 unicast ipv4 nlri-mpls ipv4 mpls-vpn ipv6 mpls-vpn ipv4 flow ipv6 flow l2vpn vpls'


# ---------------------------------------------------------------------------------------------
# session shapes


@dataclass
class Shape:
    name: str
    ibgp: bool
    asn4: bool
    addpath: bool
    size: int
    aigp: bool = True  # `capability { aigp enable; }` on this session (AIGP is sent to an eBGP peer only then; RFC 7311)
    neighbor: Any = None
    neg_out: Any = None
    neg_in: Any = None

    @property
    def kind(self) -> str:
        return 'asn4' if self.asn4 else 'asn2'


def _neighbor(local_as: int, peer_as: int, addpath: bool, la: str, pa: str, aigp: bool = True):
    cfg, n = sessions.make_config(local_as=local_as, peer_as=peer_as, families=FAMILIES, add_path=addpath, local_address=la, peer_address=pa)
    if addpath:
        n.capability.add_path = 3
    if aigp:
        n.capability.aigp = TriState.TRUE
    return cfg, n


def _shape(name: str, ibgp: bool, asn4: bool, addpath: bool, size: int, aigp: bool = True) -> Shape:
    from exabgp.bgp.message.open.routerid import RouterID

    s = Shape(name, ibgp, asn4, addpath, size, aigp)
    peer_as = 65000 if ibgp else 65001
    _, n = _neighbor(65000, peer_as, addpath, '127.0.0.1', '127.0.0.2', aigp)
    _, p = _neighbor(peer_as, 65000, addpath, '127.0.0.2', '127.0.0.1', aigp)
    p.session.router_id = RouterID('2.2.2.2')
    s.neighbor = n
    s.neg_out = sessions.negotiate(n, p, Direction.OUT, asn4=asn4, msg_size=size)
    s.neg_in = sessions.negotiate(n, p, Direction.IN, asn4=asn4, msg_size=size)
    for neg in (s.neg_out, s.neg_in):
        neg.aigp = aigp
    return s


def build_shapes() -> list[Shape]:
    """16 session shapes with AIGP enabled, and one eBGP shape without it before and after them: a definition is
    encoded for the sessions in this order with the SAME parsed Route objects, as the daemon does for its neighbors,
    so what one session's encoding leaves behind on the objects meets a session that differs in that parameter."""
    shapes = [_shape('ebgp/asn4/plain/65535-noaigp', False, True, False, 65535, aigp=False)]
    for ibgp in (False, True):
        for asn4 in (True, False):
            for addpath in (False, True):
                for size in (65535, 4096):
                    shapes.append(_shape(f'{"ibgp" if ibgp else "ebgp"}/{"asn4" if asn4 else "asn2"}/{"addpath" if addpath else "plain"}/{size}', ibgp, asn4, addpath, size))
    shapes.append(_shape('ebgp/asn4/plain/4096-noaigp', False, True, False, 4096, aigp=False))
    return shapes


# ---------------------------------------------------------------------------------------------
# outcomes


@dataclass
class Outcome:
    status: str  # ok | refused | raised | hangs
    routes: list = field(default_factory=list)
    detail: str = ''  # error message / exception type

    def short(self) -> str:
        return self.status if self.status != 'raised' else f'raised:{self.detail.split(":")[0]}'


class Hang(BaseException):
    """Raised by the watchdog inside an entry point that does not return (BaseException so that no
    `except Exception` of the code under test swallows it)."""


class watchdog:
    """`with watchdog(seconds) as w:` — interrupts the (pure Python) code under test when it loops."""

    fired = False

    def __init__(self, seconds: float) -> None:
        self.seconds = seconds

    def _handler(self, signum, frame):
        self.fired = True
        raise Hang(f'no answer after {self.seconds}s')

    def __enter__(self) -> 'watchdog':
        self.old = signal.signal(signal.SIGALRM, self._handler)
        signal.setitimer(signal.ITIMER_REAL, self.seconds)
        return self

    def __exit__(self, *a: Any) -> bool:
        signal.setitimer(signal.ITIMER_REAL, 0)
        signal.signal(signal.SIGALRM, self.old)
        return False


# The API command handlers catch ValueError and IndexError around api_* and answer with an error reply
# ("Failed to parse route: …", "Invalid route syntax: …"): these two are the parser's documented refusal.
REFUSAL_EXCEPTIONS = (ValueError, IndexError)


def _exc(e: BaseException) -> str:
    return f'{type(e).__name__}: {str(e)[:120]}'


FILE_TEMPLATE = """neighbor 127.0.0.2 {
    router-id 1.1.1.1;
    local-address 127.0.0.1;
    local-as 65000;
    peer-as 65001;
    family {
        ipv4 unicast;
        ipv6 unicast;
        ipv4 nlri-mpls;
        ipv4 mpls-vpn;
        ipv4 flow;
        ipv6 flow;
        l2vpn vpls;
    }
%s
}
"""


class Rig:
    def __init__(self) -> None:
        self.shapes = build_shapes()
        self.cfg, _ = sessions.make_config(families=FAMILIES)
        reactor = MagicMock()
        reactor.processes.answer_error = AsyncMock()
        reactor.processes.answer_done = AsyncMock()
        reactor.processes.get_sync = MagicMock(return_value=False)
        reactor._peers = {}
        self.reactor = reactor
        self.api = API(reactor)
        self.loop = asyncio.new_event_loop()
        self.timeout = 2.0  # seconds an entry point may take before it counts as hanging

    def close(self) -> None:
        self.loop.close()

    def limit(self, text: str) -> float:
        """Seconds an entry point may take on this text before it counts as not returning: the base
        timeout plus one second per 10 000 characters (a 200 KB as-path parses in a fraction of a second)."""
        return self.timeout + len(text) / 10000.0

    # -- programmatic entry ---------------------------------------------------------------
    def parse_text(self, text: str) -> Outcome:
        try:
            with watchdog(self.limit(text)) as w:
                routes = self.cfg.parse_route_text(text)
        except Hang as e:
            return Outcome('hangs', [], _exc(e))
        except REFUSAL_EXCEPTIONS as e:
            return Outcome('hangs' if w.fired else 'refused', [], _exc(e))
        except Exception as e:  # noqa: BLE001 — any exception out of the entry point is the observation
            return Outcome('hangs' if w.fired else 'raised', [], _exc(e))
        if w.fired:
            return Outcome('hangs', [], 'watchdog fired and was swallowed')
        if routes:
            return Outcome('ok', routes)
        return Outcome('refused', [], str(self.cfg.error))

    # -- the functions the API command handlers call ------------------------------------------
    def api_call(self, kind: str, text: str) -> Outcome:
        cmd = 'announce ' + text
        try:
            with watchdog(self.limit(cmd)) as w:
                routes = self._api(kind, cmd)
        except Hang as e:
            return Outcome('hangs', [], _exc(e))
        except REFUSAL_EXCEPTIONS as e:
            return Outcome('hangs' if w.fired else 'refused', [], _exc(e))
        except Exception as e:  # noqa: BLE001
            return Outcome('hangs' if w.fired else 'raised', [], _exc(e))
        if w.fired:
            return Outcome('hangs', [], 'watchdog fired and was swallowed')
        if routes:
            return Outcome('ok', routes)
        return Outcome('refused', [], str(self.api.configuration.error))

    def _api(self, kind: str, cmd: str) -> list:
        if True:
            if kind == 'route':
                routes = self.api.api_route(cmd)
            elif kind == 'attributes':
                routes = self.api.api_attributes(cmd, [])
            elif kind in ('flow', 'flow6'):
                routes = self.api.api_flow(cmd)
            elif kind == 'vpls':
                routes = self.api.api_vpls(cmd)
            elif kind == 'v4':
                routes = self.api.api_announce_v4(cmd)
            elif kind == 'v6':
                routes = self.api.api_announce_v6(cmd)
            else:
                raise AssertionError(kind)
        return routes

    # -- the command handlers (what the API client is answered) ----------------------------------
    def handler_call(self, kind: str, text: str) -> tuple[str, list, str]:
        """Returns (answer, routes handed to the reactor, message): answer is done | error | raised | silent."""
        r = self.reactor
        r.processes.answer_error.reset_mock()
        r.processes.answer_done.reset_mock()
        r.configuration.announce_route.reset_mock()
        captured: list = []
        r.asynchronous.schedule = lambda service, command, coro: captured.append(coro)
        fn = {'route': api_announce.announce_route, 'attributes': api_announce.announce_attributes, 'flow': api_announce.announce_flow, 'flow6': api_announce.announce_flow, 'vpls': api_announce.announce_vpls, 'v4': api_announce.announce_ipv4, 'v6': api_announce.announce_ipv6}[kind]
        try:
            with watchdog(self.limit(text)) as w:
                fn(self.api, r, 'svc', [], text, False, 'announce')
                for coro in captured:
                    self.loop.run_until_complete(coro)
        except Hang as e:
            for coro in captured:
                coro.close()
            self.loop.close()
            self.loop = asyncio.new_event_loop()
            return 'hangs', [], _exc(e)
        except Exception as e:  # noqa: BLE001
            return ('hangs' if w.fired else 'raised'), [], _exc(e)
        if w.fired:
            return 'hangs', [], 'watchdog fired and was swallowed'
        routes = [c.args[1] for c in r.configuration.announce_route.call_args_list]
        if r.processes.answer_error.await_count:
            args = r.processes.answer_error.await_args.args
            return 'error', routes, str(args[1]) if len(args) > 1 else ''
        if r.processes.answer_done.await_count:
            return 'done', routes, ''
        return 'silent', routes, ''

    # -- a configuration file ----------------------------------------------------------------
    def file_parse(self, kind: str, text: str) -> tuple[Outcome, dict]:
        """Parse a real file holding the definition. Returns the outcome and what the error says."""
        if kind in ('route', 'attributes'):
            block = '    static {\n        %s;\n    }' % text
        elif kind in ('flow', 'flow6'):
            # text is 'flow route { … }'
            block = '    flow {\n        %s\n    }' % text[len('flow ') :]
        elif kind == 'vpls':
            # API form 'vpls endpoint 5 base …' -> file form 'l2vpn { vpls site { endpoint 5; base …; } }'
            toks = text.split()[1:]
            stmts = []
            i = 0
            while i < len(toks):
                stmts.append(' '.join(toks[i : i + 2]))
                i += 2
            block = '    l2vpn {\n        vpls site {\n' + ''.join('            %s;\n' % s for s in stmts) + '        }\n    }'
        else:
            raise AssertionError(kind)
        content = FILE_TEMPLATE % block
        RIB._cache.clear()
        fd, path = tempfile.mkstemp(suffix='.conf', prefix='c18-')
        try:
            with os.fdopen(fd, 'w') as f:
                f.write(content)
            c = Configuration([path])
            try:
                with watchdog(self.limit(content)) as w:
                    ok = c.reload()
            except Hang as e:
                return Outcome('hangs', [], _exc(e)), {}
            except Exception as e:  # noqa: BLE001
                return Outcome('hangs' if w.fired else 'raised', [], _exc(e)), {}
            if w.fired:
                return Outcome('hangs', [], 'watchdog fired and was swallowed'), {}
            msg = str(c.error)
            if ok is True:
                routes = [r for n in c.neighbors.values() for r in n.routes]
                return Outcome('ok', routes), {}
            info = {
                'message': msg[:300],
                'has_line': bool(re.search(r'line \d+', msg)),
                'generic': msg.startswith('problem parsing configuration file'),
            }
            return Outcome('refused', [], msg), info
        finally:
            os.unlink(path)
            RIB._cache.clear()

    # -- encoder / decoder ---------------------------------------------------------------------
    def encode(self, shape: Shape, routes: list) -> list[bytes]:
        """Bodies (after the 19-byte header) of the UPDATEs for these routes on this session."""
        rs = [shape.neighbor.resolve_self(r) for r in routes]
        out = []
        # routes of one definition share their attributes (`attributes … nlri a b`), or there is one route
        coll = UpdateCollection([RoutedNLRI(r.nlri, r.nexthop) for r in rs], [], rs[0].attributes)
        try:
            with watchdog(max(self.timeout, 20.0)):
                for m in coll.messages(shape.neg_out):
                    out.append(bytes(m))
        except Hang:
            raise RuntimeError('messages() does not return') from None
        return out

    def decode(self, shape: Shape, msg: bytes):
        AttributeCollection.cached = None
        AttributeCollection.previous = b''
        try:
            with watchdog(max(self.timeout, 20.0)):
                return Message.unpack(2, msg[19:], shape.neg_in)
        except Hang:
            raise RuntimeError('Message.unpack does not return') from None


# ---------------------------------------------------------------------------------------------
# An UPDATE walker written from the RFC layouts (RFC 4271 4.3, 4760, 7911, 8277, 4364, 4761, 8955)


class Malformed(Exception):
    pass


def split_update(body: bytes) -> tuple[bytes, list[tuple[int, int, bytes]], bytes]:
    if len(body) < 4:
        raise Malformed('short')
    wl = int.from_bytes(body[0:2], 'big')
    wd = body[2 : 2 + wl]
    p = 2 + wl
    al = int.from_bytes(body[p : p + 2], 'big')
    p += 2
    ab = body[p : p + al]
    if len(ab) != al:
        raise Malformed('attribute block')
    nlri = body[p + al :]
    attrs = []
    i = 0
    while i < len(ab):
        if i + 3 > len(ab):
            raise Malformed('attribute header')
        flag, code = ab[i], ab[i + 1]
        if flag & 0x10:
            ln = int.from_bytes(ab[i + 2 : i + 4], 'big')
            i += 4
        else:
            ln = ab[i + 2]
            i += 3
        v = ab[i : i + ln]
        if len(v) != ln:
            raise Malformed('attribute value')
        attrs.append((flag, code, v))
        i += ln
    return wd, attrs, nlri


def attr(attrs, code: int) -> bytes | None:
    for f, c, v in attrs:
        if c == code:
            return v
    return None


def attr_flag(attrs, code: int) -> int | None:
    for f, c, v in attrs:
        if c == code:
            return f
    return None


def mp_reach(attrs) -> tuple[int, int, bytes, bytes] | None:
    v = attr(attrs, 14)
    if v is None:
        return None
    afi = int.from_bytes(v[0:2], 'big')
    safi = v[2]
    nhl = v[3]
    nh = v[4 : 4 + nhl]
    return afi, safi, nh, v[4 + nhl + 1 :]


def path_segments(v: bytes, size: int) -> list[tuple[int, list[bytes]]]:
    segs = []
    i = 0
    while i < len(v):
        t, n = v[i], v[i + 1]
        i += 2
        segs.append((t, [v[i + k * size : i + (k + 1) * size] for k in range(n)]))
        i += n * size
    if i != len(v):
        raise Malformed('as path')
    return segs


def after_marker(elems: list[bytes], marker: int) -> bytes | None:
    for k, e in enumerate(elems[:-1]):
        if int.from_bytes(e, 'big') == marker:
            return elems[k + 1]
    return None


def flow_components(nlri: bytes, afi: int) -> list[tuple[int, Any]]:
    """[(type, payload)]: prefix components -> ('prefix', mask, offset|None, bytes); others -> list of (op, value bytes)."""
    if not nlri:
        raise Malformed('empty flow nlri')
    ln = nlri[0]
    p = 1
    if ln >= 0xF0:
        ln = ((ln & 0x0F) << 8) | nlri[1]
        p = 2
    data = nlri[p : p + ln]
    if len(data) != ln:
        raise Malformed('flow length')
    out = []
    i = 0
    while i < len(data):
        t = data[i]
        i += 1
        if t in (1, 2):
            mask = data[i]
            if afi == 2:
                off = data[i + 1]
                nb = (mask - off + 7) // 8 if mask >= off else 0
                out.append((t, ('prefix', mask, off, data[i + 2 : i + 2 + nb])))
                i += 2 + nb
            else:
                nb = (mask + 7) // 8
                out.append((t, ('prefix', mask, None, data[i + 1 : i + 1 + nb])))
                i += 1 + nb
        else:
            ops = []
            while True:
                if i >= len(data):
                    raise Malformed('flow op')
                op = data[i]
                vl = 1 << ((op >> 4) & 3)
                ops.append((op, data[i + 1 : i + 1 + vl]))
                i += 1 + vl
                if op & 0x80:
                    break
            out.append((t, ops))
    return out


def pad(b: bytes | None, width: int) -> bytes | None:
    if b is None:
        return None
    if len(b) > width:
        return b
    return b'\x00' * (width - len(b)) + b


# ---------------------------------------------------------------------------------------------
# where each field sits on the wire: (attrs, nlri, shape) -> raw bytes of the field (or None = not sent)


def _inet_nlri(attrs, nlri: bytes) -> tuple[int, int, bytes]:
    mp = mp_reach(attrs)
    if mp is not None:
        return mp[0], mp[1], mp[3]
    return 1, 1, nlri


def _nlri_after_pathid(attrs, nlri, shape) -> bytes:
    afi, safi, n = _inet_nlri(attrs, nlri)
    return n[4:] if shape.addpath else n


def w_aspath(attrs, nlri, shape):
    v = attr(attrs, 2)
    if v is None:
        return None
    size = 4 if shape.asn4 else 2
    elems = [e for t, es in path_segments(v, size) for e in es]
    e = after_marker(elems, 64512)
    if e is None:
        return None
    if shape.asn4:
        return e
    v4 = attr(attrs, 17)
    if v4 is None:
        # no AS4_PATH: the receiver's view of the element is the 2-byte element itself
        return e + pad(e, 4)
    e4 = after_marker([x for t, es in path_segments(v4, 4) for x in es], 64512)
    return e + (e4 if e4 is not None else b'')


def w_aggregator_asn(attrs, nlri, shape):
    v = attr(attrs, 7)
    if v is None:
        return None
    if shape.asn4:
        return v[0:4]
    v4 = attr(attrs, 18)
    return v[0:2] + (v4[0:4] if v4 is not None else pad(v[0:2], 4))


def w_attr(code: int, a: int, b: int | None):
    def f(attrs, nlri, shape):
        v = attr(attrs, code)
        if v is None:
            return None
        return v[a:b] if b is not None else v[a:]

    return f


def w_attr_len(code: int):
    def f(attrs, nlri, shape):
        v = attr(attrs, code)
        if v is None:
            return None
        return len(v).to_bytes(2, 'big')

    return f


def w_ext(a: int, b: int):
    return w_attr(16, a, b)


def w_attr_header(which: str):
    def f(attrs, nlri, shape):
        for fl, c, v in attrs:
            if v[:4] == b'\xde\xad\xbe\xef':
                return bytes([c]) if which == 'code' else bytes([fl & 0xEF])
        return None

    return f


def w_label(index: int):
    def f(attrs, nlri, shape):
        n = _nlri_after_pathid(attrs, nlri, shape)
        return n[1 + 3 * index : 4 + 3 * index]

    return f


def w_rd(a: int, b: int):
    def f(attrs, nlri, shape):
        n = _nlri_after_pathid(attrs, nlri, shape)
        rd = n[4:12]  # mask(1) label(3) rd(8)
        return rd[a:b]

    return f


def w_rd_admin(attrs, nlri, shape):
    n = _nlri_after_pathid(attrs, nlri, shape)
    rd = n[4:12]
    t = int.from_bytes(rd[0:2], 'big')
    return rd[2:4] if t == 0 else rd[2:6] if t == 2 else None


def w_pathinfo(a: int, b: int):
    def f(attrs, nlri, shape):
        if not shape.addpath:
            return None
        afi, safi, n = _inet_nlri(attrs, nlri)
        return n[a:b]

    return f


def w_mask(attrs, nlri, shape):
    n = _nlri_after_pathid(attrs, nlri, shape)
    return n[0:1]


def w_vpls(a: int, b: int):
    def f(attrs, nlri, shape):
        mp = mp_reach(attrs)
        if mp is None:
            return None
        n = mp[3]
        return n[2 + 8 + a : 2 + 8 + b]

    return f


def w_flow_value(attrs, nlri, shape):
    mp = mp_reach(attrs)
    if mp is None:
        return None
    comps = flow_components(mp[3], mp[0])
    for t, payload in comps:
        if t > 2:
            return payload[0][1]
    return None


def w_flow_prefix(what: str):
    def f(attrs, nlri, shape):
        mp = mp_reach(attrs)
        if mp is None:
            return None
        n = mp[3]
        data = n[2:] if n[0] >= 0xF0 else n[1:]
        if not data or data[0] != 1:
            return None
        # type(1) length(1) [offset(1), IPv6 only] pattern…
        return data[1:2] if what == 'mask' else data[2:3]

    return f


def w_ext_admin(attrs, nlri, shape):
    v = attr(attrs, 16)
    if v is None:
        return None
    # type high byte: 0x00 two-octet AS specific (admin 2 bytes), 0x01 IPv4 / 0x02 four-octet AS (admin 4 bytes)
    return v[2:4] if v[0] & 0x3F == 0x00 else v[2:6]


def w_redirect_admin(attrs, nlri, shape):
    v = attr(attrs, 16)
    if v is None:
        return None
    return v[2:4] if v[0] == 0x80 else v[2:6]


# ---------------------------------------------------------------------------------------------
# what the real decoder reports, read from the text form the decoded objects print


def _rx(pattern: str, group: int = 1, conv: Callable[[str], int] = int):
    cre = re.compile(pattern)

    def f(text: str) -> int | None:
        m = cre.search(text)
        if not m:
            return None
        try:
            return conv(m.group(group))
        except ValueError:
            return None

    return f


def _hexint(s: str) -> int:
    return int(s, 16)


def _rx_all(pattern: str):
    """Every match (an AGGREGATOR and an AS4_AGGREGATOR both print as `aggregator ( … )`)."""
    cre = re.compile(pattern)

    def f(text: str) -> list[int] | None:
        found = [int(x) for x in cre.findall(text)]
        return found or None

    return f


def _dotted_or_int(s: str) -> int:
    if '.' in s:
        return int.from_bytes(bytes(int(x) for x in s.split('.')), 'big')
    return int(s)


@dataclass
class FieldSpec:
    name: str  # Lean field name (without the session suffix)
    kind: str  # route | attributes | flow | flow6 | vpls
    template: str  # '{v}' is replaced by the value text
    wire: Callable  # raw bytes on the wire
    seen: Callable[[str], int | None] | None = None  # value in the decoded objects' text
    sess: bool = False  # Lean name gets '4' / '2' by session
    present: Callable[[Shape], bool] = lambda s: True
    count: Callable[[int], str] | None = None  # for count fields: value text for n elements
    slow: bool = False  # quadratic parser: large values only in the thorough tier
    no_empty: bool = False  # the value is one element of a bracketed list: an empty text is just a shorter list
    note: str = ''

    def lean(self, shape: Shape) -> str:
        return self.name + ('4' if shape.asn4 else '2') if self.sess else self.name


R = 'route 10.0.0.0/24 next-hop 1.2.3.4 '
FL4 = 'flow route {{ match {{ destination 10.0.0.0/24; {c} {{v}}; }} then {{ discard; }} }}'
FL6 = 'flow route {{ match {{ destination ::/0; {c} {{v}}; }} then {{ discard; }} }}'
FLT = 'flow route {{ match {{ destination 10.0.0.0/24; }} then {{ {c}; }} }}'
VP = 'vpls endpoint {e} base {b} offset {o} size {s} rd 1:1 next-hop 1.2.3.4'


def _seq(n: int, fmt: Callable[[int], str]) -> str:
    return '[ ' + ' '.join(fmt(i) for i in range(n)) + ' ]'


FIELDS: list[FieldSpec] = [
    FieldSpec('asPathAsn', 'route', R + 'as-path [ 64512 {v} 64513 ]', w_aspath, _rx(r'as-path [(\[] (?:\d+ )*?64512 (\d+) 64513'), sess=True),
    FieldSpec('aggregatorAsn', 'route', R + 'aggregator ( {v}:1.2.3.4 )', w_aggregator_asn, _rx_all(r'aggregator \( (\d+):'), sess=True),
    FieldSpec('aggregatorOctet', 'route', R + 'aggregator ( 65000:1.2.3.{v} )', w_attr(7, -1, None), _rx(r'aggregator \( \d+:1\.2\.3\.(\d+) \)')),
    FieldSpec('originatorOctet', 'route', R + 'originator-id 1.2.3.{v}', w_attr(9, 3, 4), _rx(r'originator-id 1\.2\.3\.(\d+)')),
    FieldSpec('clusterOctet', 'route', R + 'cluster-list [ 1.2.3.{v} ]', w_attr(10, 3, 4), _rx(r'cluster-list \[? ?1\.2\.3\.(\d+)')),
    FieldSpec('communityHigh', 'route', R + 'community [ {v}:1 ]', w_attr(8, 0, 2), _rx(r' community \[? ?(\d+):\d+')),
    FieldSpec('communityLow', 'route', R + 'community [ 1:{v} ]', w_attr(8, 2, 4), _rx(r' community \[? ?\d+:(\d+)')),
    FieldSpec('communityPlain', 'route', R + 'community [ {v} ]', w_attr(8, 0, 4), None),
    FieldSpec('largeGlobal', 'route', R + 'large-community [ {v}:1:1 ]', w_attr(32, 0, 4), _rx(r'large-community \[? ?(\d+):\d+:\d+')),
    FieldSpec('largeLocal1', 'route', R + 'large-community [ 1:{v}:1 ]', w_attr(32, 4, 8), _rx(r'large-community \[? ?\d+:(\d+):\d+')),
    FieldSpec('largeLocal2', 'route', R + 'large-community [ 1:1:{v} ]', w_attr(32, 8, 12), _rx(r'large-community \[? ?\d+:\d+:(\d+)')),
    FieldSpec('extAdmin', 'route', R + 'extended-community [ target:{v}:1 ]', w_ext_admin, None),
    FieldSpec('extLocalA16', 'route', R + 'extended-community [ target:1:{v} ]', w_ext(4, 8), _rx(r'extended-community \[? ?target:1:(\d+)')),
    FieldSpec('extLocalA32', 'route', R + 'extended-community [ target:70000:{v} ]', w_ext(6, 8), None),
    FieldSpec('extIpOctet', 'route', R + 'extended-community [ target:1.2.3.{v}:1 ]', w_ext(5, 6), _rx(r'extended-community \[? ?target:1\.2\.3\.(\d+):1')),
    FieldSpec('extLocalIp', 'route', R + 'extended-community [ target:1.2.3.4:{v} ]', w_ext(6, 8), _rx(r'extended-community \[? ?target:1\.2\.3\.4:(\d+)')),
    FieldSpec('extAdmin', 'route', R + 'extended-community [ origin:{v}:1 ]', w_ext_admin, None, note='origin'),
    FieldSpec('extLocalA16', 'route', R + 'extended-community [ origin:1:{v} ]', w_ext(4, 8), _rx(r'extended-community \[? ?origin:1:([\d.]+)', conv=_dotted_or_int), note='origin'),
    FieldSpec('l2infoEncaps', 'route', R + 'extended-community [ l2info:{v}:0:1500:111 ]', w_ext(2, 3), _rx(r'l2info:(\d+):\d+:\d+:\d+')),
    FieldSpec('l2infoControl', 'route', R + 'extended-community [ l2info:19:{v}:1500:111 ]', w_ext(3, 4), _rx(r'l2info:\d+:(\d+):\d+:\d+')),
    FieldSpec('l2infoMtu', 'route', R + 'extended-community [ l2info:19:0:{v}:111 ]', w_ext(4, 6), _rx(r'l2info:\d+:\d+:(\d+):\d+')),
    FieldSpec('l2infoPref', 'route', R + 'extended-community [ l2info:19:0:1500:{v} ]', w_ext(6, 8), _rx(r'l2info:\d+:\d+:\d+:(\d+)')),
    FieldSpec('med', 'route', R + 'med {v}', w_attr(4, 0, 4), _rx(r' med (\d+)')),
    FieldSpec('localPref', 'route', R + 'local-preference {v}', w_attr(5, 0, 4), _rx(r'local-preference (\d+)'), present=lambda s: s.ibgp),
    FieldSpec('aigp', 'route', R + 'aigp {v}', w_attr(26, 3, 11), _rx(r'aigp (0x[0-9a-fA-F]+)', conv=_hexint), present=lambda s: s.ibgp or s.aigp),
    FieldSpec('attrCode', 'route', R + 'attribute [ {v} 0xc0 0xdeadbeef ]', w_attr_header('code'), None, note='hex'),
    FieldSpec('attrFlag', 'route', R + 'attribute [ 0x99 {v} 0xdeadbeef ]', w_attr_header('flag'), None, note='hex'),
    FieldSpec('attrLen', 'route', R + 'attribute [ 0x99 0xc0 {v} ]', w_attr_len(0x99), None, count=lambda n: '0x' + '00' * n),
    FieldSpec('communitiesCount', 'route', R + 'community {v}', w_attr_len(8), None, count=lambda n: _seq(n, lambda i: f'{i >> 16}:{i & 0xFFFF}'), slow=True),
    FieldSpec('largeCommunitiesCount', 'route', R + 'large-community {v}', w_attr_len(32), None, count=lambda n: _seq(n, lambda i: f'1:2:{i}'), slow=True),
    FieldSpec('extCommunitiesCount', 'route', R + 'extended-community {v}', w_attr_len(16), None, count=lambda n: _seq(n, lambda i: f'target:1:{i}'), slow=True),
    FieldSpec('clusterCount', 'route', R + 'cluster-list {v}', w_attr_len(10), None, count=lambda n: _seq(n, lambda i: f'10.{(i >> 16) & 255}.{(i >> 8) & 255}.{i & 255}')),
    FieldSpec('label', 'route', R + 'label {v}', w_label(0), _rx(r'label (\d+) ')),
    FieldSpec('label', 'route', R + 'label [ {v} ]', w_label(0), _rx(r'label (\d+) '), note='bracket'),
    FieldSpec('labelInner', 'route', R + 'label [ {v} 7 ]', w_label(0), _rx(r'label \[ (\d+) ')),
    FieldSpec('rdAdmin', 'route', R + 'rd {v}:1 label 3', w_rd_admin, _rx(r' rd (\d+):1')),
    FieldSpec('rdAssignedA16', 'route', R + 'rd 1:{v} label 3', w_rd(4, 8), _rx(r' rd 1:(\d+)')),
    FieldSpec('rdAssignedA32', 'route', R + 'rd 70000:{v} label 3', w_rd(6, 8), _rx(r' rd 70000:(\d+)')),
    FieldSpec('rdIpOctet', 'route', R + 'rd 1.2.3.{v}:1 label 3', w_rd(5, 6), _rx(r' rd 1\.2\.3\.(\d+):1')),
    FieldSpec('rdAssignedIp', 'route', R + 'rd 1.2.3.4:{v} label 3', w_rd(6, 8), _rx(r' rd 1\.2\.3\.4:(\d+)')),
    FieldSpec('pathInfo', 'route', R + 'path-information {v}', w_pathinfo(0, 4), _rx(r'path-information (\d+)\.(\d+)\.(\d+)\.(\d+)', 0, lambda s: sum(int(x) << (24 - 8 * i) for i, x in enumerate(s.split(' ')[-1].split('.')))), present=lambda s: s.addpath),
    FieldSpec('pathInfoOctet', 'route', R + 'path-information 1.2.3.{v}', w_pathinfo(3, 4), _rx(r'path-information 1\.2\.3\.(\d+)'), present=lambda s: s.addpath),
    FieldSpec('mask4', 'route', 'route 0.0.0.0/{v} next-hop 1.2.3.4', w_mask, _rx(r'0\.0\.0\.0/(\d+)')),
    FieldSpec('mask6', 'route', 'route ::/{v} next-hop ::1', w_mask, _rx(r'::/(\d+)')),
    FieldSpec('mask4', 'attributes', 'attributes next-hop 1.2.3.4 med 5 nlri 0.0.0.0/{v}', w_mask, _rx(r'0\.0\.0\.0/(\d+)'), note='attributes-nlri'),
    FieldSpec('med', 'attributes', 'attributes next-hop 1.2.3.4 med {v} nlri 10.0.0.0/24 10.0.1.0/24', w_attr(4, 0, 4), _rx(r' med (\d+)'), note='attributes'),
    FieldSpec('communityLow', 'attributes', 'attributes next-hop 1.2.3.4 community [ 1:{v} ] nlri 10.0.0.0/24', w_attr(8, 2, 4), _rx(r' community \[? ?\d+:(\d+)'), note='attributes'),
    # an AS number inside an AS_SET (behind a sequence of 2-octet numbers, and as the whole path): the same field
    FieldSpec('asPathAsn', 'route', R + 'as-path [ 64999 64998 ] ( 64512 {v} 64513 )', w_aspath, _rx(r'64512 (\d+) 64513'), sess=True, note='as-set'),
    FieldSpec('asPathAsn', 'route', R + 'as-path ( 64512 {v} 64513 )', w_aspath, _rx(r'64512 (\d+) 64513'), sess=True, note='as-set-only'),
    FieldSpec('asPathAsn', 'attributes', 'attributes next-hop 1.2.3.4 as-path [ 64512 {v} 64513 ] nlri 10.0.0.0/24', w_aspath, _rx(r'as-path [(\[] (?:\d+ )*?64512 (\d+) 64513'), sess=True, note='attributes'),
    FieldSpec('vplsEndpoint', 'vpls', VP.format(e='{v}', b=10, o=1, s=8), w_vpls(0, 2), _rx(r'endpoint (\d+)')),
    FieldSpec('vplsOffset', 'vpls', VP.format(e=5, b=10, o='{v}', s=8), w_vpls(2, 4), _rx(r'offset (\d+)')),
    FieldSpec('vplsSize', 'vpls', VP.format(e=5, b=10, o=1, s='{v}'), w_vpls(4, 6), _rx(r'size (\d+)')),
    FieldSpec('vplsBase', 'vpls', VP.format(e=5, b='{v}', o=1, s=0), w_vpls(6, 9), _rx(r'base (\d+)')),
    FieldSpec('flowProtocol', 'flow', FL4.format(c='protocol'), w_flow_value, None),
    FieldSpec('flowPort', 'flow', FL4.format(c='port'), w_flow_value, _rx(r' port =(\d+)')),
    FieldSpec('flowDstPort', 'flow', FL4.format(c='destination-port'), w_flow_value, _rx(r'destination-port =(\d+)')),
    FieldSpec('flowSrcPort', 'flow', FL4.format(c='source-port'), w_flow_value, _rx(r'source-port =(\d+)')),
    FieldSpec('flowIcmpType', 'flow', FL4.format(c='icmp-type'), w_flow_value, None),
    FieldSpec('flowIcmpCode', 'flow', FL4.format(c='icmp-code'), w_flow_value, None),
    FieldSpec('flowTcpFlags', 'flow', FL4.format(c='tcp-flags'), w_flow_value, None),
    FieldSpec('flowPacketLength', 'flow', FL4.format(c='packet-length'), w_flow_value, _rx(r'packet-length =(\d+)')),
    FieldSpec('flowDscp', 'flow', FL4.format(c='dscp'), w_flow_value, _rx(r'dscp =(\d+)')),
    FieldSpec('flowFragment', 'flow', FL4.format(c='fragment'), w_flow_value, None),
    FieldSpec('flowMask4', 'flow', 'flow route { match { destination 0.0.0.0/{v}; } then { discard; } }', w_flow_prefix('mask'), _rx(r'0\.0\.0\.0/(\d+)')),
    FieldSpec('flowNextHeader', 'flow6', FL6.format(c='next-header'), w_flow_value, None),
    FieldSpec('flowTrafficClass', 'flow6', FL6.format(c='traffic-class'), w_flow_value, _rx(r'traffic-class =(\d+)')),
    FieldSpec('flowLabel', 'flow6', FL6.format(c='flow-label'), w_flow_value, _rx(r'flow-label =(\d+)')),
    FieldSpec('flowDstPort', 'flow6', FL6.format(c='destination-port'), w_flow_value, _rx(r'destination-port =(\d+)'), note='ipv6'),
    FieldSpec('flowMask6', 'flow6', 'flow route { match { destination ::/{v}; } then { discard; } }', w_flow_prefix('mask'), _rx(r'::/(\d+)/')),
    FieldSpec('flowOffset6', 'flow6', 'flow route { match { destination ::/128/{v}; } then { discard; } }', w_flow_prefix('offset'), _rx(r'::/128/(\d+)')),
    FieldSpec('redirectAdmin', 'flow', FLT.format(c='redirect {v}:1'), w_redirect_admin, None),
    FieldSpec('redirectLocalA16', 'flow', FLT.format(c='redirect 1:{v}'), w_ext(4, 8), _rx(r'redirect:1:(\d+)')),
    FieldSpec('redirectLocalA32', 'flow', FLT.format(c='redirect 70000:{v}'), w_ext(6, 8), None),
    FieldSpec('markDscp', 'flow', FLT.format(c='mark {v}'), w_ext(7, 8), _rx(r'mark (\d+)')),
]


def render(spec: FieldSpec, vtext: str) -> str:
    return spec.template.replace('{v}', vtext)
