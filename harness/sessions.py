"""Building real ExaBGP objects for the harness: neighbors, negotiated sessions from two real
OPENs, routes from the text grammar, a Peer whose Protocol writes into a capture buffer."""

from __future__ import annotations

import asyncio
import itertools
from typing import Any
from unittest.mock import MagicMock

from exabgp.bgp.message import Message
from exabgp.bgp.message.direction import Direction
from exabgp.bgp.message.open import Open, Version
from exabgp.bgp.message.open.capability import Capabilities
from exabgp.bgp.message.open.capability.negotiated import Negotiated
from exabgp.bgp.message.open.routerid import RouterID
from exabgp.configuration.setup import create_minimal_configuration
from exabgp.rib import RIB

_uid = itertools.count()


def make_config(local_as=65000, peer_as=65001, families='ipv4 unicast ipv6 unicast', add_path=False, local_address='127.0.0.1', peer_address='127.0.0.2'):
    # RIBs are shared by neighbor name through RIB._cache: drop it so every case starts clean
    RIB._cache.clear()
    cfg = create_minimal_configuration(peer_address=peer_address, local_address=local_address, local_as=local_as, peer_as=peer_as, families=families, add_path=add_path)
    n = list(cfg.neighbors.values())[0]
    n.session.router_id = RouterID('1.1.1.1')
    return cfg, n


def open_of(neighbor, router_id=None):
    rid = RouterID(router_id) if router_id else neighbor.session.router_id
    return Open.make_open(Version(4), neighbor.session.local_as, neighbor.hold_time, rid, Capabilities().new(neighbor, False))


def negotiate(neighbor, peer_neighbor=None, direction=Direction.OUT, asn4=None, msg_size=None):
    """A Negotiated built from our real OPEN and the (mirrored) peer's real OPEN, through the wire."""
    neg = Negotiated.make_negotiated(neighbor, direction)
    ours = open_of(neighbor)
    if peer_neighbor is None:
        _, peer_neighbor = make_config(
            local_as=int(neighbor.session.peer_as),
            peer_as=int(neighbor.session.local_as),
            families=' '.join(f'{a} {s}' for a, s in neighbor.families()),
            add_path=bool(neighbor.addpaths()),
            local_address=str(neighbor.session.peer_address),
            peer_address=str(neighbor.session.local_address),
        )
        peer_neighbor.session.router_id = RouterID('2.2.2.2')
    pneg = Negotiated.make_negotiated(peer_neighbor, Direction.OUT)
    theirs_raw = open_of(peer_neighbor).pack_message(pneg)
    theirs = Message.unpack(1, theirs_raw[19:], neg)
    neg.sent(ours)
    neg.received(theirs)
    if asn4 is not None:
        neg.asn4 = asn4
    if msg_size is not None:
        neg.msg_size = msg_size
    return neg


class CaptureConnection:
    """Stands for reactor.network.connection.Connection on the write side."""

    def __init__(self) -> None:
        self.sent: list[bytes] = []
        self.session = lambda: 'capture'
        self.io = None

    async def writer_async(self, raw: bytes) -> None:
        self.sent.append(bytes(raw))

    def close(self) -> None:
        pass

    def fd(self) -> int:
        return -1

    def name(self) -> str:
        return 'capture'


def make_peer(neighbor, negotiated):
    """A real Peer with a real Protocol whose connection captures what is written."""
    from exabgp.configuration.neighbor.api import ParseAPI
    from exabgp.reactor.peer.peer import Peer
    from exabgp.reactor.protocol import Protocol

    neighbor.api = ParseAPI.flatten({})
    reactor = MagicMock()
    peer = Peer(neighbor, reactor)
    proto = Protocol(peer)
    proto.connection = CaptureConnection()
    proto.negotiated = negotiated
    peer.proto = proto
    return peer, proto


def run(coro):
    loop = asyncio.new_event_loop()
    try:
        return loop.run_until_complete(coro)
    finally:
        loop.close()
