"""The totality rig (C03): drives the REAL decoders of /repo on arbitrary message bodies.

Two real entry points, nothing re-implemented:

* `unpack_forced(shape, type, body)` — `Message.unpack(type, body, negotiated)` and then EVERY lazy part
  of what came back is forced: `Update.data`, iteration of announces / withdraws / attributes (each
  `str()`, `repr()`, `json()`, `extensive()`, `index()`), `AttributeCollection.json()/index()`, the four API
  encoders (`Response.JSON`, `Response.Text`, `Response.V4.JSON`, `Response.V4.Text`) for the message type;
  for an OPEN additionally `Negotiated.received()` + `validate()` on a fresh Negotiated (what the peer loop
  does next). Python function calls are counted with `sys.setprofile` (the measure of work).
* `read_message(shape, type, body)` — the real `Protocol.read_message` of a real `Peer` whose connection
  hands over exactly this message (stub `reader_async`, as in harness/props/C06.py), with a real `Processes`
  object that has one helper process attached for every `receive-*` event (JSON encoder, the write goes into
  the real async write queue): what escapes the catch-all of `read_message` escapes into `Peer._run`, where
  anything that is not a `Notify` resets the session WITHOUT a NOTIFICATION.

Outcome classes: decoded | notify c s | raised <ExceptionName> | recursion | timeout.
"""

from __future__ import annotations

import signal
import sys
from dataclasses import dataclass, field
from typing import Any

from exabgp.bgp.message import Message
from exabgp.bgp.message.direction import Direction
from exabgp.bgp.message.notification import Notification, Notify
from exabgp.bgp.message.open import Open
from exabgp.bgp.message.open.capability.negotiated import Negotiated
from exabgp.bgp.message.update import Update
from exabgp.bgp.message.update.attribute import AttributeCollection
from exabgp.reactor.api.response import Response
from exabgp.version import json as json_version

from harness import sessions

TIMEOUT_S = 2.0  # backstop per message, in CPU seconds of this process (ITIMER_VIRTUAL: other builders load the machine)
WALL_S = 60.0  # and a wall-clock one, far above anything observed
MARKER = b'\xff' * 16


class Timeout(BaseException):
    pass


def _alarm(signum: int, frame: Any) -> None:
    raise Timeout()


@dataclass
class Outcome:
    cls: str  # decoded | notify | raised | recursion | timeout
    detail: str = ''  # 'c s' for notify; exception type name for raised
    stage: str = ''  # where it happened: unpack | force:<what> | read_message
    kind: str = ''  # what was decoded: update | eor | open | notification | keepalive | refresh | operational
    calls: int = 0  # python+C function calls (sys.setprofile), 0 when not measured
    note: str = ''

    def key(self) -> str:
        return self.cls if self.cls in ('decoded', 'recursion', 'timeout') else f'{self.cls} {self.detail}'

    def canon(self) -> str:
        if self.cls == 'decoded':
            return 'decoded'
        if self.cls == 'notify':
            return f'notify {self.detail}'
        return f'{self.cls} {self.detail}@{self.stage}'.strip()


# ---------------------------------------------------------------------------------------------
# session shapes


@dataclass
class Shape:
    name: str
    asn4: bool
    addpath: bool
    families: str
    msg_size: int
    neighbor: Any = None
    neg: Any = None
    peer: Any = None
    proto: Any = None
    processes: Any = None
    params: str = ''  # PARAMS of drv_wire
    fams: set = field(default_factory=set)  # negotiated (afi, safi) as ints

    def bits(self) -> dict:
        return {'asn4': self.asn4, 'addpath': self.addpath, 'families': 'all' if self.families == 'all' else 'ip', 'msg': self.msg_size}


SHAPE_SPECS = [
    # name, asn4, addpath, families, msg_size
    ('a4-ip-64k', True, False, 'ipv4 unicast ipv6 unicast', 65535),
    ('a2-ip-4k', False, False, 'ipv4 unicast ipv6 unicast', 4096),
    ('a4-ap-ip-4k', True, True, 'ipv4 unicast ipv6 unicast', 4096),
    ('a2-ap-ip-64k', False, True, 'ipv4 unicast ipv6 unicast', 65535),
    ('a4-all-64k', True, False, 'all', 65535),
    ('a2-all-4k', False, False, 'all', 4096),
    ('a4-ap-all-64k', True, True, 'all', 65535),
    ('a2-ap-all-4k', False, True, 'all', 4096),
    # extended next hop (RFC 8950) in both OPENs, for every (afi, safi, next-hop afi) ExaBGP knows
    ('a4-all-64k-xnh', True, False, 'all', 65535),
    ('a2-ap-all-4k-xnh', False, True, 'all', 4096),
]


def _name(asn4: bool, addpath: bool, families: str, msg: int) -> str:
    return f'a{4 if asn4 else 2}{"-ap" if addpath else ""}-{"all" if families == "all" else "ip"}-{"64k" if msg > 4096 else "4k"}'


# the full hypercube (16 shapes); the streams run on the 8 of SHAPE_SPECS, shrinking may visit the others
ALL_SPECS = [(_name(a, ap, fam, m), a, ap, fam, m) for a in (True, False) for ap in (False, True) for fam in ('ipv4 unicast ipv6 unicast', 'all') for m in (4096, 65535)] + [s for s in SHAPE_SPECS if s[0].endswith('-xnh')]

_shapes: dict[str, Shape] = {}


def flip(sh: 'Shape', bit: str) -> tuple:
    """The spec of the shape that differs from `sh` in exactly this bit."""
    a, ap, fam, m = sh.asn4, sh.addpath, sh.families, sh.msg_size
    if bit == 'asn4':
        a = not a
    elif bit == 'addpath':
        ap = not ap
    elif bit == 'families':
        fam = 'ipv4 unicast ipv6 unicast' if fam == 'all' else 'all'
    elif bit == 'msg':
        m = 4096 if m > 4096 else 65535
    return (_name(a, ap, fam, m), a, ap, fam, m)



class _FakeProc:
    """Stands for the Popen of the helper process (never touched: writes are queued in async mode)."""

    stdin = None
    stdout = None

    def poll(self) -> None:
        return None


def build_shape(spec: tuple) -> Shape:
    name, asn4, addpath, families, msg_size = spec
    if name in _shapes:
        return _shapes[name]
    from exabgp.configuration.neighbor.api import ParseAPI
    from exabgp.reactor.api.processes import Processes

    cfg, n = sessions.make_config(local_as=65000, peer_as=65001, families=families, add_path=addpath)
    _, pn = sessions.make_config(local_as=65001, peer_as=65000, families=families, add_path=addpath, local_address='127.0.0.2', peer_address='127.0.0.1')
    from exabgp.bgp.message.open.routerid import RouterID

    pn.session.router_id = RouterID('2.2.2.2')
    if addpath:
        n.capability.add_path = 3  # send/receive
        pn.capability.add_path = 3
    if name.endswith('-xnh'):
        from exabgp.bgp.message.open.capability.capabilities import Capabilities
        from exabgp.util.enumeration import TriState

        for x in (n, pn):
            x.capability.nexthop = TriState.TRUE
            for a, s_, h in Capabilities._NEXTHOP:
                x.add_nexthop(a, s_, h)
    neg = sessions.negotiate(n, peer_neighbor=pn, direction=Direction.IN, asn4=asn4, msg_size=msg_size)
    if name.endswith('-xnh') and not neg.nexthop:
        raise RuntimeError('rig: extended next hop was not negotiated')
    peer, proto = sessions.make_peer(n, neg)
    every = {k: True for k in ('parsed', 'open', 'update', 'notification', 'keepalive', 'refresh', 'operational')}
    n.api = ParseAPI.flatten({'c03': {'processes': ['c03'], 'neighbor-changes': True, 'receive': every}})
    procs = Processes()
    procs._process['c03'] = _FakeProc()
    procs._encoder['c03'] = Response.JSON(json_version)
    procs._async_mode = True  # Processes.write queues the encoded line (after its bytes(..., 'ascii'))
    peer.reactor.processes = procs
    sh = Shape(name, asn4, addpath, families, msg_size, n, neg, peer, proto, procs)
    sh.fams = {(int(a), int(s)) for a, s in neg.families}
    ap = sorted((int(a), int(s)) for a, s in neg.families if neg.required(a, s))
    xnh = sorted({(int(t[0]), int(t[1])) for t in (neg.nexthop or [])})
    sh.params = f'{1 if asn4 else 0} {"+".join(f"{a}.{s}" for a, s in ap) or "-"} {"+".join(f"{a}.{s}" for a, s in xnh) or "-"} {msg_size}'
    _shapes[name] = sh
    return sh


def reset_caches() -> None:
    AttributeCollection.cached = None
    AttributeCollection.previous = b''


# ---------------------------------------------------------------------------------------------
# forcing every lazy part


def _touch(obj: Any, names: tuple = ('__str__', '__repr__', 'json', 'extensive', 'index')) -> None:
    """Call the renderers the API / RIB paths call on an NLRI or attribute object."""
    for nm in names:
        f = getattr(type(obj), nm, None)
        if f is None:
            continue
        try:
            f(obj)
        except NotImplementedError:
            pass  # an abstract renderer of a base class: no real path calls it (the encoders are forced separately)
        except TypeError as e:  # a method that needs arguments we do not have is not a decoder fault
            if 'required positional argument' not in str(e) and 'missing' not in str(e):
                raise


_ENC: list = []


def encoders() -> list:
    if not _ENC:
        from exabgp.version import json_v4 as json_v4_version, text_v4 as text_v4_version

        _ENC.extend(
            [
                ('json', Response.JSON(json_version)),
                ('text', Response.Text(json_version)),
                ('v4json', Response.V4.JSON(json_v4_version)),
                ('v4text', Response.V4.Text(text_v4_version)),
            ]
        )
    return _ENC


def force(sh: Shape, ty: int, msg: Any, body: bytes, stage: list) -> str:
    """Force everything lazily computed from what Message.unpack returned. Returns the decoded kind."""
    n, neg = sh.neighbor, sh.neg
    header = MARKER + (19 + len(body)).to_bytes(2, 'big') + bytes([ty & 0xFF])
    if isinstance(msg, Update):
        stage[0] = 'force:data'
        data = msg.data
        stage[0] = 'force:announces'
        for r in data.announces:
            _touch(r.nlri)
            str(r.nexthop)
        stage[0] = 'force:withdraws'
        for w in data.withdraws:
            _touch(w)
        stage[0] = 'force:attributes'
        attrs = data.attributes
        for code in list(attrs):
            _touch(attrs[code], ('__str__', '__repr__'))
        attrs.json()
        str(attrs)
        attrs.index()
        stage[0] = 'force:str'
        if len(data.announces) + len(data.withdraws) <= 2000:
            # UpdateCollection.__str__ rebuilds the `nlris` list once per NLRI (quadratic, 3.8 s for 16 000 routes);
            # no receive path calls it (only ad-hoc debugging), so it is forced on moderate sizes only and
            # reported as an observation, not as a failure of the decoders
            str(data)
        data.get_nexthop()
        for nm, enc in encoders():
            stage[0] = 'force:api-' + nm
            enc.update(n, 'receive', data, header, body, neg)
        return 'update'
    kind = type(msg).__name__.lower()
    if getattr(msg, 'IS_EOR', False):
        stage[0] = 'force:eor'
        str(msg)
        for nm, enc in encoders():
            stage[0] = 'force:api-' + nm
            enc.update(n, 'receive', msg, header, body, neg)
        return 'eor'
    if isinstance(msg, Open):
        stage[0] = 'force:str'
        str(msg)
        repr(msg)
        for k in list(msg.capabilities):
            stage[0] = 'force:capability'
            _touch(msg.capabilities[k], ('__str__', '__repr__', 'json', 'extensive'))
        stage[0] = 'force:str'
        str(msg.capabilities)
        for nm, enc in encoders():
            stage[0] = 'force:api-' + nm
            enc.open(n, 'receive', msg, header, body, neg)
        stage[0] = 'force:negotiate'
        fresh = Negotiated.make_negotiated(n, Direction.IN)
        fresh.sent(sessions.open_of(n))
        fresh.received(msg)
        fresh.validate(n)  # returns the (code, subcode, text) it would refuse with — not an exception
        return 'open'
    if isinstance(msg, Notification):
        stage[0] = 'force:data'
        msg.data
        msg.raw_data
        stage[0] = 'force:str'
        str(msg)
        repr(msg)
        if hasattr(type(msg), 'extensive'):
            msg.extensive()
        # what Peer._run / Peer._close make of a received NOTIFICATION (the log line of the reset)
        f'notification received ({msg.code},{msg.subcode})'
        f'peer reset, message [notification received] error[{msg}]'
        for nm, enc in encoders():
            stage[0] = 'force:api-' + nm
            enc.notification(n, 'receive', msg, header, body, neg)
        return 'notification'
    if ty == 4:
        for nm, enc in encoders():
            stage[0] = 'force:api-' + nm
            enc.keepalive(n, 'receive', header, body, neg)
        return 'keepalive'
    if ty == 5:
        stage[0] = 'force:str'
        str(msg)
        repr(msg)
        msg.extensive()
        str(msg.afi), str(msg.safi), str(msg.reserved)
        for nm, enc in encoders():
            stage[0] = 'force:api-' + nm
            enc.refresh(n, 'receive', msg, header, body, neg)
        return 'refresh'
    if ty == 6:
        stage[0] = 'force:str'
        str(msg)
        repr(msg)
        if hasattr(msg, 'extensive'):
            msg.extensive()
        for nm in ('name', 'category', 'afi', 'safi', 'routerid', 'sequence', 'counter', 'data'):
            if hasattr(msg, nm):
                str(getattr(msg, nm))
        for nm, enc in encoders():
            stage[0] = 'force:api-' + nm
            enc.operational(n, 'receive', msg.category, msg, header, body, neg)
        return 'operational'
    return kind


class _Counter:
    __slots__ = ('n',)

    def __init__(self) -> None:
        self.n = 0

    def __call__(self, frame: Any, event: str, arg: Any) -> None:
        if event == 'call' or event == 'c_call':
            self.n += 1


def _site(e: BaseException, most_common: bool) -> str:
    """Where in /repo the exception came from: `file.py:function` of the innermost frame under src/exabgp
    (for a stack overflow: the function that fills the stack)."""
    import collections
    import traceback

    frames = [f for f in traceback.extract_tb(e.__traceback__) if '/src/exabgp/' in f.filename]
    if not frames:
        return 'outside-repo'
    if most_common:
        name, _ = collections.Counter((f.filename.split('/src/exabgp/')[1], f.name) for f in frames).most_common(1)[0]
        return f'{name[0]}:{name[1]}'
    f = frames[-1]
    return f'{f.filename.split("/src/exabgp/")[1]}:{f.name}'


def budget_s(size: int) -> float:
    """CPU-second backstop for one message: 2 s + 0.5 s per 4096 bytes (the machine is shared and loaded)."""
    return TIMEOUT_S + 0.5 * size / 4096


def answer(sh: 'Shape', notify: Notify) -> bytes:
    """What Peer._run does with a refusal (`except Notify as notify`): the real Protocol.new_notification writes
    the NOTIFICATION (here into a list), then Peer._reset / Peer._close put the error into the reset message.
    Returns the bytes written; whatever this raises leaves Peer._run and no NOTIFICATION closes the session."""
    written: list[bytes] = []

    async def writer_async(raw: bytes) -> None:
        written.append(bytes(raw))

    saved = sh.proto.connection.writer_async
    sh.proto.connection.writer_async = writer_async
    try:
        sessions.run(sh.proto.new_notification(notify))
    finally:
        sh.proto.connection.writer_async = saved
    f'notification sent ({notify.code},{notify.subcode})'
    f'peer reset, message [notification sent] error[{notify}]'
    raw = b''.join(written)
    if len(written) != 1 or raw[:16] != MARKER or int.from_bytes(raw[16:18], 'big') != len(raw) or raw[18] != 3:
        raise ValueError(f'what was written is not one NOTIFICATION: {raw[:40].hex()}')
    if raw[19] != notify.code or raw[20] != notify.subcode:
        raise ValueError(f'the NOTIFICATION written is {raw[19]}/{raw[20]}, the refusal was {notify.code}/{notify.subcode}')
    return raw


def _guard(fn: Any, stage: list, measure: bool, size: int = 0, scale: float = 1.0, sh: 'Shape | None' = None) -> Outcome:
    counter = _Counter()
    old = signal.signal(signal.SIGALRM, _alarm)
    oldv = signal.signal(signal.SIGVTALRM, _alarm)
    signal.setitimer(signal.ITIMER_REAL, WALL_S)
    signal.setitimer(signal.ITIMER_VIRTUAL, budget_s(size) * scale * (6 if measure else 1))
    out: Outcome
    try:
        try:
            if measure:
                sys.setprofile(counter)
            try:
                kind = fn()
            finally:
                if measure:
                    sys.setprofile(None)
        finally:
            signal.setitimer(signal.ITIMER_VIRTUAL, 0)  # before any handler below runs
            signal.setitimer(signal.ITIMER_REAL, 0)
        out = Outcome('decoded', '', stage[0], kind)
    except Notify as e:
        out = Outcome('notify', f'{e.code} {e.subcode}', stage[0], note=bytes(e.raw_data)[:100].decode('ascii', 'replace'))
        if sh is not None:
            # ... and the refusal has to reach the peer: the NOTIFICATION is written by the real code
            try:
                answer(sh, e)
            except Exception as e2:  # noqa: BLE001
                out = Outcome('raised', type(e2).__name__, 'answer:' + stage[0], note=f'refusal {e.code}/{e.subcode} could not be sent: ' + _site(e2, False) + ' | ' + str(e2)[:120])
    except Notification:  # a received NOTIFICATION is raised by read_message: that is "decoded"
        out = Outcome('decoded', '', stage[0], 'notification')
    except RecursionError as e:
        out = Outcome('recursion', 'RecursionError', stage[0], note=_site(e, True))
    except Timeout:
        out = Outcome('timeout', f'>{budget_s(size) * scale:.1f}s', stage[0])
    except Exception as e:  # noqa: BLE001
        out = Outcome('raised', type(e).__name__, stage[0], note=_site(e, False) + ' | ' + str(e)[:120])
    finally:
        signal.setitimer(signal.ITIMER_VIRTUAL, 0)
        signal.setitimer(signal.ITIMER_REAL, 0)
        signal.signal(signal.SIGALRM, old)
        signal.signal(signal.SIGVTALRM, oldv)
    out.calls = counter.n
    return out


def unpack_forced(sh: Shape, ty: int, body: bytes, measure: bool = False, scale: float = 1.0) -> Outcome:
    reset_caches()
    stage = ['unpack']

    def go() -> str:
        # the real reader hands a memoryview of its receive buffer (a bytearray: writable, not hashable) to Message.unpack (Connection.reader_async)
        msg = Message.unpack(ty, memoryview(bytearray(body)), sh.neg)
        return force(sh, ty, msg, body, stage)

    out = _guard(go, stage, measure, len(body), scale, sh=sh)
    if out.cls == 'timeout' and scale == 1.0:
        # a backstop that fired is confirmed with three times the budget before it counts
        again = unpack_forced(sh, ty, body, measure, scale=3.0)
        return again if again.cls != 'timeout' else out
    return out


_accept_nbrs: dict[tuple, Any] = {}


def accept_open(sh: Shape, body: bytes, multisession: bool = False) -> Outcome:
    """What `Peer._establish` does with the peer's OPEN once it is read: `Negotiated.received(open)` (the
    negotiation) and `Protocol.validate_open()`'s `Negotiated.validate(neighbor)`, on a fresh Negotiated of a
    neighbor like the shape's (optionally with `capability { multi-session enable; }`): decoded, negotiated and
    accepted, or refused with a NOTIFICATION — nothing else."""
    from exabgp.bgp.message.open.capability.negotiated import Negotiated
    from exabgp.util.enumeration import TriState

    key = (sh.name, multisession)
    if key not in _accept_nbrs:
        _, n = sessions.make_config(local_as=65000, peer_as=65001, families=sh.families, add_path=sh.addpath)
        if multisession:
            n.capability.multi_session = TriState.TRUE
        _accept_nbrs[key] = n
    n = _accept_nbrs[key]
    stage = ['unpack']

    def go() -> str:
        msg = Message.unpack(1, memoryview(bytearray(body)), sh.neg)
        neg = Negotiated.make_negotiated(n, Direction.IN)
        stage[0] = 'negotiate:sent'
        neg.sent(sessions.open_of(n))
        stage[0] = 'negotiate:received'
        neg.received(msg)
        stage[0] = 'validate'
        err = neg.validate(n)
        if err is not None:
            raise Notify(*err)
        return 'open-accepted'

    return _guard(go, stage, False, len(body), sh=sh)


def unpack_only(sh: Shape, ty: int, body: bytes, measure: bool = False) -> Outcome:
    reset_caches()
    stage = ['unpack']

    def go() -> str:
        msg = Message.unpack(ty, memoryview(bytearray(body)), sh.neg)
        if isinstance(msg, Update):
            stage[0] = 'force:data'
            msg.data
        return type(msg).__name__.lower()

    return _guard(go, stage, measure, len(body), sh=sh)


from exabgp.reactor.peer.context import PeerContext  # noqa: E402
from exabgp.reactor.peer.handlers.route_refresh import RouteRefreshHandler  # noqa: E402
from exabgp.reactor.peer.handlers.update import UpdateHandler  # noqa: E402

_UPD = UpdateHandler()
_RRS: dict[str, Any] = {}


def _RR(sh: Shape) -> Any:
    if sh.name not in _RRS:
        _RRS[sh.name] = RouteRefreshHandler(sh.peer.resend)
    return _RRS[sh.name]


KEEP_STATE = False  # read_sequence: the Adj-RIB-In and the handlers keep what earlier messages of the sequence left


def _peer_context(sh: Shape) -> Any:
    if not KEEP_STATE:
        sh.neighbor.rib.incoming.clear() if hasattr(sh.neighbor.rib.incoming, 'clear') else None
    return PeerContext(proto=sh.proto, neighbor=sh.neighbor, negotiated=sh.neg, refresh_enhanced=True, routes_per_iteration=25, peer_id='c03', stats=sh.peer.stats)


def read_sequence(sh: Shape, msgs: list[tuple[int, bytes]]) -> list[Outcome]:
    """The messages of one ESTABLISHED session in order, through the real Protocol.read_message and the real handlers of
    the peer loop, on ONE Adj-RIB-In and one set of handler objects (what a handler keeps between messages — a
    route-refresh in progress, the routes received so far — is there for the next message).  A fresh RIB and fresh
    handlers at the start; stops at the first message that ends the session."""
    global KEEP_STATE
    sh.neighbor.rib.incoming.clear()
    _RRS.pop(sh.name, None)
    outs = []
    KEEP_STATE = True
    try:
        for ty, body in msgs:
            o = read_message(sh, ty, body)
            outs.append(o)
            if o.cls != 'decoded':
                break
    finally:
        KEEP_STATE = False
        sh.neighbor.rib.incoming.clear()
        _RRS.pop(sh.name, None)
    return outs


def read_message(sh: Shape, ty: int, body: bytes, via: str = 'read_message', measure: bool = False, fast: bool = False, scale: float = 1.0) -> Outcome:
    """The real Protocol.read_message / read_open / read_keepalive on exactly this message.
    `fast`: the neighbor keeps no Adj-RIB-In, has no API consumer and does not log routes."""
    if fast:
        from exabgp.configuration.neighbor.api import ParseAPI

        saved = (sh.neighbor.adj_rib_in, sh.proto.log_routes, sh.neighbor.api)
        sh.neighbor.adj_rib_in, sh.proto.log_routes, sh.neighbor.api = False, False, ParseAPI.flatten({})
        try:
            return read_message(sh, ty, body, via, measure)
        finally:
            sh.neighbor.adj_rib_in, sh.proto.log_routes, sh.neighbor.api = saved
    reset_caches()
    stage = [via]
    header = MARKER + (19 + len(body)).to_bytes(2, 'big') + bytes([ty & 0xFF])

    async def reader_async() -> tuple:
        return 19 + len(body), ty, memoryview(bytearray(header)), memoryview(bytearray(body)), None  # writable, as the receive buffer of the real reader is

    sh.proto.connection.reader_async = reader_async
    sh.processes._write_queue.clear()

    def go() -> str:
        try:
            return go_inner()
        except Notify:
            raise
        except Notification as received:
            # Peer._run: `except Notification as notification: self._reset(f'notification received (c,s)', notification)`
            # and Peer._close formats the error into the reset message (real Peer._close on the rig's peer)
            stage[0] = 'peer-loop'
            text = f'notification received ({received.code},{received.subcode})'
            f'peer reset, message [{text}] error[{received}]'
            received.data
            return 'notification'

    def go_inner() -> str:
        if via == 'read_open':
            m = sessions.run(sh.proto.read_open('127.0.0.2'))
        elif via == 'read_keepalive':
            m = sessions.run(sh.proto.read_keepalive())
        else:
            m = sessions.run(sh.proto.read_message())
            # what Peer._main does next with the message (real handlers, real incoming RIB / real Peer.resend)
            stage[0] = 'handler'
            ctx = _peer_context(sh)
            if _UPD.can_handle(m):
                sessions.run(_UPD.handle_async(ctx, m))
            elif _RR(sh).can_handle(m):
                sessions.run(_RR(sh).handle_async(ctx, m))
        return type(m).__name__.lower()

    out = _guard(go, stage, measure, len(body), scale, sh=sh)
    if out.cls == 'timeout' and scale == 1.0:
        again = read_message(sh, ty, body, via, measure, fast, scale=3.0)
        return again if again.cls != 'timeout' else out
    return out
