"""The session rig: the REAL `Peer.run()` coroutine of /repo driven over real sockets by a scripted
remote speaker under a virtual clock.  No source hook: transport (`Protocol.connect` adopts one
end of a socketpair; incoming connections are real TCP loopback pairs handed to
`Peer.handle_connection`), clock (the `time` name of the timer / peer / delay modules and the
event loop's `time()`) and API processes (`MagicMock` reactor) are substituted from outside, and
`FSM.change`, `Connection.close`, `Connection.writer_async`, `Protocol.read_message`,
`Peer._run/_main/_read_open` are wrapped from outside to observe.

A *script* is a list of events of M-Session's alphabet (see `lean/ExaModel/Model/Session.lean`):

    ['start']                    the restart loop of Peer.run() calls _run() (back-off elapsed)
    ['connectOk'] ['connectFail']  the pending Protocol.connect() completes
    ['incoming']                 a new TCP connection from the peer is handed to handle_connection
    ['recv', c, kind]            the remote writes one message of class `kind` on connection c
    ['eof', c]                   the remote half-closes connection c (it still reads)
    ['sockError', c]             the remote resets / fully closes connection c
    ['openwaitExpired']          virtual time passes until the wait for the OPEN times out
    ['holdExpired']              virtual time passes (remote silent) for hold time + 3 s
    ['tick']                     one iteration of the main loop with no message (0.1 s read timeout)
    ['teardown', code] ['reestablish'] ['stop']     API / reactor requests
    ['queueRefresh'] ['announce', k]                API: route-refresh request, k new routes
    ['apiDies']                  the API process is gone: every reactor.processes.<callback> raises ProcessError

After every event the loop is stepped until the peer coroutine is blocked at a point only a new
event can move (pending connect, pending read with nothing readable, restart loop, passive wait);
what the peer did meanwhile is the event's *bucket*: `fsm A>B`, `send c KIND [code sub] STATE`,
`close c`, `up`, `down`, `reject c`.  Connection ids are 1, 2, ... in order of creation.

Also here, for the lead: `run_hold_scenario` (C12 b) and `run_flap_scenario` (C11 end-to-end).
"""

from __future__ import annotations

import asyncio
import heapq
import os
import select
import selectors
import socket
import struct
import time as _realtime
from typing import Any
from unittest.mock import MagicMock

from exabgp.bgp.fsm import FSM
from exabgp.bgp.message.direction import Direction
from exabgp.bgp.message.open.capability.negotiated import Negotiated
from exabgp.bgp.message.open.routerid import RouterID
from exabgp.protocol.family import AFI
from exabgp.reactor.network.connection import Connection
from exabgp.reactor.network.incoming import Incoming
from exabgp.reactor.network.outgoing import Outgoing
from exabgp.reactor.peer.peer import Peer
from exabgp.reactor.protocol import Protocol

from harness import sessions

MARKER = b'\xff' * 16
LOCAL_ID = '1.1.1.1'
ID_HIGH = '2.2.2.2'
ID_LOW = '0.0.0.9'


class RigError(Exception):
    """The rig itself could not do what the script asked (not a verdict)."""


# ---------------------------------------------------------------------------------------------
# virtual time


class VirtualLoop(asyncio.SelectorEventLoop):
    """Time only moves when nothing is runnable and no socket is ready: it then jumps to the next
    timer.  A busy `await sleep(0)` loop (the passive wait of `_establish`) never leaves the ready
    queue empty: after SPIN such iterations time is allowed to pass as well."""

    SPIN = 50

    def __init__(self) -> None:
        super().__init__(selectors.DefaultSelector())
        self._vnow = 1_000_000.0
        self._busy = 0
        self.spinning = lambda: False  # set by the rig: is the peer in its passive busy wait?

    def time(self) -> float:
        return self._vnow

    def _run_once(self) -> None:
        while self._scheduled and self._scheduled[0]._cancelled:
            h = heapq.heappop(self._scheduled)
            h._scheduled = False
            self._timer_cancelled_count = max(0, self._timer_cancelled_count - 1)
        self._busy = self._busy + 1 if (self._ready and self.spinning()) else 0
        if (not self._ready or self._busy > self.SPIN) and self._scheduled:
            before = len(self._ready)
            events = self._selector.select(0)
            if events:
                self._process_events(events)
            if len(self._ready) == before and self._scheduled[0]._when > self._vnow:
                # nothing became runnable (or only a busy loop is running): time passes
                self._vnow = self._scheduled[0]._when
                self._busy = 0
        super()._run_once()


class _Clock:
    """Stands for the `time` module inside exabgp.bgp.timer / reactor.peer.peer / reactor.delay."""

    def time(self) -> float:
        return _clock_loop.time() if _clock_loop is not None else _realtime.time()

    def __getattr__(self, k: str) -> Any:
        return getattr(_realtime, k)


CUR: 'SessionRig | None' = None
_clock_loop: 'VirtualLoop | None' = None  # the loop whose virtual time the patched `time` name reads
_installed = False
_orig: dict[str, Any] = {}


def install() -> None:
    """Process-wide wrappers (idempotent). They only act while a rig is current."""
    global _installed
    if _installed:
        return
    _installed = True
    import exabgp.bgp.timer
    import exabgp.reactor.delay
    import exabgp.reactor.peer.peer

    clock = _Clock()
    for m in (exabgp.bgp.timer, exabgp.reactor.peer.peer, exabgp.reactor.delay):
        m.time = clock  # type: ignore[attr-defined]

    _orig['change'] = FSM.change
    _orig['close'] = Connection.close
    _orig['writer'] = Connection.writer_async
    _orig['connect'] = Protocol.connect
    _orig['read_message'] = Protocol.read_message
    _orig['_run'] = Peer._run
    _orig['_main'] = Peer._main
    _orig['_read_open'] = Peer._read_open
    _orig['_read_ka'] = Peer._read_ka

    def change(self: FSM, state: Any) -> FSM:
        rig = CUR
        if rig is not None and self.peer is rig.peer:
            rig.emit(f'fsm {self.state.name}>{state.name}')
        return _orig['change'](self, state)

    def close(self: Connection) -> None:
        rig = CUR
        io = self.io
        if rig is None or io is None:
            return _orig['close'](self)
        fd = io.fileno()
        cid = getattr(self, '_rig_id', None)
        _orig['close'](self)
        if cid is not None:
            rig.emit(f'close {cid}')
            rig.closed_at[cid] = rig.loop.time()
        # keep the descriptor number busy: a read left pending on this connection (stale await)
        # must not see another socket under the same number
        if fd >= 0:
            try:
                os.dup2(rig.devnull, fd)
                rig.pinned.append(fd)
            except OSError:
                pass

    async def writer(self: Connection, data: Any) -> None:
        rig = CUR
        if rig is not None:
            cid = getattr(self, '_rig_id', None)
            if cid is not None and self.io is not None:
                rig.wrote(cid, bytes(data))
        return await _orig['writer'](self, data)

    async def connect(self: Protocol) -> bool:
        rig = CUR
        if rig is None:
            return await _orig['connect'](self)
        if self.connection:
            return True
        fut = rig.loop.create_future()
        rig.connect_fut = fut
        try:
            ok = await fut
        finally:
            rig.connect_fut = None
        if not ok:
            return False
        conn = Outgoing(AFI.ipv4, '127.0.0.1', '127.0.0.1', 179)
        conn.io = rig.new_pair(conn)
        self.connection = conn
        if self._api['neighbor-changes']:
            self.peer.reactor.processes.connected(self.peer.neighbor)
        return True

    async def read_message(self: Protocol) -> Any:
        rig = CUR
        if rig is None or self.peer is not rig.peer:
            return await _orig['read_message'](self)
        rig.read_calls += 1
        rig.reading = self.connection
        try:
            return await _orig['read_message'](self)
        finally:
            rig.reading = None

    async def _run(self: Peer) -> None:
        rig = CUR
        if rig is None or self is not rig.peer:
            return await _orig['_run'](self)
        rig.in_run = True
        rig.run_starts += 1
        try:
            return await _orig['_run'](self)
        finally:
            rig.in_run = False
            rig.in_main = False

    async def _main(self: Peer) -> int:
        rig = CUR
        if rig is not None and self is rig.peer:
            rig.in_main = True
        try:
            return await _orig['_main'](self)
        finally:
            if rig is not None:
                rig.in_main = False

    async def _read_open(self: Peer) -> Any:
        rig = CUR
        if rig is not None and self is rig.peer:
            rig.in_read_open = True
        try:
            return await _orig['_read_open'](self)
        finally:
            if rig is not None:
                rig.in_read_open = False

    async def _read_ka(self: Peer) -> Any:
        rig = CUR
        if rig is not None and self is rig.peer:
            rig.in_read_ka = True
        try:
            return await _orig['_read_ka'](self)
        finally:
            if rig is not None:
                rig.in_read_ka = False

    Peer._read_ka = _read_ka  # type: ignore[method-assign]
    FSM.change = change  # type: ignore[method-assign]
    Connection.close = close  # type: ignore[method-assign]
    Connection.writer_async = writer  # type: ignore[method-assign]
    Protocol.connect = connect  # type: ignore[method-assign]
    Protocol.read_message = read_message  # type: ignore[method-assign]
    Peer._run = _run  # type: ignore[method-assign]
    Peer._main = _main  # type: ignore[method-assign]
    Peer._read_open = _read_open  # type: ignore[method-assign]


# ---------------------------------------------------------------------------------------------
# messages the remote speaker can send


def frame(kind: int, body: bytes, length: int | None = None, marker: bytes = MARKER) -> bytes:
    n = 19 + len(body) if length is None else length
    return marker + struct.pack('!H', n) + bytes([kind]) + body


def _attr(flag: int, code: int, value: bytes) -> bytes:
    return bytes([flag, code, len(value)]) + value


def update_body(attrs: bytes, nlri: bytes = b'', withdrawn: bytes = b'') -> bytes:
    return struct.pack('!H', len(withdrawn)) + withdrawn + struct.pack('!H', len(attrs)) + attrs + nlri


ORIGIN = _attr(0x40, 1, b'\x00')
ASPATH = _attr(0x40, 2, b'\x02\x01' + struct.pack('!I', 65001))  # ASN4 session
NEXTHOP = _attr(0x40, 3, bytes([192, 0, 2, 1]))
NLRI = bytes([24, 10, 9, 9])

KINDS = [
    # valid
    'open',  # valid OPEN, router id above ours
    'openLow',  # valid OPEN, router id below ours
    'keepalive',
    'update',
    'notification',
    'refresh',
    'operational',
    # header faults
    'badMarker',
    'badLength',  # header length 18
    'tooLong',  # header length above the negotiated maximum
    'unknownType',
    'kaLen20',
    'rrBadLen',
    'notifBadLen',  # NOTIFICATION of length 20 (F32, repaired: closed without reply like any NOTIFICATION)
    'openShort',  # OPEN shorter than the 29 octets of its fixed part
    # OPEN faults
    'openVersion',
    'openAs',
    'openId0',
    'openHold1',
    'openOptParam',
    # UPDATE faults
    'updAttrLen',  # total path attribute length beyond the message (3/1)
    'updNlri',  # NLRI with prefix length 33 (3/10)
    'updMissing',  # well-known mandatory attribute missing (RFC 7606: treat-as-withdraw, session continues)
    'updAsPath',  # malformed AS_PATH (RFC 7606: treat-as-withdraw, session continues)
]


# number of concrete variants of a message class (the model sees the class only)
BIG = 100  # variant numbers from here on: members of a message class which need Extended Message
VARIANTS = {'open': 2, 'openLow': 2, 'openHold1': 2, 'operational': 4, 'notification': 3, 'tooLong': 5, 'badLength': 4, 'unknownType': 5, 'badMarker': 4, 'update': 3}


class Remote:
    """Bytes of every message class, built from a mirrored neighbor (real OPEN through the real encoder)."""

    def __init__(self, peer_hold: int = 180, families: str | None = None, extended: bool = True) -> None:
        _, pn = sessions.make_config(local_as=65001, peer_as=65000, local_address='127.0.0.1', peer_address='127.0.0.1', **({'families': families} if families else {}))
        pn.session.router_id = RouterID(ID_HIGH)
        if not extended:
            # the peer's OPEN does not carry Extended Message: whatever we announce, the maximum stays 4096 (RFC 8654 3)
            from exabgp.util.enumeration import TriState

            pn.capability.extended_message = TriState.FALSE
        pn.hold_time = type(pn.hold_time)(peer_hold)
        self.pn = pn
        self.neg = Negotiated.make_negotiated(pn, Direction.OUT)
        self.open_hi = bytes(sessions.open_of(pn, ID_HIGH).pack_message(self.neg))
        self.open_lo = bytes(sessions.open_of(pn, ID_LOW).pack_message(self.neg))

    def _open_patch(self, off: int, val: bytes) -> bytes:
        b = bytearray(self.open_hi)
        b[19 + off : 19 + off + len(val)] = val
        return bytes(b)

    def with_hostname(self, open_bytes: bytes, host: bytes, domain: bytes) -> bytes:
        """The OPEN with one more optional parameter: capability 73 (hostname) carrying `host` / `domain`."""
        body = bytearray(open_bytes[19:])
        cap = bytes([73, 2 + len(host) + len(domain), len(host)]) + host + bytes([len(domain)]) + domain
        param = bytes([2, len(cap)]) + cap
        body[9] += len(param)
        return frame(1, bytes(body) + param)

    def bytes_of(self, kind: str, variant: int = 0) -> bytes:
        """`variant` > 0: another member of the same message class (same model event): other
        out-of-range values, peer-chosen text that is not ASCII / not UTF-8."""
        if variant >= BIG:
            # a member of the class above 4096 octets: legal once Extended Message (RFC 8654) is negotiated, which
            # raises the limit of every message but OPEN and KEEPALIVE (scripts with cfg `extended` only)
            n = [5000, 65535 - 19][(variant - BIG) % 2]
            if kind == 'notification':
                return frame(3, bytes([3, 5]) + bytes([0xC0, 99]) + bytes(range(256)) * (n // 256))  # UPDATE error with the offending attribute in Data
            if kind == 'update':
                unk = bytes([0xD0, 99]) + struct.pack('!H', n - 200) + bytes([0xAA]) * (n - 200)
                return frame(2, update_body(ORIGIN + ASPATH + NEXTHOP + unk, NLRI))
            if kind == 'operational':
                adv = b'x' * (n - 100)
                return frame(6, bytes([0, 1]) + struct.pack('!H', 3 + len(adv)) + bytes([0, 1, 1]) + adv)
            raise RigError(f'no big member of the class {kind}')
        if kind == 'refresh' and variant == 1:
            # for the other negotiated family (not a variant of the class: M-Session has one Adj-RIB-Out without
            # families, so only the flap scenarios of C11 use it)
            return frame(5, bytes([0, 2, 0, 1]))
        v = VARIANTS.get(kind, 1)
        variant = variant % v if v else 0
        if variant:
            if kind in ('open', 'openLow'):
                base = self.open_hi if kind == 'open' else self.open_lo
                # valid UTF-8 that is not ASCII (a name that is not UTF-8 at all makes the OPEN malformed: 2/0, another class)
                host, dom = [(b'z\xc3\xbcrich-rr1', b'ex\xc3\xa4mple.net')][variant - 1]
                return self.with_hostname(base, host, dom)
            if kind == 'openHold1':
                return self._open_patch(3, struct.pack('!H', 2))  # the other Hold Time RFC 4271 4.2 forbids
            if kind == 'operational':
                adv = ['maintenance \u00e0 22h'.encode(), b'\xff\xfe\x80 reboot', '\u8ba1\u5212\u7ef4\u62a4'.encode()][variant - 1]
                return frame(6, bytes([0, 1 + (variant % 2)]) + struct.pack('!H', 3 + len(adv)) + bytes([0, 1, 1]) + adv)
            if kind == 'notification':
                txt = ['Wartung f\u00fcr 2h'.encode(), b'\xff\xfe\x80\x81'][variant - 1]
                return frame(3, bytes([6, 2, len(txt)]) + txt)
            if kind == 'tooLong':
                return frame(2, b'', length=[0x1080, 0x9000, 0xFFFF, 0x8000][variant - 1])
            if kind == 'badLength':
                return frame(4, b'', length=[0, 17, 1][variant - 1])
            if kind == 'unknownType':
                return frame([0, 255, 7, 128][variant - 1], b'')
            if kind == 'badMarker':
                return frame(4, b'', marker=[b'\x00' + b'\xff' * 15, bytes(16), b'\xff' * 8 + b'\xfe' + b'\xff' * 7][variant - 1])
            if kind == 'update':
                unk = bytes([0xC0, 99, 4, 0xff, 0xfe, 0x80, 0x00])  # unknown optional transitive attribute, bytes that are no text
                return frame(2, update_body(ORIGIN + ASPATH + NEXTHOP + unk, NLRI)) if variant == 1 else frame(2, update_body(b'', b'', withdrawn=NLRI))
        if kind == 'open':
            return self.open_hi
        if kind == 'openLow':
            return self.open_lo
        if kind == 'keepalive':
            return frame(4, b'')
        if kind == 'update':
            return frame(2, update_body(ORIGIN + ASPATH + NEXTHOP, NLRI))
        if kind == 'notification':
            return frame(3, bytes([6, 2]))
        if kind == 'refresh':
            return frame(5, bytes([0, 1, 0, 1]))
        if kind == 'operational':
            return frame(6, bytes([0, 1, 0, 4, 0, 1, 1, 0]))
        if kind == 'badMarker':
            return frame(4, b'', marker=b'\xff' * 15 + b'\x00')
        if kind == 'badLength':
            return frame(4, b'', length=18)
        if kind == 'tooLong':
            return frame(2, b'', length=4097)
        if kind == 'unknownType':
            return frame(9, b'')
        if kind == 'kaLen20':
            return frame(4, b'\x00')
        if kind == 'rrBadLen':
            return frame(5, bytes([0, 1, 0, 1, 0]))
        if kind == 'notifBadLen':
            return frame(3, bytes([6]))
        if kind == 'openShort':
            return frame(1, self.open_hi[19:28])
        if kind == 'openVersion':
            return self._open_patch(0, b'\x03')
        if kind == 'openAs':
            # 2-octet field AND the ASN4 capability must both change for the AS to be "wrong"
            return self._open_as(65009)
        if kind == 'openId0':
            return self._open_patch(5, bytes(4))
        if kind == 'openHold1':
            return self._open_patch(3, struct.pack('!H', 1))
        if kind == 'openOptParam':
            # one optional parameter of an unassigned type (not a capability)
            fixed = self.open_hi[19:28]
            param = bytes([9, 2, 0, 0])
            return frame(1, fixed + bytes([len(param)]) + param)
        if kind == 'updAttrLen':
            return frame(2, struct.pack('!H', 0) + struct.pack('!H', 50) + ORIGIN)
        if kind == 'updNlri':
            return frame(2, update_body(ORIGIN + ASPATH + NEXTHOP, bytes([33, 10, 0, 0, 0, 0])))
        if kind == 'updMissing':
            return frame(2, update_body(ORIGIN + ASPATH, NLRI))  # NEXT_HOP missing
        if kind == 'updAsPath':
            bad = _attr(0x40, 2, b'\x02\x05' + struct.pack('!I', 65001))  # segment announces 5 ASNs, carries 1
            return frame(2, update_body(ORIGIN + bad + NEXTHOP, NLRI))
        raise RigError(f'unknown message kind {kind}')

    def _open_as(self, asn: int) -> bytes:
        from exabgp.bgp.message.open.asn import ASN

        _, pn = sessions.make_config(local_as=asn, peer_as=65000, local_address='127.0.0.1', peer_address='127.0.0.1')
        pn.session.router_id = RouterID(ID_HIGH)
        return bytes(sessions.open_of(pn, ID_HIGH).pack_message(Negotiated.make_negotiated(pn, Direction.OUT)))


def classify(raw: bytes) -> list[str]:
    """Every message in a byte string ExaBGP wrote, as `KIND [code sub]`."""
    out = []
    i = 0
    while i < len(raw):
        if len(raw) - i < 19 or raw[i : i + 16] != MARKER:
            out.append('GARBAGE')
            break
        n = struct.unpack('!H', raw[i + 16 : i + 18])[0]
        t = raw[i + 18]
        body = raw[i + 19 : i + n]
        if n < 19 or i + n > len(raw):
            out.append('TRUNCATED')
            break
        if t == 1:
            out.append('OPEN')
        elif t == 2:
            if body == b'\x00\x00\x00\x00':
                out.append('EOR')
            elif len(body) == 11 and body[:4] == b'\x00\x00\x00\x07' and body[4:8] == b'\x90\x0f\x00\x03':
                out.append('EOR')
            elif len(body) == 10 and body[:4] == b'\x00\x00\x00\x06' and body[4:7] == b'\x80\x0f\x03':
                out.append('EOR')
            else:
                out.append('UPDATE')
        elif t == 3:
            out.append(f'NOTIFICATION {body[0]} {body[1]}' if len(body) >= 2 else 'NOTIFICATION ? ?')
        elif t == 4:
            out.append('KEEPALIVE')
        elif t == 5:
            out.append('REFRESH')
        elif t == 6:
            out.append('OPERATIONAL')
        else:
            out.append(f'TYPE{t}')
        i += n
    return out


# ---------------------------------------------------------------------------------------------
# the rig


DEFAULT_CFG = {
    'hold': 180,  # our configured hold time
    'peer_hold': 180,  # the hold time in the peer's OPEN (negotiated = min)
    'passive': False,
    'attempts': 0,  # tcp.attempts (0 = unlimited)
    'routes': 0,  # configured routes (one UPDATE each)
    'parse': False,  # api receive-update + parsed on their own (api_forward sets them for every kind)
    'graceful': False,  # graceful-restart capability
    'api_changes': True,  # api neighbor-changes: up / down / connected go to the API process
    'api_forward': False,  # api receive { parsed; open; update; notification; keepalive; refresh; operational; }
    'api_fsm': False,  # api fsm: every FSM.change goes to the API process
    'refresh': True,  # route-refresh capability configured (outgoing ROUTE-REFRESH allowed)
    'extended': False,  # extended-message capability (False: maximum message size stays 4096)
    'adj_rib_in': True,  # the neighbor keeps an Adj-RIB-In (False, with no API consumer: read_message hands back a placeholder for every UPDATE)
    'peer_extended': True,  # the peer's OPEN carries Extended Message (False with `extended`: only we announce it, the maximum stays 4096)
    'local_as_auto': False,  # `local-as auto`: our AS mirrors the peer's, the peer's OPEN is read before ours is written (outside M-Session)
    'peer_as_auto': False,  # `peer-as auto`: any AS in the peer's OPEN is accepted (outside M-Session)
}


class SessionRig:
    def __init__(self, cfg: dict | None = None) -> None:
        install()
        self.cfg = dict(DEFAULT_CFG)
        self.cfg.update(cfg or {})
        global _clock_loop
        self.loop = VirtualLoop()
        _clock_loop = self.loop  # before the Peer is built: Delay() and Stats read the clock in __init__
        self.loop.spinning = lambda: self.peer is not None and self.task is not None and not self.task.done() and self.passive_spin()
        self.t0 = self.loop.time()
        self.devnull = os.open(os.devnull, os.O_RDONLY)
        self.pinned: list[int] = []
        self.bucket: list[str] = []
        self.connect_fut: asyncio.Future | None = None
        self.reading: Any = None
        self.read_calls = 0
        self.run_starts = 0
        self.in_run = False
        self.in_main = False
        self.in_read_open = False
        self.in_read_ka = False
        self.nconn = 0
        self.remote_socks: dict[int, socket.socket] = {}
        self.remote_open: dict[int, bool] = {}
        self.listeners: list[socket.socket] = []
        self.rx: dict[int, bytes] = {}  # what the remote actually received, per connection
        self.tx: dict[int, bytes] = {}  # what ExaBGP handed to writer_async, per connection
        self.wire: list[tuple[float, int, str, str]] = []  # (virtual time, conn, classification, fsm state)
        self.closed_at: dict[int, float] = {}
        self.api: list[tuple[float, str]] = []
        self.task: asyncio.Task | None = None
        self.crashed = False
        self.remote = Remote(self.cfg['peer_hold'], extended=bool(self.cfg['peer_extended']))
        self.remotes: dict[int, Remote] = {}  # connection id -> a remote speaker with other capabilities (run_flap_scenario: the families of its OPEN)
        self._env_saved: dict = {}
        self._build_peer()

    # -- construction ---------------------------------------------------------------------------

    def _build_peer(self) -> None:
        from exabgp.configuration.neighbor.api import ParseAPI
        from exabgp.environment import getenv
        from exabgp.bgp.message.update.attribute.collection import AttributeCollection

        AttributeCollection.cached = None
        AttributeCollection.previous = b''
        env = getenv()
        self._env_saved = {'attempts': env.tcp.attempts, 'passive': env.bgp.passive}
        env.tcp.attempts = int(self.cfg['attempts'])
        env.bgp.passive = bool(self.cfg['passive'])
        self.cfg_obj, n = sessions.make_config(local_as=65000, peer_as=65001, local_address='127.0.0.1', peer_address='127.0.0.1')
        n.hold_time = type(n.hold_time)(self.cfg['hold'])
        n.api = ParseAPI.flatten({})
        n.api['neighbor-changes'] = ['svc'] if self.cfg['api_changes'] else []  # the names of the subscribed helper programs, as ParseAPI leaves them
        n.api['fsm'] = bool(self.cfg['api_fsm'])
        if self.cfg['parse']:
            n.api['receive-update'] = True
            n.api['receive-parsed'] = True
        if self.cfg['api_forward']:
            n.api['receive-parsed'] = True
            for kind in ('open', 'update', 'notification', 'keepalive', 'refresh', 'operational'):
                n.api[f'receive-{kind}'] = True
        if self.cfg['graceful']:
            from exabgp.bgp.neighbor.capability import GracefulRestartConfig

            n.capability.graceful_restart = GracefulRestartConfig.with_time(120)
        if self.cfg['refresh']:
            n.capability.route_refresh = 2  # REFRESH.NORMAL
        if not self.cfg['extended']:
            from exabgp.util.enumeration import TriState

            n.capability.extended_message = TriState.FALSE
        if self.cfg['local_as_auto'] or self.cfg['peer_as_auto']:
            from exabgp.bgp.message.open.asn import ASN

            if self.cfg['local_as_auto']:
                n.session.local_as = ASN(0)
            if self.cfg['peer_as_auto']:
                n.session.peer_as = ASN(0)
        n.adj_rib_in = bool(self.cfg['adj_rib_in'])
        self.neighbor = n
        self.nroutes = 0
        routes = [self._route() for _ in range(int(self.cfg['routes']))]
        n.routes = list(routes)
        for r in routes:
            n.rib.outgoing.add_to_rib(r)
        from exabgp.reactor.api.processes import ProcessError

        self.api_dead = False
        self.api_errors = 0  # ProcessError raised so far while a received message was handed to the API
        self.api_errors_at: list[int] = []  # ... per event

        def alive(what: str = '', forward: bool = False) -> None:
            # event `apiDies`: the API process is gone, every write to it raises ProcessError
            if self.api_dead:
                if forward:
                    self.api_errors += 1
                raise ProcessError('the API process is gone')
            if what:
                self._api(what)

        reactor = MagicMock()
        reactor.processes.up = lambda nb: alive('up')
        reactor.processes.down = lambda nb, reason='': alive('down')
        reactor.processes.connected = lambda nb: alive()
        reactor.processes.fsm = lambda nb, fsm: alive()
        reactor.processes.message = lambda *a, **k: alive(forward=True)
        reactor.processes.notification = lambda *a, **k: alive(forward=True)
        reactor.processes.packets = lambda *a, **k: alive(forward=True)
        reactor.processes.negotiated = lambda *a, **k: alive()
        reactor.processes.signal = lambda *a, **k: alive()
        reactor.processes.broken = lambda nb: False
        self.reactor = reactor
        self.peer = Peer(n, reactor)

    def _route(self) -> Any:
        self.nroutes += 1
        k = self.nroutes
        r = self.cfg_obj.parse_route_text(f'route 10.{k // 250}.{k % 250}.0/24 next-hop 192.0.2.1 med {k}')[0]
        return self.neighbor.resolve_self(r)

    def _api(self, what: str) -> None:
        self.api.append((self.now(), what))
        self.emit(what)

    def now(self) -> float:
        return round(self.loop.time() - self.t0, 4)

    # -- observation ----------------------------------------------------------------------------

    def emit(self, item: str) -> None:
        self.bucket.append(item)

    def wrote(self, cid: int, raw: bytes) -> None:
        self.tx[cid] = self.tx.get(cid, b'') + raw
        state = self.peer.fsm.state.name
        for k in classify(raw):
            self.wire.append((self.now(), cid, k, state))
            self.emit(f'send {cid} {k} {state}')

    # -- sockets --------------------------------------------------------------------------------

    def _register(self, conn: Connection, remote: socket.socket) -> int:
        self.nconn += 1
        cid = self.nconn
        conn._rig_id = cid  # type: ignore[attr-defined]
        remote.setblocking(False)
        self.remote_socks[cid] = remote
        self.remote_open[cid] = True
        self.rx[cid] = b''
        return cid

    def new_pair(self, conn: Connection) -> socket.socket:
        """Outgoing connection: one end of a socketpair for ExaBGP, the other for the remote."""
        a, b = socket.socketpair()
        a.setblocking(False)
        for s in (a, b):
            s.setsockopt(socket.SOL_SOCKET, socket.SO_SNDBUF, 1 << 20)
        self._register(conn, b)
        return a

    def new_incoming(self) -> tuple[Incoming, int]:
        """Incoming connection: a real TCP loopback pair (Incoming sets TCP_NODELAY)."""
        lst = socket.socket(socket.AF_INET, socket.SOCK_STREAM)
        lst.bind(('127.0.0.1', 0))
        lst.listen(1)
        remote = socket.socket(socket.AF_INET, socket.SOCK_STREAM)
        remote.connect(lst.getsockname())
        sock, _ = lst.accept()
        lst.close()
        remote.setsockopt(socket.IPPROTO_TCP, socket.TCP_NODELAY, 1)
        inc = Incoming(AFI.ipv4, '127.0.0.1', '127.0.0.1', sock)
        cid = self._register(inc, remote)
        return inc, cid

    def drain(self) -> None:
        for cid, s in self.remote_socks.items():
            if not self.remote_open.get(cid):
                continue
            while True:
                try:
                    data = s.recv(1 << 16)
                except (BlockingIOError, InterruptedError):
                    break
                except OSError:
                    break
                if not data:
                    break
                self.rx[cid] += data

    # -- stepping -------------------------------------------------------------------------------

    def _readable(self, io: socket.socket, timeout_ms: int = 0) -> bool:
        try:
            p = select.poll()
            p.register(io.fileno(), select.POLLIN | select.POLLHUP | select.POLLERR)
            return bool(p.poll(timeout_ms))
        except (OSError, ValueError):
            return False

    def quiet(self) -> bool:
        """Nothing is runnable and no registered socket is ready: only a timer or a new event moves anything."""
        if self.loop._ready:
            return False
        try:
            return not self.loop._selector.select(0)
        except (OSError, ValueError):
            return True

    def passive_spin(self) -> bool:
        """`while not self.proto: await asyncio.sleep(0)` of a passive peer (a busy loop: never quiet)."""
        return bool(self.cfg['passive']) and self.in_run and not self.in_main and self.reading is None and self.connect_fut is None and self.peer.proto is None

    def stable(self) -> bool:
        """The peer coroutine is blocked where only a new event (or a long timer) moves it."""
        if self.task is None or self.task.done():
            return True
        if self.passive_spin():
            return len(self.loop._ready) <= 1
        if not self.quiet():
            return False
        # pending connect / pending read (possibly on a closed connection: stale await) / restart loop
        return (not self.in_run) or self.connect_fut is not None or self.reading is not None

    async def settle(self) -> None:
        """Step the loop (no time passes, except the 1 ms pause between two main-loop iterations)."""
        calm = 0
        for i in range(20000):
            if self.stable():
                calm += 1
                if calm >= 2:
                    self.drain()
                    return
                await asyncio.sleep(0)
                continue
            calm = 0
            if self.quiet():
                await asyncio.sleep(0.0011)  # the peer is in a short timed sleep (main loop pacing)
            else:
                await asyncio.sleep(0)
        raise RigError(f'peer did not settle: in_run={self.in_run} in_main={self.in_main} reading={self.reading} fsm={self.peer.fsm.state.name}')

    async def advance(self, seconds: float, until: Any, step: float = 0.02) -> None:
        end = self.loop.time() + seconds
        while self.loop.time() < end and not until():
            await asyncio.sleep(min(step, max(end - self.loop.time(), 0.0001)))

    def _wait_delivery(self, cid: int) -> None:
        """TCP loopback: give the kernel the (real) microseconds it needs to deliver what the remote did."""
        conn = self.reading
        if conn is None or getattr(conn, '_rig_id', None) != cid or conn.io is None:
            return
        if self.remote_socks[cid].family == socket.AF_INET:
            self._readable(conn.io, 50)

    # -- events ---------------------------------------------------------------------------------

    async def event(self, ev: list) -> list[str]:
        self.bucket = []
        self.sent_ok = False
        k = ev[0]
        peer = self.peer
        if k == 'start':
            if self.task is not None and not self.task.done() and not self.in_run:
                before = self.run_starts
                await self.advance(70.0, lambda: self.run_starts > before, step=0.02)
        elif k == 'connectOk':
            if self.connect_fut is not None and not self.connect_fut.done():
                self.connect_fut.set_result(True)
        elif k == 'connectFail':
            if self.connect_fut is not None and not self.connect_fut.done():
                self.connect_fut.set_result(False)
        elif k == 'incoming':
            from exabgp.reactor.api.processes import ProcessError

            inc, cid = self.new_incoming()
            try:
                res = peer.handle_connection(inc)
            except ProcessError:
                # out of Protocol.accept (processes.connected) / FSM.change: the listener's generator dies, the connection is dropped
                res = 'process-error'
            if res is not None:
                # Listener.new_connections treats the returned generator as a flag and drops it
                self.emit(f'reject {cid}')
            del inc, res
        elif k == 'recv':
            cid, kind = ev[1], ev[2]
            if self.remote_open.get(cid):
                try:
                    self.remote_socks[cid].sendall(self.remotes.get(cid, self.remote).bytes_of(kind, int(ev[3]) if len(ev) > 3 else 0))
                    self.sent_ok = True
                except OSError:
                    pass
                self._wait_delivery(cid)
        elif k == 'eof':
            cid = ev[1]
            if self.remote_open.get(cid):
                try:
                    self.remote_socks[cid].shutdown(socket.SHUT_WR)
                except OSError:
                    pass
                self._wait_delivery(cid)
        elif k == 'sockError':
            cid = ev[1]
            if self.remote_open.get(cid):
                self.drain()
                s = self.remote_socks[cid]
                try:
                    if s.family == socket.AF_INET:
                        s.setsockopt(socket.SOL_SOCKET, socket.SO_LINGER, struct.pack('ii', 1, 0))
                    else:
                        s.shutdown(socket.SHUT_RDWR)
                except OSError:
                    pass
                s.close()
                self.remote_open[cid] = False
                self._wait_delivery(cid)
        elif k == 'openwaitExpired':
            if self.in_read_open:
                await self.advance(61.0, lambda: not self.in_read_open, step=0.5)
        elif k == 'holdExpired':
            if min(self.cfg['hold'], self.cfg['peer_hold']) == 0:
                pass  # negotiated hold time 0: there is no timer
            elif self.in_main or self.in_read_ka:
                hold = min(self.cfg['hold'], self.cfg['peer_hold'])
                was_main, was_ka = self.in_main, self.in_read_ka
                await self.advance(hold + 3.0, lambda: (was_main and not self.in_main) or (was_ka and not self.in_read_ka) or not self.in_run, step=0.05)
        elif k == 'tick':
            if self.in_main and self.reading is not None:
                target = self.read_calls + 1
                await self.advance(0.3, lambda: self.read_calls >= target or not self.in_main, step=0.01)
        elif k == 'apiDies':
            self.api_dead = True
        elif k == 'teardown':
            peer.teardown(int(ev[1]))
        elif k == 'reestablish':
            peer.reestablish()
        elif k == 'stop':
            from exabgp.reactor.api.processes import ProcessError

            try:
                peer.shutdown()
            except ProcessError:
                pass  # out of FSM.change (api fsm): reactor.shutdown() dies there
        elif k == 'queueRefresh':
            from exabgp.bgp.message.refresh import RouteRefresh
            from exabgp.protocol.family import SAFI

            self.neighbor.refresh.append(RouteRefresh.make_route_refresh(AFI.ipv4, SAFI.unicast, 0))
        elif k == 'announce':
            for _ in range(int(ev[1])):
                self.neighbor.rib.outgoing.add_to_rib(self._route())
        elif k == 'reconfigure':
            # a configuration reload which keeps the session parameters (`Reactor.reload` -> `Peer.reconfigure`):
            # a new Neighbor object of the same name, same RIB, the one it replaces as `previous`; variant 1: the
            # reload attached one more helper program to the neighbor's `neighbor-changes`; variant 2: one more route
            # (outside M-Session: scripts with this event are judged by the oracle and the trace checker)
            import copy as _copy

            old = peer.neighbor
            new = _copy.copy(old)
            new.api = dict(old.api)
            new.routes = list(old.routes)
            v = int(ev[1]) if len(ev) > 1 else 0
            if v == 1 and new.api.get('neighbor-changes'):
                new.api['neighbor-changes'] = list(new.api['neighbor-changes']) + ['observer']
            if v == 2:
                new.routes.append(self._route())
            new.previous = old
            self.neighbor = new
            peer.reconfigure(new)
        else:
            raise RigError(f'unknown event {ev}')
        await self.settle()
        self.api_errors_at.append(self.api_errors)
        if self.task is not None and self.task.done() and not self.crashed and not self.task.cancelled():
            exc = self.task.exception()
            if exc is not None:
                # Peer.run() is gone for good: nothing will ever close the transport or restart the session
                self.crashed = True
                self.emit(f'crash {type(exc).__name__}')
        return list(self.bucket)

    # -- whole scripts --------------------------------------------------------------------------

    async def _run_script(self, script: list[list]) -> list[list[str]]:
        self.task = self.loop.create_task(self.peer.run())
        out = []
        self.sent: list[bool] = []
        for ev in script:
            out.append(await self.event(ev))
            self.sent.append(self.sent_ok)
        return out

    def run(self, script: list[list]) -> list[list[str]]:
        global CUR
        if CUR is not None:
            raise RigError('one rig at a time')
        CUR = self
        asyncio.set_event_loop(self.loop)
        try:
            return self.loop.run_until_complete(self._run_script(script))
        finally:
            self._cleanup()
            CUR = None

    def _cleanup(self) -> None:
        from exabgp.environment import getenv

        try:
            if self.task is not None and not self.task.done():
                self.task.cancel()
                try:
                    self.loop.run_until_complete(asyncio.gather(self.task, return_exceptions=True))
                except Exception:
                    pass
            try:
                if self.peer.proto is not None:
                    self.peer.proto.close('rig cleanup')
            except Exception:
                pass
            self.peer = None  # type: ignore[assignment]
            for s in self.remote_socks.values():
                try:
                    s.close()
                except OSError:
                    pass
            # cancel what is left on the loop (stale reads)
            pending = [t for t in asyncio.all_tasks(self.loop) if not t.done()]
            for t in pending:
                t.cancel()
            if pending:
                try:
                    self.loop.run_until_complete(asyncio.gather(*pending, return_exceptions=True))
                except Exception:
                    pass
        finally:
            import gc

            gc.collect()
            for fd in self.pinned:
                try:
                    os.close(fd)
                except OSError:
                    pass
            self.pinned = []
            try:
                os.close(self.devnull)
            except OSError:
                pass
            try:
                self.loop.close()
            except Exception:
                pass
            env = getenv()
            env.tcp.attempts = self._env_saved.get('attempts', 0)
            env.bgp.passive = self._env_saved.get('passive', False)


def run_script(script: list[list], cfg: dict | None = None) -> dict:
    """Run one script on a fresh rig. Returns buckets plus the raw observations the oracles use."""
    rig = SessionRig(cfg)
    buckets = rig.run(script)
    return {
        'buckets': buckets,
        'wire': rig.wire,
        'rx': {c: classify(b) for c, b in rig.rx.items()},
        'tx': {c: classify(b) for c, b in rig.tx.items()},
        'rx_raw': rig.rx,
        'tx_raw': rig.tx,
        'api': rig.api,
        'apierr': [b - a for a, b in zip([0] + rig.api_errors_at, rig.api_errors_at)],
        'remote_open': dict(rig.remote_open),
        'sent': list(rig.sent),
    }


# ---------------------------------------------------------------------------------------------
# the model side (drv_session) and the comparison


def model_cfg_line(cfg: dict | None) -> str:
    c = dict(DEFAULT_CFG)
    c.update(cfg or {})
    hold0 = min(c['hold'], c['peer_hold']) == 0
    return f"session init {int(bool(c['passive']))} {int(c['attempts'])} {int(hold0)} {int(bool(c['graceful']))} {int(c['routes'] > 0)} {int(bool(c['api_changes']))} {int(bool(c['api_forward']))}"


def model_line(ev: list) -> str:
    if ev[0] == 'announce':
        return 'session ev announce'
    if ev[0] == 'recv':
        ev = ev[:3]  # the variant of the message class is the rig's business
    return 'session ev ' + ' '.join(str(x) for x in ev)


def parse_bucket(line: str) -> list[str]:
    return [] if line == '-' else line.split(';')


def run_model_batch(cases: list[tuple[list[list], dict | None]]) -> list[list[list[str]]]:
    """Buckets of the Lean model for many (script, cfg) in one driver process."""
    from harness import common

    lines: list[str] = []
    for script, cfg in cases:
        lines.append(model_cfg_line(cfg))
        lines += [model_line(ev) for ev in script]
    out = common.run_driver('drv_session', lines)
    res = []
    i = 0
    for script, _ in cases:
        if out[i] != 'ok':
            raise RigError(f'drv_session refused init: {out[i]}')
        b = out[i + 1 : i + 1 + len(script)]
        if 'bad-op' in b:
            raise RigError(f'drv_session could not parse an event of {script}')
        res.append([parse_bucket(x) for x in b])
        i += 1 + len(script)
    return res


def canon_bucket(bucket: list[str]) -> list[str]:
    """What is compared: the periodic KEEPALIVE of the established session is M-Timer's business
    (C12), and a batch of UPDATEs / the End-of-RIB markers of all families count once each."""
    out: list[str] = []
    for it in bucket:
        w = it.split(' ')
        if w[0] == 'send' and w[2] == 'KEEPALIVE' and w[-1] == 'ESTABLISHED':
            continue
        if w[0] == 'send' and w[2] in ('UPDATE', 'EOR') and out and out[-1] == it:
            continue
        out.append(it)
    return out


def first_difference(script: list[list], impl: list[list[str]], model: list[list[str]]) -> tuple[int, list[str], list[str]] | None:
    for i, (a, b) in enumerate(zip(impl, model)):
        ca, cb = canon_bucket(a), canon_bucket(b)
        if ca != cb:
            return i, ca, cb
    return None


# ---------------------------------------------------------------------------------------------
# scripts from the model's own alphabet

FAULT_KINDS = ['badMarker', 'badLength', 'tooLong', 'unknownType', 'kaLen20', 'rrBadLen', 'openShort', 'openVersion', 'openOptParam', 'updAttrLen', 'updNlri']
SEM_KINDS = ['openAs', 'openId0', 'openHold1']
PLAIN_KINDS = ['open', 'openLow', 'keepalive', 'update', 'updMissing', 'updAsPath', 'notification', 'notifBadLen', 'refresh', 'operational']

STAGES: dict[str, tuple[list[list], int]] = {
    # name: (prefix, connection id in use afterwards; 0 = none)
    'backoff': ([], 0),
    'connecting': ([['start']], 0),
    'adopted-idle': ([['incoming']], 1),
    'adopted-connecting': ([['start'], ['incoming']], 1),
    'opensent': ([['start'], ['connectOk']], 1),
    'openconfirm': ([['start'], ['connectOk'], ['recv', 1, 'open']], 1),
    'openconfirm-low': ([['start'], ['connectOk'], ['recv', 1, 'openLow']], 1),
    'established-fresh': ([['start'], ['connectOk'], ['recv', 1, 'open'], ['recv', 1, 'keepalive']], 1),
    'established': ([['start'], ['connectOk'], ['recv', 1, 'open'], ['recv', 1, 'keepalive'], ['tick'], ['tick']], 1),
    # the coroutine still awaits a read on a connection `handle_connection` / `_stop` closed under it (F30)
    'opensent-replaced': ([['start'], ['connectOk'], ['incoming']], 2),
    'openconfirm-replaced': ([['start'], ['connectOk'], ['recv', 1, 'open'], ['incoming']], 2),
    'opensent-stopped': ([['start'], ['connectOk'], ['stop']], 1),
    'established-stopped': ([['start'], ['connectOk'], ['recv', 1, 'open'], ['recv', 1, 'keepalive'], ['tick'], ['queueRefresh'], ['stop']], 1),
    'established-stopped-adopted': ([['start'], ['connectOk'], ['recv', 1, 'open'], ['recv', 1, 'keepalive'], ['tick'], ['queueRefresh'], ['announce', 1], ['stop'], ['incoming']], 2),
    # stop() then reestablish() / teardown(): `_restart` is armed again and the stopped peer adopts after all
    'established-stopped-rearmed-adopted': ([['start'], ['connectOk'], ['recv', 1, 'open'], ['recv', 1, 'keepalive'], ['tick'], ['queueRefresh'], ['stop'], ['reestablish'], ['incoming']], 2),
    'fresh-stopped-rearmed-adopted': ([['start'], ['connectOk'], ['recv', 1, 'open'], ['recv', 1, 'keepalive'], ['stop'], ['teardown', 2], ['incoming']], 2),
    'fresh-stopped-adopted': ([['start'], ['connectOk'], ['recv', 1, 'open'], ['recv', 1, 'keepalive'], ['stop'], ['incoming']], 2),
    'second-session': ([['start'], ['connectOk'], ['recv', 1, 'open'], ['recv', 1, 'keepalive'], ['tick'], ['eof', 1], ['start'], ['connectOk'], ['recv', 2, 'open'], ['recv', 2, 'keepalive']], 2),
}


def alphabet(c: int) -> list[list]:
    """Every event of the model's alphabet, messages addressed to connection c (1 if none yet)."""
    c = c or 1
    evs: list[list] = [['start'], ['connectOk'], ['connectFail'], ['incoming'], ['eof', c], ['sockError', c], ['openwaitExpired'], ['holdExpired'], ['tick'], ['teardown', 2], ['teardown', 4], ['reestablish'], ['stop'], ['queueRefresh'], ['announce', 1], ['apiDies']]
    evs += [['recv', c, k] for k in KINDS]
    return evs


TAIL = [['tick'], ['start'], ['connectOk']]


def systematic_scripts() -> list[tuple[list[list], dict, str]]:
    """Every event at every stage of establishment and operation, followed by what lets the peer go on."""
    out = []
    for stage, (prefix, c) in STAGES.items():
        for ev in alphabet(c):
            cfg: dict = {'routes': 2}
            if ev[0] == 'holdExpired':
                cfg['hold'] = 9
            out.append((prefix + [ev] + TAIL, cfg, f'{stage}/{ev[0]}' + (f':{ev[2]}' if ev[0] == 'recv' else '')))
    # configuration variants on the events they matter for
    for stage in ('connecting', 'opensent', 'openconfirm', 'established'):
        prefix, c = STAGES[stage]
        for ev in [['eof', c], ['recv', c, 'notification'], ['recv', c, 'badMarker'], ['connectFail'], ['stop'], ['teardown', 3]]:
            out.append((prefix + [ev] + TAIL, {'attempts': 1, 'routes': 1}, f'attempts1/{stage}/{ev[0]}'))
            out.append((prefix + [ev] + TAIL, {'attempts': 2, 'routes': 1}, f'attempts2/{stage}/{ev[0]}'))
        for ev in [['teardown', 2], ['reestablish'], ['stop']]:
            out.append((prefix + [ev] + TAIL, {'graceful': True}, f'graceful/{stage}/{ev[0]}'))
    # graceful-restart configured: the one thing it changes is that an API teardown closes without a NOTIFICATION; every
    # error of the peer and every timer is answered exactly as without it
    for stage in ('opensent', 'openconfirm', 'established'):
        prefix, c = STAGES[stage]
        for ev in alphabet(c):
            if ev[0] in ('teardown', 'reestablish', 'stop', 'apiDies', 'start', 'connectOk', 'connectFail', 'queueRefresh', 'announce', 'tick'):
                continue
            cfg = {'graceful': True, 'routes': 1}
            if ev[0] == 'holdExpired':
                cfg['hold'] = 9
            out.append((prefix + [ev] + TAIL, cfg, f'graceful-errors/{stage}/{ev[0]}' + (f':{ev[2]}' if ev[0] == 'recv' else '')))
    # three connections of one peer: one that ends before the session is announced, a session that is announced and
    # ends, a third session — whatever the peer object counts or remembers across connections, every `up` has its `down`
    firsts = [[['recv', 1, 'open'], ['eof', 1]], [['recv', 1, 'notification']], [['recv', 1, 'openAs']], [['eof', 1]], [['recv', 1, 'open'], ['recv', 1, 'badMarker']], [['sockError', 1]], [['openwaitExpired']]]
    ends = [[['eof', 2]], [['teardown', 2], ['tick']], [['recv', 2, 'notification']], [['holdExpired']], [['recv', 2, 'badLength']]]
    for fi, first in enumerate(firsts):
        for ei, end in enumerate(ends):
            script = [['start'], ['connectOk']] + first + [['tick'], ['start'], ['connectOk'], ['recv', 2, 'open'], ['recv', 2, 'keepalive'], ['tick']] + end + [['tick'], ['start'], ['connectOk'], ['recv', 3, 'open'], ['recv', 3, 'keepalive'], ['tick'], ['eof', 3], ['tick']]
            out.append((script, {'hold': 9, 'routes': 1}, f'three-connections/{fi}/{ei}'))
    # the API process dies: every event at the main stages, for each combination of the api options
    for stage in ('backoff', 'connecting', 'adopted-idle', 'opensent', 'openconfirm', 'established-fresh', 'established'):
        prefix, c = STAGES[stage]
        for api in ({'api_changes': True, 'api_forward': True}, {'api_changes': False, 'api_forward': True}, {'api_changes': True, 'api_forward': False}):
            tag = 'api-dead:' + ('c' if api['api_changes'] else '') + ('f' if api['api_forward'] else '')
            for ev in alphabet(c):
                if ev[0] == 'apiDies':
                    continue
                cfg = dict(api, routes=1)
                if ev[0] == 'holdExpired':
                    cfg['hold'] = 9
                out.append((prefix + [['apiDies'], ev] + TAIL, cfg, f'{tag}/{stage}/{ev[0]}' + (f':{ev[2]}' if ev[0] == 'recv' else '')))
    for stage in ('opensent', 'openconfirm', 'established'):
        prefix, c = STAGES[stage]
        for k in ('notification', 'keepalive', 'open', 'badMarker', 'update'):
            out.append((prefix + [['recv', c, k]] + TAIL, {'api_forward': True}, f'api-alive-forward/{stage}/{k}'))
    pas = [['start']]
    for ev in alphabet(1):
        out.append((pas + [ev] + [['incoming'], ['recv', 2 if ev[0] == 'incoming' else 1, 'open']], {'passive': True}, f'passive-wait/{ev[0]}'))
    pas2 = [['start'], ['incoming'], ['recv', 1, 'open'], ['recv', 1, 'keepalive'], ['tick']]
    for ev in [['eof', 1], ['incoming'], ['stop'], ['teardown', 2], ['recv', 1, 'notification'], ['holdExpired']]:
        out.append((pas2 + [ev] + [['tick'], ['start'], ['incoming']], {'passive': True, 'hold': 9}, f'passive-established/{ev[0]}'))
    # hold timer by silence, negotiated hold time 3 / 9 / 90 / 0
    est = STAGES['established'][0]
    for hold, peer_hold in [(3, 180), (9, 9), (180, 90), (0, 180), (90, 0)]:
        out.append((est + [['holdExpired'], ['start']], {'hold': hold, 'peer_hold': peer_hold}, f'hold/{hold}-{peer_hold}'))
        out.append((STAGES['openconfirm'][0] + [['holdExpired'], ['recv', 1, 'keepalive'], ['tick']], {'hold': hold, 'peer_hold': peer_hold}, f'hold-openconfirm/{hold}-{peer_hold}'))
    out.append((est + [['recv', 1, 'keepalive'], ['recv', 1, 'keepalive'], ['start']], {'hold': 0}, 'hold0/two-keepalives'))
    # every variant of every message class (other out-of-range values, peer-chosen text that is not
    # ASCII / not UTF-8) at the three reading stages; an OPEN variant also as THE OPEN of the session,
    # followed by what makes the speaker talk about that peer (second OPEN, KEEPALIVE, silence)
    for stage in ('opensent', 'openconfirm', 'established'):
        prefix, c = STAGES[stage]
        for k, n in VARIANTS.items():
            for v in range(1, n):
                for api in ({}, {'api_forward': True}):
                    out.append((prefix + [['recv', c, k, v]] + TAIL, dict(api, routes=1), f'variant{"-fwd" if api else ""}/{stage}/{k}#{v}'))
    # Extended Message negotiated (what ExaBGP announces by default): messages above 4096 octets are members of
    # their class like any other - an UPDATE is taken, a NOTIFICATION ends the session WITHOUT a reply (RFC 4271 6.4)
    for stage in ('openconfirm', 'established-fresh', 'established'):
        prefix, c = STAGES[stage]
        for k in ('notification', 'update', 'operational'):
            for v in (BIG, BIG + 1):
                for api in ({}, {'api_forward': True}):
                    out.append((prefix + [['recv', c, k, v]] + TAIL, dict(api, routes=1, extended=True), f'extended{"-fwd" if api else ""}/{stage}/{k}#{v}'))
        for ev in alphabet(c):
            if ev[0] != 'recv' or ev[2] in ('keepalive', 'update', 'notification', 'refresh', 'badLength', 'kaLen20'):
                out.append((prefix + [ev] + TAIL, {'routes': 1, 'extended': True}, f'extended/{stage}/{ev[0]}{"-" + ev[2] if ev[0] == "recv" else ""}'))
    # only ONE side announces Extended Message: nothing was negotiated, a header above 4096 is a Bad Message Length
    for stage in ('openconfirm', 'established-fresh', 'established'):
        prefix, c = STAGES[stage]
        for v in range(VARIANTS['tooLong']):
            for sides in ({'extended': True, 'peer_extended': False}, {'extended': False, 'peer_extended': True}):
                out.append((prefix + [['recv', c, 'tooLong'] + ([v] if v else [])] + TAIL, dict(sides, routes=1), f'extended-one-side/{stage}/tooLong#{v}'))
    for v in range(1, VARIANTS['open']):
        for k in ('open', 'openLow'):
            base = [['start'], ['connectOk'], ['recv', 1, k, v]]
            for tail in ([['recv', 1, 'open']], [['recv', 1, 'update']], [['recv', 1, 'keepalive'], ['recv', 1, 'open', v]], [['recv', 1, 'keepalive'], ['tick'], ['recv', 1, 'openAs']],
                         [['recv', 1, 'keepalive'], ['recv', 1, 'operational', 1]], [['holdExpired']], [['recv', 1, 'keepalive'], ['tick'], ['teardown', 2], ['tick']]):
                for api in ({}, {'api_forward': True}):
                    out.append((base + tail + TAIL, dict(api, routes=1, hold=9), f'open-variant{"-fwd" if api else ""}/{k}#{v}/{tail[-1][0]}'))
    # every OPEN class as THE OPEN of the session, under every kind of local hold time (0 = no keepalives, the
    # smallest legal one, the default) and on both sides of the connection: what an OPEN is answered with is a
    # function of the OPEN, whatever the local configuration makes of the negotiated values
    for hold in (0, 3, 180):
        for k in OPENISH + ('openVersion', 'openOptParam', 'openShort'):
            for v in range(VARIANTS.get(k, 1)):
                ev = ['recv', 1, k] + ([v] if v else [])
                out.append(([['start'], ['connectOk'], ev, ['recv', 1, 'keepalive'], ['tick'], ['recv', 1, 'update']] + TAIL, {'hold': hold, 'routes': 1}, f'the-open/hold{hold}/{k}#{v}'))
                out.append(([['start'], ['incoming'], ev, ['recv', 1, 'keepalive'], ['tick']] + TAIL, {'hold': hold, 'passive': True}, f'the-open-passive/hold{hold}/{k}#{v}'))
    return out


def parse_state(line: str) -> dict:
    w = line.split(' ')
    pc = w[1].split(':')
    conn = w[2].split(':')
    return {
        'fsm': w[0],
        'pc': pc[0],
        'await': int(pc[1]) if len(pc) > 1 else 0,
        'conn': int(conn[0]) if conn[0] != '-' else 0,
        'pending': w[-1].split('=')[1] if w[-1].startswith('pend=') else '',
    }


def random_script(rng: Any, drv: Any, maxlen: int, fault_weight: float, cfg: dict) -> tuple[list[list], list[list[str]]]:
    """A script drawn from the alphabet, guided by the model's own state (asked from the driver)
    so that most events are enabled where they are issued; one in ten is drawn blindly."""
    script: list[list] = []
    buckets: list[list[str]] = []
    if drv.ask(model_cfg_line(cfg)) != 'ok':
        raise RigError('drv_session refused init')
    nconn = 0
    ticks = 0
    died = False
    n = rng.randrange(3, maxlen + 1)
    hold = min(cfg.get('hold', 180), cfg.get('peer_hold', 180))
    while len(script) < n:
        st = parse_state(drv.ask('session state'))
        c = st['conn'] or st['await'] or max(nconn, 1)
        x = rng.random()
        pc = st['pc']

        def recv(kinds: list[str]) -> list:
            k = rng.choice(kinds)
            if k in VARIANTS and rng.random() < 0.5:
                return ['recv', c, k, rng.randrange(1, VARIANTS[k])]
            return ['recv', c, k]

        fault = lambda: recv(FAULT_KINDS + SEM_KINDS + ['operational', 'notification', 'notifBadLen'])  # noqa: E731
        if not died and rng.random() < 0.04:
            ev = ['apiDies']
        elif x < 0.10:
            ev = rng.choice(alphabet(rng.choice([c, max(1, c - 1), nconn + 1])))
        elif pc in ('backoff', 'done'):
            ev = rng.choices([['start'], ['incoming'], ['stop'], ['teardown', rng.choice([2, 3, 4, 6])], ['reestablish'], ['queueRefresh'], ['announce', 1], recv(PLAIN_KINDS), ['eof', c], ['sockError', c]], [60, 10, 3, 4, 3, 4, 4, 6, 3, 3])[0]
        elif pc == 'connecting':
            ev = rng.choices([['connectOk'], ['connectFail'], ['incoming'], ['stop'], ['teardown', 2], ['reestablish'], ['tick']], [55, 20, 12, 4, 4, 3, 2])[0]
        elif pc == 'passiveWait':
            ev = rng.choices([['incoming'], ['stop'], ['teardown', 2], ['start'], ['tick']], [75, 8, 7, 5, 5])[0]
        elif pc == 'awaitOpen':
            ev = rng.choices(
                [recv(['open', 'open', 'openLow']), fault(), recv(['keepalive', 'update', 'refresh']), ['eof', c], ['sockError', c], ['incoming'], ['openwaitExpired'], ['teardown', rng.choice([2, 4])], ['reestablish'], ['stop'], ['queueRefresh'], ['announce', 1]],
                [45, 14 * fault_weight, 5 * fault_weight, 4, 3, 8, 4, 4, 2, 3, 3, 3],
            )[0]
        elif pc == 'awaitKa':
            ev = rng.choices(
                [recv(['keepalive']), fault(), recv(['open', 'update', 'refresh']), ['eof', c], ['sockError', c], ['incoming'], ['holdExpired'], ['teardown', rng.choice([2, 4])], ['reestablish'], ['stop'], ['queueRefresh'], ['announce', 1]],
                [50, 12 * fault_weight, 5 * fault_weight, 4, 3, 8, 3, 4, 2, 3, 3, 3],
            )[0]
        else:  # mainLoop
            quiet = st['pending'] in ('', '000')
            ev = rng.choices(
                [['tick'], recv(['keepalive', 'update', 'updMissing', 'updAsPath', 'refresh']), fault(), recv(['open', 'openLow']), ['eof', c], ['sockError', c], ['incoming'], ['holdExpired'] if quiet and hold else ['tick'], ['teardown', rng.choice([2, 3, 4, 6])], ['reestablish'], ['stop'], ['queueRefresh'], ['announce', 1]],
                [25, 18, 10 * fault_weight, 3 * fault_weight, 4, 3, 5, 3, 7, 3, 3, 5, 5],
            )[0]
        if ev[0] == 'tick':
            ticks += 1
            if hold and ticks > 2 * hold:
                continue  # keep the scripted silence below the hold time
        if ev[0] in ('connectOk', 'incoming'):
            nconn += 1
        if ev[0] == 'apiDies':
            died = True
        script.append(ev)
        buckets.append(parse_bucket(drv.ask(model_line(ev))))
    return script, buckets


# ---------------------------------------------------------------------------------------------
# oracles on the OBSERVED trace (independent of the model)

CONNECTED = ('CONNECT', 'OPENSENT', 'OPENCONFIRM', 'ESTABLISHED')
OPENISH = ('open', 'openLow', 'openAs', 'openId0', 'openHold1')


def as_judged(script: list[list], cfg: dict | None) -> list[list]:
    """With `peer-as auto` an OPEN carrying another AS than the configured one is a valid OPEN."""
    if not (cfg or {}).get('peer_as_auto'):
        return script
    return [[ev[0], ev[1], 'open'] + ev[3:] if ev[0] == 'recv' and ev[2] == 'openAs' else ev for ev in script]


def oracle_c05(script: list[list], res: dict, rfc_table: set, cfg: dict | None = None) -> list[tuple[str, str]]:
    """(rule, description) for every rule of C05 the observed trace breaks."""
    script = as_judged(script, cfg)
    bad: list[tuple[str, str]] = []
    state = 'IDLE'
    open_sent: set[int] = set()  # connections on which we wrote our OPEN
    closed: set[int] = set()
    peer_open: set[int] = set()  # the remote wrote a valid OPEN on it
    peer_ka: set[int] = set()  # ... and then a KEEPALIVE
    current = 0
    up = False
    for ev, bucket, sent in zip(script, res['buckets'], res['sent']):
        if ev[0] == 'recv' and sent:
            if ev[2] in ('open', 'openLow'):
                peer_open.add(ev[1])
            if ev[2] == 'keepalive' and ev[1] in peer_open:
                peer_ka.add(ev[1])
        left = False
        for it in bucket:
            w = it.split(' ')
            if w[0] == 'fsm':
                a, b = w[1].split('>')
                if a != state:
                    bad.append(('fsm-chain', f'FSM.change from {a} while the previous change left {state}'))
                if (a, b) not in rfc_table:
                    bad.append(('transition', f'{a}->{b} is not an RFC 4271 transition'))
                if b == 'ESTABLISHED':
                    if current not in open_sent:
                        bad.append(('established-without-open-sent', f'ESTABLISHED on connection {current} without having sent OPEN'))
                    if current not in peer_open:
                        bad.append(('established-without-peer-open', f'ESTABLISHED on connection {current} without a valid peer OPEN'))
                    if current not in peer_ka:
                        bad.append(('established-without-keepalive', f'ESTABLISHED on connection {current} without a KEEPALIVE from the peer'))
                if a in CONNECTED and b not in CONNECTED:
                    left = True
                state = b
            elif w[0] == 'send':
                c, kind, st = int(w[1]), w[2], w[-1]
                if kind == 'OPEN':
                    open_sent.add(c)
                    current = c
                if kind in ('UPDATE', 'EOR', 'REFRESH') and st != 'ESTABLISHED':
                    bad.append(('send-outside-established', f'{kind} written on connection {c} in state {st}'))
                if st != state:
                    bad.append(('label', f'write labelled {st} while the trace says {state}'))
            elif w[0] == 'close':
                closed.add(int(w[1]))
            elif w[0] == 'crash':
                bad.append(('wedged', f'Peer.run() died with {w[1]} in state {state}: the session is stuck there, its transport is never closed'))
            elif w[0] == 'up':
                if up:
                    bad.append(('up-up', 'API "up" twice without a "down" in between'))
                up = True
            elif w[0] == 'down':
                up = False
        if left:
            still = sorted(c for c in open_sent if c not in closed)
            if still:
                bad.append(('leave-without-close', f'left a connected state with connection(s) {still} still open'))
        # RFC 4271 8.2.2: whoever sends a NOTIFICATION releases the resources and goes to Idle
        for it in bucket:
            w = it.split(' ')
            if w[0] == 'send' and w[2] == 'NOTIFICATION' and w[-1] in CONNECTED and int(w[1]) in open_sent and int(w[1]) not in closed:
                bad.append(('notification-without-close', f'NOTIFICATION written on connection {w[1]} in {w[-1]} and the connection is not closed'))
    return bad


def cause_of(ev: list, state: str, hold: int) -> tuple[str, bool] | None:
    """(driver words of the Cause, must the session end?) for an event arriving in FSM `state`
    on the connection in use; None = no cause (the event is fine in that state)."""
    k = ev[0]
    if k == 'recv':
        kind = ev[2]
        if kind in FAULT_KINDS:
            return f'fault {kind}', True
        if kind in ('notification', 'notifBadLen'):
            return None  # the peer closes the session, well-formed or not (RFC 4271 6.4): no reply
        if kind == 'operational':
            return 'operational', False  # ignoring an unsupported message is tolerated, answering wrongly is not
        if state == 'OPENSENT':
            if kind in SEM_KINDS:
                return f'sem {kind}', True
            if kind in ('open', 'openLow'):
                return None
            return f'unexpected {kind}', True
        if state == 'OPENCONFIRM':
            return (None if kind == 'keepalive' else (f'unexpected {kind}', True))
        if state == 'ESTABLISHED':
            if kind in OPENISH:
                return f'unexpected {kind}', True
            return None
        return None
    if k == 'holdExpired' and hold and state in ('ESTABLISHED', 'OPENCONFIRM'):
        return 'holdTimer', state == 'ESTABLISHED'  # OPENCONFIRM: C12 (F18)
    if k == 'openwaitExpired' and state == 'OPENSENT':
        return 'openTimer', True
    return None


def oracle_c10(script: list[list], res: dict, cfg: dict, error_class: Any) -> list[tuple[str, str]]:
    """(rule, description) for every rule of C10 the observed trace breaks.

    Per bucket: which connection was in use and in which state when the event arrived (from the
    observed FSM changes and writes only), what ExaBGP then wrote on it, whether it closed it."""
    script = as_judged(script, cfg)
    bad: list[tuple[str, str]] = []
    c = dict(DEFAULT_CFG)
    c.update(cfg or {})
    hold = min(c['hold'], c['peer_hold'])
    state = 'IDLE'
    current = 0  # connection on which our OPEN was last written and which is not closed
    notified: set[int] = set()
    got_notification: set[int] = set()
    closed: set[int] = set()
    teardown_pending = False
    apierr = res.get('apierr') or [0] * len(script)
    for i, (ev, bucket) in enumerate(zip(script, res['buckets'])):
        st0, cur0 = state, current
        writes: list[tuple[int, str, str]] = []  # (conn, kind words, state label)
        closed_now: list[int] = []
        for it in bucket:
            w = it.split(' ')
            if w[0] == 'fsm':
                state = w[1].split('>')[1]
            elif w[0] == 'send':
                cid, kind = int(w[1]), ' '.join(w[2:-1])
                writes.append((cid, kind, w[-1]))
                if cid in notified:
                    bad.append(('after-notification', f'{kind} written on connection {cid} after a NOTIFICATION was written on it'))
                if cid in got_notification:
                    bad.append(('after-received-notification', f'{kind} written on connection {cid} after the peer sent a NOTIFICATION on it'))
                if kind.startswith('NOTIFICATION'):
                    notified.add(cid)
                    if w[-1] in ('IDLE', 'ACTIVE'):
                        bad.append(('notification-outside-session', f'{kind} written on connection {cid} in state {w[-1]}'))
                if kind == 'OPEN':
                    current = cid
            elif w[0] == 'close':
                closed.add(int(w[1]))
                closed_now.append(int(w[1]))
                if int(w[1]) == current:
                    current = 0
        if ev[0] in ('teardown', 'reestablish', 'stop'):
            teardown_pending = True
        elif cur0 and cur0 in closed_now and not cause_of(ev, st0, hold):
            teardown_pending = False
        # the remote's NOTIFICATION (well-formed or not) on the connection in use
        if ev[0] == 'recv' and ev[2] in ('notification', 'notifBadLen') and ev[1] == cur0 and st0 in CONNECTED[1:]:
            got_notification.add(ev[1])
            mine = [k for cid, k, _ in writes if cid == ev[1]]
            if mine:
                bad.append(('reply-to-notification', f'the peer sent a NOTIFICATION ({ev[2]}) and was answered with {mine}'))
            continue
        addressed = ev[0] != 'recv' or ev[1] == cur0
        cause = cause_of(ev, st0, hold) if (cur0 and addressed and st0 in CONNECTED[1:]) else None
        if cause is None:
            # a well-formed UPDATE on an ESTABLISHED session is no error of any class: whatever NOTIFICATION other than
            # a cease the API asked for is written in answer to it names an error that did not happen (e.g. 1/2 for a
            # 5000-octet UPDATE although Extended Message was negotiated)
            if ev[0] == 'recv' and ev[2] == 'update' and addressed and st0 == 'ESTABLISHED' and not (i < len(apierr) and apierr[i]):
                for cid, k, _ in writes:
                    if cid == cur0 and k.startswith('NOTIFICATION ') and not k.startswith('NOTIFICATION 6 '):
                        bad.append(('unprovoked-notification', f'a well-formed UPDATE in ESTABLISHED is answered with {k}'))
            continue
        words, must_end = cause
        if i < len(apierr) and apierr[i]:
            # the API process is gone and handing it what was just read raised ProcessError (before
            # the message was looked at): the session is ended by that local failure (`except ProcessError` of
            # Peer._run: reset, nothing written), not by what was received or by a timer, which
            # is what the property speaks about.  What was written is still checked above
            # (nothing after a NOTIFICATION, no reply to one, none outside a session).
            continue
        mine = [k for cid, k, _ in writes if cid == cur0 and not (k == 'KEEPALIVE' or (k in ('UPDATE', 'EOR', 'REFRESH') and ev[0] == 'holdExpired'))]
        ended = cur0 in closed_now
        if ended and teardown_pending:
            notifs = [k for k in mine if k.startswith('NOTIFICATION')]
            teardown_pending = False
            if not notifs or notifs[-1].startswith('NOTIFICATION 6 '):
                continue  # the API asked for this session to end (cease, or graceful restart: no NOTIFICATION): not this event's doing
        if not ended:
            if must_end and not (ev[0] == 'holdExpired' and st0 == 'OPENCONFIRM'):
                bad.append(('unanswered', f'{words} in {st0}: the session goes on, nothing is written'))
            continue
        allowed = error_class(words, st0)
        if not allowed:
            if mine:
                bad.append(('reply-to-notification', f'{words}: answered with {mine}'))
            continue
        if len(mine) != 1 or not mine[0].startswith('NOTIFICATION '):
            bad.append(('not-one-notification', f'{words} in {st0}: wrote {mine} before closing'))
            continue
        code, sub = mine[0].split(' ')[1:3]
        if f'{code}/{sub}' not in allowed:
            bad.append(('wrong-code', f'{words} in {st0}: NOTIFICATION {code}/{sub}, the RFC class is {" or ".join(allowed)}'))
    # what reached the wire, per connection: one NOTIFICATION at most, last
    for cid, kinds in res['rx'].items():
        n = [i for i, k in enumerate(kinds) if k.startswith('NOTIFICATION')]
        if len(n) > 1:
            bad.append(('two-notifications', f'connection {cid}: {len(n)} NOTIFICATIONs on the wire'))
        if n and n[0] != len(kinds) - 1:
            bad.append(('after-notification', f'connection {cid}: {kinds[n[0] + 1 :]} on the wire after the NOTIFICATION'))
    return bad


CREATORS = ('connectOk', 'incoming')
SIMPLER = {'openLow': 'open', 'openAs': 'open', 'openId0': 'open', 'openHold1': 'open', 'updMissing': 'update', 'updAsPath': 'update', 'refresh': 'update', 'tooLong': 'badLength', 'kaLen20': 'badLength', 'rrBadLen': 'badLength', 'openShort': 'badLength'}


def _retarget(orig: list[list], keep: list[int]) -> list[list]:
    """The events `keep` of `orig`, messages still addressed to "the k-th latest connection"."""
    made = 0
    rel: dict[int, int] = {}
    for i, ev in enumerate(orig):
        if ev[0] in ('recv', 'eof', 'sockError'):
            rel[i] = made - ev[1]
        if ev[0] in CREATORS:
            made += 1
    out = []
    made = 0
    for i in keep:
        ev = list(orig[i])
        if i in rel:
            ev[1] = max(1, made - rel[i])
        if ev[0] in CREATORS:
            made += 1
        out.append(ev)
    return out


def shrink_script(script: list[list], cfg: dict, still_bad: Any) -> tuple[list[list], dict]:
    """Smallest (script, configuration) on which `still_bad(script, cfg)` holds: configuration keys
    dropped, events removed by delta debugging (connection ids re-targeted), message kinds
    replaced by the plainest of their class."""
    for cand_cfg in ({}, {'routes': 1}):
        if cand_cfg != cfg and still_bad(script, cand_cfg):
            cfg = cand_cfg
            break
    else:
        for k in sorted(cfg):
            c2 = {x: v for x, v in cfg.items() if x != k}
            if still_bad(script, c2):
                cfg = c2
    cur = list(script)
    for _ in range(2):
        n = 2
        while len(cur) >= 2:
            chunk = max(1, len(cur) // n)
            reduced = False
            for i in range(0, len(cur), chunk):
                keep = [j for j in range(len(cur)) if not (i <= j < i + chunk)]
                for cand in (_retarget(cur, keep), [cur[j] for j in keep]):
                    if cand and still_bad(cand, cfg):
                        cur = cand
                        n = max(n - 1, 2)
                        reduced = True
                        break
                if reduced:
                    break
            if not reduced:
                if chunk == 1:
                    break
                n = min(n * 2, len(cur))
        for i, ev in enumerate(cur):
            if ev[0] == 'recv' and len(ev) > 3:
                cand = [list(e) for e in cur]
                cand[i] = cand[i][:3]
                if still_bad(cand, cfg):
                    cur = cand
                    ev = cur[i]
            if ev[0] == 'recv' and ev[2] in SIMPLER:
                cand = [list(e) for e in cur]
                cand[i][2] = SIMPLER[ev[2]]
                if still_bad(cand, cfg):
                    cur = cand
            if ev[0] == 'teardown' and ev[1] != 2:
                cand = [list(e) for e in cur]
                cand[i][1] = 2
                if still_bad(cand, cfg):
                    cur = cand
            if ev[0] == 'reestablish':
                cand = [list(e) for e in cur]
                cand[i] = ['teardown', 2]
                if still_bad(cand, cfg):
                    cur = cand
            if ev[0] == 'holdExpired':
                cand = [list(e) for e in cur]
                cand[i] = ['tick']
                if still_bad(cand, cfg):
                    cur = cand
    # the adopted-connection way into OPENSENT is the same state as the plain outgoing one
    for a, b in (([['incoming'], ['start']], [['start'], ['connectOk']]), ([['start'], ['incoming']], [['start'], ['connectOk']])):
        if cur[: len(a)] == a and 'passive' not in cfg:
            cand = b + cur[len(a) :]
            if still_bad(cand, cfg):
                cur = cand
    # requests which only set a flag commute with much: put each as early as the failure allows,
    # so that the canonical form does not depend on where the generator happened to place it
    for i in range(len(cur)):
        if cur[i][0] in ('queueRefresh', 'announce', 'teardown', 'reestablish'):
            for j in range(i):
                cand = cur[:j] + [cur[i]] + cur[j:i] + cur[i + 1 :]
                if still_bad(cand, cfg):
                    cur = cand
                    break
    return cur, cfg


def run_case(script: list[list], cfg: dict | None) -> dict:
    """Rig result reduced to what can cross a process boundary."""
    try:
        r = run_script(script, cfg)
    except RigError as e:
        return {'error': str(e)}
    except Exception as e:  # noqa: BLE001  (the rig must not take the check down)
        import traceback

        return {'error': f'{type(e).__name__}: {e}', 'tb': traceback.format_exc()[-1500:]}
    return {'buckets': r['buckets'], 'rx': r['rx'], 'tx': r['tx'], 'api': [a for _, a in r['api']], 'apierr': r['apierr'], 'sent': r['sent'], 'wire': [(round(t, 3), c, k, s) for t, c, k, s in r['wire']]}


# ---------------------------------------------------------------------------------------------
# the run of a property check (shared by C05 and C10)


def _worker(job: tuple[int, list[list], dict]) -> tuple[int, dict]:
    i, script, cfg = job
    return i, run_case(script, cfg)


def load_corpus(prop: str) -> list[tuple[list[list], dict, str]]:
    import json
    from harness import common

    d = common.VERIF / 'corpus' / prop
    out = []
    if d.exists():
        for f in sorted(d.glob('*.json')):
            c = json.loads(f.read_text())
            out.append((c['script'], c.get('cfg', {}), 'corpus/' + f.stem))
    return out


def signature(rule: str, what: str) -> tuple[str, str]:
    """Kind of failure: the rule and its description without connection numbers and FSM state."""
    import re

    w = re.sub(r'connection\(?s?\)? \[?\d+(, \d+)*\]?', 'connection', what)
    w = re.sub(r'\b(IDLE|ACTIVE|CONNECT|OPENSENT|OPENCONFIRM|ESTABLISHED)\b', 'STATE', w)
    w = re.sub(r'5/\d', '5/x', w)
    return rule, w


def canon_failure(rule: str, script: list[list], cfg: dict) -> dict:
    keep = {k: v for k, v in sorted(cfg.items()) if DEFAULT_CFG.get(k) != v and k != 'routes'}
    return {'rule': rule, 'script': script, 'cfg': keep}


def run_property(ctx: Any, prop: str, fault_weight: float) -> None:
    """Corpus, systematic scripts (every event at every stage), random scripts guided by the
    model; each run on the rig, compared bucket by bucket with drv_session, and judged by the
    property's own oracle on the observed trace."""
    import json
    from harness import common
    from harness.common import Disagreement, Failure

    rng = ctx.rng
    quick = ctx.tier == 'quick'
    n_random = 150 if quick else 5000
    maxlen = 12 if quick else 40
    ctx.rule = (
        'event scripts over the alphabet of M-Session (start, connectOk/Fail, incoming, recv of 26 message classes, eof, sockError, openwait/hold expiry, tick, teardown, reestablish, stop, '
        'queueRefresh, announce): every event at each of 10 stages of establishment and operation (+ configuration variants tcp.attempts 1/2, passive, graceful-restart, hold time 3/9/90/0), '
        f'plus {n_random} random scripts <= {maxlen} events guided by the model state; non-trivial = our OPEN reached the wire and at least one further event produced a reaction of the peer; '
        'distinct = distinct (script, configuration)'
    )
    # the specification tables come from the Lean side (hand-written RFC tables in Model/Session.lean)
    spec = common.Driver('drv_session') if ctx.driver_ok else None
    rfc_table: set = set()
    ec_cache: dict = {}
    if spec is not None:
        rfc_table = {tuple(x.split('>')) for x in spec.ask('session rfctable').split(',')}

    def error_class(words: str, state: str) -> list[str]:
        key = (words, state)
        if key not in ec_cache:
            if spec is None:
                return ['?']
            out = spec.ask(f'session errorclass {words} {state}')
            if out == 'bad-op':
                raise RigError(f'drv_session does not know the cause {words!r}')
            ec_cache[key] = [] if out == '-' else out.split(',')
        return ec_cache[key]

    cases: list[tuple[list[list], dict, str, list | None]] = []
    for script, cfg, origin in load_corpus('C05') + load_corpus('C10'):
        cases.append((script, cfg, origin, None))
    for script, cfg, origin in systematic_scripts():
        cases.append((script, cfg, 'systematic:' + origin, None))
    # configurations M-Session does not model (the order of the two OPENs is another one with `local-as auto`):
    # no step-by-step comparison; the observed trace is judged by the property's oracle and by the trace checker
    # of the model (`chkAll`, Lemmas/SessionTrace.lean: what an accepted trace satisfies is proved in
    # Lemmas/SessionCheck.lean) through `session chk`
    pick = rng.randrange(4)
    for k, (script, cfg, origin) in enumerate(systematic_scripts()):
        if not cfg or set(cfg) <= {'routes', 'hold', 'passive', 'extended'}:
            for j, extra in enumerate(({'local_as_auto': True}, {'peer_as_auto': True})):
                if quick and (k + j) % 4 != pick:
                    continue  # a quarter of them per quick run (which quarter: the seed), all of them in thorough
                cases.append((script, dict(cfg, **extra), 'outside-model:' + origin, 'outside'))
    # a reload that keeps the session parameters, at every stage (not an event of M-Session: oracle + trace checker)
    for stage in ('opensent', 'openconfirm', 'established-fresh', 'established', 'second-session'):
        prefix, c = STAGES[stage]
        for v in (0, 1, 2):
            for tail in ([['tick'], ['tick']], [['tick'], ['recv', c, 'keepalive'], ['tick'], ['eof', c]], [['recv', c, 'update'], ['tick'], ['teardown', 2], ['tick']]):
                for extra in ({'routes': 1}, {'routes': 1, 'api_changes': False}):
                    cases.append((prefix + [['reconfigure', v]] + tail + TAIL, dict(extra), f'outside-model:reconfigure/{stage}/{v}', 'outside'))
    if spec is not None:
        variants = [{}, {}, {'routes': 3}, {'routes': 3, 'hold': 9}, {'attempts': 1}, {'attempts': 3, 'routes': 1}, {'passive': True}, {'graceful': True, 'routes': 1}, {'hold': 3, 'routes': 1}, {'hold': 0}, {'hold': 180, 'peer_hold': 90}, {'api_forward': True}, {'api_forward': True, 'routes': 1}, {'api_changes': False}, {'api_changes': False, 'api_forward': True}]
        for i in range(n_random):
            cfg = dict(rng.choice(variants))
            script, model_b = random_script(rng, spec, maxlen, fault_weight, cfg)
            cases.append((script, cfg, 'random', model_b))

    # implementation side: in-process (quick) or over 16 processes (thorough)
    jobs = [(i, c[0], c[1]) for i, c in enumerate(cases)]
    results: dict[int, dict] = {}
    t0 = _realtime.time()
    if quick:
        for job in jobs:
            if ctx.time_left() < 15:
                ctx.notes.append(f'budget reached after {len(results)} of {len(jobs)} scripts')
                break
            i, r = _worker(job)
            results[i] = r
    else:
        import multiprocessing as mp

        with mp.get_context('fork').Pool(16) as pool:
            for i, r in pool.imap_unordered(_worker, jobs, chunksize=8):
                results[i] = r
                if ctx.time_left() < 60:
                    ctx.notes.append(f'budget reached after {len(results)} of {len(jobs)} scripts')
                    pool.terminate()
                    break
    ctx.extra['rig_seconds'] = round(_realtime.time() - t0, 2)
    ctx.extra['scripts_per_second'] = round(len(results) / max(_realtime.time() - t0, 0.001), 1)

    # model side for the cases which do not carry their model output yet
    need = [i for i in sorted(results) if cases[i][3] is None]
    model_out: dict[int, list] = {}
    if ctx.driver_ok and need:
        for i, b in zip(need, run_model_batch([(cases[i][0], cases[i][1]) for i in need])):
            model_out[i] = b

    seen: set = set()
    pending: dict = {}
    oracle = oracle_c05 if prop == 'C05' else oracle_c10
    TRACE_ITEMS = ('fsm', 'send', 'close', 'up', 'down', 'reject')

    def monitor(res: dict) -> list[tuple[str, str]]:
        """The observed trace through the trace checker of the model (`session chk`, strict)."""
        kept = [it for b in res['buckets'] for it in b if it.split(' ')[0] in TRACE_ITEMS]
        if spec is None or not kept:
            return []
        verdict = spec.ask('session chk 1 ' + ';'.join(kept))
        ctx.count('outside-model:' + verdict.split(' ')[0])
        if verdict == 'accepted':
            return []
        if not verdict.startswith('refused'):
            raise RigError(f'session chk: {verdict} on {kept}')
        k = int(verdict.split(' ')[1])
        return [('trace-checker', f'the trace checker of M-Session refuses "{kept[k]}" after {kept[max(0, k - 3):k]}')]
    for i in sorted(results):
        script, cfg, origin, model_b = cases[i]
        res = results[i]
        ctx.evaluations += 1
        ctx.count('origin:' + origin.split(':')[0].split('/')[0])
        ctx.count('len:%02d-%02d' % (len(script) // 10 * 10, len(script) // 10 * 10 + 9))
        for ev in script:
            ctx.count('ev:' + ev[0] + (':' + ev[2] if ev[0] == 'recv' else ''))
        for k, v in sorted(cfg.items()):
            ctx.count(f'cfg:{k}={v}')
        if 'error' in res:
            ctx.count('rig-error')
            ctx.disagreements.append(Disagreement('session-rig', {'script': script, 'cfg': cfg}, None, res['error']))
            continue
        flat = [it for b in res['buckets'] for it in b]
        for it in flat:
            w = it.split(' ')
            ctx.count('out:' + (w[0] if w[0] != 'send' else 'send ' + ' '.join(w[2:-1])) + ('' if w[0] != 'fsm' else ' ' + w[1]))
        reacted = sum(1 for b in res['buckets'] if b)
        if any(' OPEN ' in it for it in flat) and reacted >= 3:
            ctx.nontrivial([script, sorted(cfg.items())])
        ctx.sample({'origin': origin, 'cfg': cfg, 'script': script, 'observed': res['buckets']}, cap=3)
        mb = model_b if model_b is not None else model_out.get(i)
        if mb == 'outside':
            mb = None
            ctx.count('outside-model')
            for rule, what in monitor(res):
                ctx.count('oracle-fail:' + rule)
                pending.setdefault(signature(rule, what), []).append((script, cfg, what))
        if mb is not None:
            d = first_difference(script, res['buckets'], mb)
            if d is not None:
                ctx.count('disagreement')
                k, a, b = d
                if len(ctx.disagreements) < 20:
                    ctx.disagreements.append(Disagreement('session', {'script': script[: k + 1], 'cfg': cfg, 'origin': origin}, b, a))
        for rule, what in (oracle(script, res, rfc_table, cfg) if prop == 'C05' else oracle(script, res, cfg, error_class)):
            ctx.count('oracle-fail:' + rule)
            pending.setdefault(signature(rule, what), []).append((script, cfg, what))

    def judge(cand: list[list], ccfg: dict) -> list[tuple[str, str]]:
        r = run_case(cand, ccfg)
        if 'error' in r:
            return []
        found = oracle(cand, r, rfc_table, ccfg) if prop == 'C05' else oracle(cand, r, ccfg, error_class)
        if ccfg.get('local_as_auto') or ccfg.get('peer_as_auto') or any(e[0] == 'reconfigure' for e in cand):
            found = found + monitor(r)
        return found

    # one canonical (shrunk) case per kind of failure: the two shortest scripts of each kind are
    # shrunk, the smaller result is reported
    for sig in sorted(pending):
        rule = sig[0]
        best = None
        for script, cfg, what in sorted(pending[sig], key=lambda x: (len(x[0]), json.dumps(x[0])))[: 2 if quick else 1]:
            small, scfg = shrink_script(script, cfg, lambda c, k, rule=rule: any(x[0] == rule for x in judge(c, k)))
            desc = next((x[1] for x in judge(small, scfg) if x[0] == rule), what)
            rank = (len(scfg), len(small), sum(1 for e in small if e[0] == 'incoming'), json.dumps(small))
            if best is None or rank < best[0]:
                best = (rank, small, scfg, desc)
        assert best is not None
        _, small, scfg, desc = best
        canon = canon_failure(rule, small, scfg)
        key = json.dumps(canon, sort_keys=True)
        if key in seen:
            continue
        seen.add(key)
        ctx.failures.append(Failure('session-script', canon, {'script': small, 'cfg': scfg}, desc))
    if spec is not None:
        spec.close()


def replay_file(path: str, prop: str) -> int:
    import json
    from harness import common

    data = json.loads(open(path).read())
    rp = data['replay'] if 'replay' in data else data
    script, cfg = rp['script'], rp.get('cfg', {})
    res = run_case(script, cfg)
    spec = common.Driver('drv_session')
    rfc_table = {tuple(x.split('>')) for x in spec.ask('session rfctable').split(',')}

    def error_class(words: str, state: str) -> list[str]:
        out = spec.ask(f'session errorclass {words} {state}')
        return [] if out == '-' else out.split(',')

    print('cfg   :', cfg)
    if 'error' in res:
        print('rig error:', res['error'])
        return 2
    for ev, b in zip(script, res['buckets']):
        print('  ', ev, '->', b)
    found = oracle_c05(script, res, rfc_table, cfg) if prop == 'C05' else oracle_c10(script, res, cfg, error_class)
    for rule, what in found:
        print('FAILS', rule, ':', what)
    if cfg.get('local_as_auto') or cfg.get('peer_as_auto') or any(e[0] == 'reconfigure' for e in script):
        # outside M-Session: the observed trace through the model's trace checker instead of a step-by-step comparison
        kept = [it for b in res['buckets'] for it in b if it.split(' ')[0] in ('fsm', 'send', 'close', 'up', 'down', 'reject')]
        verdict = spec.ask('session chk 1 ' + ';'.join(kept)) if kept else 'accepted'
        print('trace checker:', verdict, '' if verdict == 'accepted' else f'({kept[int(verdict.split(" ")[1])]})')
        if verdict != 'accepted':
            found = found + [('trace-checker', verdict)]
    else:
        model = run_model_batch([(script, cfg)])[0]
        d = first_difference(script, res['buckets'], model)
        print('model agrees' if d is None else f'model differs at event {d[0]}: impl {d[1]} model {d[2]}')
    spec.close()
    print('holds :', not found)
    return 0 if not found else 1


# ---------------------------------------------------------------------------------------------
# reusable scenarios (for C12 part b and C11 end to end)


def split_messages(raw: bytes) -> list[bytes]:
    out = []
    i = 0
    while i + 19 <= len(raw):
        n = struct.unpack('!H', raw[i + 16 : i + 18])[0]
        if n < 19:
            break
        out.append(raw[i : i + n])
        i += n
    return out


def run_hold_scenario(hold_time: int, arrivals_ms: list[int], until_ms: int | None = None, stage: str = 'established', peer_hold: int | None = None, routes: int = 0, arrival_kind: str = 'keepalive', api_events: list | None = None, cfg_extra: dict | None = None) -> dict:
    """Hold / keepalive timers on the real Peer under virtual time.

    A session is established with our hold time `hold_time` and the peer's `peer_hold` (default the
    same; negotiated = min).  From the moment ESTABLISHED is reached (`stage='established'`; with
    `stage='openconfirm'` only the peer's OPEN is sent, which is the F18 scenario: then silence in
    OPENCONFIRM) the remote writes one message of `arrival_kind` at each of `arrivals_ms` (virtual
    milliseconds after that moment) and is silent otherwise, until `until_ms` (default: last arrival
    + negotiated hold time + 5 s).  `api_events`: [(ms, event)] — what the API process asks for meanwhile
    (`['queueRefresh']`, `['announce', k]`), performed at that virtual time; `cfg_extra`: other settings of the
    rig's neighbor (`{'refresh': False}`: route-refresh capability not configured).

    Returns {'t0': virtual seconds at which the stage was reached, 'negotiated': hold time,
    'wrote': [(ms after t0, 'KEEPALIVE' | 'NOTIFICATION c s' | ..., fsm state)] for every message
    ExaBGP wrote after t0, 'closed_ms': ms at which it closed the connection or None,
    'fsm': final FSM state, 'fsm_changes': [(ms, 'A>B')]}."""
    ph = hold_time if peer_hold is None else peer_hold
    rig = SessionRig(dict(cfg_extra or {}, hold=hold_time, peer_hold=ph, routes=routes))
    negotiated = min(hold_time, ph)
    if until_ms is None:
        until_ms = (max(arrivals_ms) if arrivals_ms else 0) + (negotiated + 5) * 1000
    timeline = sorted([(ms, 0, None) for ms in arrivals_ms] + [(ms, 1, ev) for ms, ev in (api_events or [])], key=lambda x: (x[0], x[1]))
    changes: list[tuple[float, str]] = []
    orig_emit = rig.emit

    def emit(item: str) -> None:
        if item.startswith('fsm '):
            changes.append((rig.loop.time(), item[4:]))
        orig_emit(item)

    rig.emit = emit  # type: ignore[method-assign]
    out: dict = {}

    async def scenario() -> None:
        rig.task = rig.loop.create_task(rig.peer.run())
        for ev in [['start'], ['connectOk'], ['recv', 1, 'open']] + ([['recv', 1, 'keepalive']] if stage == 'established' else []):
            await rig.event(ev)
        t0 = rig.loop.time()
        out['t0'] = t0 - rig.t0
        mark = len(rig.wire)
        cmark = len(changes)
        for ms, is_api, ev in timeline:
            dt = t0 + ms / 1000.0 - rig.loop.time()
            if dt > 0:
                await asyncio.sleep(dt)
            if is_api:
                await rig.event(list(ev))
                continue
            if rig.remote_open.get(1):
                try:
                    rig.remote_socks[1].sendall(rig.remote.bytes_of(arrival_kind))
                except OSError:
                    pass
            await asyncio.sleep(0)
        dt = t0 + until_ms / 1000.0 - rig.loop.time()
        if dt > 0:
            await asyncio.sleep(dt)
        rig.drain()
        out['wrote'] = [(round((rig.t0 + t - t0) * 1000, 1), k, st) for t, c, k, st in rig.wire[mark:]]
        out['closed_ms'] = round((rig.closed_at[1] - t0) * 1000, 1) if 1 in rig.closed_at else None
        out['fsm'] = rig.peer.fsm.state.name
        out['fsm_changes'] = [(round((t - t0) * 1000, 1), c) for t, c in changes[cmark:]]

    global CUR
    if CUR is not None:
        raise RigError('one rig at a time')
    CUR = rig
    asyncio.set_event_loop(rig.loop)
    try:
        rig.loop.run_until_complete(scenario())
    finally:
        rig._cleanup()
        CUR = None
    out['negotiated'] = negotiated
    return out


def run_flap_scenario(routes_text: list[str], cut_after_n_messages: int, ops_while_down: list[list], adj_rib_out: bool = True, max_ticks: int = 400, neighbor_opts: dict | None = None, peer_families: list | None = None, refresh: list | None = None) -> dict:
    """Session loss and resynchronisation on the real Peer (C11 end to end).

    `routes_text`: configured routes (text grammar, e.g. 'route 10.0.0.0/24 next-hop 192.0.2.1 med 1').
    The first session is established and its main loop runs one iteration at a time; as soon as
    the remote has received `cut_after_n_messages` UPDATE / End-of-RIB messages (0 = right after
    ESTABLISHED) it resets the connection.  `ops_while_down`: [['announce', text] | ['withdraw', text]
    | ['flush']] applied to the Adj-RIB-Out as the API does, while the session is down.  Then a
    second session is established and run until nothing is pending.

    Returns {'first': [(kind, hex)], 'second': [(kind, hex)]}: every message the remote received in
    each session after our OPEN + KEEPALIVE (kind as `classify`: UPDATE, EOR, ...), in order."""
    rig = SessionRig({'routes': 0, 'hold': 180})
    # `peer_families`: [families of the peer's OPEN on the first connection, on the second] (None: all we configure) —
    # an operator enabling a family on the router between two sessions
    for cid, fams in enumerate(peer_families or [], start=1):
        if fams:
            rig.remotes[cid] = Remote(180, fams)
    n = rig.neighbor
    n.rib.outgoing.cache = adj_rib_out
    for k, v in (neighbor_opts or {}).items():  # rarely used settings of the neighbor: rate_limit (one route per loop iteration), group_updates
        if not hasattr(n, k):
            raise RigError(f'the neighbor has no setting {k}')
        setattr(n, k, v)
    routes = [n.resolve_self(rig.cfg_obj.parse_route_text(t)[0]) for t in routes_text]
    n.routes = list(routes)
    for r in routes:
        n.rib.outgoing.add_to_rib(r)
    by_text: dict[str, Any] = dict(zip(routes_text, routes))
    out: dict = {}

    def data(cid: int) -> list[tuple[str, str]]:
        msgs = split_messages(rig.rx.get(cid, b''))
        res = [(classify(m)[0], m.hex()) for m in msgs]
        return [x for x in res if x[0] not in ('OPEN', 'KEEPALIVE')]

    async def scenario() -> None:
        rig.task = rig.loop.create_task(rig.peer.run())
        for ev in [['start'], ['connectOk'], ['recv', 1, 'open'], ['recv', 1, 'keepalive']]:
            await rig.event(ev)
        for _ in range(max_ticks):
            if len(data(1)) >= cut_after_n_messages:
                break
            await rig.event(['tick'])
        await rig.event(['sockError', 1])
        out['first'] = data(1)
        for op in ops_while_down:
            if op[0] == 'announce':
                if op[1] not in by_text:
                    by_text[op[1]] = n.resolve_self(rig.cfg_obj.parse_route_text(op[1])[0])
                n.rib.outgoing.add_to_rib(by_text[op[1]], True)
            elif op[0] == 'withdraw':
                if op[1] not in by_text:
                    by_text[op[1]] = n.resolve_self(rig.cfg_obj.parse_route_text(op[1])[0])
                n.rib.outgoing.del_from_rib(by_text[op[1]])
            elif op[0] == 'flush':
                n.rib.outgoing.resend(False, None)
            else:
                raise RigError(f'unknown operation {op}')
        for ev in [['start'], ['connectOk'], ['recv', 2, 'open'], ['recv', 2, 'keepalive']]:
            await rig.event(ev)
        quiet = 0
        asked = False
        for _ in range(max_ticks):
            before = len(rig.rx.get(2, b''))
            if refresh and not asked and len(data(2)) >= refresh[0]:
                # `refresh`: [n, variant] — the peer asks for one family again (ROUTE-REFRESH) once it has
                # received n messages of the resynchronisation
                asked = True
                await rig.event(['recv', 2, 'refresh', refresh[1]])
            await rig.event(['tick'])
            quiet = quiet + 1 if len(rig.rx.get(2, b'')) == before else 0
            if quiet >= 3:
                break
        out['second'] = data(2)
        out['fsm'] = rig.peer.fsm.state.name

    global CUR
    if CUR is not None:
        raise RigError('one rig at a time')
    CUR = rig
    asyncio.set_event_loop(rig.loop)
    try:
        rig.loop.run_until_complete(scenario())
    finally:
        rig._cleanup()
        CUR = None
    return out
