"""The session rig: the REAL `Peer.run()` coroutine of /repo driven over real sockets by a scripted
remote speaker under a virtual clock.  No source hook: transport (`Protocol.connect` adopts one
end of a socketpair; incoming connections are real TCP loopback pairs handed to
`Peer.handle_connection`), clock (the `time` name of the timer / peer / delay modules and the
event loop's `time()`) and API processes (`MagicMock` reactor) are substituted from outside, and
`FSM.change`, `Connection.close`, `Connection.writer_async`, `Protocol.read_message`,
`Peer._run/_main/_read_open` are wrapped from outside to observe.

A *script* is a list of events of M-Session's alphabet (see `lean/ExaModel/Model/Session.lean`):

    ['start']                    the restart loop of Peer.run() calls _run() (back-off elapsed)
    ['connectOk'] ['connectFail']  the pending Protocol.connect() completes
    ['incoming']                 a new TCP connection from the peer is handed to handle_connection
    ['recv', c, kind]            the remote writes one message of class `kind` on connection c
    ['eof', c]                   the remote half-closes connection c (it still reads)
    ['sockError', c]             the remote resets / fully closes connection c
    ['openwaitExpired']          virtual time passes until the wait for the OPEN times out
    ['holdExpired']              virtual time passes (remote silent) for hold time + 3 s
    ['tick']                     one iteration of the main loop with no message (0.1 s read timeout)
    ['teardown', code] ['reestablish'] ['stop']     API / reactor requests
    ['queueRefresh'] ['announce', k]                API: route-refresh request, k new routes

After every event the loop is stepped until the peer coroutine is blocked at a point only a new
event can move (pending connect, pending read with nothing readable, restart loop, passive wait);
what the peer did meanwhile is the event's *bucket*: `fsm A>B`, `send c KIND [code sub] STATE`,
`close c`, `up`, `down`, `reject c`.  Connection ids are 1, 2, ... in order of creation.

Also here, for the lead: `run_hold_scenario` (C12 b) and `run_flap_scenario` (C11 end-to-end).
"""

from __future__ import annotations

import asyncio
import heapq
import os
import select
import selectors
import socket
import struct
import time as _realtime
from typing import Any
from unittest.mock import MagicMock

from exabgp.bgp.fsm import FSM
from exabgp.bgp.message.direction import Direction
from exabgp.bgp.message.open.capability.negotiated import Negotiated
from exabgp.bgp.message.open.routerid import RouterID
from exabgp.protocol.family import AFI
from exabgp.reactor.network.connection import Connection
from exabgp.reactor.network.incoming import Incoming
from exabgp.reactor.network.outgoing import Outgoing
from exabgp.reactor.peer.peer import Peer
from exabgp.reactor.protocol import Protocol

from harness import sessions

MARKER = b'\xff' * 16
LOCAL_ID = '1.1.1.1'
ID_HIGH = '2.2.2.2'
ID_LOW = '0.0.0.9'


class RigError(Exception):
    """The rig itself could not do what the script asked (not a verdict)."""


# ---------------------------------------------------------------------------------------------
# virtual time


class VirtualLoop(asyncio.SelectorEventLoop):
    """Time only moves when nothing is runnable and no socket is ready: it then jumps to the next timer."""

    def __init__(self) -> None:
        super().__init__(selectors.DefaultSelector())
        self._vnow = 1_000_000.0

    def time(self) -> float:
        return self._vnow

    def _run_once(self) -> None:
        while self._scheduled and self._scheduled[0]._cancelled:
            h = heapq.heappop(self._scheduled)
            h._scheduled = False
            self._timer_cancelled_count = max(0, self._timer_cancelled_count - 1)
        if not self._ready and self._scheduled:
            events = self._selector.select(0)
            if events:
                self._process_events(events)
            elif self._scheduled[0]._when > self._vnow:
                self._vnow = self._scheduled[0]._when
        super()._run_once()


class _Clock:
    """Stands for the `time` module inside exabgp.bgp.timer / reactor.peer.peer / reactor.delay."""

    def time(self) -> float:
        return _clock_loop.time() if _clock_loop is not None else _realtime.time()

    def __getattr__(self, k: str) -> Any:
        return getattr(_realtime, k)


CUR: 'SessionRig | None' = None
_clock_loop: 'VirtualLoop | None' = None  # the loop whose virtual time the patched `time` name reads
_installed = False
_orig: dict[str, Any] = {}


def install() -> None:
    """Process-wide wrappers (idempotent). They only act while a rig is current."""
    global _installed
    if _installed:
        return
    _installed = True
    import exabgp.bgp.timer
    import exabgp.reactor.delay
    import exabgp.reactor.peer.peer

    clock = _Clock()
    for m in (exabgp.bgp.timer, exabgp.reactor.peer.peer, exabgp.reactor.delay):
        m.time = clock  # type: ignore[attr-defined]

    _orig['change'] = FSM.change
    _orig['close'] = Connection.close
    _orig['writer'] = Connection.writer_async
    _orig['connect'] = Protocol.connect
    _orig['read_message'] = Protocol.read_message
    _orig['_run'] = Peer._run
    _orig['_main'] = Peer._main
    _orig['_read_open'] = Peer._read_open

    def change(self: FSM, state: Any) -> FSM:
        rig = CUR
        if rig is not None and self.peer is rig.peer:
            rig.emit(f'fsm {self.state.name}>{state.name}')
        return _orig['change'](self, state)

    def close(self: Connection) -> None:
        rig = CUR
        io = self.io
        if rig is None or io is None:
            return _orig['close'](self)
        fd = io.fileno()
        cid = getattr(self, '_rig_id', None)
        _orig['close'](self)
        if cid is not None:
            rig.emit(f'close {cid}')
            rig.closed_at[cid] = rig.loop.time()
        # keep the descriptor number busy: a read left pending on this connection (stale await)
        # must not see another socket under the same number
        if fd >= 0:
            try:
                os.dup2(rig.devnull, fd)
                rig.pinned.append(fd)
            except OSError:
                pass

    async def writer(self: Connection, data: Any) -> None:
        rig = CUR
        if rig is not None:
            cid = getattr(self, '_rig_id', None)
            if cid is not None and self.io is not None:
                rig.wrote(cid, bytes(data))
        return await _orig['writer'](self, data)

    async def connect(self: Protocol) -> bool:
        rig = CUR
        if rig is None:
            return await _orig['connect'](self)
        if self.connection:
            return True
        fut = rig.loop.create_future()
        rig.connect_fut = fut
        try:
            ok = await fut
        finally:
            rig.connect_fut = None
        if not ok:
            return False
        conn = Outgoing(AFI.ipv4, '127.0.0.1', '127.0.0.1', 179)
        conn.io = rig.new_pair(conn)
        self.connection = conn
        if self._api['neighbor-changes']:
            self.peer.reactor.processes.connected(self.peer.neighbor)
        return True

    async def read_message(self: Protocol) -> Any:
        rig = CUR
        if rig is None or self.peer is not rig.peer:
            return await _orig['read_message'](self)
        rig.read_calls += 1
        rig.reading = self.connection
        try:
            return await _orig['read_message'](self)
        finally:
            rig.reading = None

    async def _run(self: Peer) -> None:
        rig = CUR
        if rig is None or self is not rig.peer:
            return await _orig['_run'](self)
        rig.in_run = True
        rig.run_starts += 1
        try:
            return await _orig['_run'](self)
        finally:
            rig.in_run = False
            rig.in_main = False

    async def _main(self: Peer) -> int:
        rig = CUR
        if rig is not None and self is rig.peer:
            rig.in_main = True
        try:
            return await _orig['_main'](self)
        finally:
            if rig is not None:
                rig.in_main = False

    async def _read_open(self: Peer) -> Any:
        rig = CUR
        if rig is not None and self is rig.peer:
            rig.in_read_open = True
        try:
            return await _orig['_read_open'](self)
        finally:
            if rig is not None:
                rig.in_read_open = False

    FSM.change = change  # type: ignore[method-assign]
    Connection.close = close  # type: ignore[method-assign]
    Connection.writer_async = writer  # type: ignore[method-assign]
    Protocol.connect = connect  # type: ignore[method-assign]
    Protocol.read_message = read_message  # type: ignore[method-assign]
    Peer._run = _run  # type: ignore[method-assign]
    Peer._main = _main  # type: ignore[method-assign]
    Peer._read_open = _read_open  # type: ignore[method-assign]


# ---------------------------------------------------------------------------------------------
# messages the remote speaker can send


def frame(kind: int, body: bytes, length: int | None = None, marker: bytes = MARKER) -> bytes:
    n = 19 + len(body) if length is None else length
    return marker + struct.pack('!H', n) + bytes([kind]) + body


def _attr(flag: int, code: int, value: bytes) -> bytes:
    return bytes([flag, code, len(value)]) + value


def update_body(attrs: bytes, nlri: bytes = b'', withdrawn: bytes = b'') -> bytes:
    return struct.pack('!H', len(withdrawn)) + withdrawn + struct.pack('!H', len(attrs)) + attrs + nlri


ORIGIN = _attr(0x40, 1, b'\x00')
ASPATH = _attr(0x40, 2, b'\x02\x01' + struct.pack('!I', 65001))  # ASN4 session
NEXTHOP = _attr(0x40, 3, bytes([192, 0, 2, 1]))
NLRI = bytes([24, 10, 9, 9])

KINDS = [
    # valid
    'open',  # valid OPEN, router id above ours
    'openLow',  # valid OPEN, router id below ours
    'keepalive',
    'update',
    'notification',
    'refresh',
    'operational',
    # header faults
    'badMarker',
    'badLength',  # header length 18
    'tooLong',  # header length above the negotiated maximum
    'unknownType',
    'kaLen20',
    'rrBadLen',
    'notifBadLen',  # NOTIFICATION of length 20 (F32)
    'openShort',  # OPEN shorter than the 29 octets of its fixed part
    # OPEN faults
    'openVersion',
    'openAs',
    'openId0',
    'openHold1',
    'openOptParam',
    # UPDATE faults
    'updAttrLen',  # total path attribute length beyond the message (3/1)
    'updNlri',  # NLRI with prefix length 33 (3/10)
    'updMissing',  # well-known mandatory attribute missing (RFC 7606: treat-as-withdraw, session continues)
    'updAsPath',  # malformed AS_PATH (RFC 7606: treat-as-withdraw, session continues)
]


class Remote:
    """Bytes of every message class, built from a mirrored neighbor (real OPEN through the real encoder)."""

    def __init__(self, peer_hold: int = 180) -> None:
        _, pn = sessions.make_config(local_as=65001, peer_as=65000, local_address='127.0.0.1', peer_address='127.0.0.1')
        pn.session.router_id = RouterID(ID_HIGH)
        pn.hold_time = type(pn.hold_time)(peer_hold)
        self.pn = pn
        self.neg = Negotiated.make_negotiated(pn, Direction.OUT)
        self.open_hi = bytes(sessions.open_of(pn, ID_HIGH).pack_message(self.neg))
        self.open_lo = bytes(sessions.open_of(pn, ID_LOW).pack_message(self.neg))

    def _open_patch(self, off: int, val: bytes) -> bytes:
        b = bytearray(self.open_hi)
        b[19 + off : 19 + off + len(val)] = val
        return bytes(b)

    def bytes_of(self, kind: str) -> bytes:
        if kind == 'open':
            return self.open_hi
        if kind == 'openLow':
            return self.open_lo
        if kind == 'keepalive':
            return frame(4, b'')
        if kind == 'update':
            return frame(2, update_body(ORIGIN + ASPATH + NEXTHOP, NLRI))
        if kind == 'notification':
            return frame(3, bytes([6, 2]))
        if kind == 'refresh':
            return frame(5, bytes([0, 1, 0, 1]))
        if kind == 'operational':
            return frame(6, bytes([0, 1, 0, 4, 0, 1, 1, 0]))
        if kind == 'badMarker':
            return frame(4, b'', marker=b'\xff' * 15 + b'\x00')
        if kind == 'badLength':
            return frame(4, b'', length=18)
        if kind == 'tooLong':
            return frame(2, b'', length=4097)
        if kind == 'unknownType':
            return frame(9, b'')
        if kind == 'kaLen20':
            return frame(4, b'\x00')
        if kind == 'rrBadLen':
            return frame(5, bytes([0, 1, 0, 1, 0]))
        if kind == 'notifBadLen':
            return frame(3, bytes([6]))
        if kind == 'openShort':
            return frame(1, self.open_hi[19:28])
        if kind == 'openVersion':
            return self._open_patch(0, b'\x03')
        if kind == 'openAs':
            # 2-octet field AND the ASN4 capability must both change for the AS to be "wrong"
            return self._open_as(65009)
        if kind == 'openId0':
            return self._open_patch(5, bytes(4))
        if kind == 'openHold1':
            return self._open_patch(3, struct.pack('!H', 1))
        if kind == 'openOptParam':
            # one optional parameter of an unassigned type (not a capability)
            fixed = self.open_hi[19:28]
            param = bytes([9, 2, 0, 0])
            return frame(1, fixed + bytes([len(param)]) + param)
        if kind == 'updAttrLen':
            return frame(2, struct.pack('!H', 0) + struct.pack('!H', 50) + ORIGIN)
        if kind == 'updNlri':
            return frame(2, update_body(ORIGIN + ASPATH + NEXTHOP, bytes([33, 10, 0, 0, 0, 0])))
        if kind == 'updMissing':
            return frame(2, update_body(ORIGIN + ASPATH, NLRI))  # NEXT_HOP missing
        if kind == 'updAsPath':
            bad = _attr(0x40, 2, b'\x02\x05' + struct.pack('!I', 65001))  # segment announces 5 ASNs, carries 1
            return frame(2, update_body(ORIGIN + bad + NEXTHOP, NLRI))
        raise RigError(f'unknown message kind {kind}')

    def _open_as(self, asn: int) -> bytes:
        from exabgp.bgp.message.open.asn import ASN

        _, pn = sessions.make_config(local_as=asn, peer_as=65000, local_address='127.0.0.1', peer_address='127.0.0.1')
        pn.session.router_id = RouterID(ID_HIGH)
        return bytes(sessions.open_of(pn, ID_HIGH).pack_message(Negotiated.make_negotiated(pn, Direction.OUT)))


def classify(raw: bytes) -> list[str]:
    """Every message in a byte string ExaBGP wrote, as `KIND [code sub]`."""
    out = []
    i = 0
    while i < len(raw):
        if len(raw) - i < 19 or raw[i : i + 16] != MARKER:
            out.append('GARBAGE')
            break
        n = struct.unpack('!H', raw[i + 16 : i + 18])[0]
        t = raw[i + 18]
        body = raw[i + 19 : i + n]
        if n < 19 or i + n > len(raw):
            out.append('TRUNCATED')
            break
        if t == 1:
            out.append('OPEN')
        elif t == 2:
            if body == b'\x00\x00\x00\x00':
                out.append('EOR')
            elif len(body) == 11 and body[:4] == b'\x00\x00\x00\x07' and body[4:8] == b'\x90\x0f\x00\x03':
                out.append('EOR')
            elif len(body) == 10 and body[:4] == b'\x00\x00\x00\x06' and body[4:7] == b'\x80\x0f\x03':
                out.append('EOR')
            else:
                out.append('UPDATE')
        elif t == 3:
            out.append(f'NOTIFICATION {body[0]} {body[1]}' if len(body) >= 2 else 'NOTIFICATION ? ?')
        elif t == 4:
            out.append('KEEPALIVE')
        elif t == 5:
            out.append('REFRESH')
        elif t == 6:
            out.append('OPERATIONAL')
        else:
            out.append(f'TYPE{t}')
        i += n
    return out


# ---------------------------------------------------------------------------------------------
# the rig


DEFAULT_CFG = {
    'hold': 180,  # our configured hold time
    'peer_hold': 180,  # the hold time in the peer's OPEN (negotiated = min)
    'passive': False,
    'attempts': 0,  # tcp.attempts (0 = unlimited)
    'routes': 0,  # configured routes (one UPDATE each)
    'parse': True,  # received UPDATEs are decoded (api receive-update parsed)
    'graceful': False,  # graceful-restart capability
    'refresh': True,  # route-refresh capability configured (outgoing ROUTE-REFRESH allowed)
    'extended': False,  # extended-message capability (False: maximum message size stays 4096)
}


class SessionRig:
    def __init__(self, cfg: dict | None = None) -> None:
        install()
        self.cfg = dict(DEFAULT_CFG)
        self.cfg.update(cfg or {})
        global _clock_loop
        self.loop = VirtualLoop()
        _clock_loop = self.loop  # before the Peer is built: Delay() and Stats read the clock in __init__
        self.t0 = self.loop.time()
        self.devnull = os.open(os.devnull, os.O_RDONLY)
        self.pinned: list[int] = []
        self.bucket: list[str] = []
        self.connect_fut: asyncio.Future | None = None
        self.reading: Any = None
        self.read_calls = 0
        self.run_starts = 0
        self.in_run = False
        self.in_main = False
        self.in_read_open = False
        self.nconn = 0
        self.remote_socks: dict[int, socket.socket] = {}
        self.remote_open: dict[int, bool] = {}
        self.listeners: list[socket.socket] = []
        self.rx: dict[int, bytes] = {}  # what the remote actually received, per connection
        self.tx: dict[int, bytes] = {}  # what ExaBGP handed to writer_async, per connection
        self.wire: list[tuple[float, int, str, str]] = []  # (virtual time, conn, classification, fsm state)
        self.closed_at: dict[int, float] = {}
        self.api: list[tuple[float, str]] = []
        self.task: asyncio.Task | None = None
        self.remote = Remote(self.cfg['peer_hold'])
        self._env_saved: dict = {}
        self._build_peer()

    # -- construction ---------------------------------------------------------------------------

    def _build_peer(self) -> None:
        from exabgp.configuration.neighbor.api import ParseAPI
        from exabgp.environment import getenv
        from exabgp.bgp.message.update.attribute.collection import AttributeCollection

        AttributeCollection.cached = None
        AttributeCollection.previous = b''
        env = getenv()
        self._env_saved = {'attempts': env.tcp.attempts, 'passive': env.bgp.passive}
        env.tcp.attempts = int(self.cfg['attempts'])
        env.bgp.passive = bool(self.cfg['passive'])
        self.cfg_obj, n = sessions.make_config(local_as=65000, peer_as=65001, local_address='127.0.0.1', peer_address='127.0.0.1')
        n.hold_time = type(n.hold_time)(self.cfg['hold'])
        n.api = ParseAPI.flatten({})
        n.api['neighbor-changes'] = True
        n.api['fsm'] = True
        if self.cfg['parse']:
            n.api['receive-update'] = True
            n.api['receive-parsed'] = True
        if self.cfg['graceful']:
            from exabgp.bgp.neighbor.capability import GracefulRestartConfig

            n.capability.graceful_restart = GracefulRestartConfig.with_time(120)
        if self.cfg['refresh']:
            n.capability.route_refresh = 2  # REFRESH.NORMAL
        if not self.cfg['extended']:
            from exabgp.util.enumeration import TriState

            n.capability.extended_message = TriState.FALSE
        self.neighbor = n
        self.nroutes = 0
        routes = [self._route() for _ in range(int(self.cfg['routes']))]
        n.routes = list(routes)
        for r in routes:
            n.rib.outgoing.add_to_rib(r)
        reactor = MagicMock()
        reactor.processes.up = lambda nb: self._api('up')
        reactor.processes.down = lambda nb, reason='': self._api('down')
        reactor.processes.connected = lambda nb: None
        reactor.processes.fsm = lambda nb, fsm: None
        reactor.processes.broken = lambda nb: False
        self.reactor = reactor
        self.peer = Peer(n, reactor)

    def _route(self) -> Any:
        self.nroutes += 1
        k = self.nroutes
        r = self.cfg_obj.parse_route_text(f'route 10.{k // 250}.{k % 250}.0/24 next-hop 192.0.2.1 med {k}')[0]
        return self.neighbor.resolve_self(r)

    def _api(self, what: str) -> None:
        self.api.append((self.now(), what))
        self.emit(what)

    def now(self) -> float:
        return round(self.loop.time() - self.t0, 4)

    # -- observation ----------------------------------------------------------------------------

    def emit(self, item: str) -> None:
        self.bucket.append(item)

    def wrote(self, cid: int, raw: bytes) -> None:
        self.tx[cid] = self.tx.get(cid, b'') + raw
        state = self.peer.fsm.state.name
        for k in classify(raw):
            self.wire.append((self.now(), cid, k, state))
            self.emit(f'send {cid} {k} {state}')

    # -- sockets --------------------------------------------------------------------------------

    def _register(self, conn: Connection, remote: socket.socket) -> int:
        self.nconn += 1
        cid = self.nconn
        conn._rig_id = cid  # type: ignore[attr-defined]
        remote.setblocking(False)
        self.remote_socks[cid] = remote
        self.remote_open[cid] = True
        self.rx[cid] = b''
        return cid

    def new_pair(self, conn: Connection) -> socket.socket:
        """Outgoing connection: one end of a socketpair for ExaBGP, the other for the remote."""
        a, b = socket.socketpair()
        a.setblocking(False)
        for s in (a, b):
            s.setsockopt(socket.SOL_SOCKET, socket.SO_SNDBUF, 1 << 20)
        self._register(conn, b)
        return a

    def new_incoming(self) -> tuple[Incoming, int]:
        """Incoming connection: a real TCP loopback pair (Incoming sets TCP_NODELAY)."""
        lst = socket.socket(socket.AF_INET, socket.SOCK_STREAM)
        lst.bind(('127.0.0.1', 0))
        lst.listen(1)
        remote = socket.socket(socket.AF_INET, socket.SOCK_STREAM)
        remote.connect(lst.getsockname())
        sock, _ = lst.accept()
        lst.close()
        remote.setsockopt(socket.IPPROTO_TCP, socket.TCP_NODELAY, 1)
        inc = Incoming(AFI.ipv4, '127.0.0.1', '127.0.0.1', sock)
        cid = self._register(inc, remote)
        return inc, cid

    def drain(self) -> None:
        for cid, s in self.remote_socks.items():
            if not self.remote_open.get(cid):
                continue
            while True:
                try:
                    data = s.recv(1 << 16)
                except (BlockingIOError, InterruptedError):
                    break
                except OSError:
                    break
                if not data:
                    break
                self.rx[cid] += data

    # -- stepping -------------------------------------------------------------------------------

    def _readable(self, io: socket.socket, timeout_ms: int = 0) -> bool:
        try:
            p = select.poll()
            p.register(io.fileno(), select.POLLIN | select.POLLHUP | select.POLLERR)
            return bool(p.poll(timeout_ms))
        except (OSError, ValueError):
            return False

    def stable(self) -> bool:
        """The peer coroutine is blocked where only a new event (or a long timer) moves it."""
        if self.task is None or self.task.done():
            return True
        if not self.in_run:
            return True
        if self.connect_fut is not None:
            return True
        if self.reading is not None:
            io = self.reading.io
            if io is None:
                return True  # a read left pending on a closed connection (stale await)
            return not self._readable(io)
        if self.reading is None and self.peer.proto is None and self.cfg['passive'] and self.peer.fsm.state == FSM.ACTIVE:
            return True
        return False

    async def settle(self) -> None:
        """Step the loop (no time passes, except the 1 ms pause between two main-loop iterations)."""
        calm = 0
        for i in range(4000):
            if self.stable():
                calm += 1
                if calm >= 3:
                    self.drain()
                    return
            else:
                calm = 0
            if i % 40 == 39:
                await asyncio.sleep(0.0011)
            else:
                await asyncio.sleep(0)
        raise RigError(f'peer did not settle: in_run={self.in_run} in_main={self.in_main} reading={self.reading} fsm={self.peer.fsm.state.name}')

    async def advance(self, seconds: float, until: Any, step: float = 0.02) -> None:
        end = self.loop.time() + seconds
        while self.loop.time() < end and not until():
            await asyncio.sleep(min(step, max(end - self.loop.time(), 0.0001)))

    def _wait_delivery(self, cid: int) -> None:
        """TCP loopback: give the kernel the (real) microseconds it needs to deliver what the remote did."""
        conn = self.reading
        if conn is None or getattr(conn, '_rig_id', None) != cid or conn.io is None:
            return
        if self.remote_socks[cid].family == socket.AF_INET:
            self._readable(conn.io, 50)

    # -- events ---------------------------------------------------------------------------------

    async def event(self, ev: list) -> list[str]:
        self.bucket = []
        k = ev[0]
        peer = self.peer
        if k == 'start':
            if self.task is not None and not self.task.done() and not self.in_run:
                before = self.run_starts
                await self.advance(70.0, lambda: self.run_starts > before, step=0.02)
        elif k == 'connectOk':
            if self.connect_fut is not None and not self.connect_fut.done():
                self.connect_fut.set_result(True)
        elif k == 'connectFail':
            if self.connect_fut is not None and not self.connect_fut.done():
                self.connect_fut.set_result(False)
        elif k == 'incoming':
            inc, cid = self.new_incoming()
            res = peer.handle_connection(inc)
            if res is not None:
                # Listener.new_connections treats the returned generator as a flag and drops it
                self.emit(f'reject {cid}')
            del inc, res
        elif k == 'recv':
            _, cid, kind = ev
            if self.remote_open.get(cid):
                try:
                    self.remote_socks[cid].sendall(self.remote.bytes_of(kind))
                except OSError:
                    pass
                self._wait_delivery(cid)
        elif k == 'eof':
            cid = ev[1]
            if self.remote_open.get(cid):
                try:
                    self.remote_socks[cid].shutdown(socket.SHUT_WR)
                except OSError:
                    pass
                self._wait_delivery(cid)
        elif k == 'sockError':
            cid = ev[1]
            if self.remote_open.get(cid):
                self.drain()
                s = self.remote_socks[cid]
                try:
                    if s.family == socket.AF_INET:
                        s.setsockopt(socket.SOL_SOCKET, socket.SO_LINGER, struct.pack('ii', 1, 0))
                    else:
                        s.shutdown(socket.SHUT_RDWR)
                except OSError:
                    pass
                s.close()
                self.remote_open[cid] = False
                self._wait_delivery(cid)
        elif k == 'openwaitExpired':
            if self.in_read_open:
                await self.advance(61.0, lambda: not self.in_read_open, step=0.5)
        elif k == 'holdExpired':
            if self.in_main or (self.in_run and self.peer.fsm.state == FSM.OPENCONFIRM and self.reading is not None):
                hold = min(self.cfg['hold'], self.cfg['peer_hold'])
                was_main = self.in_main
                await self.advance(hold + 3.0, lambda: (was_main and not self.in_main) or not self.in_run, step=0.05)
        elif k == 'tick':
            if self.in_main and self.reading is not None:
                target = self.read_calls + 1
                await self.advance(0.3, lambda: self.read_calls >= target or not self.in_main, step=0.01)
        elif k == 'teardown':
            peer.teardown(int(ev[1]))
        elif k == 'reestablish':
            peer.reestablish()
        elif k == 'stop':
            peer.shutdown()
        elif k == 'queueRefresh':
            from exabgp.bgp.message.refresh import RouteRefresh
            from exabgp.protocol.family import SAFI

            self.neighbor.refresh.append(RouteRefresh.make_route_refresh(AFI.ipv4, SAFI.unicast, 0))
        elif k == 'announce':
            for _ in range(int(ev[1])):
                self.neighbor.rib.outgoing.add_to_rib(self._route())
        else:
            raise RigError(f'unknown event {ev}')
        await self.settle()
        return list(self.bucket)

    # -- whole scripts --------------------------------------------------------------------------

    async def _run_script(self, script: list[list]) -> list[list[str]]:
        self.task = self.loop.create_task(self.peer.run())
        out = []
        for ev in script:
            out.append(await self.event(ev))
        return out

    def run(self, script: list[list]) -> list[list[str]]:
        global CUR
        if CUR is not None:
            raise RigError('one rig at a time')
        CUR = self
        asyncio.set_event_loop(self.loop)
        try:
            return self.loop.run_until_complete(self._run_script(script))
        finally:
            self._cleanup()
            CUR = None

    def _cleanup(self) -> None:
        from exabgp.environment import getenv

        try:
            if self.task is not None and not self.task.done():
                self.task.cancel()
                try:
                    self.loop.run_until_complete(asyncio.gather(self.task, return_exceptions=True))
                except Exception:
                    pass
            try:
                if self.peer.proto is not None:
                    self.peer.proto.close('rig cleanup')
            except Exception:
                pass
            self.peer = None  # type: ignore[assignment]
            for s in self.remote_socks.values():
                try:
                    s.close()
                except OSError:
                    pass
            # cancel what is left on the loop (stale reads)
            pending = [t for t in asyncio.all_tasks(self.loop) if not t.done()]
            for t in pending:
                t.cancel()
            if pending:
                try:
                    self.loop.run_until_complete(asyncio.gather(*pending, return_exceptions=True))
                except Exception:
                    pass
        finally:
            import gc

            gc.collect()
            for fd in self.pinned:
                try:
                    os.close(fd)
                except OSError:
                    pass
            self.pinned = []
            try:
                os.close(self.devnull)
            except OSError:
                pass
            try:
                self.loop.close()
            except Exception:
                pass
            env = getenv()
            env.tcp.attempts = self._env_saved.get('attempts', 0)
            env.bgp.passive = self._env_saved.get('passive', False)


def run_script(script: list[list], cfg: dict | None = None) -> dict:
    """Run one script on a fresh rig. Returns buckets plus the raw observations the oracles use."""
    rig = SessionRig(cfg)
    buckets = rig.run(script)
    return {
        'buckets': buckets,
        'wire': rig.wire,
        'rx': {c: classify(b) for c, b in rig.rx.items()},
        'tx': {c: classify(b) for c, b in rig.tx.items()},
        'rx_raw': rig.rx,
        'tx_raw': rig.tx,
        'api': rig.api,
        'remote_open': dict(rig.remote_open),
    }
