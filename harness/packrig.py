"""Rig for M-Pack / C09: builds REAL UpdateCollection objects with controlled sizes, runs the real
`UpdateCollection.messages(negotiated, include_withdraw)`, decodes every emitted message ON ITS OWN
with the real `Message.unpack`, and produces (a) the canonical partition compared with `drv_pack`,
(b) the verdict of the property's own oracle (independent of the model).

A case is plain JSON:
  {'fams': [1,3], 'addpath': 0|1, 'M': 4096|65535, 'ibgp': 0|1,
   'attr': {'base': '<route text attributes>', 'ncomm': k, 'filler': n (-1 = none)},
   'anns': [[fam, mask, value, pathid(-1 = none), nhidx], ...],
   'wds':  [[fam, mask, value, pathid], ...],
   'iw': 0|1}
fam: 1 ipv4 unicast, 2 ipv4 multicast, 3 ipv6 unicast, 4 ipv6 multicast.  `value` is the integer
made of the top `mask` bits of the prefix.
"""

from __future__ import annotations

import ipaddress
from typing import Any

from exabgp.bgp.message import Message
from exabgp.bgp.message.direction import Direction
from exabgp.bgp.message.update import collection as collection_module
from exabgp.bgp.message.update.nlri import collection as nlri_collection_module
from exabgp.bgp.message.update.attribute import Attribute, AttributeCollection
from exabgp.bgp.message.update.attribute.community.initial.communities import Communities
from exabgp.bgp.message.update.attribute.generic import GenericAttribute
from exabgp.bgp.message.update.collection import RoutedNLRI, UpdateCollection
from exabgp.bgp.message.update.nlri.inet import INET
from exabgp.bgp.message.update.nlri.qualifier import PathInfo
from exabgp.protocol.family import AFI, SAFI
from exabgp.protocol.ip import IP
from exabgp.bgp.message.open.routerid import RouterID

from harness import sessions

FAMS = {1: (AFI.ipv4, SAFI.unicast), 2: (AFI.ipv4, SAFI.multicast), 3: (AFI.ipv6, SAFI.unicast), 4: (AFI.ipv6, SAFI.multicast)}
FAM_TEXT = {1: 'ipv4 unicast', 2: 'ipv4 multicast', 3: 'ipv6 unicast', 4: 'ipv6 multicast'}
FAM_ID = {(int(a), int(s)): k for k, (a, s) in FAMS.items()}
SIMPLE = [1, 2, 3, 4]  # every family used here has SAFI unicast or multicast
V4NH = '1.2.3.4'  # the NEXT_HOP attribute of the request; every IPv4 announce uses it
V6NHS = ['2001:db8::1', '2001:db8::2', '2001:db8:0:1::3', '2001:db8::4']
FILLER_CODE = 0xF1  # an attribute code ExaBGP has no class for: carried as GenericAttribute
FILLER_FLAG = 0xC0  # optional transitive

_sessions: dict = {}


def get_session(fams: tuple, addpath: bool, M: int, ibgp: bool):
    """(cfg, neighbor, negotiated for sending, negotiated of the receiving side) — from two real OPENs."""
    key = (tuple(fams), bool(addpath), M, bool(ibgp))
    if key not in _sessions:
        text = ' '.join(FAM_TEXT[f] for f in fams)
        peer_as = 65000 if ibgp else 65001
        cfg, n = sessions.make_config(local_as=65000, peer_as=peer_as, families=text, add_path=bool(addpath))
        _, p = sessions.make_config(local_as=peer_as, peer_as=65000, families=text, add_path=bool(addpath), local_address='127.0.0.2', peer_address='127.0.0.1')
        p.session.router_id = RouterID('2.2.2.2')
        if addpath:  # ADD-PATH send/receive in both OPENs (capability value 3), for the configured families
            n.capability.add_path = 3
            p.capability.add_path = 3
        # extended next hop (RFC 8950) in both OPENs: an IPv4 multicast route may have an IPv6 next hop, so the
        # next-hop groups of one MP family are not all encoded on the same number of bytes
        from exabgp.bgp.message.open.capability.capabilities import Capabilities
        from exabgp.util.enumeration import TriState

        for x in (n, p):
            x.capability.nexthop = TriState.TRUE
            for a, s_, h in Capabilities._NEXTHOP:
                x.add_nexthop(a, s_, h)
        out = sessions.negotiate(n, peer_neighbor=p, direction=Direction.OUT, msg_size=M)
        inn = sessions.negotiate(n, peer_neighbor=p, direction=Direction.IN, msg_size=M)
        if addpath and not out.addpath.send(*FAMS[fams[0]]):
            raise RuntimeError('rig: ADD-PATH was not negotiated')
        _sessions[key] = (cfg, n, out, inn)
    return _sessions[key]


def afi_bits(fam: int) -> int:
    return 32 if fam in (1, 2) else 128


def prefix_bytes(fam: int, mask: int, value: int) -> bytes:
    bits = afi_bits(fam)
    return (value << (bits - mask)).to_bytes(bits // 8, 'big') if mask else bytes(bits // 8)


def wire_nlri(fam: int, mask: int, value: int, pathid: int, addpath: bool) -> bytes:
    """What RFC 4271/4760/7911 put on the wire for this prefix — computed here, not by ExaBGP."""
    body = bytes([mask]) + prefix_bytes(fam, mask, value)[: (mask + 7) // 8]
    if addpath:
        return (pathid if pathid >= 0 else 0).to_bytes(4, 'big') + body
    return body


def make_nlri(fam: int, mask: int, value: int, pathid: int):
    afi, safi = FAMS[fam]
    pi = PathInfo.make_from_integer(pathid) if pathid >= 0 else PathInfo.DISABLED
    return INET.make_route(afi, safi, prefix_bytes(fam, mask, value), mask, path_info=pi)


def filler_len(n: int) -> int:
    return 0 if n < 0 else n + (4 if n > 255 else 3)


def comm_len(k: int) -> int:
    return 0 if k <= 0 else 4 * k + (4 if 4 * k > 255 else 3)


def build_attrs(cfg, neighbor, spec: dict) -> AttributeCollection:
    route = cfg.parse_route_text(f'route 10.0.0.0/8 next-hop {V4NH} {spec.get("base", "")}')[0]
    route = neighbor.resolve_self(route)
    attrs = route.attributes
    k = spec.get('ncomm', 0)
    if k > 0:
        attrs.add(Communities(b''.join((0xFDE80000 + i).to_bytes(4, 'big') for i in range(k))))
    n = spec.get('filler', -1)
    if n >= 0:
        attrs.add(GenericAttribute.make_generic(FILLER_CODE, FILLER_FLAG, bytes((i * 7 + 1) & 0xFF for i in range(n))))
    return attrs


def tune_attr(cfg, neighbor, neg, base: str, target: int, comm_share: float) -> dict | None:
    """An attribute spec whose packed length with defaults is exactly `target` (None if impossible)."""
    b = len(build_attrs(cfg, neighbor, {'base': base}).pack_attribute(neg, True))
    extra = target - b
    if extra < 0:
        return None
    if extra == 0:
        return {'base': base, 'ncomm': 0, 'filler': -1}
    k = min(16383, max(0, int(extra * comm_share) // 4))
    for kk in (k, k - 1, k + 1, k - 2, k + 2, 0):
        if kk < 0 or kk > 16383:
            continue
        r = extra - comm_len(kk)
        if r == 0:
            return {'base': base, 'ncomm': kk, 'filler': -1}
        if 3 <= r <= 258:
            return {'base': base, 'ncomm': kk, 'filler': r - 3}
        if 260 <= r <= 65535 + 4:
            return {'base': base, 'ncomm': kk, 'filler': r - 4}
    return None


class LogSpy:
    """Stands for the module-level `log` of update/collection.py and update/nlri/collection.py while `messages` runs: records
    `critical` calls (the code's only trace of its silent `return`), forwards nothing."""

    def __init__(self) -> None:
        self.critical_calls = 0

    def critical(self, *a: Any, **k: Any) -> None:
        self.critical_calls += 1

    def __getattr__(self, name: str):
        return lambda *a, **k: None


def nlri_key(n) -> tuple:
    return (int(n.afi), int(n.safi), bytes(n._packed), bool(n._has_addpath))


def ids(l: list) -> str:
    return '.'.join(str(x) for x in l) if l else '-'


def resolve_attr(case: dict) -> dict:
    """A corpus case may ask for an attribute block of a given packed length (`attr.target`) instead of
    spelling the communities/filler out: the spec is then found here, on the real encoder."""
    spec = case['attr']
    if 'target' not in spec:
        return spec
    cfg, n, neg, _ = get_session(tuple(case['fams']), bool(case['addpath']), case['M'], bool(case.get('ibgp', 0)))
    got = tune_attr(cfg, n, neg, spec.get('base', ''), spec['target'], spec.get('comm_share', 1.0))
    if got is None:
        raise RuntimeError(f'rig: cannot build an attribute block of {spec["target"]} bytes')
    return got


class Built:
    """The real objects of one case."""

    def __init__(self, case: dict) -> None:
        self.case = case
        self.M = case['M']
        self.addpath = bool(case['addpath'])
        self.cfg, self.neighbor, self.neg, self.negin = get_session(tuple(case['fams']), self.addpath, self.M, bool(case.get('ibgp', 0)))
        self.attrs = build_attrs(self.cfg, self.neighbor, resolve_attr(case))
        self.attr_def = len(self.attrs.pack_attribute(self.neg, True))
        self.attr_nodef = len(self.attrs.pack_attribute(self.neg, False))
        self.anns = []  # (id, spec, nlri, nexthop IP, nh text)
        self.wds = []
        nid = 0
        for fam, mask, value, pathid, nhidx in case['anns']:
            nid += 1
            # next hops of one MP family are not all encoded on the same number of bytes: an IPv4 multicast route may
            # have an IPv6 next hop (RFC 8950; nhidx >= 4 selects it), 4 against 16 bytes in one MP_REACH family
            if fam == 2 and nhidx >= 4:
                nh = V6NHS[nhidx % len(V6NHS)]
            else:
                nh = V4NH if fam in (1, 2) else V6NHS[nhidx % len(V6NHS)]
            self.anns.append((nid, (fam, mask, value, pathid), make_nlri(fam, mask, value, pathid), IP.from_string(nh), nh))
        for fam, mask, value, pathid in case['wds']:
            nid += 1
            self.wds.append((nid, (fam, mask, value, pathid), make_nlri(fam, mask, value, pathid), None, None))
        self.nh_ids: dict[str, int] = {}  # next-hop text -> id, filled by model_line()
        self.collection = UpdateCollection([RoutedNLRI(a[2], a[3]) for a in self.anns], [w[2] for w in self.wds], self.attrs)

    # ---- the model's input (sizes and classification measured on the real objects)
    def model_line(self) -> str:
        neg = self.neg
        negotiated = sorted(FAM_ID[(int(a), int(s))] for a, s in neg.families if (int(a), int(s)) in FAM_ID)
        sa = sorted(self.anns, key=lambda t: t[2])  # the order `sorted(self._announces, key=nlri)` gives
        sw = sorted(self.wds, key=lambda t: t[2])
        nh_ids: dict[str, int] = {}
        items_a, items_w = [], []
        ka: dict = {}
        kw: dict = {}
        for nid, spec, nlri, nh, nhtext in sa:
            fam = spec[0]
            v4 = int(nlri.afi == AFI.ipv4 and nlri.safi == SAFI.unicast and nh.afi == AFI.ipv4)
            h = nh_ids.setdefault(nhtext, len(nh_ids) + 1)
            items_a.append(f'{nid}:{len(nlri.pack_nlri(neg))}:{fam}:{v4}:{h}:{len(nh.pack_ip())}')
            if not v4 and fam in negotiated:
                ka.setdefault(nlri.family().afi_safi(), True)
        for nid, spec, nlri, _, _ in sw:
            fam = spec[0]
            v4 = int(nlri.afi == AFI.ipv4 and nlri.safi == SAFI.unicast)
            items_w.append(f'{nid}:{len(nlri.pack_nlri(neg))}:{fam}:{v4}:0:0')
            if not v4 and fam in negotiated:
                kw.setdefault(nlri.family().afi_safi(), True)
        # iteration order of the set `all_mp_families` is CPython's: taken from CPython, not modelled
        order = [FAM_ID[(int(a), int(s))] for a, s in (set(ka.keys()) | set(kw.keys()))]
        self.nh_ids = nh_ids
        return 'pack run %d %d %d %s %s %s %d %s %s' % (
            self.M,
            self.attr_def,
            self.attr_nodef,
            ','.join(map(str, negotiated)) or '-',
            ','.join(map(str, SIMPLE)),
            ','.join(map(str, order)) or '-',
            int(bool(self.case['iw'])),
            ','.join(items_a) or '-',
            ','.join(items_w) or '-',
        )


def decode_alone(built: Built, raw: bytes) -> dict:
    """Decode one emitted message on its own with the real decoder (fresh decode cache)."""
    AttributeCollection.cached = None
    AttributeCollection.previous = b''
    upd = Message.unpack(2, raw[19:], built.negin)
    data = upd.data
    if getattr(data, 'IS_EOR', False):
        return {'eor': True, 'anns': [], 'wds': [], 'attrs': None}
    return {'eor': False, 'anns': [(r.nlri, r.nexthop) for r in data.announces], 'wds': list(data.withdraws), 'attrs': data.attributes}


def run_impl(case: dict) -> dict:
    """Run the real packer. Returns the canonical partition, raw lengths, status and the oracle's verdict."""
    b = Built(case)
    line = b.model_line()
    spy = LogSpy()
    saved = collection_module.log
    saved_nlri = getattr(nlri_collection_module, 'log', None)
    collection_module.log = spy
    if saved_nlri is not None:  # the MP generators log through their own module-level name
        nlri_collection_module.log = spy
    raws: list[bytes] = []
    status = 'ok'
    error = ''
    try:
        try:
            for m in b.collection.messages(b.neg, bool(case['iw'])):
                raws.append(bytes(m))
        finally:
            collection_module.log = saved
            if saved_nlri is not None:
                nlri_collection_module.log = saved_nlri
    except RuntimeError as e:
        status, error = 'raised', f'RuntimeError: {e}'
    except Exception as e:  # struct.error from the 16-bit fields, or anything else
        import struct

        status = 'toolong' if isinstance(e, struct.error) else 'error'
        error = ('struct.error' if isinstance(e, struct.error) else type(e).__name__) + f': {e}'

    # ---- lookup tables from the request (wire forms computed by the harness, not by ExaBGP)
    addpath = {f: b.neg.addpath.send(*FAMS[f]) for f in FAMS}
    by_wire_a: dict = {}
    by_wire_w: dict = {}
    for nid, (fam, mask, value, pathid), nlri, nh, nhtext in b.anns:
        by_wire_a[(fam, wire_nlri(fam, mask, value, pathid, addpath[fam]))] = (nid, nhtext)
    for nid, (fam, mask, value, pathid), nlri, _, _ in b.wds:
        by_wire_w[(fam, wire_nlri(fam, mask, value, pathid, addpath[fam]))] = nid
    negotiated = {FAM_ID[(int(a), int(s))] for a, s in b.neg.families if (int(a), int(s)) in FAM_ID}

    def fam_of(n) -> int:
        return FAM_ID.get((int(n.afi), int(n.safi)), 0)

    def lookup(table: dict, n, classic: bool):
        """id of a decoded NLRI. In the classic fields the decoder can only say ipv4 unicast; an
        ipv4 multicast request that was put there is still recognised here (correspondence only —
        the oracle below compares families strictly)."""
        w = bytes(n._packed)
        f = fam_of(n)
        hit = table.get((f, w))
        if hit is None and classic and f == 1:
            hit = table.get((2, w))
        return hit

    canon: list[str] = []
    verdict: list[dict] = []  # oracle failures
    got_a: dict = {}  # (fam, wire) -> set of next hops it was announced with
    got_w: set = set()
    parse_fail = False
    for k, raw in enumerate(raws):
        if len(raw) > b.M:
            verdict.append({'fail': 'oversize', 'msg': k, 'len': len(raw)})
        try:
            d = decode_alone(b, raw)
        except Exception as e:
            parse_fail = True
            verdict.append({'fail': 'unparsable', 'msg': k, 'error': f'{type(e).__name__}: {str(e)[:80]}'})
            canon.append(f'{len(raw)} undecodable')
            continue
        if d['eor']:
            verdict.append({'fail': 'eor', 'msg': k})
            canon.append(f'{len(raw)} eor')
            continue
        n4, r_items, r_fam, r_nh = [], [], None, set()
        for n, nh in d['anns']:
            f = fam_of(n)
            classic = f == 1
            hit = lookup(by_wire_a, n, classic)
            got_a.setdefault((f, bytes(n._packed)), set()).add(str(ipaddress.ip_address(str(nh))) if nh is not IP.NoNextHop else 'none')
            ident = hit[0] if hit else f'?{f}/{bytes(n._packed).hex()}'
            if classic:
                n4.append(ident)
            else:
                r_items.append(ident)
                r_fam = f
                r_nh.add(str(ipaddress.ip_address(str(nh))) if nh is not IP.NoNextHop else 'none')
        w4, u_items, u_fam = [], [], None
        for n in d['wds']:
            f = fam_of(n)
            classic = f == 1
            hit = lookup(by_wire_w, n, classic)
            got_w.add((f, bytes(n._packed)))
            ident = hit if hit else f'?{f}/{bytes(n._packed).hex()}'
            if classic:
                w4.append(ident)
            else:
                u_items.append(ident)
                u_fam = f
        attrs = d['attrs']
        has_attrs = int(any(c not in (14, 15) for c in attrs.keys()))
        if len(r_nh) > 1:
            verdict.append({'fail': 'two-nexthops-in-one-reach', 'msg': k})
        nhid = b.nh_ids.get(sorted(r_nh)[0], 0) if r_nh else 0
        rs = f'{r_fam}:{nhid}:{ids(r_items)}' if r_items else '-'
        us = f'{u_fam}:{ids(u_items)}' if u_items else '-'
        canon.append(f'{len(raw)} w={ids(w4)} u={us} a={has_attrs} r={rs} n={ids(n4)}')
        # requested attributes on every message that announces something
        if d['anns']:
            bad = attr_mismatch(b, attrs)
            if bad:
                verdict.append({'fail': 'attributes', 'msg': k, 'what': bad})

    # ---- the property's oracle on the union (independent of the model)
    if status in ('raised', 'toolong', 'error'):
        verdict.append({'fail': 'exception', 'error': error})
    fits = fits_alone(b)
    if not parse_fail:
        want_a = {}
        for nid, (fam, mask, value, pathid), nlri, nh, nhtext in b.anns:
            if fam in negotiated:
                want_a[(fam, wire_nlri(fam, mask, value, pathid, addpath[fam]))] = (nid, str(ipaddress.ip_address(nhtext)))
        want_w = {}
        for nid, (fam, mask, value, pathid), nlri, _, _ in b.wds:
            if fam in negotiated:
                want_w[(fam, wire_nlri(fam, mask, value, pathid, addpath[fam]))] = nid
        changed_a = {key[1] for key in got_a if key not in want_a and key[0] == 1 and (2, key[1]) in want_a}
        changed_w = {key[1] for key in got_w if key not in want_w and key[0] == 1 and (2, key[1]) in want_w}
        for wire in sorted(changed_a | changed_w):
            # requested as ipv4 multicast, on the wire in the classic fields = ipv4 unicast
            verdict.append({'fail': 'family-changed', 'from': 2, 'to': 1, 'nlri': wire.hex()})
        for key, (nid, nh) in want_a.items():
            if key not in got_a:
                if key[0] == 2 and key[1] in changed_a:
                    continue
                # a prefix the attributes leave no room for may be silently left out; any other must be there
                if status == 'ok' and fits[nid]:
                    verdict.append({'fail': 'announce-missing', 'id': nid, 'fam': key[0], 'status': status, 'nlri': key[1].hex()})
            elif got_a[key] != {nh}:
                verdict.append({'fail': 'wrong-nexthop', 'id': nid, 'fam': key[0], 'got': sorted(got_a[key]), 'want': nh})
        for key in got_a:
            if key not in want_a and key[1] not in changed_a:
                verdict.append({'fail': 'announce-not-requested', 'fam': key[0], 'nlri': key[1].hex()})
        if case['iw']:
            for key, nid in want_w.items():
                if key not in got_w and not (key[0] == 2 and key[1] in changed_w) and status == 'ok' and fits[nid]:
                    verdict.append({'fail': 'withdraw-missing', 'id': nid, 'fam': key[0], 'status': status, 'nlri': key[1].hex()})
        for key in got_w:
            if (key not in want_w and key[1] not in changed_w) or not case['iw']:
                verdict.append({'fail': 'withdraw-not-requested', 'fam': key[0], 'nlri': key[1].hex()})
    wanted_ids = {a[0] for a in b.anns if a[1][0] in negotiated} | ({w[0] for w in b.wds if w[1][0] in negotiated} if case['iw'] else set())
    return {
        'all_fit': all(fits[i] for i in wanted_ids),
        'line': line,
        'status': status,
        'logged': spy.critical_calls,
        'error': error,
        'lens': [len(r) for r in raws],
        'canon': canon,
        'verdict': verdict,
        'attr_def': b.attr_def,
        'attr_nodef': b.attr_nodef,
        'msg_size': b.M - 23 - b.attr_def,
        'raws': raws,
    }


def attr_mismatch(b: Built, decoded: AttributeCollection) -> str:
    """'' when a decoded message carries exactly the requested attributes (+ the defaults)."""
    want = b.attrs
    for code in want.keys():
        if code in AttributeCollection.INTERNAL:
            continue
        a = want[code]
        if code == Attribute.CODE.NEXT_HOP and a.ipv4() is not True:
            continue
        if code == Attribute.CODE.LOCAL_PREF and b.neg.local_as != b.neg.peer_as:
            continue  # LOCAL_PREF is not sent to an external peer (RFC 4271 5.1.5)
        if code not in decoded:
            return f'attribute {code} missing'
        d = decoded[code]
        if isinstance(a, GenericAttribute):
            if bytes(d._packed) != bytes(a._packed):
                return f'attribute {code} differs'
        elif bytes(d.pack_attribute(b.neg)) != bytes(a.pack_attribute(b.neg)):
            return f'attribute {code} differs'
    allowed = set(want.keys()) | {Attribute.CODE.ORIGIN, Attribute.CODE.AS_PATH, Attribute.CODE.LOCAL_PREF, 14, 15}
    for code in decoded.keys():
        if code not in allowed:
            return f'attribute {code} not requested'
    return ''


def fits_alone(b: Built) -> dict:
    """For every requested NLRI: would an UPDATE holding the attributes and this NLRI alone fit?
    Plain RFC arithmetic on real lengths (19 header, 2+2 length fields, MP attribute framing)."""
    out = {}
    for nid, (fam, mask, value, pathid), nlri, nh, _ in b.anns:
        z = len(wire_nlri(fam, mask, value, pathid, b.neg.addpath.send(*FAMS[fam])))
        if fam == 1:  # only ipv4 unicast travels in the classic fields (RFC 4760); the rest is MP framed
            out[nid] = 23 + b.attr_def + z <= b.M
        else:
            p = 5 + len(nh.pack_ip()) + z
            out[nid] = 23 + b.attr_def + p + (4 if p > 255 else 3) <= b.M
    for nid, (fam, mask, value, pathid), nlri, _, _ in b.wds:
        z = len(wire_nlri(fam, mask, value, pathid, b.neg.addpath.send(*FAMS[fam])))
        # lenient: counted as fitting only if it fits next to the full attribute block as well
        if fam == 1:
            out[nid] = 23 + b.attr_def + z <= b.M
        else:
            p = 3 + z
            out[nid] = 23 + b.attr_def + p + (4 if p > 255 else 3) <= b.M
    return out


def model_out(lines: list[str]) -> list[dict]:
    from harness import common

    res = []
    for o in common.run_driver('drv_pack', lines):
        if o == 'bad-op':
            res.append({'status': 'bad-op', 'model_status': 'bad-op', 'logged': -1, 'canon': []})
            continue
        parts = o.split(' | ')
        head = parts[0].split(' ')
        # the silent early `return` (noroom) is, seen from outside, a normal end with one log line
        res.append({'status': 'ok' if head[0] == 'noroom' else head[0], 'model_status': head[0], 'logged': int(head[2]), 'canon': parts[1:]})
    return res
