"""Structured generators of UpdateSem values (the semantic form of an UPDATE in M-Wire's terms),
shared by C02 / C01 / C08 / C03.  Every random choice comes from the `rng` passed in.

An UpdateSem is a dict  {'w': [NLRI...], 'a': [ATTR...], 'n': [NLRI...], 'tags': set of str}
    NLRI = {'pid': int|None, 'labels': [int], 'rd': hex str ('' = none), 'plen': int, 'pfx': hex str}
    ATTR = {'flags': 'otpe' as four 0/1 characters, 'code': int, 'f': [field strings in the driver's syntax]}
           for MP attributes additionally 'fam': (afi, safi), 'nh': hex, 'nlris': [NLRI...]
`render(u)` gives the three SEM words of `drv_wire` (see lean/ExaModel/Driver/Wire.lean).

`shape` = {'asn4': bool, 'addpath': [(afi, safi)], 'extnh': [(afi, safi)], 'max': int}: what was
negotiated; generated values are well-formed *for that shape* (WFUpdate of Model/Wire.lean):
no duplicate attribute, mandatory attributes present when routes are announced, path ids exactly
for the ADD-PATH families, 2-byte AS numbers in AS_PATH/AGGREGATOR on a 2-byte session and no
AS4_* attributes on a 4-byte session, next-hop lengths legal for the family, prefixes distinct
inside one message.
"""

from __future__ import annotations

KNOWN = [1, 2, 3, 4, 5, 6, 7, 8, 9, 10, 14, 15, 16, 17, 18, 32]
SPEC = {1: '01', 2: '01', 3: '01', 4: '10', 5: '01', 6: '01', 7: '11', 8: '11', 9: '10', 10: '10', 14: '10', 15: '10', 16: '11', 17: '11', 18: '11', 32: '11'}
AS_TRANS = 23456
IP_FAMILIES = [(1, 1), (1, 2), (1, 4), (1, 128), (2, 1), (2, 2), (2, 4), (2, 128)]


def exabgp_only_codes() -> set[int]:
    """Codes ExaBGP decodes structurally but M-Wire carries as opaque: not generated as 'unknown'."""
    import exabgp.bgp.message.update  # noqa: F401
    from exabgp.bgp.message.update.attribute.attribute import Attribute

    return {int(a) for a, _ in Attribute.registered_attributes} - set(KNOWN)


# ---------------------------------------------------------------------------------------------
# rendering


def show_nlri(n: dict) -> str:
    return f'{"-" if n["pid"] is None else n["pid"]}:{",".join(map(str, n["labels"])) or "-"}:{n["rd"] or "-"}:{n["plen"]}:{n["pfx"] or "-"}'


def show_nlris(ns: list) -> str:
    return '+'.join(show_nlri(n) for n in ns) or '-'


def show_attr(a: dict) -> str:
    if a['code'] == 14 and 'nlris' in a:
        f = [f'{a["fam"][0]}.{a["fam"][1]}', a['nh'] or '-', show_nlris(a['nlris'])]
    elif a['code'] == 15 and 'nlris' in a:
        f = [f'{a["fam"][0]}.{a["fam"][1]}', show_nlris(a['nlris'])]
    else:
        f = a['f']
    return '~'.join([a['flags'], str(a['code'])] + f)


def render(u: dict) -> str:
    return f'{show_nlris(u["w"])} {";".join(show_attr(a) for a in u["a"]) or "-"} {show_nlris(u["n"])}'


def show_segs(segs) -> str:
    return '|'.join(f'{t}:' + (','.join(map(str, asns)) or '-') for t, asns in segs) or '-'


# ---------------------------------------------------------------------------------------------
# sizes (to stay under the negotiated message size and choose the length field)


def nlri_len(n: dict, safi: int, wd: bool) -> int:
    lab = 0
    if safi in (4, 128):
        lab = 3 if (wd and not n['labels']) else 3 * len(n['labels'])
    return (4 if n['pid'] is not None else 0) + 1 + lab + len(n['rd']) // 2 + len(n['pfx']) // 2


def value_len(a: dict, asn4: bool) -> int:
    c = a['code']
    if c in (14, 15) and 'nlris' in a:
        safi = a['fam'][1]
        body = sum(nlri_len(n, safi, c == 15) for n in a['nlris'])
        return 3 + body + (2 + len(a['nh']) // 2 if c == 14 else 0)
    if c in (2, 17):
        w = 4 if (asn4 or c == 17) else 2
        segs = a['segs']
        return sum(2 + w * len(asns) for _, asns in segs)
    if c in (3, 4, 5, 9):
        return 4
    if c == 1:
        return 1
    if c == 6:
        return 0
    if c == 7:
        return 8 if asn4 else 6
    if c == 18:
        return 8
    if c in (8, 10):
        return 4 * len(a['f'][0].split(','))
    if c == 16:
        return 8 * len(a['f'][0].split(','))
    if c == 32:
        return 12 * len(a['f'][0].split(','))
    return 0 if a['f'][0] == '-' else len(a['f'][0]) // 2


def attr_len(a: dict, asn4: bool) -> int:
    v = value_len(a, asn4)
    return 2 + (2 if a['flags'][3] == '1' else 1) + v


def update_len(u: dict, asn4: bool) -> int:
    return 4 + sum(nlri_len(n, 1, True) for n in u['w']) + sum(attr_len(a, asn4) for a in u['a']) + sum(nlri_len(n, 1, False) for n in u['n'])


# ---------------------------------------------------------------------------------------------
# pieces


class PrefixPool:
    """Distinct prefixes per family inside one message, drawn from a small space so that later
    messages hit routes of earlier ones (Adj-RIB-In withdraws)."""

    def __init__(self, rng):
        self.rng = rng
        self.used: set = set()

    def prefix(self, afi: int, fam_key) -> tuple[int, str]:
        rng = self.rng
        maxbits = 32 if afi == 1 else 128
        for _ in range(50):
            x = rng.random()
            if x < 0.08:
                plen = rng.choice([0, 1, 7, 8, 9, maxbits - 1, maxbits])
            elif afi == 1:
                plen = rng.choice([8, 16, 24, 24, 24, 25, 30, 32])
            else:
                plen = rng.choice([32, 48, 48, 56, 64, 64, 127, 128])
            nbytes = (plen + 7) // 8
            base = bytearray([10] if afi == 1 else [0x20, 0x01, 0x0D, 0xB8])
            raw = bytearray(nbytes)
            for i in range(nbytes):
                raw[i] = base[i] if i < len(base) else rng.choice([0, 1, 2, rng.randrange(256)])
            if plen % 8 and nbytes:
                raw[-1] &= (0xFF << (8 - plen % 8)) & 0xFF  # clean trailing bits
            key = (fam_key, plen, bytes(raw))
            if key not in self.used:
                self.used.add(key)
                return plen, raw.hex()
        raise RuntimeError('prefix pool exhausted')


def gen_labels(rng, wd: bool, room: int) -> list[int]:
    """room = how many 3-byte entries the 8-bit length field still allows."""
    if wd and rng.random() < 0.75:
        return []  # the 0x800000 compatibility form
    k = 1 if rng.random() < 0.7 else rng.randrange(1, max(2, min(room, 4) + 1))
    k = max(1, min(k, room))
    out = []
    for i in range(k):
        x = rng.random()
        lab = rng.choice([3, 16, 100, 1048575]) if x < 0.3 else rng.randrange(16, 1048576)
        out.append(lab)
    if k > 1 and out[0] == 524288:
        out[0] = 524289
    return out


def gen_nlri(rng, pool: PrefixPool, afi: int, safi: int, ap: bool, wd: bool) -> dict:
    plen, pfx = pool.prefix(afi, (afi, safi, 'pid' if ap else ''))
    rd = ''
    if safi == 128:
        kind = rng.choice([0, 1, 2])
        if kind == 0:
            rd = (b'\x00\x00' + rng.randrange(1, 65536).to_bytes(2, 'big') + rng.randrange(0, 1 << 32).to_bytes(4, 'big')).hex()
        elif kind == 1:
            rd = (b'\x00\x01' + bytes([10, 0, 0, rng.randrange(1, 255)]) + rng.randrange(0, 65536).to_bytes(2, 'big')).hex()
        else:
            rd = (b'\x00\x02' + rng.randrange(65536, 1 << 32).to_bytes(4, 'big') + rng.randrange(0, 65536).to_bytes(2, 'big')).hex()
    labels: list[int] = []
    if safi in (4, 128):
        room = (255 - plen - (64 if safi == 128 else 0)) // 24
        labels = gen_labels(rng, wd, room)
    pid = None
    if ap:
        pid = rng.choice([0, 1, 2, 7, 0xFFFFFFFF, rng.randrange(1 << 32)])
    return {'pid': pid, 'labels': labels, 'rd': rd, 'plen': plen, 'pfx': pfx}


def gen_asn(rng, four: bool) -> int:
    x = rng.random()
    if not four:
        return rng.choice([1, 64512, 65000, 65535]) if x < 0.3 else rng.randrange(1, 65536)
    if x < 0.3:
        return rng.randrange(1, 65536)
    return rng.choice([65536, 70000, 4200000000, 4294967295]) if x < 0.6 else rng.randrange(65536, 1 << 32)


def gen_segs(rng, four: bool, allow_empty=True, simple=False) -> list:
    x = rng.random()
    if allow_empty and x < 0.08:
        return []
    nseg = 1 if (simple or x < 0.7) else rng.randrange(1, 4)
    segs = []
    for _ in range(nseg):
        t = 2 if (simple or rng.random() < 0.75) else rng.choice([1, 1, 3, 4])
        n = rng.choice([1, 1, 2, 3, 5]) if rng.random() < 0.95 else rng.choice([254, 255])
        segs.append((t, [gen_asn(rng, four) for _ in range(n)]))
    return segs


def flags_for(rng, code: int, vlen: int, force_ext: bool | None = None) -> str:
    ot = SPEC[code]
    part = '1' if (ot == '11' and rng.random() < 0.15) else '0'
    if vlen > 255:
        ext = '1'
    elif force_ext is not None:
        ext = '1' if force_ext else '0'
    else:
        ext = '1' if rng.random() < 0.2 else '0'
    return ot + part + ext


def ip4(rng) -> str:
    return bytes([rng.choice([10, 172, 192, 1]), rng.randrange(256), rng.randrange(256), rng.randrange(1, 255)]).hex()


def ip6(rng, ll=False) -> str:
    head = b'\xfe\x80' + bytes(6) if ll else b'\x20\x01\x0d\xb8' + bytes([0, rng.randrange(256), 0, 0])
    return (head + bytes(7) + bytes([rng.randrange(1, 255)])).hex()


def gen_nexthop(rng, fam: tuple[int, int], shape: dict, tags: set) -> str:
    afi, safi = fam
    base = '00' * 8 if safi == 128 else ''
    v6 = afi == 2 or (fam in [tuple(x) for x in shape['extnh']] and rng.random() < 0.5)
    if not v6:
        return base + ip4(rng)
    if afi == 1:
        tags.add('ext-nexthop-v6')
    if safi != 128 and rng.random() < 0.25:
        tags.add('nexthop-link-local')
        if rng.random() < 0.25:
            # RFC 2545 3: "the Network Address of Next Hop field ... global address followed by link-local": the route's
            # next hop is the FIRST address, also when it is the unspecified one (what a link-local-only speaker writes)
            tags.add('nexthop-unspecified-global')
            return '00' * 16 + ip6(rng, ll=True)
        return ip6(rng) + ip6(rng, ll=True)
    if rng.random() < 0.04:
        tags.add('nexthop-unspecified')
        return base + '00' * 16
    return base + ip6(rng)


# ---------------------------------------------------------------------------------------------
# whole messages


def gen_simple_attr(rng, code: int, shape: dict, tags: set, unknown_codes: list[int]) -> dict:
    asn4 = shape['asn4']
    if code == 1:
        f = [str(rng.choice([0, 1, 2]))]
    elif code == 3:
        f = [ip4(rng)]
    elif code in (4, 5):
        f = [str(rng.choice([0, 1, 100, 4294967295, rng.randrange(1 << 32)]))]
    elif code == 6:
        f = ['-']
    elif code == 7:
        asn = gen_asn(rng, asn4)
        f = [str(asn), ip4(rng)]
    elif code == 18:
        f = [str(gen_asn(rng, True)), ip4(rng)]
    elif code == 8:
        n = rng.choice([1, 1, 2, 3, 10]) if rng.random() < 0.93 else rng.choice([63, 64])
        f = [','.join(str(rng.choice([0xFFFFFF01, 0xFFFFFF02, (65000 << 16) + 1, rng.randrange(1 << 32)])) for _ in range(n))]
    elif code == 9:
        f = [ip4(rng)]
    elif code == 10:
        n = rng.choice([1, 1, 2, 4])
        f = [','.join(str(rng.randrange(1, 1 << 32)) for _ in range(n))]
    elif code == 16:
        n = rng.choice([1, 1, 2, 3]) if rng.random() < 0.93 else rng.choice([31, 32])
        recs = []
        for _ in range(n):
            x = rng.random()
            if x < 0.4:
                recs.append(b'\x00\x02' + rng.randrange(1, 65536).to_bytes(2, 'big') + rng.randrange(1 << 32).to_bytes(4, 'big'))
            elif x < 0.6:
                recs.append(b'\x01\x02' + bytes([10, 0, 0, 1]) + rng.randrange(65536).to_bytes(2, 'big'))
            else:
                recs.append(rng.getrandbits(64).to_bytes(8, 'big'))
        f = [','.join(r.hex() for r in recs)]
    elif code == 32:
        n = rng.choice([1, 1, 2, 3]) if rng.random() < 0.93 else rng.choice([21, 22])
        f = [','.join(f'{rng.randrange(1 << 32)}.{rng.randrange(1 << 32)}.{rng.choice([0, 1, 4294967295])}' for _ in range(n))]
    else:
        raise ValueError(code)
    a = {'code': code, 'f': f}
    a['flags'] = flags_for(rng, code, value_len(a, asn4))
    return a


def gen_unknown(rng, codes: list[int], tags: set) -> dict:
    code = rng.choice(codes)
    x = rng.random()
    n = rng.choice([0, 1, 3, 8, 20]) if x < 0.85 else rng.choice([254, 255, 256, 257, 300])
    trans = rng.random() < 0.65
    part = trans and rng.random() < 0.4
    ext = n > 255 or rng.random() < 0.2
    raw = bytes(rng.getrandbits(8) for _ in range(n)).hex() or '-'
    tags.add('unknown-transitive' if trans else 'unknown-nontransitive')
    if n in (254, 255, 256, 257):
        tags.add('attr-len-255/256')
    return {'code': code, 'f': [raw], 'flags': '1' + ('1' if trans else '0') + ('1' if part else '0') + ('1' if ext else '0')}


def gen_update(rng, shape: dict, unknown_codes: list[int], force: str | None = None) -> dict:
    """One well-formed UPDATE for the session shape. `force` selects a boundary family of cases."""
    asn4 = shape['asn4']
    aps = [tuple(x) for x in shape['addpath']]
    tags: set = set()
    pool = PrefixPool(rng)
    u: dict = {'w': [], 'a': [], 'n': [], 'tags': tags}
    kind = force or rng.choice(['mixed', 'mixed', 'mixed', 'v4', 'mp', 'withdraw-only', 'attrs-only', 'merge', 'merge'])
    ap11 = (1, 1) in aps
    # IPv4 fields
    if kind in ('mixed', 'v4') or (kind in ('merge', 'boundary') and rng.random() < 0.7):
        u['n'] = [gen_nlri(rng, pool, 1, 1, ap11, False) for _ in range(rng.choice([1, 1, 2, 3, 6]))]
    if kind in ('mixed', 'withdraw-only') and rng.random() < 0.6 or kind == 'withdraw-only':
        u['w'] = [gen_nlri(rng, pool, 1, 1, ap11, True) for _ in range(rng.choice([1, 1, 2, 4]))]
    # MP attributes
    mp: list[dict] = []
    if kind in ('mixed', 'mp') and (kind == 'mp' or rng.random() < 0.6):
        fam = rng.choice(IP_FAMILIES)
        ap = fam in aps
        nl = [gen_nlri(rng, pool, fam[0], fam[1], ap, False) for _ in range(rng.choice([1, 1, 2, 3]))]
        a = {'code': 14, 'fam': fam, 'nh': gen_nexthop(rng, fam, shape, tags), 'nlris': nl}
        a['flags'] = '10' + '0' + ('1' if (value_len(a, asn4) > 255 or rng.random() < 0.2) else '0')
        mp.append(a)
        tags.add(f'reach-{fam[0]}.{fam[1]}')
    if kind in ('mixed', 'mp', 'withdraw-only') and rng.random() < 0.5:
        fam = rng.choice(IP_FAMILIES)
        ap = fam in aps
        nl = [gen_nlri(rng, pool, fam[0], fam[1], ap, True) for _ in range(rng.choice([1, 1, 2, 3]))]
        a = {'code': 15, 'fam': fam, 'nlris': nl}
        a['flags'] = '10' + '0' + ('1' if (value_len(a, asn4) > 255 or rng.random() < 0.2) else '0')
        mp.append(a)
        tags.add(f'unreach-{fam[0]}.{fam[1]}')
    announces = bool(u['n']) or any(a['code'] == 14 for a in mp)
    attrs: list[dict] = []
    want_path_attrs = announces or kind in ('attrs-only', 'merge') or rng.random() < 0.2
    if want_path_attrs:
        attrs.append(gen_simple_attr(rng, 1, shape, tags, unknown_codes))
        # AS_PATH (+ AS4_PATH on a 2-byte session)
        if not asn4 and (kind == 'merge' or rng.random() < 0.25):
            as2, as4 = gen_merge_pair(rng, tags)
            a2 = {'code': 2, 'segs': as2, 'f': [show_segs(as2)]}
            a2['flags'] = flags_for(rng, 2, value_len(a2, asn4))
            a4 = {'code': 17, 'segs': as4, 'f': [show_segs(as4)]}
            a4['flags'] = flags_for(rng, 17, value_len(a4, asn4))
            attrs += [a2, a4]
            tags.add('as4-path')
        else:
            segs = gen_segs(rng, asn4)
            a2 = {'code': 2, 'segs': segs, 'f': [show_segs(segs)]}
            a2['flags'] = flags_for(rng, 2, value_len(a2, asn4))
            attrs.append(a2)
            if not segs:
                tags.add('as-path-empty')
            if any(len(s[1]) >= 254 for s in segs):
                tags.add('segment-255')
        if u['n'] or rng.random() < 0.15:
            attrs.append(gen_simple_attr(rng, 3, shape, tags, unknown_codes))
        for code in (4, 5, 6, 7, 8, 9, 10, 16, 32):
            if rng.random() < (0.35 if kind != 'boundary' else 0.6):
                attrs.append(gen_simple_attr(rng, code, shape, tags, unknown_codes))
        if not asn4 and any(a['code'] == 7 for a in attrs) and rng.random() < 0.3:
            # AGGREGATOR with AS_TRANS + AS4_AGGREGATOR (RFC 6793), or a real 2-byte aggregator next to one
            agg = next(a for a in attrs if a['code'] == 7)
            if rng.random() < 0.7:
                agg['f'][0] = str(AS_TRANS)
                tags.add('as4-aggregator')
            else:
                tags.add('as4-aggregator-ignored')
            attrs.append(gen_simple_attr(rng, 18, shape, tags, unknown_codes))
    # classic IPv4 routes and an MP_REACH of another IPv4 family behind the SAME next-hop address: the
    # reports must still keep the two families apart
    nh3 = next((a for a in attrs if a['code'] == 3), None)
    reach = next((a for a in mp if a['code'] == 14), None)
    if u['n'] and nh3 is not None and reach is not None and reach['fam'][0] == 1 and reach['fam'] != (1, 1):
        v4 = reach['nh'][16:] if reach['fam'][1] == 128 else reach['nh']
        if len(v4) == 8 and rng.random() < 0.6:
            nh3['f'] = [v4]
            tags.add('same-nexthop-classic+mp')
    for _ in range(rng.choice([0, 0, 0, 1, 1, 2])):
        used = {a['code'] for a in attrs}
        cand = [c for c in unknown_codes if c not in used]
        attrs.append(gen_unknown(rng, cand, tags))
    if want_path_attrs and rng.random() < 0.12:
        # AIGP (RFC 7311): optional non-transitive, one TLV of type 1 and length 11.  M-Wire carries it as the bytes
        # it is; whether it is REPORTED is a session parameter (`capability aigp`, the AIGP_SESSION of RFC 7311 3.3)
        metric = rng.choice([0, 1, 100, 2**32 - 1, 2**32, 2**64 - 1, rng.getrandbits(64)])
        attrs.append({'code': 26, 'f': ['01000b%016x' % metric], 'flags': '100' + ('1' if rng.random() < 0.15 else '0')})
        tags.add('aigp')
    attrs += mp
    order = rng.random()
    if order < 0.4:
        attrs.sort(key=lambda a: a['code'])
        tags.add('order-sorted')
    elif order < 0.5:
        attrs.sort(key=lambda a: -a['code'])
        tags.add('order-reversed')
    else:
        rng.shuffle(attrs)
        tags.add('order-shuffled')
    u['a'] = attrs
    for a in attrs:
        if a['flags'][3] == '1' and value_len(a, asn4) <= 255:
            tags.add('ext-flag-on-short')
        if a['flags'][2] == '1':
            tags.add('partial-bit')
        if value_len(a, asn4) > 255:
            tags.add('attr>255')
    for ns, wd, safi in [(u['w'], True, 1), (u['n'], False, 1)] + [(a['nlris'], a['code'] == 15, a['fam'][1]) for a in mp]:
        for n in ns:
            if n['pid'] is not None:
                tags.add('path-id')
            if len(n['labels']) > 1:
                tags.add('label-stack')
            if wd and safi in (4, 128) and not n['labels']:
                tags.add('withdraw-label-800000')
    tags.add('kind:' + kind)
    # size: trim routes until the message fits
    while update_len(u, asn4) + 19 > shape['max'] and (u['n'] or u['w']):
        (u['n'] or u['w']).pop()
    return u


def gen_merge_pair(rng, tags: set) -> tuple[list, list]:
    """AS_PATH (2-byte, AS_TRANS where the real AS is 4 bytes wide) and AS4_PATH as an OLD speaker
    on the path would have left them (RFC 6793 §4.2.2), plus the degenerate shapes."""
    x = rng.random()
    if x < 0.12:
        tags.add('as4-path-empty')  # F16
        return gen_segs(rng, False, allow_empty=False, simple=rng.random() < 0.7), []
    # the real path as seen by the last NEW speaker, then k OLD speakers prepended 2-byte ASNs
    simple = rng.random() < 0.6
    real = gen_segs(rng, True, allow_empty=False, simple=simple)
    as4 = [(t, list(a)) for t, a in real if t in (1, 2)] if rng.random() < 0.8 else [(t, list(a)) for t, a in real]
    as2 = [(t, [x if x < 65536 else AS_TRANS for x in a]) for t, a in real]
    if any(x >= 65536 for _, a in real for x in a):
        tags.add('as4-path-real-4byte')  # F20
    else:
        tags.add('as4-path-all-2byte')
    k = rng.choice([0, 0, 1, 2, 3])
    if k:
        pre = [gen_asn(rng, False) for _ in range(k)]
        if as2 and as2[0][0] == 2 and len(as2[0][1]) + k <= 255 and rng.random() < 0.7:
            as2[0] = (2, pre + as2[0][1])
        else:
            as2.insert(0, (2, pre))
        tags.add('old-speakers-prepended')
    y = rng.random()
    if y < 0.1 and as2:
        # AS_PATH shorter than AS4_PATH: AS4_PATH must be ignored
        as2 = [(2, [gen_asn(rng, False)])] if pathcount(as4) > 1 else as2
        if pathcount(as2) < pathcount(as4):
            tags.add('as4-longer-ignored')
    if any(t == 1 for t, _ in as2):
        tags.add('merge-with-set')
    if any(t in (3, 4) for t, _ in as2):
        tags.add('merge-with-confed')
    if any(t in (3, 4) for t, _ in as4):
        tags.add('as4-path-with-confed')  # RFC 6793 6: discarded by the receiver (F99)
    return as2, as4


def pathcount(segs) -> int:
    return sum(len(a) if t == 2 else 1 if t == 1 else 0 for t, a in segs)


def boundary_cases(rng, shape: dict, unknown_codes: list[int]) -> list[dict]:
    """Enumerated boundary values (not sampled): 255/256-byte attributes with either length field,
    255 AS numbers in a segment, empty AS_PATH, zero-length AS4_PATH, AS_TRANS + 4-byte AS4_PATH,
    End-of-RIB markers of every family, maximal NLRI lengths."""
    asn4 = shape['asn4']
    aps = [tuple(x) for x in shape['addpath']]
    out = []

    def base(tags) -> dict:
        pool = PrefixPool(rng)
        n = gen_nlri(rng, pool, 1, 1, (1, 1) in aps, False)
        a = [{'code': 1, 'f': ['0'], 'flags': '0100'}, {'code': 2, 'segs': [(2, [65001])], 'f': ['2:65001'], 'flags': '0100'}, {'code': 3, 'f': ['0a000001'], 'flags': '0100'}]
        return {'w': [], 'a': a, 'n': [n], 'tags': set(tags) | {'kind:boundary'}}

    # unknown transitive attribute of 254..257 bytes, both length fields where legal
    code = unknown_codes[0]
    for n in (254, 255, 256, 257):
        for ext in ('0', '1'):
            if n > 255 and ext == '0':
                continue
            u = base({'attr-len-255/256', 'unknown-transitive'})
            u['a'].append({'code': code, 'f': [bytes(i % 251 for i in range(n)).hex()], 'flags': '110' + ext})
            out.append(u)
    # communities 63 (252 bytes) / 64 (256 bytes)
    for n in (63, 64):
        u = base({'attr-len-255/256'})
        u['a'].append({'code': 8, 'f': [','.join(str((65000 << 16) + i) for i in range(n))], 'flags': '110' + ('1' if n == 64 else '0')})
        out.append(u)
    # AS_PATH: 255 AS numbers in one segment; two segments of 255; empty; extended length on an empty path
    w = 4 if asn4 else 2
    for segs in ([(2, list(range(1, 256)))], [(2, list(range(1, 256))), (2, list(range(300, 555)))], [], [(1, list(range(1, 256)))]):
        u = base({'segment-255'} if segs else {'as-path-empty'})
        a2 = next(a for a in u['a'] if a['code'] == 2)
        a2['segs'] = segs
        a2['f'] = [show_segs(segs)]
        vl = sum(2 + w * len(s[1]) for s in segs)
        a2['flags'] = '010' + ('1' if vl > 255 else '0')
        out.append(u)
        if not segs:
            u2 = base({'as-path-empty', 'ext-flag-on-short'})
            a2 = next(a for a in u2['a'] if a['code'] == 2)
            a2['segs'] = []
            a2['f'] = ['-']
            a2['flags'] = '0101'
            out.append(u2)
    if not asn4:
        # F16: zero-length AS4_PATH; F20: the canonical RFC 6793 case; AS4_PATH longer than AS_PATH
        for as2, as4, tg in (
            ([(2, [1, 2, 3])], [], 'as4-path-empty'),
            ([(2, [65002, AS_TRANS, 3])], [(2, [70000, 3])], 'as4-path-real-4byte'),
            ([(2, [65002, 100, 3])], [(2, [100, 3])], 'as4-path-all-2byte'),
            ([(2, [AS_TRANS])], [(2, [70000, 3])], 'as4-longer-ignored'),
            ([(2, [1, 2]), (1, [5, 6]), (2, [AS_TRANS])], [(2, [70000])], 'merge-with-set'),
            ([(3, [64512]), (2, [1, AS_TRANS])], [(2, [70000])], 'merge-with-confed'),
            # F99: confederation segments are not valid in an AS4_PATH; a receiver discards them (RFC 6793 6)
            ([(3, [64512, AS_TRANS]), (2, [AS_TRANS, 3])], [(3, [64512, 70001]), (2, [70000, 3])], 'as4-path-with-confed'),
            ([(3, [64512]), (2, [AS_TRANS, 3])], [(2, [70000, 3]), (4, [64513])], 'as4-path-with-confed'),
        ):
            u = base({'as4-path', tg})
            a2 = next(a for a in u['a'] if a['code'] == 2)
            a2['segs'] = as2
            a2['f'] = [show_segs(as2)]
            u['a'].append({'code': 17, 'segs': as4, 'f': [show_segs(as4)], 'flags': '1100'})
            out.append(u)
    # End-of-RIB of every family
    out.append({'w': [], 'a': [], 'n': [], 'tags': {'eor', 'kind:boundary'}})
    for fam in IP_FAMILIES:
        for ext in ('0', '1'):
            out.append({'w': [], 'a': [{'code': 15, 'fam': fam, 'nlris': [], 'flags': '100' + ext}], 'n': [], 'tags': {'eor', 'kind:boundary'}})
    # longest NLRIs: /32, /128, VPNv6 /128 with two labels (240 bits), host routes with path ids
    pool = PrefixPool(rng)
    for fam in IP_FAMILIES:
        afi, safi = fam
        ap = fam in aps
        maxbits = 32 if afi == 1 else 128
        n = gen_nlri(rng, pool, afi, safi, ap, False)
        n['plen'] = maxbits
        n['pfx'] = (bytes([10, 1, 2, 3]) if afi == 1 else bytes([0x20, 1, 0x0D, 0xB8] + [0] * 11 + [1])).hex()
        if safi in (4, 128):
            n['labels'] = [16, 1048575] if safi == 128 else [16, 17, 1048575]
        a = {'code': 14, 'fam': fam, 'nh': ('00' * 8 if safi == 128 else '') + ('0a000001' if afi == 1 else '20010db8' + '00' * 11 + '01'), 'nlris': [n], 'flags': '1000'}
        u = {'w': [], 'a': [{'code': 1, 'f': ['2'], 'flags': '0100'}, {'code': 2, 'segs': [], 'f': ['-'], 'flags': '0100'}, a], 'n': [], 'tags': {'max-nlri', 'kind:boundary', f'reach-{afi}.{safi}'}}
        out.append(u)
    # classic IPv4 NLRI + MP_REACH of every other family reachable through the same IPv4 address
    # (and, for contrast, a different one), MP attribute before and after NEXT_HOP
    for fam in [(1, 2), (1, 4), (1, 128), (1, 1)]:
        for same in (True, False):
            for mp_first in (False, True):
                u = base({'same-nexthop-classic+mp' if same else 'other-nexthop-classic+mp', f'reach-{fam[0]}.{fam[1]}'})
                u['n'] = [gen_nlri(rng, pool, 1, 1, (1, 1) in aps, False) for _ in range(2)]
                ns = [gen_nlri(rng, pool, fam[0], fam[1], fam in aps, False) for _ in range(2)]
                v4 = '0a000001' if same else '0a000002'
                a = {'code': 14, 'fam': fam, 'nh': ('00' * 8 if fam[1] == 128 else '') + v4, 'nlris': ns, 'flags': '1000'}
                if mp_first:
                    u['a'].insert(0, a)
                else:
                    u['a'].append(a)
                out.append(u)
    # VPN-IPv6 next hop with a link-local address: 48 bytes (RFC 4659 §3.2.1.1)
    n = gen_nlri(rng, pool, 2, 128, (2, 128) in aps, False)
    nh = '00' * 8 + '20010db8' + '00' * 11 + '01' + '00' * 8 + 'fe80' + '00' * 13 + '01'
    out.append({'w': [], 'a': [{'code': 1, 'f': ['0'], 'flags': '0100'}, {'code': 2, 'segs': [], 'f': ['-'], 'flags': '0100'}, {'code': 14, 'fam': (2, 128), 'nh': nh, 'nlris': [n], 'flags': '1000'}], 'n': [], 'tags': {'vpn6-nexthop-48', 'kind:boundary', 'reach-2.128'}})
    # the unspecified address as the global part of a 32-byte next hop (and alone): the next hop reported is the
    # first address of the field, whatever it is
    for nh6, tag in (('00' * 16 + 'fe80' + '00' * 13 + '01', 'nexthop-unspecified-global'), ('00' * 16, 'nexthop-unspecified'), ('fe80' + '00' * 13 + '01', 'nexthop-link-local-alone')):
        n6 = gen_nlri(rng, pool, 2, 1, (2, 1) in aps, False)
        out.append({'w': [], 'a': [{'code': 1, 'f': ['0'], 'flags': '0100'}, {'code': 2, 'segs': [], 'f': ['-'], 'flags': '0100'}, {'code': 14, 'fam': (2, 1), 'nh': nh6, 'nlris': [n6], 'flags': '1000'}], 'n': [], 'tags': {tag, 'kind:boundary', 'reach-2.1'}})
    return out
