#!/bin/sh
# MANIFEST.setup_cmd: regenerate the tables from /repo, build the Lean library (models, lemmas,
# property theorems) and the line-protocol driver. Nothing is fetched.
set -e
cd "$(dirname "$0")"
if [ -f harness/gen_tables.py ]; then PYTHONPATH=/repo/src /venv/bin/python harness/gen_tables.py; fi
cd lean
lake build ExaModel || echo "WARNING: library build incomplete (the checks rebuild what they need and report what fails)"
for f in Drv/*.lean; do
  m=$(basename "$f" .lean | tr 'A-Z' 'a-z')
  lake build "drv_$m" || echo "WARNING: driver drv_$m does not build (its check will report it)"
done
