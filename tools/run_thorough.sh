#!/bin/sh
# run the thorough tier of every check, 3 at a time; logs in /tmp/exp/thorough/
mkdir -p /tmp/exp/thorough
cd /verif
printf '%s\n' C01 C02 C03 C04 C05 C06 C07 C08 C09 C10 C11 C12 C13 C14 C15 C16 C17 C18 C19 C20 | xargs -P 3 -I{} sh -c 'VERIF_TIER=thorough VERIF_SEED=5 ./check {} --tier thorough > /tmp/exp/thorough/{}.log 2>&1; echo "{} rc=$? $(tail -1 /tmp/exp/thorough/{}.log)" >> /tmp/exp/thorough/summary.txt'
