#!/bin/sh
# tools/run_thorough.sh [PAR]: the thorough tier of every check on the unchanged tree, PAR at a time (default 3);
# summary on stdout. Meant for `vp run --timeout 8h -- tools/run_thorough.sh` (builds the Lean tree of the snapshot first).
cd "$(dirname "$0")/.."
PAR=${1:-3}
[ -d lean/.lake/build/bin ] || ./setup.sh > /tmp/exp-setup-th.log 2>&1
D=/tmp/exp/thorough-$$; mkdir -p $D
printf '%s\n' C01 C02 C03 C04 C05 C06 C07 C08 C09 C10 C11 C12 C13 C14 C15 C16 C17 C18 C19 C20 | xargs -P $PAR -I{} sh -c "s=\$(date +%s); VERIF_SEED=5 ./check {} --tier thorough > $D/{}.log 2>&1; rc=\$?; e=\$(date +%s); echo \"{} rc=\$rc \$((e-s))s \$(grep -h 'VIOLATION\|INFRA\|obligations=' $D/{}.log | head -3 | cut -c1-300)\""
