#!/bin/sh
# tools/multi_seed.sh [seeds…]: every quick check on the unchanged tree for several VERIF_SEEDs; prints what is not rc=0.
# Meant for `vp run -- tools/multi_seed.sh 11 12 13 …` (builds the Lean tree of the snapshot first).
cd "$(dirname "$0")/.."
[ -d lean/.lake/build/bin ] || ./setup.sh > /tmp/exp-setup-ms.log 2>&1
mkdir -p /tmp/exp
for s in "$@"; do
  D=/tmp/exp/ms-$s; rm -rf $D; mkdir -p $D
  printf '%s\n' C01 C02 C03 C04 C05 C06 C07 C08 C09 C10 C11 C12 C13 C14 C15 C16 C17 C18 C19 C20 | xargs -P 5 -I{} sh -c "VERIF_SEED=$s ./check {} --tier quick > $D/{}.log 2>&1; echo \"seed $s {} rc=\$? \$(grep -h 'VIOLATION\|INFRA\|DISAGREEMENT' $D/{}.log | head -3 | cut -c1-400)\"" | grep -v "rc=0 $" 
  echo "seed $s done"
done
