#!/usr/bin/env python3
"""tools/try_seed.py <seed-id> <property> [tier]  — apply seeded/<id>/patch.diff to /repo, run the demo and the
check, undo, and record what happened in seeded/<id>/result.json. Never leaves /repo modified."""
import json, subprocess, sys, os, time
from pathlib import Path
V = Path(__file__).resolve().parent.parent
sid, prop = sys.argv[1], sys.argv[2]
tier = sys.argv[3] if len(sys.argv) > 3 else 'quick'
d = V / 'seeded' / sid
def sh(cmd, **kw):
    return subprocess.run(cmd, shell=True, stdout=subprocess.PIPE, stderr=subprocess.STDOUT, text=True, **kw)
assert sh('git -C /repo status --porcelain --untracked-files=no').stdout.strip() == '', '/repo not clean'
res = {'seed': sid, 'property': prop, 'tier': tier}
demo = d / 'demo.py'
env = dict(os.environ, PYTHONPATH='/repo/src', exabgp_log_enable='false')
if demo.exists():
    res['demo_unpatched_rc'] = sh(f'/venv/bin/python {demo}', env=env, cwd='/tmp').returncode
r = sh(f'git -C /repo apply {d}/patch.diff')
assert r.returncode == 0, r.stdout
try:
    if demo.exists():
        res['demo_patched_rc'] = sh(f'/venv/bin/python {demo}', env=env, cwd='/tmp').returncode
    t = time.time()
    c = sh(f'./check {prop} --tier {tier}', cwd=V, env=dict(os.environ, VERIF_BUDGET=os.environ.get('VERIF_BUDGET', '90')))
    res['check_rc'] = c.returncode
    res['check_wall_s'] = round(time.time() - t, 1)
    lines = [l for l in c.stdout.splitlines() if l.startswith(('VIOLATION', 'KNOWN-FINDING', 'BROKEN', 'OK ', 'obligations='))]
    res['check_lines'] = lines[:12]
    res['with_failing_input'] = any(l.startswith('VIOLATION') and 'no-failing-input-found' not in l for l in lines)
finally:
    sh('git -C /repo checkout -- .')
(d / 'result.json').write_text(json.dumps(res, indent=1))
print(json.dumps(res, indent=1))
