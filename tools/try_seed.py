#!/usr/bin/env python3
"""tools/try_seed.py <seed-id> <property> [tier] [--inplace]

Run the demonstration and the check against the seeded change seeded/<id>/patch.diff and record what
happened in seeded/<id>/result.json. Default: the patch is applied to a scratch worktree of /repo's HEAD
(/tmp/seedwt-<id>, removed afterwards) and the check runs with VERIF_REPO pointing at it, so that several
people can work at once. --inplace applies it to /repo itself (git apply … git checkout -- .), as the task
brief describes; /repo must be clean."""
import json, subprocess, sys, os, time
from pathlib import Path
V = Path(__file__).resolve().parent.parent
args = [a for a in sys.argv[1:] if a != '--inplace']
inplace = '--inplace' in sys.argv
sid, prop = args[0], args[1]
tier = args[2] if len(args) > 2 else 'quick'
d = V / 'seeded' / sid
def sh(cmd, **kw):
    return subprocess.run(cmd, shell=True, stdout=subprocess.PIPE, stderr=subprocess.STDOUT, text=True, **kw)
res = {'seed': sid, 'property': prop, 'tier': tier, 'mode': 'inplace' if inplace else 'worktree'}
demo = d / 'demo.py'
env = dict(os.environ, PYTHONPATH='/repo/src', exabgp_log_enable='false')
if demo.exists():
    res['demo_unpatched_rc'] = sh(f'timeout 300 /venv/bin/python {demo}', env=env, cwd='/tmp').returncode
if inplace:
    assert sh('git -C /repo status --porcelain --untracked-files=no').stdout.strip() == '', '/repo not clean'
    target = '/repo'
else:
    target = f'/tmp/seedwt-{sid}'
    sh(f'git -C /repo worktree remove --force {target}')
    r = sh(f'git -C /repo worktree add --detach {target} HEAD')
    assert r.returncode == 0, r.stdout
r = sh(f'git -C {target} apply {d}/patch.diff')
if r.returncode != 0:
    # /repo has moved on since the change was written (repairs in the same lines): try a three-way merge
    r = sh(f'git -C {target} apply --3way {d}/patch.diff')
if r.returncode != 0:
    res['patch_applies'] = False
    res['note'] = 'the change no longer applies to /repo HEAD (repairs since it was written touch the same lines): ' + r.stdout.strip().splitlines()[-1][:200]
    if not inplace:
        sh(f'git -C /repo worktree remove --force {target}')
    else:
        sh('git -C /repo checkout -- .')
    old = json.loads((d / 'result.json').read_text()) if (d / 'result.json').exists() else {}
    old['reapply'] = res
    (d / 'result.json').write_text(json.dumps(old, indent=1))
    print(json.dumps(res, indent=1))
    sys.exit(0)
penv = dict(os.environ, PYTHONPATH=f'{target}/src', exabgp_log_enable='false')
try:
    if demo.exists():
        res['demo_patched_rc'] = sh(f'timeout 300 /venv/bin/python {demo}', env=penv, cwd='/tmp').returncode
    t = time.time()
    cenv = dict(os.environ, VERIF_BUDGET=os.environ.get('VERIF_BUDGET', '90'))
    if not inplace:
        cenv.update(VERIF_REPO=target, PYTHONPATH=f'{target}/src')
    c = sh(f'./check {prop} --tier {tier}', cwd=V, env=cenv)
    res['check_rc'] = c.returncode
    res['check_wall_s'] = round(time.time() - t, 1)
    lines = [l for l in c.stdout.splitlines() if l.startswith(('VIOLATION', 'KNOWN-FINDING', 'BROKEN', 'OK ', 'obligations='))]
    res['check_lines'] = lines[:12]
    res['with_failing_input'] = any(l.startswith('VIOLATION') and 'no-failing-input-found' not in l for l in lines)
finally:
    if inplace:
        sh('git -C /repo checkout -- .')
    else:
        sh(f'git -C /repo worktree remove --force {target}')
(d / 'result.json').write_text(json.dumps(res, indent=1))
print(json.dumps(res, indent=1))
