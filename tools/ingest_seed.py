#!/usr/bin/env python3
"""tools/ingest_seed.py <out-dir> <seed-id> [--no-suite]

Confirm a seeded change delivered by a sub-agent (patch.diff, demo.py, meta.json in <out-dir>) in a
scratch worktree of /repo's HEAD: the patch applies, the demonstration exits 0 without it and non-zero
with it, the repository's pinned test suite still passes with it (every test of BASELINE stable_pass).
Only then copy it to seeded/<seed-id>/ and record what was run in meta.json ("confirmed")."""
import json, os, shutil, subprocess, sys, tempfile, xml.etree.ElementTree as ET
from pathlib import Path

V = Path(__file__).resolve().parent.parent
out, sid = Path(sys.argv[1]), sys.argv[2]
suite = '--no-suite' not in sys.argv


def sh(cmd, **kw):
    return subprocess.run(cmd, shell=True, stdout=subprocess.PIPE, stderr=subprocess.STDOUT, text=True, **kw)


meta = json.loads((out / 'meta.json').read_text())
wt = f'/tmp/ingest-{sid}'
sh(f'git -C /repo worktree remove --force {wt}')
r = sh(f'git -C /repo worktree add --detach {wt} HEAD')
assert r.returncode == 0, r.stdout
res = {}
try:
    env = dict(os.environ, PYTHONPATH=f'{wt}/src', exabgp_log_enable='false')
    for k in ('PYENV_VERSION', 'PYENV_DIR', 'PYENV_HOOK_PATH', '_PYENV_INSTALL_PREFIX'):
        env.pop(k, None)
    # a pyenv shim in the parent environment pins its own interpreter for every `python3` the suite starts
    env['PATH'] = ':'.join(x for x in env.get('PATH', '').split(':') if not any(y in x for y in ('/.pyenv/versions/', '/.pyenv/libexec', '/.pyenv/plugins/')))
    a = sh(f'timeout 600 /venv/bin/python {out}/demo.py', env=env, cwd='/tmp')
    res['demo_unpatched_rc'] = a.returncode
    r = sh(f'git -C {wt} apply {out}/patch.diff')
    res['patch_applies'] = r.returncode == 0
    if r.returncode:
        print(r.stdout)
    else:
        b = sh(f'timeout 600 /venv/bin/python {out}/demo.py', env=env, cwd='/tmp')
        res['demo_patched_rc'] = b.returncode
        res['demo_patched_tail'] = b.stdout[-600:]
        touched = sh(f'git -C {wt} diff --stat').stdout
        res['touches_tests'] = ' tests/' in touched or touched.startswith('tests/')
        if suite:
            base = json.load(open('/root/.vp/BASELINE.json'))
            with tempfile.TemporaryDirectory() as d:
                j = os.path.join(d, 'junit.xml')
                cmd = base['cmd'].replace('cd /repo', f'cd {wt}').replace('<file>', j)
                sh(cmd, env=env)
                passed = set()
                for tc in ET.parse(j).getroot().iter('testcase'):
                    if not any(c.tag in ('failure', 'error', 'skipped') for c in tc):
                        passed.add(f"{tc.get('classname')}::{tc.get('name')}")
            missing = [t for t in base['stable_pass'] if t not in passed]
            res['suite_missing'] = missing[:10]
            res['suite_ok'] = not missing
finally:
    sh(f'git -C /repo worktree remove --force {wt}')
ok = res.get('demo_unpatched_rc') == 0 and res.get('patch_applies') and res.get('demo_patched_rc') not in (0, None) and (res.get('suite_ok') or not suite) and not res.get('touches_tests')
res['confirmed'] = bool(ok)
print(json.dumps(res, indent=1))
if ok:
    d = V / 'seeded' / sid
    d.mkdir(parents=True, exist_ok=True)
    for f in ('patch.diff', 'demo.py'):
        shutil.copy(out / f, d / f)
    meta['confirmed'] = {k: res[k] for k in ('demo_unpatched_rc', 'demo_patched_rc', 'suite_ok') if k in res}
    meta['confirmed']['how'] = 'tools/ingest_seed.py: scratch worktree of /repo HEAD, demo without/with the patch, pinned suite (BASELINE stable_pass) with the patch'
    (d / 'meta.json').write_text(json.dumps(meta, indent=2))
    print(f'kept as seeded/{sid}')
sys.exit(0 if ok else 1)
