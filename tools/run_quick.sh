#!/bin/sh
# run the quick tier of every check, 4 at a time; logs in /tmp/exp/quick$SEED/
SEED=${VERIF_SEED:-0}
D=/tmp/exp/quick$SEED
rm -rf $D; mkdir -p $D
cd /verif
printf '%s\n' C01 C02 C03 C04 C05 C06 C07 C08 C09 C10 C11 C12 C13 C14 C15 C16 C17 C18 C19 C20 | xargs -P ${PAR:-4} -I{} sh -c "s=\$(date +%s); VERIF_SEED=$SEED ./check {} --tier quick > $D/{}.log 2>&1; rc=\$?; e=\$(date +%s); echo \"{} rc=\$rc \$((e-s))s \$(grep -c KNOWN-FINDING $D/{}.log) known; \$(grep VIOLATION $D/{}.log | head -2)\" >> $D/summary.txt"
sort $D/summary.txt
