#!/bin/sh
# tools/run_thorough_some.sh <PAR> <check>...: the thorough tier of the named checks on the unchanged tree, PAR at a time.
cd "$(dirname "$0")/.."
PAR=$1; shift
[ -d lean/.lake/build/bin ] || ./setup.sh > /tmp/exp-setup-th.log 2>&1
D=/tmp/exp/thorough-$$; mkdir -p $D
printf '%s\n' "$@" | xargs -P $PAR -I{} sh -c "s=\$(date +%s); VERIF_SEED=6 ./check {} --tier thorough > $D/{}.log 2>&1; rc=\$?; e=\$(date +%s); echo \"{} rc=\$rc \$((e-s))s \$(grep -h 'VIOLATION\|INFRA\|obligations=' $D/{}.log | head -3 | cut -c1-300)\""
