#!/usr/bin/env python3
"""tools/try_refactor.py <refactor-id> <property> [tier]

The opposite of try_seed.py: refactors/<id>/patch.diff is a behaviour-preserving rewrite of the code the
property is anchored in (written by an independent sub-agent that saw only the property text). The check
must stay quiet on it: exit 0 and no VIOLATION line. The patch is applied to a scratch worktree of /repo's
HEAD (/tmp/rfwt-<id>, removed afterwards) and the check runs with VERIF_REPO pointing at it. The outcome
is recorded in refactors/<id>/result.json."""
import json, subprocess, sys, os, time
from pathlib import Path
V = Path(__file__).resolve().parent.parent
rid, prop = sys.argv[1], sys.argv[2]
tier = sys.argv[3] if len(sys.argv) > 3 else 'quick'
d = V / 'refactors' / rid
def sh(cmd, **kw):
    return subprocess.run(cmd, shell=True, stdout=subprocess.PIPE, stderr=subprocess.STDOUT, text=True, **kw)
res = {'refactor': rid, 'property': prop, 'tier': tier}
target = f'/tmp/rfwt-{rid}'
sh(f'git -C /repo worktree remove --force {target}')
r = sh(f'git -C /repo worktree add --detach {target} HEAD')
assert r.returncode == 0, r.stdout
try:
    r = sh(f'git -C {target} apply {d}/patch.diff')
    if r.returncode != 0:
        res['applies'] = False
        res['apply_error'] = r.stdout[-400:]
    else:
        res['applies'] = True
        t = time.time()
        cenv = dict(os.environ, VERIF_BUDGET=os.environ.get('VERIF_BUDGET', '90'), VERIF_REPO=target,
                    PYTHONPATH=f'{target}/src')
        c = sh(f'timeout 1200 ./check {prop} --tier {tier}', cwd=V, env=cenv)
        res['check_rc'] = c.returncode
        res['check_wall_s'] = round(time.time() - t, 1)
        lines = [l for l in c.stdout.splitlines() if l.startswith(('VIOLATION', 'BROKEN', 'OK ', 'obligations=', 'ERROR'))]
        res['check_lines'] = lines[:12]
        res['quiet'] = c.returncode == 0 and not any(l.startswith('VIOLATION') for l in lines)
        if not res['quiet']:
            res['tail'] = c.stdout.splitlines()[-25:]
finally:
    sh(f'git -C /repo worktree remove --force {target}')
(d / 'result.json').write_text(json.dumps(res, indent=1))
print(json.dumps(res, indent=1))
sys.exit(0 if res.get('quiet') else 1)
