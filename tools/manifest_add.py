#!/usr/bin/env python3
"""tools/manifest_add.py <Cxx> <design_ref> <technique> <text-file> <note-file> — add/replace a check entry."""
import json, sys
pid, ref, tech, textf, notef = sys.argv[1:6]
m = json.load(open('/verif/MANIFEST.json'))
m['checks'] = [c for c in m['checks'] if c['property_id'] != pid]
m['checks'].append({
    'property_id': pid, 'quick_cmd': f'./check {pid} --tier quick', 'thorough_cmd': f'./check {pid} --tier thorough',
    'evidence_file': f'evidence/{pid}.json', 'replay_cmd_template': f'./check {pid} --replay {{path}}', 'engine': 'lean4-examodel',
    'level_claimed': {'category': 'proof', 'text': open(textf).read().strip(), 'design_ref': ref},
    'level_note': open(notef).read().strip(), 'technique': tech})
m['checks'].sort(key=lambda c: c['property_id'])
if pid not in m['engines'][0]['serves_properties']:
    m['engines'][0]['serves_properties'].append(pid)
    m['engines'][0]['serves_properties'].sort()
m['not_applicable'] = [x for x in m['not_applicable'] if x['property_id'] != pid]
json.dump(m, open('/verif/MANIFEST.json', 'w'), indent=1)
print('checks:', [c['property_id'] for c in m['checks']])
