#!/bin/sh
# tools/refactor_pipeline.sh <prop> <n>: take /tmp/rf-<prop>-<n>-out (patch.diff, meta.json), confirm the pinned suite passes with
# it (scratch worktree), keep it as refactors/<prop>-<n>/ and run the check against it: the check must stay quiet.
p=$1; n=$2; id=$p-$n; out=/tmp/rf-$p-$n-out
cd /verif
wt=/tmp/ingest-rf-$id
git -C /repo worktree remove --force $wt 2>/dev/null
git -C /repo worktree add --detach $wt HEAD > /dev/null 2>&1 || { echo "worktree failed"; exit 1; }
if ! git -C $wt apply $out/patch.diff; then echo "REFACTOR $id: patch does not apply"; git -C /repo worktree remove --force $wt; exit 1; fi
if git -C $wt diff --stat | grep -q " tests/"; then echo "REFACTOR $id: touches tests"; git -C /repo worktree remove --force $wt; exit 1; fi
j=/tmp/exp/rf-$id.xml
( cd $wt && env -u PYENV_VERSION -u PYENV_DIR PATH="$(echo $PATH | tr ':' '\n' | grep -v '/.pyenv/' | paste -sd:)" PYTHONPATH=$wt/src exabgp_log_enable=false /venv/bin/python -m pytest -q -p no:cacheprovider --timeout=900 --continue-on-collection-errors --junitxml=$j > /dev/null 2>&1 )
python3 - "$j" <<'PY' || { echo "REFACTOR $id: suite does not pass with it"; git -C /repo worktree remove --force /tmp/ingest-rf-$id; exit 1; }
import json, sys, xml.etree.ElementTree as ET
base = json.load(open('/root/.vp/BASELINE.json'))
passed = set()
for tc in ET.parse(sys.argv[1]).getroot().iter('testcase'):
    if not any(c.tag in ('failure', 'error', 'skipped') for c in tc):
        passed.add(f"{tc.get('classname')}::{tc.get('name')}")
missing = [t for t in base['stable_pass'] if t not in passed]
print('suite missing', len(missing), missing[:5])
sys.exit(1 if missing else 0)
PY
git -C /repo worktree remove --force $wt
mkdir -p refactors/$id && cp $out/patch.diff $out/meta.json refactors/$id/
git -C /repo worktree remove --force /tmp/rf-$p-$n 2>/dev/null
python3 tools/try_refactor.py $id $p > /tmp/exp/try-rf-$id.log 2>&1
python3 -c "
import json
r=json.load(open('refactors/$id/result.json'))
print('REFACTOR $id', 'quiet' if r.get('quiet') else 'NOT QUIET', r.get('check_rc'), r.get('check_wall_s'))
for l in r.get('check_lines',[]): print('   ', l[:220])
"
