#!/bin/sh
# tools/seed_pipeline.sh <prop> <n>: ingest /tmp/seed-<prop>-<n>-out as seeded/<prop>-<k> (first free k >= n;
# confirmations in a scratch worktree), then run the check against it
p=$1; n=$2
cd /verif
k=$n
while [ -e seeded/$p-$k ] || [ -e /tmp/exp/claim-$p-$k ]; do k=$((k+1)); done
touch /tmp/exp/claim-$p-$k
id=$p-$k
python3 tools/ingest_seed.py /tmp/seed-$p-$n-out $id > /tmp/exp/ingest-$id.log 2>&1 || { echo "INGEST FAILED $id (from /tmp/seed-$p-$n-out)"; tail -30 /tmp/exp/ingest-$id.log; exit 1; }
git -C /repo worktree remove --force /tmp/seed-$p-$n 2>/dev/null
python3 tools/try_seed.py $id $p > /tmp/exp/try-$id.log 2>&1
python3 -c "
import json
r=json.load(open('seeded/$id/result.json'))
print('$id', 'demo', r.get('demo_unpatched_rc'), r.get('demo_patched_rc'), 'check_rc', r.get('check_rc'), 'input' if r.get('with_failing_input') else 'no-input', r.get('check_wall_s'))
for l in r.get('check_lines',[]): print('   ', l[:200])
"
