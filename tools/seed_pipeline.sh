#!/bin/sh
# tools/seed_pipeline.sh <prop> <n>: ingest /tmp/seed-<prop>-<n>-out as seeded/<prop>-<n> (confirmations), then run the check against it
p=$1; n=$2
cd /verif
python3 tools/ingest_seed.py /tmp/seed-$p-$n-out $p-$n > /tmp/exp/ingest-$p-$n.log 2>&1 || { echo "INGEST FAILED $p-$n"; tail -30 /tmp/exp/ingest-$p-$n.log; exit 1; }
git -C /repo worktree remove --force /tmp/seed-$p-$n 2>/dev/null
python3 tools/try_seed.py $p-$n $p > /tmp/exp/try-$p-$n.log 2>&1
python3 -c "
import json
r=json.load(open('seeded/$p-$n/result.json'))
print('$p-$n', 'demo', r.get('demo_unpatched_rc'), r.get('demo_patched_rc'), 'check_rc', r.get('check_rc'), 'input' if r.get('with_failing_input') else 'no-input', r.get('check_wall_s'))
for l in r.get('check_lines',[]): print('   ', l[:200])
"
