#!/bin/sh
# tools/par_refactors.sh [K]: every behaviour-preserving rewrite of refactors/ against its check, in K scratch copies of
# /verif side by side (own Lean tree each); result.json copied back. The checks must stay quiet. Scratch under /tmp.
K=${1:-5}
cd /verif
ls refactors > /tmp/exp/rflist.txt
i=0
while [ $i -lt $K ]; do
  rsync -a --delete --exclude replays /verif/ /tmp/vr$i/
  ( awk "NR % $K == $i" /tmp/exp/rflist.txt | while read s; do
      p=${s%-*}
      python3 /tmp/vr$i/tools/try_refactor.py $s $p > /tmp/exp/parrf-$s.log 2>&1
      cp /tmp/vr$i/refactors/$s/result.json /verif/refactors/$s/result.json
      python3 -c "
import json
r=json.load(open('/verif/refactors/$s/result.json'))
print('$s', 'applies' if r.get('applies') else 'NO-APPLY', 'check_rc', r.get('check_rc'), 'quiet' if r.get('quiet') else 'NOT-QUIET' if r.get('applies') else '-')
"
    done > /tmp/exp/parrf-$i.txt 2>&1; rm -rf /tmp/vr$i ) &
  i=$((i+1))
done
wait
cat /tmp/exp/parrf-?.txt | sort
