#!/bin/sh
# tools/round.sh <n> <prop>...: a round of seeded changes delivered by sub-agents in /tmp/seed-<prop>-<n>-out
# (patch.diff, demo.py, meta.json; their worktrees /tmp/seed-<prop>-<n> are removed).
#   1. every delivery is confirmed side by side (tools/ingest_seed.py: scratch worktree of /repo HEAD, the patch
#      applies, the demonstration exits 0 without it and non-zero with it, the pinned suite passes with it) and
#      copied to seeded/<prop>-<n>/;
#   2. every change is run against its check in scratch copies of /verif (one Lean tree each), 5 at a time;
#      result.json is copied back.  Summary on stdout.  Scratch under /tmp only.
n=$1; shift
cd /verif
mkdir -p /tmp/exp
rm -f /tmp/exp/round-$n-ingest.txt
for p in "$@"; do
  ( python3 tools/ingest_seed.py /tmp/seed-$p-$n-out $p-$n > /tmp/exp/ingest-$p-$n.log 2>&1; echo "$p-$n ingest rc=$?" >> /tmp/exp/round-$n-ingest.txt ) &
done
wait
cat /tmp/exp/round-$n-ingest.txt
for p in "$@"; do git -C /repo worktree remove --force /tmp/seed-$p-$n 2>/dev/null; done
git -C /repo worktree prune
: > /tmp/exp/round-$n-list.txt
for p in "$@"; do [ -d seeded/$p-$n ] && echo "$p-$n" >> /tmp/exp/round-$n-list.txt; done
K=5; i=0
while [ $i -lt $K ]; do
  rsync -a --delete --exclude replays /verif/ /tmp/vw$i/
  ( awk "NR % $K == $i" /tmp/exp/round-$n-list.txt | while read s; do
      p=${s%-$n}
      python3 /tmp/vw$i/tools/try_seed.py $s $p > /tmp/exp/parseed-$s.log 2>&1
      cp /tmp/vw$i/seeded/$s/result.json /verif/seeded/$s/result.json
      python3 -c "
import json
r=json.load(open('/verif/seeded/$s/result.json'))
print('$s', 'demo', r.get('demo_unpatched_rc'), r.get('demo_patched_rc'), 'check_rc', r.get('check_rc'), 'input' if r.get('with_failing_input') else 'no-input', r.get('check_wall_s'))
for l in r.get('check_lines',[]):
    if not l.startswith(('KNOWN','obligations=')): print('    ', l[:200])
"
    done > /tmp/exp/round-$n-$i.txt 2>&1; rm -rf /tmp/vw$i ) &
  i=$((i+1))
done
wait
cat /tmp/exp/round-$n-?.txt
