#!/usr/bin/env python3
"""Regenerate the machine-written tables of DESIGN.md (between the AUTO markers) from
known_findings.json, seeded/*/meta.json + result.json and MANIFEST.json."""
import json, re, glob, os
V = os.path.dirname(os.path.dirname(os.path.abspath(__file__)))
def esc(s): return str(s).replace('|', '\\|').replace('\n', ' ')
k = json.load(open(f'{V}/known_findings.json'))['findings']
rows = []
seen = set()
for f in k:
    key = (f['id'], f['status'], f.get('commit', ''))
    props = sorted({g['property'] for g in k if g['id'] == f['id'] and g['status'] == f['status']})
    if (f['id'], f['status']) in seen:
        continue
    seen.add((f['id'], f['status']))
    rows.append((f['id'], ', '.join(props), f['status'], f.get('commit', ''), f['what']))
def num(i):
    m = re.match(r'F(\d+)', i[0]); return (int(m.group(1)) if m else 999, i[0])
rows.sort(key=num)
ft = '| id | properties | status | commit | what |\n|---|---|---|---|---|\n' + '\n'.join(f'| {a} | {b} | {c} | {d} | {esc(e)[:330]} |' for a, b, c, d, e in rows) + '\n'
st = '| seed | property | what it changes | needs | demo (clean→patched) | check result |\n|---|---|---|---|---|---|\n'
for d in sorted(glob.glob(f'{V}/seeded/*')):
    sid = os.path.basename(d)
    try:
        m = json.load(open(f'{d}/meta.json')); r = json.load(open(f'{d}/result.json'))
    except Exception:
        continue
    res = 'caught, failing input' if r.get('check_rc') == 1 and r.get('with_failing_input') else ('caught, no failing input found' if r.get('check_rc') == 1 else 'MISSED')
    st += f"| {sid} | {r.get('property')} | {esc(m.get('summary',''))[:260]} | {esc(m.get('needs',''))[:200]} | {r.get('demo_unpatched_rc')}→{r.get('demo_patched_rc')} | {res} |\n"
man = json.load(open(f'{V}/MANIFEST.json'))
ct = '| property | technique | evidence |\n|---|---|---|\n' + ''.join(f"| {c['property_id']} | {esc(c.get('technique',''))} | {c['evidence_file']} |\n" for c in man['checks'])
p = f'{V}/DESIGN.md'
s = open(p).read()
for name, body in (('FINDINGS', ft), ('SEEDS', st), ('CHECKS', ct)):
    a, b = f'<!-- AUTO:{name} -->', f'<!-- /AUTO:{name} -->'
    if a in s:
        s = s[:s.index(a) + len(a)] + '\n' + body + s[s.index(b):]
open(p, 'w').write(s)
print('findings', len(rows), 'seeds', st.count('\n') - 2)
