#!/bin/sh
# tools/par_seeds.sh [K]: every seeded change against its check, K scratch copies of /verif side by side (each has its
# own lean tree, so the regenerated tables do not collide); result.json files are copied back. Scratch copies under /tmp.
K=${1:-6}
cd /verif
ls seeded > /tmp/exp/seedlist.txt
i=0
while [ $i -lt $K ]; do
  rsync -a --delete --exclude replays /verif/ /tmp/vw$i/
  ( awk "NR % $K == $i" /tmp/exp/seedlist.txt | while read s; do
      p=$(python3 -c "import json;print(json.load(open('/tmp/vw$i/seeded/$s/meta.json'))['property'])")
      python3 /tmp/vw$i/tools/try_seed.py $s $p > /tmp/exp/parseed-$s.log 2>&1
      cp /tmp/vw$i/seeded/$s/result.json /verif/seeded/$s/result.json
      python3 -c "
import json
r=json.load(open('/verif/seeded/$s/result.json'))
if 'reapply' in r and r['reapply'].get('patch_applies') is False: print('$s', 'NO-APPLY')
else: print('$s', r.get('property'), 'demo', r.get('demo_unpatched_rc'), r.get('demo_patched_rc'), 'check_rc', r.get('check_rc'), 'input' if r.get('with_failing_input') else 'no-input', r.get('check_wall_s'))
"
    done > /tmp/exp/parseeds-$i.txt 2>&1; rm -rf /tmp/vw$i ) &
  i=$((i+1))
done
wait
cat /tmp/exp/parseeds-*.txt | sort
