#!/bin/sh
# tools/try_all_seeds.sh [PAR]: every seeded change against its check (scratch worktrees), summary on stdout.
# Meant for `vp run -- tools/try_all_seeds.sh`: builds the Lean tree of the snapshot first.
cd "$(dirname "$0")/.."
PAR=${1:-1}  # sequential by default: concurrent checks of ONE /verif tree share lean/ExaModel/Generated (regenerated from each patched tree)
[ -d lean/.lake/build/bin ] || ./setup.sh > /tmp/exp-setup.log 2>&1
ls seeded | xargs -P "$PAR" -I{} sh -c 'p=$(python3 -c "import json;print(json.load(open(\"seeded/{}/meta.json\"))[\"property\"])"); python3 tools/try_seed.py {} $p > /tmp/seedrun-{}.log 2>&1; python3 -c "
import json
r=json.load(open(\"seeded/{}/result.json\"))
print(\"{}\", r.get(\"property\"), \"demo\", r.get(\"demo_unpatched_rc\"), r.get(\"demo_patched_rc\"), \"check_rc\", r.get(\"check_rc\"), \"input\" if r.get(\"with_failing_input\") else \"no-input\", r.get(\"check_wall_s\"))
"'
