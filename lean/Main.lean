import ExaModel.Driver.Rib
open Exa.Driver

structure DState where
  rib : Exa.Rib.Sess := Exa.Rib.Sess.init true []

def dispatch (st : DState) (line : String) : DState × String :=
  match words line with
  | "rib" :: ws => let (s, o) := ribLine st.rib ws; ({ st with rib := s }, o)
  | _ => (st, "bad-op")

partial def loop (h : IO.FS.Stream) (out : IO.FS.Stream) (st : DState) : IO Unit := do
  let line ← h.getLine
  if line.isEmpty then return ()
  let (st', o) := dispatch st (line.trimAscii.toString)
  out.putStrLn o
  loop h out st'

def main : IO Unit := do
  let stdin ← IO.getStdin
  let stdout ← IO.getStdout
  loop stdin stdout {}
  stdout.flush
