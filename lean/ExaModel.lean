import ExaModel.AList
import ExaModel.Bytes
import ExaModel.Model.Rib
import ExaModel.Props.C04
import ExaModel.Props.C11
