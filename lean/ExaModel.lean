import ExaModel.AList
import ExaModel.Model.Rib
