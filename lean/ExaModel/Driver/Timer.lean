import ExaModel.Model.Timer
import ExaModel.Driver.Util
/-!
Line protocol for M-Timer.  One output line per input line; every state-changing operation
answers `<result> ; <state>` where the state is
`r=<hold>,<code>,<sub>,<lastRead>,<lastPrint>,<single> s=<keepalive>,<lastPrint>,<lastSent> c=<closed>`.

  timer init <H> <tRecvMs> <tSendMs>        ReceiveTimer(…, H, 4, 0) at tRecv, KA/SendTimer at tSend
  timer rinit <H> <code> <sub> <tMs>        ReceiveTimer only (as `_establish` does)
  timer sinit <H> <tMs>                     SendTimer only (as `_main` does)
  timer check <tMs> <kind>                  ReceiveTimer.check_ka_timer  → true | false | notify c s
  timer recv <tMs> <kind>                   ReceiveTimer.check_ka        → ok | notify c s
  timer need <tMs>                          SendTimer.need_ka            → true | false
  timer send <tMs> <netok 0|1>              KA.send_if_needed            → true | false | notify c s
  timer poll <tMs> <kind>                   one `_main` iteration        → idle | ka | notify c s | dead
  timer out <tMs> <update|eor|refresh|operational>   ExaBGP writes a message (Protocol.send / new_eor / …) → idle
  timer estab-recv <localHold> <peerHold> <tMs>      `_establish`: ReceiveTimer from the negotiated hold time
  timer estab-send <localHold> <peerHold> <tMs>      `_main`: KA / SendTimer from the negotiated hold time
  timer openconfirm <localHold> <peerHold> <tWms> <nowMs> <t:kind,t:kind,…|->   `_read_ka`: the wait for the first KEEPALIVE
                                                     → waiting | established a | notify t c s | race t
  timer state
  timer keepalive <H>                       HoldTime(H).keepalive()
  timer kind <name>                         → <TYPE byte> <SCHEDULING>
  timer openwait <waitS> <arrivalMs|never>  → opened | race | notify c s
`kind` is a name of the generated table (nop awake done open update notification keepalive refresh operational).
-/
namespace Exa.Driver
open Exa.Timer

def showB (b : Bool) : String := if b then "1" else "0"

def showSess (s : Sess) : String :=
  let r := s.recv
  let sd := s.send
  let c := match s.closed with
    | none => "-"
    | some (t, c, sb) => s!"{t}:{c}:{sb}"
  s!"r={r.hold},{r.code},{r.sub},{r.lastRead},{r.lastPrint},{showB r.single} s={sd.keepalive},{sd.lastPrint},{sd.lastSent} c={c}"

def showResBool : Res Bool → String
  | .ret true => "true"
  | .ret false => "false"
  | .raise c s => s!"notify {c} {s}"

def showFired : Fired → String
  | .idle => "idle"
  | .ka => "ka"
  | .notify c s => s!"notify {c} {s}"
  | .dead => "dead"

def timerLine (s : Sess) (ws : List String) : Sess × String :=
  let bad := (s, "bad-op")
  let withState (s' : Sess) (res : String) : Sess × String := (s', res ++ " ; " ++ showSess s')
  match ws with
  | ["init", h, tr, ts] =>
    match h.toNat?, tr.toNat?, ts.toNat? with
    | some h, some tr, some ts => withState (Sess.init h tr ts) "ok"
    | _, _, _ => bad
  | ["rinit", h, c, sb, t] =>
    match h.toNat?, c.toNat?, sb.toNat?, t.toNat? with
    | some h, some c, some sb, some t => withState { s with recv := Recv.init h c sb t, closed := none } "ok"
    | _, _, _, _ => bad
  | ["sinit", h, t] =>
    match h.toNat?, t.toNat? with
    | some h, some t => withState { s with send := Send.init h t } "ok"
    | _, _ => bad
  | ["check", t, k] =>
    match t.toNat?, Kind.ofName k with
    | some t, some k =>
      let (r1, res) := s.recv.checkKaTimer t k
      withState { s with recv := r1 } (showResBool res)
    | _, _ => bad
  | ["recv", t, k] =>
    match t.toNat?, Kind.ofName k with
    | some t, some k =>
      let (r1, res) := s.recv.checkKa t k
      withState { s with recv := r1 } (match res with | none => "ok" | some (c, sb) => s!"notify {c} {sb}")
    | _, _ => bad
  | ["need", t] =>
    match t.toNat? with
    | some t =>
      let (s1, b) := s.send.needKa t
      withState { s with send := s1 } (if b then "true" else "false")
    | none => bad
  | ["send", t, ok] =>
    match t.toNat?, bool? ok with
    | some t, some ok =>
      let (s1, res) := s.send.sendIfNeeded t ok
      withState { s with send := s1 } (showResBool res)
    | _, _ => bad
  | ["poll", t, k] =>
    match t.toNat?, Kind.ofName k with
    | some t, some k =>
      let (s1, f) := s.poll { t := t, kind := k }
      withState s1 (showFired f)
    | _, _ => bad
  | ["out", t, k] =>
    let kind? : Option OutKind := match k with
      | "update" => some .update | "eor" => some .eor | "refresh" => some .refresh
      | "operational" => some .operational | _ => none
    match t.toNat?, kind? with
    | some t, some k =>
      let (s1, f) := s.step (.out t k)
      withState s1 (showFired f)
    | _, _ => bad
  | ["estab-recv", l, p, t] =>
    match l.toNat?, p.toNat?, t.toNat? with
    | some l, some p, some t => withState { s with recv := Recv.establish l p t, closed := none } "ok"
    | _, _, _ => bad
  | ["estab-send", l, p, t] =>
    match l.toNat?, p.toNat?, t.toNat? with
    | some l, some p, some t => withState { s with send := Send.establish l p t } "ok"
    | _, _, _ => bad
  | ["openconfirm", l, p, tw, now, arr] =>
    let poll? (x : String) : Option Poll :=
      match x.splitOn ":" with
      | [t, k] => match t.toNat?, Kind.ofName k with
        | some t, some k => some { t := t, kind := k }
        | _, _ => none
      | _ => none
    match l.toNat?, p.toNat?, tw.toNat?, now.toNat?, (splitComma arr).mapM poll? with
    | some l, some p, some tw, some now, some arr =>
      (s, match openConfirm (negotiatedHold l p) tw arr now with
          | .waiting => "waiting"
          | .established a => s!"established {a}"
          | .notify t c sb => s!"notify {t} {c} {sb}"
          | .race t => s!"race {t}")
    | _, _, _, _, _ => bad
  | ["state"] => (s, showSess s)
  | ["keepalive", h] =>
    match h.toNat? with
    | some h => (s, toString (keepaliveOf h))
    | none => bad
  | ["kind", k] =>
    match Kind.ofName k with
    | some k => (s, s!"{k.type} {k.sched}")
    | none => bad
  | ["openwait", w, a] =>
    match w.toNat?, optNat? (if a = "never" then "-" else a) with
    | some w, some a =>
      (s, match openWait w a with
          | .opened => "opened"
          | .race => "race"
          | .notify c sb => s!"notify {c} {sb}")
    | _, _ => bad
  | _ => bad

end Exa.Driver
