/-
  Line protocol of `drv_wire` (M-Wire, the RFC reference UPDATE codec).

  PARAMS is four words:  <asn4:0|1> <addpath families> <ext-nexthop families> <msgSize>
      families = `afi.safi` joined by `+`, `-` for none.          e.g.  `1 1.1+2.1 - 4096`

  Ops (one line in, one line out; `bad-op` for anything unparsable):
    wire decode PARAMS <hex>            → `ok REPORT` | `err <code> <sub>`      (UPDATE body, after the header)
    wire sem    PARAMS <hex>            → `ok SEM`    | `err <code> <sub>`      (the decoded UpdateSem)
    wire encode PARAMS SEM              → <hex>                                  (reference encoder)
    wire report PARAMS SEM              → `ok REPORT`                            (report of a semantic value)
    wire roundtrip PARAMS SEM           → `1` if decodeUpdate (encodeUpdate u) = ok u, else `0 <what came back>`
    wire merge <segs> <segs>            → <segs>                                 (RFC 6793 merge AS_PATH, AS4_PATH)

  SEM is three words:  <withdrawn NLRIs> <attributes> <NLRIs>
    NLRI list   = NLRI joined by `+`, `-` for none
    NLRI        = <pathid|->:<labels|->:<rd hex|->:<plen>:<prefix hex|->     labels = decimals joined by `,`
                  e.g. `7:100,200:0000fde800000001:24:0a0000`
    attributes  = ATTR joined by `;`, `-` for none
    ATTR        = <flags>~<code>~<value fields joined by ~>     flags = 4 characters 0/1: optional transitive partial extended
      1 ORIGIN            `0100~1~0`
      2 AS_PATH / 17      `0100~2~2:65001,65002|1:7,8`      segments `type:asns` joined by `|`; `-` = empty path
      3 NEXT_HOP / 9      `0100~3~0a000001`                 (4-byte address in hex)
      4 MED / 5 LOCAL_PREF `1000~4~10`
      6 ATOMIC_AGGREGATE  `0100~6~-`
      7 AGGREGATOR / 18   `1100~7~65001~0a000001`
      8 COMMUNITY / 10 CLUSTER_LIST  `1100~8~4259840100,4259840101`   (32-bit numbers, `-` = none)
      16 EXTENDED         `1100~16~0002fde800000001,...`    (8-byte records in hex)
      32 LARGE            `1100~32~1.2.3,4.5.6`
      14 MP_REACH         `1000~14~2.1~<next-hop hex>~<NLRI list>`   (family outside AFI 1/2 × SAFI 1,2,4,128: <raw hex>)
      15 MP_UNREACH       `1000~15~2.1~<NLRI list>`
      other               `1100~99~<hex>`
  REPORT is six words:   eor=<afi.safi|->  ann=<afi.safi/nexthop hex/NLRI joined by +|->
                         wd=<afi.safi/NLRI joined by +|->  attrs=<code~value fields joined by ;|->
                         raw=<afi.safi joined by +|->  agg=<AGGREGATOR as sent|->/<AS4_AGGREGATOR as sent|->
    (attribute values as above, without flags; withdrawn NLRIs have labels `-`; `raw` lists the
     families of MP attributes whose routes M-Wire does not decode, i.e. which are not in ann/wd;
     `agg` gives the two aggregator attributes before the RFC 6793 reconciliation, `asn~ip`.
     `decode` and `report` print all six words.)
-/
import ExaModel.Model.Wire
import ExaModel.Driver.Util
namespace Exa.Driver
open Exa Exa.Wire

def splitOnOrEmpty (s sep : String) : List String :=
  if s = "-" || s = "" then [] else s.splitOn sep

/-! printing -/

def showNats (l : List Nat) : String := joinWith "," (l.map toString)

def showNlri (n : Nlri) : String :=
  (match n.pathId with | some i => toString i | none => "-") ++ ":" ++ showNats n.labels ++ ":" ++
    toHex n.rd ++ ":" ++ toString n.plen ++ ":" ++ toHex n.pfx

def showNlris (l : List Nlri) : String := joinWith "+" (l.map showNlri)

def showSegs (l : List Seg) : String := joinWith "|" (l.map (fun s => toString s.1 ++ ":" ++ showNats s.2))

def showIp (ip : Nat) : String := toHex (be32 ip)

def showVal : AttrVal → String
  | .origin v => s!"1~{v}"
  | .asPath s => "2~" ++ showSegs s
  | .nextHop ip => "3~" ++ showIp ip
  | .med v => s!"4~{v}"
  | .localPref v => s!"5~{v}"
  | .atomicAggregate => "6~-"
  | .aggregator a ip => s!"7~{a}~" ++ showIp ip
  | .communities cs => "8~" ++ showNats cs
  | .originatorId ip => "9~" ++ showIp ip
  | .clusterList ids => "10~" ++ showNats ids
  | .mpReach afi safi nh ns => s!"14~{afi}.{safi}~" ++ toHex nh ++ "~" ++ showNlris ns
  | .mpUnreach afi safi ns => s!"15~{afi}.{safi}~" ++ showNlris ns
  | .extCommunities cs => "16~" ++ joinWith "," (cs.map (fun c => toHex (be32 c.1 ++ be32 c.2)))
  | .as4Path s => "17~" ++ showSegs s
  | .as4Aggregator a ip => s!"18~{a}~" ++ showIp ip
  | .largeCommunities cs => "32~" ++ joinWith "," (cs.map (fun c => s!"{c.1}.{c.2.1}.{c.2.2}"))
  | .mpReachRaw afi safi nh raw => s!"14~{afi}.{safi}~" ++ toHex nh ++ "~" ++ toHex raw
  | .mpUnreachRaw afi safi raw => s!"15~{afi}.{safi}~" ++ toHex raw
  | .unknown c raw => s!"{c}~" ++ toHex raw

def showFlags (f : Flags) : String :=
  String.ofList ([f.opt, f.trans, f.part, f.ext].map (fun b => if b then '1' else '0'))

def showAttr (a : Attr) : String := showFlags a.flags ++ "~" ++ showVal a.val

def showSem (u : UpdateSem) : String :=
  showNlris u.withdrawn ++ " " ++ joinWith ";" (u.attrs.map showAttr) ++ " " ++ showNlris u.nlri

def showFam (f : Option (Nat × Nat)) : String :=
  match f with | some (a, s) => s!"{a}.{s}" | none => "-"

/-- families of MP attributes whose NLRI field M-Wire carries as opaque bytes -/
def rawFamilies (u : UpdateSem) : List (Nat × Nat) :=
  u.attrs.filterMap (fun a => match a.val with
    | .mpReachRaw afi safi _ _ => some (afi, safi)
    | .mpUnreachRaw afi safi _ => some (afi, safi)
    | _ => none)

def showAgg (x : Option (Nat × Nat)) : String :=
  match x with | some (a, ip) => s!"{a}~" ++ showIp ip | none => "-"

def showRaw (u : UpdateSem) : String :=
  " raw=" ++ joinWith "+" ((rawFamilies u).map (fun f => s!"{f.1}.{f.2}")) ++
  " agg=" ++ showAgg (findAgg u.attrs) ++ "/" ++ showAgg (findAgg4 u.attrs)

def showReport (r : Report) : String :=
  "eor=" ++ showFam r.eor ++
  " ann=" ++ joinWith "+" (r.announce.map (fun x => s!"{x.1}.{x.2.1}/" ++ toHex x.2.2.1 ++ "/" ++ showNlri x.2.2.2)) ++
  " wd=" ++ joinWith "+" (r.withdraw.map (fun x => s!"{x.1}.{x.2.1}/" ++ showNlri x.2.2)) ++
  " attrs=" ++ joinWith ";" (r.attrs.map showVal)

/-! parsing -/

def fam? (s : String) : Option (Nat × Nat) :=
  match s.splitOn "." with
  | [a, b] => match a.toNat?, b.toNat? with
    | some x, some y => some (x, y)
    | _, _ => none
  | _ => none

def fams? (s : String) : Option (List (Nat × Nat)) := (splitOnOrEmpty s "+").mapM fam?

/-- `mx`: the maximum message size, followed by `a` when AIGP_SESSION is enabled (`4096a`). -/
def params? (a4 ap xnh mx : String) : Option Params :=
  let ai := mx.endsWith "a"
  let mxs := if ai then (mx.dropRight 1) else mx
  match bool? a4, fams? ap, fams? xnh, mxs.toNat? with
  | some a, some b, some c, some d => some { asn4 := a, addpath := b, extnh := c, msgSize := d, aigp := ai }
  | _, _, _, _ => none

def nlri? (s : String) : Option Nlri :=
  match s.splitOn ":" with
  | [pid, ls, rd, plen, pfx] =>
    match optNat? pid, natList? ls, hexBytes? rd, plen.toNat?, hexBytes? pfx with
    | some pid, some ls, some rd, some plen, some pfx =>
      some { pathId := pid, labels := ls, rd := rd, plen := plen, pfx := pfx }
    | _, _, _, _, _ => none
  | _ => none

def nlris? (s : String) : Option (List Nlri) := (splitOnOrEmpty s "+").mapM nlri?

def seg? (s : String) : Option Seg :=
  match s.splitOn ":" with
  | [t, as] => match t.toNat?, natList? as with
    | some t, some as => some (t, as)
    | _, _ => none
  | _ => none

def segs? (s : String) : Option (List Seg) := (splitOnOrEmpty s "|").mapM seg?

def ip? (s : String) : Option Nat :=
  match hexBytes? s with
  | some bs => if bs.length = 4 then some (rd32 bs) else none
  | none => none

def ext? (s : String) : Option (Nat × Nat) :=
  match hexBytes? s with
  | some bs => if bs.length = 8 then some (rd32 bs, rd32 (bs.drop 4)) else none
  | none => none

def large? (s : String) : Option (Nat × Nat × Nat) :=
  match s.splitOn "." with
  | [a, b, c] => match a.toNat?, b.toNat?, c.toNat? with
    | some a, some b, some c => some (a, b, c)
    | _, _, _ => none
  | _ => none

def flags? (s : String) : Option Flags :=
  match s.toList.mapM (fun c => if c = '1' then some true else if c = '0' then some false else none) with
  | some [o, t, p, e] => some { opt := o, trans := t, part := p, ext := e }
  | _ => none

def val? (code : Nat) (fs : List String) : Option AttrVal :=
  match code, fs with
  | 1, [v] => v.toNat?.map .origin
  | 2, [s] => (segs? s).map .asPath
  | 3, [ip] => (ip? ip).map .nextHop
  | 4, [v] => v.toNat?.map .med
  | 5, [v] => v.toNat?.map .localPref
  | 6, ["-"] => some .atomicAggregate
  | 7, [a, ip] => match a.toNat?, ip? ip with
    | some a, some ip => some (.aggregator a ip)
    | _, _ => none
  | 8, [cs] => (natList? cs).map .communities
  | 9, [ip] => (ip? ip).map .originatorId
  | 10, [cs] => (natList? cs).map .clusterList
  | 14, [f, nh, ns] => match fam? f, hexBytes? nh with
    | some (afi, safi), some nh =>
      if supported afi safi then (nlris? ns).map (.mpReach afi safi nh)
      else (hexBytes? ns).map (.mpReachRaw afi safi nh)
    | _, _ => none
  | 15, [f, ns] => match fam? f with
    | some (afi, safi) =>
      if supported afi safi then (nlris? ns).map (.mpUnreach afi safi)
      else (hexBytes? ns).map (.mpUnreachRaw afi safi)
    | none => none
  | 16, [cs] => ((splitComma cs).mapM ext?).map .extCommunities
  | 17, [s] => (segs? s).map .as4Path
  | 18, [a, ip] => match a.toNat?, ip? ip with
    | some a, some ip => some (.as4Aggregator a ip)
    | _, _ => none
  | 32, [cs] => ((splitComma cs).mapM large?).map .largeCommunities
  | c, [raw] => if knownCodes.contains c then none else (hexBytes? raw).map (.unknown c)
  | _, _ => none

def attr? (s : String) : Option Attr :=
  match s.splitOn "~" with
  | f :: c :: fs => match flags? f, c.toNat? with
    | some f, some c => (val? c fs).map (fun v => { flags := f, val := v })
    | _, _ => none
  | _ => none

def attrs? (s : String) : Option (List Attr) := (splitOnOrEmpty s ";").mapM attr?

def sem? (w a n : String) : Option UpdateSem :=
  match nlris? w, attrs? a, nlris? n with
  | some w, some a, some n => some { withdrawn := w, attrs := a, nlri := n }
  | _, _, _ => none

def wireLine (ws : List String) : String :=
  match ws with
  | ["decode", a4, ap, xnh, mx, h] =>
    match params? a4 ap xnh mx, hexBytes? h with
    | some p, some bs =>
      (match decodeUpdate p bs with
       | .ok u => "ok " ++ showReport (report p u) ++ showRaw u
       | .error (c, s) => s!"err {c} {s}")
    | _, _ => "bad-op"
  | ["sem", a4, ap, xnh, mx, h] =>
    match params? a4 ap xnh mx, hexBytes? h with
    | some p, some bs =>
      (match decodeUpdate p bs with
       | .ok u => "ok " ++ showSem u
       | .error (c, s) => s!"err {c} {s}")
    | _, _ => "bad-op"
  | ["encode", a4, ap, xnh, mx, w, a, n] =>
    match params? a4 ap xnh mx, sem? w a n with
    | some p, some u => toHex (encodeUpdate p u)
    | _, _ => "bad-op"
  | ["report", a4, ap, xnh, mx, w, a, n] =>
    match params? a4 ap xnh mx, sem? w a n with
    | some p, some u => "ok " ++ showReport (report p u) ++ showRaw u
    | _, _ => "bad-op"
  | ["roundtrip", a4, ap, xnh, mx, w, a, n] =>
    match params? a4 ap xnh mx, sem? w a n with
    | some p, some u =>
      (match decodeUpdate p (encodeUpdate p u) with
       | .ok u' => if u' = u then "1" else "0 " ++ showSem u'
       | .error (c, s) => s!"0 err {c} {s}")
    | _, _ => "bad-op"
  | ["merge", s2, s4] =>
    match segs? s2, segs? s4 with
    | some a, some b => showSegs (merge6793 a b)
    | _, _ => "bad-op"
  | _ => "bad-op"

end Exa.Driver
