import ExaModel.Model.Session
import ExaModel.Lemmas.SessionTrace
import ExaModel.Driver.Util
/- Line protocol for M-Session.  One output line per input line.

   session init <passive> <maxAttempts> <hold0> <graceful> <ribNonEmpty> <changes> <forward>   -> ok
   session ev <event ...>          -> the step's outputs joined by ';' ('-' if none)
   session state                   -> fsm pc conn restart teardown (debug)
   session errorclass <cause ...> <STATE>   -> c/s,c/s,... ('-' = no NOTIFICATION allowed)
   session raised <fault>          -> c/s  (what the model says the code raises)
-/
namespace Exa.Driver
open Exa.Session

def fsmName : Fsm → String
  | .idle => "IDLE" | .active => "ACTIVE" | .connect => "CONNECT"
  | .opensent => "OPENSENT" | .openconfirm => "OPENCONFIRM" | .established => "ESTABLISHED"

def fsm? : String → Option Fsm
  | "IDLE" => some .idle | "ACTIVE" => some .active | "CONNECT" => some .connect
  | "OPENSENT" => some .opensent | "OPENCONFIRM" => some .openconfirm | "ESTABLISHED" => some .established
  | _ => none

def fault? : String → Option Fault
  | "badMarker" => some .badMarker | "badLength" => some .badLength | "tooLong" => some .tooLong
  | "unknownType" => some .unknownType | "kaLen20" => some .kaLen | "rrBadLen" => some .rrLen
  | "openShort" => some .openShort
  | "openVersion" => some .openVersion | "openOptParam" => some .openOptParam
  | "updAttrLen" => some .updAttrLen | "updNlri" => some .updNlri
  | _ => none

def sem? : String → Option OpenSem
  | "openAs" => some .badAs | "openId0" => some .badId | "openHold1" => some .badHold
  | _ => none

/-- message kinds of the rig (`harness/sessionrig.py: KINDS`). `updMissing` / `updAsPath` are
    RFC 7606 treat-as-withdraw cases: for the session they are UPDATEs like any other. -/
def msg? (k : String) : Option Msg :=
  match k with
  | "open" => some (.openOk false)
  | "openLow" => some (.openOk true)
  | "keepalive" => some .keepalive
  | "update" | "updMissing" | "updAsPath" => some .update
  | "refresh" => some .refresh
  | "notification" | "notifBadLen" => some .notification
  | "operational" => some .operational
  | _ =>
    match fault? k, sem? k with
    | some f, _ => some (.bad f)
    | _, some e => some (.openSem e)
    | _, _ => none

def event? : List String → Option Event
  | ["start"] => some .start
  | ["connectOk"] => some .connectOk
  | ["connectFail"] => some .connectFail
  | ["incoming"] => some .incoming
  | ["recv", c, k] => match c.toNat?, msg? k with
    | some c, some m => some (.recv c m)
    | _, _ => none
  | ["eof", c] => c.toNat?.map .eof
  | ["sockError", c] => c.toNat?.map .sockError
  | ["openwaitExpired"] => some .openwaitExpired
  | ["holdExpired"] => some .holdExpired
  | ["tick"] => some .tick
  | ["teardown", c] => c.toNat?.map .teardown
  | ["reestablish"] => some .reestablish
  | ["stop"] => some .stop
  | ["queueRefresh"] => some .queueRefresh
  | ["announce"] => some .announce
  | ["apiDies"] => some .apiDies
  | _ => none

def showKind : Kind → String
  | .open => "OPEN" | .keepalive => "KEEPALIVE" | .update => "UPDATE" | .eor => "EOR" | .refresh => "REFRESH"
  | .notification c s => s!"NOTIFICATION {c} {s}"

def showOut : Out → String
  | .fsm a b => s!"fsm {fsmName a}>{fsmName b}"
  | .send c k st => s!"send {c} {showKind k} {fsmName st}"
  | .close c => s!"close {c}"
  | .up => "up"
  | .down => "down"
  | .reject c => s!"reject {c}"
  | .gotNotification c => s!"ghost {c}"

def kind? : List String → Option Kind
  | ["OPEN"] => some .open | ["KEEPALIVE"] => some .keepalive | ["UPDATE"] => some .update
  | ["EOR"] => some .eor | ["REFRESH"] => some .refresh
  | ["NOTIFICATION", c, s] => match c.toNat?, s.toNat? with
    | some c, some s => some (.notification c s)
    | _, _ => none
  | _ => none

/-- an observed trace item, in the vocabulary of `showOut` -/
def out? (ws : List String) : Option Out :=
  match ws with
  | ["fsm", ab] => match ab.splitOn ">" with
    | [a, b] => match fsm? a, fsm? b with
      | some a, some b => some (.fsm a b)
      | _, _ => none
    | _ => none
  | ["close", c] => c.toNat?.map .close
  | ["up"] => some .up
  | ["down"] => some .down
  | ["reject", c] => c.toNat?.map .reject
  | ["ghost", c] => c.toNat?.map .gotNotification
  | "send" :: c :: rest =>
    match c.toNat?, rest.getLast?, kind? rest.dropLast with
    | some c, some st, some k => (fsm? st).map fun st => .send c k st
    | _, _, _ => none
  | _ => none

/-- `chkAll` with the position of the first item the checker refuses -/
def chkFrom (strict : Bool) : Nat → G → List Out → Option Nat
  | _, _, [] => none
  | i, g, o :: os => match chk strict g o with
    | some g' => chkFrom strict (i + 1) g' os
    | none => some i

def visible : Out → Bool
  | .gotNotification _ => false
  | _ => true

def showPc : Pc → String
  | .backoff => "backoff" | .done => "done" | .passiveWait => "passiveWait" | .connecting => "connecting"
  | .awaitOpen c => s!"awaitOpen:{c}" | .awaitKa c => s!"awaitKa:{c}" | .mainLoop c => s!"mainLoop:{c}"

def cause? : List String → Option Cause
  | ["fault", f] => (fault? f).map .fault
  | ["sem", e] => (sem? e).map .sem
  | ["unexpected", m] => (msg? m).map .unexpected
  | ["operational"] => some .operational
  | ["holdTimer"] => some .holdTimer
  | ["openTimer"] => some .openTimer
  | ["cease", c] => c.toNat?.map .cease
  | ["keepaliveHold0"] => some .keepaliveHold0
  | _ => none

def showPairs (l : List (Nat × Nat)) : String := joinWith "," (l.map fun p => s!"{p.1}/{p.2}")

def sessionLine (s : State) (ws : List String) : State × String :=
  let bad := (s, "bad-op")
  match ws with
  | ["init", p, a, h, g, r, c, f] =>
    match bool? p, a.toNat?, bool? h, bool? g, bool? r, bool? c, bool? f with
    | some p, some a, some h, some g, some r, some c, some f =>
      (Exa.Session.init { passive := p, maxAttempts := a, hold0 := h, graceful := g, changes := c, forward := f } r, "ok")
    | _, _, _, _, _, _, _ => bad
  | "ev" :: rest =>
    match event? rest with
    | some e => let r := step s e; (r.1, joinWith ";" ((r.2.filter visible).map showOut))
    | none => bad
  | ["state"] =>
    let c := match s.conn with
      | some k => s!"{k.id}:in{k.inbox.length}:eof{k.eof}:rst{k.rst}"
      | none => "-"
    let td := match s.teardown with | some c => toString c | none => "-"
    let b (x : Bool) : String := if x then "1" else "0"
    (s, s!"{fsmName s.fsm} {showPc s.pc} {c} restart={s.restart} teardown={td} up={s.isUp} pend={b s.routesPending}{b s.eorPending}{b (s.refreshQ > 0)}")
  | "errorclass" :: rest =>
    match rest.getLast?, cause? rest.dropLast with
    | some st, some c => match fsm? st with
      | some st => (s, showPairs (errorClass c st))
      | none => bad
    | _, _ => bad
  | "chk" :: strict :: items =>
    -- the trace checker of Lemmas/SessionTrace.lean on an observed trace (items separated by ';'), from
    -- the initial monitor state; what an accepted trace satisfies is proved in Lemmas/SessionCheck.lean
    let parts := ((joinWith " " items).splitOn ";").map fun it => out? ((it.trimAscii.toString.splitOn " ").filter (· ≠ ""))
    match bool? strict with
    | none => bad
    | some strict =>
      if parts.any Option.isNone then (s, "bad-item")
      else match chkFrom strict 0 { fsm := .idle, up := false, dead := [] } (parts.filterMap id) with
        | none => (s, "accepted")
        | some i => (s, s!"refused {i}")
  | ["rfctable"] =>
    (s, joinWith "," (rfcTable.map fun p => s!"{fsmName p.1}>{fsmName p.2}"))
  | ["raised", f] =>
    match fault? f, sem? f with
    | some f, _ => (s, showPairs [raised f])
    | _, some e => (s, showPairs [semCode e])
    | _, _ => bad
  | _ => bad

end Exa.Driver
