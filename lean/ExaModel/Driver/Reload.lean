import ExaModel.Model.Reload
import ExaModel.Driver.Util
/- Line protocol for M-Reload.  One output line per input line; the state is the `World`.

   reload init
   reload load <ok|first|syn:k|exc:k|missing> <procs> <nbr>*     → ok | fail
        nbr   = name/key/fams/adj/routes      fams = 1.2   adj = 0|1
        route = n:f:a:h:g  |  n:f:a:h:g:w:p   (watchdog w, parked p)      routes comma separated, - = none
   reload nbrs | procs | peers | ribs | pending
   reload rib <name>
   reload api <name> add <route> <force> | reload api <name> del <n> <f>
   reload looptop|lost|est|start|sendupd <name>
   reload drain <name>                                            → events, `;` separated
-/
namespace Exa.Driver.Reload
open Exa Exa.Rib Exa.Reload Exa.Driver

def route? (s : String) : Option CRoute :=
  match (s.splitOn ":").mapM String.toNat? with
  | some [n, f, a, h, g] => some { r := { nlri := n, fam := f, attr := a, nh := h, grp := g }, wd := none }
  | some [n, f, a, h, g, w, p] =>
    if p ≤ 1 then some { r := { nlri := n, fam := f, attr := a, nh := h, grp := g }, wd := some (w, p == 1) } else none
  | _ => none

def dotList? (s : String) : Option (List Nat) :=
  if s = "-" then some [] else (s.splitOn ".").mapM String.toNat?

def nbr? (s : String) : Option Nbr :=
  match s.splitOn "/" with
  | [name, key, fams, adj, routes] =>
    match name.toNat?, key.toNat?, dotList? fams, bool? adj, (splitComma routes).mapM route? with
    | some name, some key, some fams, some adj, some routes => some { name, key, fams, adjOut := adj, routes }
    | _, _, _, _, _ => none
  | _ => none

def fault? (s : String) : Option (Option Fault) :=
  if s = "ok" then some none
  else if s = "missing" then some (some .missingFile)
  else if s = "first" then some (some .firstLine)
  else match s.splitOn ":" with
    | ["syn", k] => k.toNat?.map (fun k => some (.syntax k))
    | ["exc", k] => k.toNat?.map (fun k => some (.exception k))
    | _ => none

def showRoute (r : Route) : String := s!"{r.nlri}:{r.fam}:{r.attr}:{r.nh}"

def showEv : Ev → String
  | .ann r => s!"A {showRoute r}"
  | .wd n f => s!"W {n}:{f}"
  | .rrStart f => s!"RS {f}"
  | .rrEnd f => s!"RE {f}"
  | .eor f => s!"EOR {f}"

def insertSorted (r : Route) : List Route → List Route
  | [] => [r]
  | h :: t => if r.nlri ≤ h.nlri then r :: h :: t else h :: insertSorted r t

def sortRoutes (l : List Route) : List Route := l.foldl (fun acc r => insertSorted r acc) []

def insertNat (x : Nat) : List Nat → List Nat
  | [] => [x]
  | h :: t => if x ≤ h then x :: h :: t else h :: insertNat x t

def sortNats (l : List Nat) : List Nat := l.foldl (fun acc x => insertNat x acc) []

def b (x : Bool) : String := if x then "1" else "0"

def showFams (l : List Nat) : String := if l.isEmpty then "-" else ".".intercalate (l.map toString)

def showRib (s : Sess) : String :=
  let c := joinWith "," ((sortRoutes (AList.values s.rib.cache)).map showRoute)
  let a := joinWith "," ((sortRoutes (AList.values s.rib.newAnn)).map showRoute)
  let w := joinWith "," ((sortNats (AList.keys s.rib.newWd)).map toString)
  s!"c={c};a={a};w={w};p={b s.rib.pending};f={showFams s.rib.families}"

def showPeer (k : Nat) (p : PeerSt) : String :=
  s!"{k}:{p.cur.nbr.key}:{b p.up}:{b p.teardown}:{b p.next.isSome}:{b p.cur.prev.isSome}"

def reloadLine (w : World) (ws : List String) : World × String :=
  let bad := (w, "bad-op")
  match ws with
  | ["init"] => (World.init, "ok")
  | "load" :: f :: procs :: ns =>
    match fault? f, natList? procs, ns.mapM nbr? with
    | some f, some procs, some ns =>
      let r := reactorReload w { procs := procs, nbrs := ns } f
      (r.1, if r.2 then "ok" else "fail")
    | _, _, _ => bad
  | ["nbrs"] =>
    (w, joinWith "," (w.nbrs.map (fun p => s!"{p.1}:{p.2.key}:{showFams p.2.fams}:{b p.2.adjOut}:{p.2.routes.length}")))
  | ["procs"] => (w, joinWith "," ((sortNats w.procs).map toString))
  | ["peers"] => (w, joinWith "," (w.peers.map (fun p => showPeer p.1 p.2)))
  | ["pending"] => (w, joinWith "," (w.pending.map (fun n => toString n.name)))
  | ["ribs"] => (w, joinWith "," ((sortNats (AList.keys w.ribs)).map toString))
  | ["rib", name] =>
    match name.toNat? with
    | some a => (w, match AList.lookup a w.ribs with | some s => showRib s | none => "none")
    | none => bad
  | ["api", name, "add", r, f] =>
    match name.toNat?, route? r, bool? f with
    | some a, some cr, some f => (w.api a (.add cr.r f), "ok")
    | _, _, _ => bad
  | ["api", name, "del", n, f] =>
    match name.toNat?, n.toNat?, f.toNat? with
    | some a, some n, some f => (w.api a (.del n f), "ok")
    | _, _, _ => bad
  | ["looptop", name] =>
    match name.toNat? with
    | some a => (w.loopTop a, "ok")
    | none => bad
  | ["lost", name] =>
    match name.toNat? with
    | some a => (w.lost a, "ok")
    | none => bad
  | ["est", name] =>
    match name.toNat? with
    | some a => (w.establish a, "ok")
    | none => bad
  | ["start", name] =>
    match name.toNat? with
    | some a =>
      match AList.lookup a w.peers, AList.lookup a w.ribs with
      | some p, some s => if p.up then (w.setRib a (s.step .start).1, "ok") else (w, "down")
      | _, _ => (w, "none")
    | none => bad
  | ["sendupd", name] =>
    -- one call of `_send_route_updates` run to the end of its generator: a generator is created only
    -- if none is in flight
    match name.toNat? with
    | some a =>
      match AList.lookup a w.peers, AList.lookup a w.ribs with
      | some p, some s =>
        if p.up then
          let s1 := if s.inflight.isNone then (s.step .start).1 else s
          let r := s1.finish
          (w.setRib a r.1, joinWith ";" (r.2.map showEv))
        else (w, "down")
      | _, _ => (w, "none")
    | none => bad
  | ["drain", name] =>
    match name.toNat? with
    | some a =>
      let r := w.drain a
      (r.1, joinWith ";" (r.2.map showEv))
    | none => bad
  | _ => bad

end Exa.Driver.Reload
