import ExaModel.Model.Flow
import ExaModel.Generated.FlowTable
import ExaModel.Driver.Util
/- Line protocol for M-Flow.  One output line per input line.

   abstract components (one word each):
     p4:<ty>:<len>:<pat>   p6:<ty>:<len>:<off>:<pat>   op:<ty>:<f>/<v>,<f>/<v>…   (f = and*8+lt*4+gt*2+eq)
   text components (what configuration/flow/parser.py builds, in text order):
     t4:<ty>:<addr>:<len>  t6:<ty>:<addr>:<len>:<off>  o:<ty>:<flags>:<value>    (flags = IOperation.operations, value may be negative)
   raw components (ExaBGP's decoded objects):
     p4:<ty>:<len>:<hex>   p6:<ty>:<len>:<off>:<hex>   op:<ty>:<operations>/<value>,…   (operations = byte masked to its meaning, AND cleared on the first)

   flow enc <v6> <vpn> <rd hex|-> <comp>*       -> ok <hex> wf=<0|1>
   flow dec <v6> <vpn> <hex>                    -> ok <rd|-> <rest> <comp>*     | err <code>
   flow exaenc <hint6> <rd hex|-> <tcomp>*      -> ok <v6> <hex>                | raise <kind>   (hint6: an IPv6-only keyword is present)
   flow exadec <v6> <vpn> <hex>                 -> ok <rd|-> <rest> <rawcomp>*  | invalid <rest> | raise
   flow torule <v6> <tcomp>*                    -> ok <comp>*
   flow act <taction>*                          -> ok <hex>,<hex>…  (one 8-byte community per action, text order) | refuse
   flow decact <hex>                            -> ok <action> | none
   flow f32 <n>                                 -> <bits>
   flow lp <n>                                  -> <hex>
-/
namespace Exa.Driver
open Exa Exa.Flow

def nats? (s : String) (sep : String) : Option (List Nat) := (s.splitOn sep).mapM String.toNat?

def term? (s : String) : Option Term :=
  match nats? s "/" with
  | some [f, v] => if f < 16 then some ⟨f / 8 % 2 = 1, f / 4 % 2 = 1, f / 2 % 2 = 1, f % 2 = 1, v⟩ else none
  | _ => none

def comp? (s : String) : Option Comp :=
  match s.splitOn ":" with
  | ["p4", ty, len, pat] =>
    match ty.toNat?, len.toNat?, pat.toNat? with
    | some ty, some len, some pat => some (.prefix4 ty len pat)
    | _, _, _ => none
  | ["p6", ty, len, off, pat] =>
    match ty.toNat?, len.toNat?, off.toNat?, pat.toNat? with
    | some ty, some len, some off, some pat => some (.prefix6 ty len off pat)
    | _, _, _, _ => none
  | ["op", ty, ts] =>
    match ty.toNat?, (ts.splitOn ",").mapM term? with
    | some ty, some ts => some (.ops ty ts)
    | _, _ => none
  | _ => none

def int? (s : String) : Option Int :=
  if s.startsWith "-" then (s.drop 1).toString.toNat?.map (fun n => -(n : Int)) else s.toNat?.map (fun n => (n : Int))

def tcomp? (s : String) : Option TComp :=
  match s.splitOn ":" with
  | ["t4", ty, addr, len] =>
    match ty.toNat?, addr.toNat?, len.toNat? with
    | some ty, some addr, some len => if (ty = 1 ∨ ty = 2) ∧ addr < 4294967296 then some (.prefix4 ty addr len) else none
    | _, _, _ => none
  | ["t6", ty, addr, len, off] =>
    match ty.toNat?, addr.toNat?, len.toNat?, off.toNat? with
    | some ty, some addr, some len, some off =>
      if (ty = 1 ∨ ty = 2) ∧ addr < 2 ^ 128 then some (.prefix6 ty addr len off) else none
    | _, _, _, _ => none
  | ["o", ty, flags, v] =>
    match ty.toNat?, flags.toNat?, int? v with
    | some ty, some flags, some v =>
      -- the text parser only produces AND (0x40) and the low operator bits
      if 3 ≤ ty ∧ ty ≤ 13 ∧ flags % 64 < 8 ∧ flags < 128 then some (.op ty flags v) else none
    | _, _, _ => none
  | _ => none

def showTerm (t : Term) : String :=
  s!"{b2n t.andBit * 8 + b2n t.lt * 4 + b2n t.gt * 2 + b2n t.eq}/{t.value}"

def showComp : Comp → String
  | .prefix4 ty len pat => s!"p4:{ty}:{len}:{pat}"
  | .prefix6 ty len off pat => s!"p6:{ty}:{len}:{off}:{pat}"
  | .ops ty ts => s!"op:{ty}:" ++ ",".intercalate (ts.map showTerm)

def showRule (r : Rule) : String := joinWith " " (r.map showComp)

def showStored (numeric : Bool) : Bool → List RawTerm → List String
  | _, [] => []
  | first, t :: ts => s!"{exaStoredOp numeric first t.op}/{rdN t.val}" :: showStored numeric false ts

def showRawComp (v6 : Bool) : RawComp → String
  | .prefix4 ty len bs => s!"p4:{ty}:{len}:{toHex bs}"
  | .prefix6 ty len off bs => s!"p6:{ty}:{len}:{off}:{toHex bs}"
  | .ops ty ts => s!"op:{ty}:" ++ ",".intercalate (showStored (kindOf v6 ty == some .numeric) true ts)

def showErr : Err → String
  | .fuel => "fuel" | .empty => "empty" | .lengthShort => "length-short" | .rdShort => "rd-short"
  | .undefinedType => "undefined-type" | .prefixLen => "prefix-len" | .prefixShort => "prefix-short"
  | .noEol => "no-eol" | .valueShort => "value-short" | .order => "order"

def showExaErr : ExaErr → String
  | .valueError => "value-error" | .structError => "struct-error" | .notifyMask => "notify-mask" | .tooLong => "too-long"

def wfNlriB (v6 vpn : Bool) (x : Nlri) : Bool :=
  decide (WFRule v6 x.rule) && decide ((nlriPayload x).length < 4096)
  && (if vpn then (match x.rd with | some rd => rd.length == 8 | none => false) else x.rd.isNone)

def rd? (s : String) : Option (Option Bytes) :=
  if s = "-" then some none else (hexBytes? s).map some

def taction? (s : String) : Option TAction :=
  match s.splitOn ":" with
  | ["discard"] => some .discard
  | ["rate", n] => n.toNat?.map .rateLimitBytes
  | ["ratep", n] => n.toNat?.map .rateLimitPackets
  | ["redir", a, n] => match a.toNat?, n.toNat? with | some a, some n => some (.redirect a n) | _, _ => none
  | ["mark", d] => d.toNat?.map .markDscp
  | ["action", s, t] => match bool? s, bool? t with | some s, some t => some (.action s t) | _, _ => none
  | ["rnh"] => some .redirectToNexthop
  | ["rip", ip] => ip.toNat?.map .redirectIp
  | ["copy", ip] => ip.toNat?.map .copyIp
  | ["rietf", ip] => ip.toNat?.map .redirectNexthopIetf
  | _ => none

def showAction : Action → String
  | .rateBytes a f => s!"rate-bytes:{a}:{f}"
  | .ratePackets a f => s!"rate-packets:{a}:{f}"
  | .trafficAction s t => s!"traffic-action:{b2n s}:{b2n t}"
  | .redirectAS2 a n => s!"redirect-as2:{a}:{n}"
  | .redirectIP4 a n => s!"redirect-ip4:{a}:{n}"
  | .redirectAS4 a n => s!"redirect-as4:{a}:{n}"
  | .mark d => s!"mark:{d}"
  | .nexthopSimpson c => s!"nexthop-simpson:{b2n c}"
  | .nexthopIetf4 ip c => s!"nexthop-ietf4:{ip}:{b2n c}"

def flowLine (st : Unit) (ws : List String) : Unit × String :=
  let bad := (st, "bad-op")
  match ws with
  | "enc" :: v6 :: vpn :: rd :: cs =>
    match bool? v6, bool? vpn, rd? rd, cs.mapM comp? with
    | some v6, some vpn, some rd, some r =>
      let x : Nlri := ⟨rd, r⟩
      (st, s!"ok {toHex (encodeNlri x)} wf={b2n (wfNlriB v6 vpn x)}")
    | _, _, _, _ => bad
  | ["dec", v6, vpn, hex] =>
    match bool? v6, bool? vpn, hexBytes? hex with
    | some v6, some vpn, some bs =>
      match decodeNlri v6 vpn bs with
      | .ok (x, rest) => (st, s!"ok {match x.rd with | some rd => toHex rd | none => "-"} {toHex rest} {showRule x.rule}")
      | .error e => (st, s!"err {showErr e}")
    | _, _, _ => bad
  | "exaenc" :: h6 :: rd :: cs =>
    match bool? h6, rd? rd, cs.mapM tcomp? with
    | some h6, some rd, some t =>
      match exaPack Exa.Generated.FlowTable.sizeOf h6 rd t with
      | .ok (v6, bs) => (st, s!"ok {b2n v6} {toHex bs}")
      | .error e => (st, s!"raise {showExaErr e}")
    | _, _, _ => bad
  | ["exadec", v6, vpn, hex] =>
    match bool? v6, bool? vpn, hexBytes? hex with
    | some v6, some vpn, some bs =>
      match exaDecode v6 vpn bs with
      | .raise => (st, "raise")
      | .invalid rest => (st, s!"invalid {toHex rest}")
      | .ok rd cs rest =>
        (st, s!"ok {match rd with | some rd => toHex rd | none => "-"} {toHex rest} {joinWith " " (cs.map (showRawComp v6))}")
    | _, _, _ => bad
  | "torule" :: v6 :: cs =>
    match bool? v6, cs.mapM tcomp? with
    | some v6, some t => (st, s!"ok {showRule (toRule v6 t)}")
    | _, _ => bad
  | "act" :: as =>
    match as.mapM taction? with
    | some ts =>
      match ts.mapM exaAction with
      | some acts => (st, s!"ok {joinWith "," (acts.map (fun a => toHex (encodeAction a)))}")
      | none => (st, "refuse")
    | none => bad
  | ["decact", hex] =>
    match hexBytes? hex with
    | some bs =>
      match decodeAction bs with
      | some a => (st, s!"ok {showAction a}")
      | none => (st, "none")
    | none => bad
  | ["f32", n] =>
    match n.toNat? with
    | some n => (st, s!"{f32OfNat n}")
    | none => bad
  | ["lp", n] =>
    match n.toNat? with
    | some n => (st, toHex (lengthPrefix n))
    | none => bad
  | _ => bad

end Exa.Driver
