/-
  Line protocol of `drv_wireexa` (M-Wire-Exa, the model of ExaBGP's UPDATE encoder).

    wireexa encode SESS REQ     → `sent <body hex>` | `nothing` | `raised`
    wireexa attrs  SESS REQ     → <hex of the path attributes without MP_REACH> | `raised`

  SESS is ten words:
    <local AS> <peer AS> <we sent ASN4 0|1> <asn4 negotiated 0|1> <ADD-PATH send families> <ext-nexthop families> <msgSize>
    <local address hex> <router id hex> <link-local address hex | ->
    families = `afi.safi` joined by `+`, `-` for none
  REQ is eight words:
    <afi.safi> <plen> <prefix hex|-> <path id|-> <labels , joined|-> <rd hex|-> <next hop> <attributes>
    next hop   = `4:<hex>` | `6:<hex>` | `self`
    attributes = ATTR joined by `;`, `-` for none, in the order written; ATTR = <code>~<fields> as in drv_wire:
      `1~0`  `2~2:65001,65002|1:7,8` (`2~-` empty path)  `4~10`  `5~100`  `6~-`  `7~65001~0a000001`
      `8~1,2`  `9~0a000001`  `10~1,2`  `16~0002fde800000001,…`  `32~1.2.3,4.5.6`
-/
import ExaModel.Model.WireExa
import ExaModel.Driver.Wire
namespace Exa.Driver
open Exa Exa.Wire Exa.WireExa

def optHex? (s : String) : Option (Option Bytes) :=
  if s = "-" then some none else (hexBytes? s).map some

def sess? (ws : List String) : Option SessParams :=
  match ws with
  | [las, pas, s4, a4, ap, xnh, mx, la, rid, ll] =>
    match las.toNat?, pas.toNat?, bool? s4, bool? a4, fams? ap, fams? xnh, mx.toNat?, hexBytes? la, hexBytes? rid, optHex? ll with
    | some las, some pas, some s4, some a4, some ap, some xnh, some mx, some la, some rid, some ll =>
      some { localAs := las, peerAs := pas, sentAsn4 := s4, asn4 := a4, apSend := ap, extnh := xnh, msgSize := mx,
             localAddr := la, routerId := rid, linkLocal := ll }
    | _, _, _, _, _, _, _, _, _, _ => none
  | _ => none

def nhReq? (s : String) : Option NhReq :=
  if s = "self" then some .self
  else match s.splitOn ":" with
    | ["4", h] => (hexBytes? h).map .v4
    | ["6", h] => (hexBytes? h).map .v6
    | _ => none

def reqAttr? (s : String) : Option ReqAttr :=
  match s.splitOn "~" with
  | ["1", v] => v.toNat?.map .origin
  | ["2", s] => (segs? s).map .asPath
  | ["4", v] => v.toNat?.map .med
  | ["5", v] => v.toNat?.map .localPref
  | ["6", "-"] => some .atomicAggregate
  | ["7", a, ip] => match a.toNat?, ip? ip with
    | some a, some ip => some (.aggregator a ip)
    | _, _ => none
  | ["8", cs] => (natList? cs).map .communities
  | ["9", ip] => (ip? ip).map .originatorId
  | ["10", cs] => (natList? cs).map .clusterList
  | ["16", cs] => ((splitComma cs).mapM ext?).map .extCommunities
  | ["32", cs] => ((splitComma cs).mapM large?).map .largeCommunities
  | _ => none

def reqAttrs? (s : String) : Option (List ReqAttr) := (splitOnOrEmpty s ";").mapM reqAttr?

def req? (ws : List String) : Option RouteReq :=
  match ws with
  | [fam, plen, pfx, pid, ls, rd, nh, as] =>
    match fam? fam, plen.toNat?, hexBytes? pfx, optNat? pid, natList? ls, hexBytes? rd, nhReq? nh, reqAttrs? as with
    | some (afi, safi), some plen, some pfx, some pid, some ls, some rd, some nh, some as =>
      some { afi := afi, safi := safi, plen := plen, pfx := pfx, pathId := pid, labels := ls, rd := rd,
             nexthop := nh, attrs := as }
    | _, _, _, _, _, _, _, _ => none
  | _ => none

def wireExaLine (ws : List String) : String :=
  match ws with
  | "encode" :: rest =>
    (match sess? (rest.take 10), req? (rest.drop 10) with
     | some p, some r =>
       (match encodeExa p r with
        | .sent b => "sent " ++ toHex b
        | .nothing => "nothing"
        | .raised => "raised")
     | _, _ => "bad-op")
  | "attrs" :: rest =>
    (match sess? (rest.take 10), req? (rest.drop 10) with
     | some p, some r =>
       (match resolveNh p r with
        | some nh => toHex (attrBytes p r nh)
        | none => "raised")
     | _, _ => "bad-op")
  | _ => "bad-op"

end Exa.Driver
