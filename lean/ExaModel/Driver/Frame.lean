import ExaModel.Model.Frame
import ExaModel.Driver.Util
namespace Exa.Driver
open Exa.Frame

def showOut : Out → String
  | .msg ty body => s!"msg {ty} {toHex body}"
  | .err c s => s!"err {c} {s}"

def showOuts (os : List Out) : String := joinWith ";" (os.map showOut)

def frameLine (r : Reader) (ws : List String) : Reader × String :=
  match ws with
  | ["init", m] => match m.toNat? with
    | some m => (Reader.init m, "ok")
    | none => (r, "bad-op")
  | ["feed", h] => match hexBytes? h with
    | some bs => let (r', os) := r.feed bs; (r', showOuts os)
    | none => (r, "bad-op")
  | ["cancel"] => (r.cancel, "ok")
  | ["setmax", m] => match m.toNat? with
    | some m => (r.setMax m, "ok")
    | none => (r, "bad-op")
  | ["notify", ty] => match ty.toNat? with
    | some ty => (r, match notifyOf (.msg ty []) with | some (c, s) => s!"{c} {s}" | none => "none")
    | none => (r, "bad-op")
  | ["pend"] => (r, toHex r.pend)
  | _ => (r, "bad-op")

end Exa.Driver
