/-
  Line protocol of `drv_attr7606` (M-Attr7606: ExaBGP's attribute parse loop and `_parse_payload`, RFC 7606 spec).

  FIX     one character 0/1: seg0 (C08b, the one repair still open)   (`0` = the code as it is)
  PARAMS  as in drv_wire: <asn4:0|1> <addpath families> <ext-nexthop families> <msgSize>, families `afi.safi` joined by `+`, `-` = none
  FAMS    negotiated families, same syntax

  attr7606 decode FIX PARAMS FAMS <body hex>   → `ok ann=<routes> wd=<routes> kept=<attrs> taw=<0|1> disc=<0|1>`
                                                 | `err <code> <sub>` | `raise` | `unmodelled`
        routes = `afi.safi/NLRI` joined by `+` (NLRI as in drv_wire), attrs = `code:flag:valuehex` joined by `,`
        (`2:64:m` = the merged AS_PATH), `-` = none
  attr7606 decisions FIX PARAMS FAMS <block hex> → the loop's decision per attribute, joined by `,`, then ` cut=<0|1>`
        decision = keep | generic | taw | disc | drop | err.<c>.<s> | raise | unmodelled   (the list stops at the first of the last three)
  attr7606 tlvs <block hex>                    → `flag.code.dlen.valuehex` joined by `;` then ` cut=<0|1>`
  attr7606 wf <asn4> <code> <flag> <value hex> → `1` | `0`          (RFC well-formedness, `wfAttr`)
  attr7606 rfcclass <code>                     → withdraw | discard | reset | none
  attr7606 tabclass <code>                     → class of the generated row (`classOf`), `none` if unregistered
-/
import ExaModel.Model.Attr7606
import ExaModel.Driver.Wire
namespace Exa.Driver
open Exa Exa.Wire Exa.Attr7606

def fix? (s : String) : Option Fix :=
  match s.toList.mapM (fun c => if c = '1' then some true else if c = '0' then some false else none) with
  | some [a] => some ⟨a⟩
  | _ => none

def showRoute (r : Route) : String := s!"{r.1}.{r.2.1}/" ++ showNlri r.2.2
def showRoutes (l : List Route) : String := joinWith "+" (l.map showRoute)

def showKept (k : Kept) : String :=
  s!"{k.code}:{k.flag}:" ++ (if k.merged && k.code == 2 then "m" else toHex k.val)

def b01 (b : Bool) : String := if b then "1" else "0"

def showRep (r : Rep) : String :=
  "ok ann=" ++ showRoutes r.announce ++ " wd=" ++ showRoutes r.withdraw ++
  " kept=" ++ joinWith "," (r.attrs.map showKept) ++ " taw=" ++ b01 r.taw ++ " disc=" ++ b01 r.disc

def showFail : Fail → String
  | .notify c s => s!"err {c} {s}"
  | .raise => "raise"
  | .unmodelled => "unmodelled"

def showDec : Dec → String
  | .keep => "keep" | .keepGeneric => "generic" | .taw => "taw" | .disc => "disc" | .drop => "drop"
  | .notify c s => s!"err.{c}.{s}" | .raise => "raise" | .unmodelled => "unmodelled"

def showCls : Option Cls → String
  | some .withdraw => "withdraw" | some .discard => "discard" | some .reset => "reset" | none => "none"

/-- the decisions of the loop, one per attribute, stopping at the first that ends `parse` -/
def decisions (fx : Fix) (tb : List Exa.Generated.AttrTable.Row) (xp : XP) : List Tlv → List Nat → List Dec
  | [], _ => []
  | t :: ts, present =>
    match decide1 fx tb xp present t with
    | .keep => .keep :: decisions fx tb xp ts (present ++ [t.code])
    | .keepGeneric => .keepGeneric :: decisions fx tb xp ts (present ++ [t.code])
    | .notify c s => [.notify c s]
    | .raise => [.raise]
    | .unmodelled => [.unmodelled]
    | d => d :: decisions fx tb xp ts present

def attr7606Line (ws : List String) : String :=
  let tb := Exa.Generated.AttrTable.attrTable
  match ws with
  | ["decode", fx, a4, ap, xnh, mx, fams, h] =>
    match fix? fx, params? a4 ap xnh mx, fams? fams, hexBytes? h with
    | some fx, some p, some fs, some bs =>
      (match decodeWith fx tb { p := p, families := fs } bs with
       | .ok r => showRep r
       | .error e => showFail e)
    | _, _, _, _ => "bad-op"
  | ["decisions", fx, a4, ap, xnh, mx, fams, h] =>
    match fix? fx, params? a4 ap xnh mx, fams? fams, hexBytes? h with
    | some fx, some p, some fs, some bs =>
      joinWith "," ((decisions fx tb { p := p, families := fs } (tlvsOf bs) []).map showDec) ++ " cut=" ++ b01 (cutOf bs)
    | _, _, _, _ => "bad-op"
  | ["tlvs", h] =>
    match hexBytes? h with
    | some bs =>
      joinWith ";" ((tlvsOf bs).map (fun t => s!"{t.flag}.{t.code}.{t.dlen}." ++ toHex t.val)) ++ " cut=" ++ b01 (cutOf bs)
    | none => "bad-op"
  | ["wf", a4, code, flag, h] =>
    match bool? a4, code.toNat?, flag.toNat?, hexBytes? h with
    | some a, some c, some f, some v =>
      b01 (wfAttr { asn4 := a, addpath := [], extnh := [], msgSize := 4096 } c f v)
    | _, _, _, _ => "bad-op"
  | ["rfcclass", code] =>
    match code.toNat? with
    | some c => showCls (rfc7606Class c)
    | none => "bad-op"
  | ["tabclass", code] =>
    match code.toNat? with
    | some c => showCls ((rowOf tb c).map classOf)
    | none => "bad-op"
  | _ => "bad-op"

end Exa.Driver
