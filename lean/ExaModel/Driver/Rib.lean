import ExaModel.Model.Rib
import ExaModel.Driver.Util
/- Line protocol for M-Rib.  One output line per input line. -/
namespace Exa.Driver
open Exa.Rib

def route? (s : String) : Option Route :=
  match (s.splitOn ":").mapM String.toNat? with
  | some [n, f, a, h, g] => some { nlri := n, fam := f, attr := a, nh := h, grp := g }
  | some [n, f, a, h] => some { nlri := n, fam := f, attr := a, nh := h, grp := a }
  | _ => none

def routes? (s : String) : Option (List Route) := (splitComma s).mapM route?

def showRoute (r : Route) : String := s!"{r.nlri}:{r.fam}:{r.attr}:{r.nh}"

def showEv : Ev → String
  | .ann r => s!"A {showRoute r}"
  | .wd n f => s!"W {n}:{f}"
  | .rrStart f => s!"RS {f}"
  | .rrEnd f => s!"RE {f}"
  | .eor f => s!"EOR {f}"

def insertSorted (r : Route) : List Route → List Route
  | [] => [r]
  | h :: t => if r.nlri ≤ h.nlri then r :: h :: t else h :: insertSorted r t

def sortRoutes (l : List Route) : List Route := l.foldl (fun acc r => insertSorted r acc) []

def ribLineCore (s : Sess) (ws : List String) : Sess × String :=
  let bad := (s, "bad-op")
  let stepOk (op : Op) : Sess × String := ((s.step op).1, "ok")
  match ws with
  | ["init", c, fs] =>
    match bool? c, natList? fs with
    | some c, some fs => (Sess.init c fs, "ok")
    | _, _ => bad
  | ["add", r, f] =>
    match route? r, bool? f with
    | some r, some f => stepOk (.add r f)
    | _, _ => bad
  | ["del", n, f] =>
    match n.toNat?, f.toNat? with
    | some n, some f => stepOk (.del n f)
    | _, _ => bad
  | ["resend", e, f] =>
    match bool? e, optNat? f with
    | some e, some f => stepOk (.resend e f)
    | _, _ => bad
  | ["wall", fs] =>
    match natList? fs with
    | some fs => stepOk (.withdrawAll fs)
    | none => bad
  | ["wdadd", r, name, w] =>
    match route? r, name.toNat?, bool? w with
    | some r, some n, some w => stepOk (.wdogAdd r n w)
    | _, _, _ => bad
  | ["wdann", name] =>
    match name.toNat? with
    | some n => stepOk (.wdogAnnounce n)
    | none => bad
  | ["wdwd", name] =>
    match name.toNat? with
    | some n => stepOk (.wdogWithdraw n)
    | none => bad
  | ["start"] =>
    let (s', _) := s.step .start
    (s', if s'.inflight.isSome && s.inflight.isNone then "started" else "no")
  | ["next"] =>
    match s.inflight with
    | none => (s, "none")
    | some [] => ((s.step .next).1, "exhausted")
    | some (e :: _) => ((s.step .next).1, showEv e)
  | ["tick"] =>
    -- `_send_route_updates` with one message per call: create the generator if needed, advance once
    let s1 := (s.step .start).1
    match s1.inflight with
    | none => (s1, "none")
    | some [] => ((s1.step .next).1, "exhausted")
    | some (e :: _) => ((s1.step .next).1, showEv e)
  | ["lost"] => stepOk .lost
  | ["est", p, n] =>
    match routes? p, routes? n with
    | some p, some n => stepOk (.established p n)
    | _, _ => bad
  | ["reload", p, n] =>
    match routes? p, routes? n with
    | some p, some n => stepOk (.reload p n)
    | _, _ => bad
  | ["cache"] => (s, joinWith "," ((sortRoutes (AList.values s.rib.cache)).map showRoute))
  | ["pending"] => (s, if s.rib.pending then "1" else "0")
  | ["inclwd"] => (s, if s.inclWd then "1" else "0")
  | _ => bad

/-- The driver state carries `send_eor` as well (ESess). -/
def ribLine (s : ESess) (ws : List String) : ESess × String :=
  match ws with
  | ["eor"] =>
    let (s', evs) := s.step .eor
    (s', joinWith ";" (evs.map showEv))
  | ["init", _, _] =>
    let (c, o) := ribLineCore s.core ws
    ({ core := c, sendEor := true }, o)
  | "est" :: _ =>
    let (c, o) := ribLineCore s.core ws
    ({ core := c, sendEor := if o = "ok" then true else s.sendEor }, o)
  | _ =>
    let (c, o) := ribLineCore s.core ws
    ({ s with core := c }, o)

end Exa.Driver
