import ExaModel.Model.Nego
import ExaModel.Driver.Util
/- Line protocol for M-Nego / M-OpenCodec.  One output line per input line.

   Capability syntax (parse and print):  mp:A:S  asn4:N  ap:a.s.v;…  nh:a.s.n;…  rr  rrc  enh  em  op  ll
     gr:FLAGS:TIME:a.s.f;…  hn:<hex>:<hex>  sw:<hex>  ms:<0|1>:<hex>  pl:a.s.l;…  unk:CODE:<hex>
   (an empty entry list is the empty string after the colon).  A grouping is groups separated by
   `/`, a group is `_` (empty parameter) or capabilities separated by `,`; `-` is no parameter. -/
namespace Exa.Driver
open Exa Exa.Open

def splitOnNE (s : String) (sep : String) : List String := if s = "" then [] else s.splitOn sep

def triple? (s : String) : Option Triple :=
  match (s.splitOn ".").mapM String.toNat? with
  | some [a, b, c] => some (a, b, c)
  | _ => none

def triples? (s : String) : Option (List Triple) := (splitOnNE s ";").mapM triple?

def family? (s : String) : Option Family :=
  match (s.splitOn ".").mapM String.toNat? with
  | some [a, b] => some (a, b)
  | _ => none

def families? (s : String) : Option (List Family) := (splitOnNE s ";").mapM family?

def hex? (s : String) : Option Bytes := if s = "" then some [] else hexBytesAux s.toList []
def hexS (b : Bytes) : String := if b.isEmpty then "" else toHex b

def cap? (s : String) : Option Cap :=
  match s.splitOn ":" with
  | ["mp", a, f] => do some (.mp (← a.toNat?) (← f.toNat?))
  | ["asn4", v] => do some (.asn4 (← v.toNat?))
  | ["ap", es] => do some (.addpath (← triples? es))
  | ["nh", es] => do some (.nexthop (← triples? es))
  | ["rr"] => some .refresh
  | ["rrc"] => some .refreshCisco
  | ["enh"] => some .enhanced
  | ["em"] => some .extMsg
  | ["op"] => some .operational
  | ["ll"] => some .linkLocal
  | ["gr", fl, t, es] => do some (.graceful (← fl.toNat?) (← t.toNat?) (← triples? es))
  | ["hn", h, d] => do some (.hostname (← hex? h) (← hex? d))
  | ["sw", v] => do some (.software (← hex? v))
  | ["ms", c, v] => do some (.multisession (← bool? c) (← hex? v))
  | ["pl", es] => do some (.pathsLimit (← triples? es))
  | ["unk", c, v] => do some (.unknown (← c.toNat?) (← hex? v))
  | _ => none

def group? (s : String) : Option (List Cap) := if s = "_" then some [] else (s.splitOn ",").mapM cap?

def groups? (s : String) : Option (List (List Cap)) := if s = "-" then some [] else (s.splitOn "/").mapM group?

def showTriple (t : Triple) : String := s!"{t.1}.{t.2.1}.{t.2.2}"
def showTriples (l : List Triple) : String := ";".intercalate (l.map showTriple)
def showFamily (f : Family) : String := s!"{f.1}.{f.2}"
def b01 (b : Bool) : String := if b then "1" else "0"

def showCap : Cap → String
  | .mp a s => s!"mp:{a}:{s}"
  | .asn4 v => s!"asn4:{v}"
  | .addpath es => s!"ap:{showTriples es}"
  | .nexthop es => s!"nh:{showTriples es}"
  | .refresh => "rr"
  | .refreshCisco => "rrc"
  | .enhanced => "enh"
  | .extMsg => "em"
  | .operational => "op"
  | .linkLocal => "ll"
  | .graceful fl t es => s!"gr:{fl}:{t}:{showTriples es}"
  | .hostname h d => s!"hn:{hexS h}:{hexS d}"
  | .software v => s!"sw:{hexS v}"
  | .multisession c v => s!"ms:{b01 c}:{hexS v}"
  | .pathsLimit es => s!"pl:{showTriples es}"
  | .unknown c v => s!"unk:{c}:{hexS v}"

def showCaps (l : List Cap) : String := if l.isEmpty then "-" else ",".intercalate (l.map showCap)

/-- absent `-`, present and empty `e`, else the items joined by `;` -/
def optItems (o : Option (List String)) : String :=
  match o with
  | none => "-"
  | some [] => "e"
  | some l => ";".intercalate l

def showFamNat (e : Family × Nat) : String := s!"{e.1.1}.{e.1.2}:{e.2}"
def showFamBool (e : Family × Bool) : String := s!"{e.1.1}.{e.1.2}:{b01 e.2}"

def showCapSet (s : CapSet) : String :=
  " ".intercalate
    [ "mp=" ++ optItems (s.mp.map (·.map showFamily)),
      "asn4=" ++ (match s.asn4 with | some v => toString v | none => "-"),
      "ap=" ++ optItems (s.addpath.map (·.map showFamNat)),
      "nh=" ++ optItems (s.nexthop.map (·.map showTriple)),
      "rr=" ++ b01 s.refresh, "rrc=" ++ b01 s.refreshCisco, "enh=" ++ b01 s.enhanced, "em=" ++ b01 s.extMsg,
      "op=" ++ b01 s.operational, "ll=" ++ b01 s.linkLocal,
      "gr=" ++ (match s.graceful with
                | some (fl, t, fams) => s!"{fl}:{t}:" ++ optItems (some (fams.map showFamNat))
                | none => "-"),
      "hn=" ++ (match s.hostname with | some (h, d) => s!"{hexS h}:{hexS d}" | none => "-"),
      "sw=" ++ (match s.software with | some v => "x" ++ hexS v | none => "-"),
      "ms=" ++ b01 s.multisession, "msc=" ++ b01 s.multisessionCisco,
      "pl=" ++ optItems (s.pathsLimit.map (·.map showFamNat)),
      "unk=" ++ optItems (some (s.unknown.map (fun e => s!"{e.1}:{hexS e.2}"))) ]

def showErr (e : Err) : String := s!"err {e.code} {e.sub}"

def showRefresh : Refresh → String
  | .absent => "absent" | .normal => "normal" | .enhanced => "enhanced"

def showMS : MS → String
  | .no => "no" | .yes => "yes" | .err c s => s!"err:{c}:{s}" | .crash => "crash"

def items (l : List String) : String := if l.isEmpty then "e" else ";".intercalate l

def showNegotiated (n : Negotiated) : String :=
  " ".intercalate
    [ s!"hold={n.hold}", "asn4=" ++ b01 n.asn4, s!"las={n.localAs}", s!"pas={n.peerAs}",
      "fam=" ++ items (n.families.map showFamily), "nh=" ++ items (n.nexthop.map showTriple),
      "aps=" ++ items (n.apSend.map showFamBool), "apr=" ++ items (n.apRecv.map showFamBool),
      "rf=" ++ showRefresh n.refresh, s!"sz={n.msgSize}", "op=" ++ b01 n.operational, "ll=" ++ b01 n.linkLocal,
      "pl=" ++ items (n.pathsLimit.map showFamNat), "apl=" ++ items (n.advPathsLimit.map showFamNat),
      "ms=" ++ showMS n.multisession ]

def showRfc (n : RfcNegotiated) : String :=
  " ".intercalate
    [ s!"hold={n.hold}", "asn4=" ++ b01 n.asn4, s!"las={n.localAs}", s!"pas={n.peerAs}",
      "fam=" ++ items (n.families.map showFamily), "nh=" ++ items (n.nexthop.map showTriple),
      "aps=" ++ items (n.apSend.map showFamily), "apr=" ++ items (n.apRecv.map showFamily),
      "rf=" ++ showRefresh n.refresh, s!"sz={n.msgSize}" ]

/-- `k=v` words → association list; a word without `=` is an error. -/
def kvs? (ws : List String) : Option (List (String × String)) :=
  ws.mapM (fun w => match w.splitOn "=" with
    | [k, v] => some (k, v)
    | _ => none)

def kv (l : List (String × String)) (k : String) : Option String := (l.find? (·.1 = k)).map (·.2)

def famNat? (s : String) : Option (Family × Nat) :=
  match triple? s with
  | some (a, b, c) => some ((a, b), c)
  | none => none

/-- every key is required: nothing is defaulted -/
def cfg? (ws : List String) : Option Cfg := do
  let l ← kvs? ws
  let n := fun k => (kv l k).bind String.toNat?
  let b := fun k => (kv l k).bind bool?
  some {
    localAs := ← n "las", peerAs := ← n "pas", routerId := ← n "rid", hold := ← n "hold",
    families := ← (kv l "fam").bind families?, asn4 := ← b "asn4",
    nexthopOn := ← b "nhon", nexthops := ← (kv l "nhs").bind triples?,
    addPath := ← n "ap", addpaths := ← (kv l "aps").bind families?,
    pathsLimit := ← (kv l "pl").bind (fun s => (splitOnNE s ";").mapM famNat?),
    graceful := ← (kv l "gr").bind optNat?,
    routeRefresh := ← b "rr", operational := ← b "op", extMsg := ← b "em",
    host := ← (kv l "host").bind hex?, domain := ← (kv l "dom").bind hex?,
    software := ← b "sw", swVersion := ← (kv l "swv").bind hex?,
    linkLocal := ← b "ll", multiSession := ← b "ms" }

def negoLine (_ : Unit) (ws : List String) : Unit × String :=
  let bad := ((), "bad-op")
  match ws with
  | ["enc", ext, ver, asn, hold, rid, gs] =>
    match ver.toNat?, asn.toNat?, hold.toNat?, rid.toNat?, groups? gs with
    | some ver, some asn, some hold, some rid, some gs =>
      let wf := fun e => b01 (wfGroups e gs && wfFixed asn hold rid && decide (ver < 256))
      if ext = "0" then ((), toHex (encodeOpenG false ver asn hold rid gs) ++ " " ++ wf false)
      else if ext = "1" then ((), toHex (encodeOpenG true ver asn hold rid gs) ++ " " ++ wf true)
      else if ext = "a" then
        let o : OpenMsg := { version := ver, myAs := asn, hold := hold, bgpId := rid, caps := gs.flatten }
        ((), toHex (encodeOpen o) ++ " " ++
          b01 (wfGroups (useExtended o.caps) (o.caps.map (fun c => [c])) && wfFixed asn hold rid && decide (ver < 256)))
      else bad
    | _, _, _, _, _ => bad
  | ["dec", body] =>
    match hexBytes? body with
    | some body =>
      match decodeOpen body with
      | .ok o => ((), s!"ok {o.version} {o.myAs} {o.hold} {o.bgpId} {showCaps o.caps}")
      | .error e => ((), showErr e)
    | none => bad
  | ["set", body] =>
    match hexBytes? body with
    | some body =>
      match decodeOpen body with
      | .ok o => ((), s!"ok {o.version} {o.myAs} {o.hold} {o.bgpId} {showCapSet (capSet o.caps)}")
      | .error e => ((), showErr e)
    | none => bad
  | "our" :: cfg =>
    match cfg? cfg with
    | some cfg => ((), toHex (encodeOpen (ourOpen cfg)) ++ " " ++ b01 (wfOpen (ourOpen cfg)) ++ b01 (cfgOK cfg))
    | none => bad
  | "run" :: body :: cfg =>
    match hexBytes? body, cfg? cfg with
    | some body, some cfg =>
      match decodeOpen body with
      | .error e => ((), showErr e)
      | .ok theirs =>
        let n := negotiate (ourOpen cfg) theirs
        let v := match validateOpen cfg n theirs with
          | some e => s!"{e.code}:{e.sub}"
          | none => "ok"
        ((), "neg " ++ showNegotiated n ++ " val=" ++ v)
    | _, _ => bad
  | ["rfc", las, pas, rid, ours, theirs] =>
    match las.toNat?, pas.toNat?, rid.toNat?, hexBytes? ours, hexBytes? theirs with
    | some las, some pas, some rid, some ours, some theirs =>
      match decodeOpen ours, decodeOpen theirs with
      | .ok o, .ok t =>
        let r := rfcRefusals las pas rid o t
        ((), "rfc " ++ showRfc (rfcNegotiate o t) ++ " refuse=" ++ items (r.map (fun e => s!"{e.code}:{e.sub}")))
      | .error e, _ => ((), "ours-" ++ showErr e)
      | _, .error e => ((), showErr e)
    | _, _, _, _, _ => bad
  | _ => bad

end Exa.Driver
