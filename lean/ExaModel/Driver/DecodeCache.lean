import ExaModel.Model.DecodeCache
import ExaModel.Generated.DecodeCacheTable
import ExaModel.Driver.Util
/- Line protocol for M-DecodeCache.  One output line per input line.

   cache reset
   cache unpack <key params: nat list | -> <attribute bytes hex> <kind> <result id>
        the harness supplies what a fresh parse of the block yields under the session's parameters
        (its kind and an id standing for its content); the model answers `hit <id>` / `miss <id>`:
        whether `AttributeCollection.unpack` serves the stored collection, and which result the
        caller gets.  The key parameters are `-` for the unchanged code (key = bytes) and
        `<asn4>,<aigp>` for the repaired one.
   cache klass attr|cap <code>     `Attribute.klass` / `Capability.klass`: `cls <k>` | `none`
   cache id attr|cap <cls>         current `ID` of the class: `<n>` | `-` (never written)
-/
namespace Exa.Driver
open Exa Exa.DecodeCache Exa.Generated

structure CacheSt where
  store : Store (Bytes × List Nat) (Kind × Nat) := []
  areg : Reg := []
  creg : Reg := []

/-- results are opaque to the cache: only their kind matters -/
def drvParser : Parser (Kind × Nat) := { parse := fun _ _ => (.error, 0), kind := Prod.fst }

def kind? : String → Option Kind
  | "error" => some .error
  | "taw" => some .taw
  | "mp" => some .mp
  | "empty" => some .empty
  | "plain" => some .plain
  | _ => none

def cacheLine (s : CacheSt) (ws : List String) : CacheSt × String :=
  let bad := (s, "bad-op")
  match ws with
  | ["reset"] => ({}, "ok")
  | ["unpack", kp, bs, k, rid] =>
    match natList? kp, hexBytes? bs, kind? k, rid.toNat? with
    | some kp, some bs, some k, some rid =>
      let a := access drvParser.policy s.store (bs, kp) (k, rid)
      ({ s with store := a.1 }, (if a.2.2 then "hit " else "miss ") ++ toString a.2.1.2 ++ " slots=" ++ toString a.1.length)
    | _, _, _, _ => bad
  | ["klass", which, c] =>
    match c.toNat? with
    | none => bad
    | some c =>
      if which = "attr" then
        let d := dispatch DecodeCacheTable.attrRegistry s.areg c
        ({ s with areg := d.1 }, match d.2 with | some i => s!"cls {i.cls}" | none => "none")
      else if which = "cap" then
        let d := dispatch DecodeCacheTable.capRegistry s.creg c
        ({ s with creg := d.1 }, match d.2 with | some i => s!"cls {i.cls}" | none => "none")
      else bad
  | ["id", which, k] =>
    match k.toNat? with
    | none => bad
    | some k =>
      if which = "attr" then (s, match AList.lookup k s.areg with | some v => toString v | none => "-")
      else if which = "cap" then (s, match AList.lookup k s.creg with | some v => toString v | none => "-")
      else bad
  | _ => bad

end Exa.Driver
