import ExaModel.Model.Pack
import ExaModel.Driver.Util
/- Line protocol for M-Pack.  One output line per input line.

   pack run <M> <attrDef> <attrNoDef> <negotiated> <simple> <famOrder> <includeWithdraw> <anns> <wds>
     lists comma-separated (`-` = empty); an NLRI is `id:size:fam:v4:nh:nhLen`
   answer: `<status> <n> <number of log.critical calls> | <msg> | <msg> …` with
     msg = `<len> w=<ids> u=<fam>:<ids>|- a=<0|1> r=<fam>:<nh>:<ids>|- n=<ids>`  (ids joined with `.`)
-/
namespace Exa.Driver
open Exa.Pack

def nlri? (s : String) : Option Nlri :=
  match (s.splitOn ":").mapM String.toNat? with
  | some [i, z, f, v, h, l] =>
    if v = 0 then some { id := i, size := z, fam := f, v4 := false, nh := h, nhLen := l }
    else if v = 1 then some { id := i, size := z, fam := f, v4 := true, nh := h, nhLen := l }
    else none
  | _ => none

def nlris? (s : String) : Option (List Nlri) := (splitComma s).mapM nlri?

def showIds (l : List Nlri) : String :=
  if l.isEmpty then "-" else ".".intercalate (l.map (fun x => toString x.id))

def showStatus : Status → String
  | .ok => "ok"
  | .noRoom => "noroom"
  | .tooLong => "toolong"

/-- `a=1` iff attribute bytes other than MP_REACH/MP_UNREACH are on the wire: the block was
    included AND it is not empty (`attrLen` is the length `messages` chose). -/
def showMsg (attrLen : Nat) (m : Msg) : String :=
  let u := match m.unreach with
    | none => "-"
    | some a => s!"{a.fam}:{showIds a.items}"
  let r := match m.reach with
    | none => "-"
    | some a => s!"{a.fam}:{a.nh}:{showIds a.items}"
  s!"{m.len} w={showIds m.wd4} u={u} a={if m.attrs && attrLen > 0 then 1 else 0} r={r} n={showIds m.ann4}"

def showOut (attrLen logged : Nat) (o : Out) : String :=
  let head := s!"{showStatus o.status} {o.msgs.length} {logged}"
  if o.msgs.isEmpty then head else head ++ " | " ++ " | ".intercalate (o.msgs.map (showMsg attrLen))

def showNlri (x : Nlri) : String :=
  s!"{x.id}:{x.size}:{x.fam}:{if x.v4 then 1 else 0}:{x.nh}:{x.nhLen}"

def showNats (l : List Nat) : String := joinWith "," (l.map toString)

/-- an input in the format `pack run` reads -/
def showInput (i : Input) : String :=
  s!"pack run {i.M} {i.attrDef} {i.attrNoDef} {showNats i.negotiated} {showNats i.simple} {showNats i.famOrder} {if i.includeWithdraw then 1 else 0} {joinWith "," (i.anns.map showNlri)} {joinWith "," (i.wds.map showNlri)}"

def packLine (ws : List String) : String :=
  match ws with
  | ["witness", "unfit"] => showInput unfitInput
  | ["witness", "mixed"] => showInput mixedInput
  | ["run", m, ad, an, neg, simp, fo, iw, anns, wds] =>
    match m.toNat?, ad.toNat?, an.toNat?, natList? neg, natList? simp, natList? fo, bool? iw, nlris? anns, nlris? wds with
    | some m, some ad, some an, some neg, some simp, some fo, some iw, some anns, some wds =>
      let i : Input := { M := m, attrDef := ad, attrNoDef := an, negotiated := neg, simple := simp,
                         famOrder := fo, anns := anns, wds := wds, includeWithdraw := iw }
      showOut (chosenAttr i) (logged i) (pack i)
    | _, _, _, _, _, _, _, _, _ => "bad-op"
  | _ => "bad-op"

end Exa.Driver
