import ExaModel.Model.Health
import ExaModel.Driver.Util
/- Line protocol for M-Health.  One output line per input line.

   health cfg k=v …            set the options (unknown key / bad value → bad-op); resets the loop
       ints: decimal (may be negative); bools: 0/1; strings: `-` = None, `e` = '', `x<hex>` (ASCII);
       lists (ips, nbr): comma separated hex, `-` = empty
   health tick <file> <ok>     one iteration of `one` + what follows it until the sleep
   health exit                 `exabgp(States.EXIT)`
   health session <inputs>     the whole `while True` loop on a script (`10,01,…` = file,ok per
                               iteration, `-` = none), the exit event happening when it is exhausted
-/
namespace Exa.Driver
open Exa.Health

structure HState where
  cfg : Cfg := {}
  run : Run := {}

def asciiString? (bs : List Nat) : Option String :=
  if bs.all (· < 128) then some (String.ofList (bs.map Char.ofNat)) else none

def hexStr? (s : String) : Option String := (hexBytes? s).bind asciiString?

def strToHex (s : String) : String := toHex (s.toUTF8.toList.map (·.toNat))

/-- `-` = None, `e` = '', `x<hex>` -/
def optStr? (s : String) : Option (Option String) :=
  if s = "-" then some none
  else if s = "e" then some (some "")
  else match s.toList with
    | 'x' :: rest => (hexStr? (String.ofList rest)).map some
    | _ => none

def optInt? (s : String) : Option (Option Int) :=
  if s = "-" then some none else s.toInt?.map some

def strList? (s : String) : Option (List String) := (splitComma s).mapM hexStr?

def setKey (c : Cfg × Int) (k v : String) : Option (Cfg × Int) :=
  let (cfg, start) := c
  let int (f : Int → Cfg) : Option (Cfg × Int) := v.toInt?.map (fun n => (f n, start))
  let bool (f : Bool → Cfg) : Option (Cfg × Int) := (bool? v).map (fun b => (f b, start))
  let ostr (f : Option String → Cfg) : Option (Cfg × Int) := (optStr? v).map (fun s => (f s, start))
  match k with
  | "rise" => int (fun n => { cfg with rise := n })
  | "fall" => int (fun n => { cfg with fall := n })
  | "disable" => bool (fun b => { cfg with hasDisable := b })
  | "debounce" => bool (fun b => { cfg with debounce := b })
  | "wod" => bool (fun b => { cfg with withdrawOnDown := b })
  | "izero" => bool (fun b => { cfg with intervalZero := b })
  | "noack" => bool (fun b => { cfg with noAck := b })
  | "tty" => bool (fun b => { cfg with tty := b })
  | "ipdyn" => bool (fun b => { cfg with ipDynamic := b })
  | "ipsetup" => bool (fun b => { cfg with ipSetup := b })
  | "up" => int (fun n => { cfg with upMetric := n })
  | "down" => int (fun n => { cfg with downMetric := n })
  | "dis" => int (fun n => { cfg with disabledMetric := n })
  | "inc" => int (fun n => { cfg with increase := n })
  | "lp" => int (fun n => { cfg with localPref := n })
  | "nh" => ostr (fun s => { cfg with nextHop := s })
  | "comm" => ostr (fun s => { cfg with community := s })
  | "dcomm" => ostr (fun s => { cfg with disabledCommunity := s })
  | "ext" => ostr (fun s => { cfg with extCommunity := s })
  | "large" => ostr (fun s => { cfg with largeCommunity := s })
  | "asp" => ostr (fun s => { cfg with asPath := s })
  | "uasp" => ostr (fun s => { cfg with upAsPath := s })
  | "dasp" => ostr (fun s => { cfg with downAsPath := s })
  | "xasp" => ostr (fun s => { cfg with disabledAsPath := s })
  | "pid" => (optInt? v).map (fun p => ({ cfg with pathId := p }, start))
  | "ips" => (strList? v).map (fun l => ({ cfg with ips := l }, start))
  | "nbr" => (strList? v).map (fun l => ({ cfg with neighbors := l }, start))
  | "start" => v.toInt?.map (fun n => (cfg, n))
  | _ => none

def setKeys : Cfg × Int → List String → Option (Cfg × Int)
  | c, [] => some c
  | c, kv :: rest =>
    match kv.splitOn "=" with
    | [k, v] => (setKey c k v).bind (fun c' => setKeys c' rest)
    | _ => none

def showLines (l : List String) : String := joinWith "," (l.map strToHex)

def showOptSt : Option St → String
  | some t => t.name
  | none => "-"

def b01 (b : Bool) : String := if b then "1" else "0"

def inp? (s : String) : Option Inp :=
  match s.toList with
  | [f, o] =>
    match bool? (String.ofList [f]), bool? (String.ofList [o]) with
    | some f, some o => some { file := f, ok := o }
    | _, _ => none
  | _ => none

def healthLine (s : HState) (ws : List String) : HState × String :=
  let bad := (s, "bad-op")
  match ws with
  | "cfg" :: kvs =>
    match setKeys (({} : Cfg), 0) kvs with
    | some (cfg, start) => ({ cfg := { cfg with ips := rotateIps start cfg.ips }, run := {} }, "ok")
    | none => bad
  | ["tick", f, o] =>
    match bool? f, bool? o with
    | some f, some o =>
      let i : Inp := { file := f, ok := o }
      let c := s.cfg
      let l := s.run.loop
      let (_, trig, unhandled) := fsm c l i
      let r' := s.run.step c i
      let lines := stepLines c l i
      let tgt := handed c l i
      let setup := match tgt with | some t => setupBefore c t | none => false
      let remove := match tgt with | some t => removeAfter c t | none => false
      let sleep := if r'.loop.st.fastSleep then "fast" else if c.intervalZero then "end" else "slow"
      ({ s with run := r' },
        s!"st={r'.loop.st.name} checks={r'.loop.checks} trig={showOptSt trig} sleep={sleep} setup={b01 setup} remove={b01 remove} acks={acksFor c lines.length} ann={showOptSt r'.ann} unhandled={b01 unhandled} lines={showLines lines}")
    | _, _ => bad
  | ["exit"] =>
    let c := s.cfg
    let lines := exabgpLines c .exit
    (s, s!"remove={b01 (removeAfter c .exit)} acks={acksFor c lines.length} lines={showLines lines}")
  | ["session", ins] =>
    match (splitComma ins).mapM inp? with
    | some inputs =>
      (s, s!"iters={mainLoopIters s.cfg {} inputs} lines={showLines (mainLoop s.cfg {} inputs)}")
    | none => bad
  | _ => bad

end Exa.Driver
