import ExaModel.Model.Index
import ExaModel.Model.NlriFraming
import ExaModel.Driver.Util
/-! Line protocol of M-Index / M-Framing (stateless).

    index <idx|route|hash|old|wf> <inet|label|vpn> <afi> <safi> <path hex|none> <labels hex> <rd hex|none> <mask> <prefix hex>
    framing split <kind> <afi> <safi> <addpath 0|1> <data hex>   →  ok <consumed> <stored> <rest> | none
    framing pack <kind> <stored hex>                             →  <hex> | none
    framing kind <afi> <safi>                                    →  <kind> | none
-/
namespace Exa.Driver
open Exa Exa.Index

def optHex? (s : String) : Option (Option Bytes) :=
  if s = "none" then some none else (hexBytes? s).map some

def ipKind? : String → Option Index.Kind
  | "inet" => some .inet
  | "label" => some .label
  | "vpn" => some .vpn
  | _ => none

def ipNlri? (ws : List String) : Option IpNlri :=
  match ws with
  | [k, afi, safi, path, labels, rd, mask, pfx] =>
    match ipKind? k, afi.toNat?, safi.toNat?, optHex? path, hexBytes? labels, optHex? rd, mask.toNat?, hexBytes? pfx with
    | some k, some afi, some safi, some path, some labels, some rd, some mask, some pfx =>
      some ⟨k, afi, safi, path, labels, rd, mask, pfx⟩
    | _, _, _, _, _, _, _, _ => none
  | _ => none

def frKind? : String → Option Framing.Kind
  | "prefixBits" => some .prefixBits
  | "typeLen8" => some .typeLen8
  | "mup" => some .mup
  | "type16Len16" => some .type16Len16
  | "flow" => some .flow
  | "vpls" => some .vpls
  | "rtc" => some .rtc
  | "srPolicy" => some .srPolicy
  | _ => none

def frKindName : Framing.Kind → String
  | .prefixBits => "prefixBits"
  | .typeLen8 => "typeLen8"
  | .mup => "mup"
  | .type16Len16 => "type16Len16"
  | .flow => "flow"
  | .vpls => "vpls"
  | .rtc => "rtc"
  | .srPolicy => "srPolicy"

def indexLine (ws : List String) : String :=
  match ws with
  | op :: rest =>
    match ipNlri? rest with
    | none => "bad-op"
    | some a =>
      match op with
      | "idx" => toHex (index a)
      | "route" => toHex (routeIndex a)
      | "hash" => toHex (hashKey a)
      | "old" => toHex (indexOld a)
      | "wf" => if wf a then "1" else "0"
      | _ => "bad-op"
  | _ => "bad-op"

def framingLine (ws : List String) : String :=
  match ws with
  | ["split", k, afi, safi, ap, h] =>
    match frKind? k, afi.toNat?, safi.toNat?, bool? ap, hexBytes? h with
    | some k, some afi, some safi, some ap, some d =>
      match Framing.split k ⟨afi, safi, ap⟩ d with
      | some c => s!"ok {toHex c.consumed} {toHex c.stored} {toHex c.rest}"
      | none => "none"
    | _, _, _, _, _ => "bad-op"
  | ["pack", k, h] =>
    match frKind? k, hexBytes? h with
    | some k, some d => match Framing.pack k d with | some b => toHex b | none => "none"
    | _, _ => "bad-op"
  | ["kind", afi, safi] =>
    match afi.toNat?, safi.toNat? with
    | some afi, some safi => match Framing.kindOfFamily afi safi with | some k => frKindName k | none => "none"
    | _, _ => "bad-op"
  | _ => "bad-op"

def indexDrvLine (st : Unit) (line : String) : Unit × String :=
  match words line with
  | "index" :: ws => (st, indexLine ws)
  | "framing" :: ws => (st, framingLine ws)
  | _ => (st, "bad-op")

end Exa.Driver
