import ExaModel.Model.Json
import ExaModel.Driver.Util
/- Line protocol for M-Json.  One output line per input line.

   json parse <hex>        the bytes of one pipe record (without its line break) through `parseLine`
                           → `ok` | `dup <key hex> <pos>` | `bad <pos>`
   json canon <hex>        → `ok <hex of render (parsed value)>` (same errors)
   json skel <hex>         → `ok <hex of render (skeleton of the parsed value)>` (same errors)
   json quote <cps>        code points (decimal, comma separated, `-` = empty) → hex of `quote s`
   json unquote <hex>      one string token through the lexer → `ok <cps>` | `bad`
   json oneline <cps>      → code points of `oneline s`
   json onelinefixed <cps> → code points of `onelineFixed s`
   json textline <hex>     one text record (without line break): `ok` | `bad <pos>`
   json printable <cps>    → 0/1 per code point (`isPrintable`)
-/
namespace Exa.Driver
open Exa.Json

def showErr (len : Nat) : Err → String
  | .bad r => s!"bad {len - r}"
  | .dup k r => s!"dup {toHex k} {len - r}"

def showNats (l : List Nat) : String := joinWith "," (l.map toString)

def jsonLine (st : Unit) (ws : List String) : Unit × String :=
  let bad := (st, "bad-op")
  match ws with
  | ["parse", h] =>
    match hexBytes? h with
    | some bs =>
      match parseLine bs with
      | .ok _ => (st, "ok")
      | .error e => (st, showErr bs.length e)
    | none => bad
  | ["canon", h] =>
    match hexBytes? h with
    | some bs =>
      match parseLine bs with
      | .ok j => (st, "ok " ++ toHex (render j))
      | .error e => (st, showErr bs.length e)
    | none => bad
  | ["skel", h] =>
    match hexBytes? h with
    | some bs =>
      match parseLine bs with
      | .ok j => (st, "ok " ++ toHex (render j.skel))
      | .error e => (st, showErr bs.length e)
    | none => bad
  | ["quote", c] =>
    match natList? c with
    | some s => (st, toHex (quote s))
    | none => bad
  | ["unquote", h] =>
    match hexBytes? h with
    | some (q :: bs) =>
      if q = 0x22 then
        match lexStr bs with
        | some (s, []) => (st, "ok " ++ showNats s)
        | _ => (st, "bad")
      else (st, "bad")
    | _ => bad
  | ["oneline", c] =>
    match natList? c with
    | some s => (st, showNats (oneline s))
    | none => bad
  | ["onelinefixed", c] =>
    match natList? c with
    | some s => (st, showNats (onelineFixed s))
    | none => bad
  | ["textline", h] =>
    match hexBytes? h with
    | some bs =>
      match firstNonText bs with
      | none => (st, "ok")
      | some p => (st, s!"bad {p}")
    | none => bad
  | ["printable", c] =>
    match natList? c with
    | some s => (st, showNats (s.map (fun c => if isPrintable c then 1 else 0)))
    | none => bad
  | _ => bad

end Exa.Driver
