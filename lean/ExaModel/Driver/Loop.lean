/- The generic line loop of a per-model driver executable: one output line per input line. -/
namespace Exa.Driver

partial def lineLoop {σ : Type} (step : σ → String → σ × String) (h out : IO.FS.Stream) (st : σ) : IO Unit := do
  let line ← h.getLine
  if line.isEmpty then return ()
  let (st', o) := step st (line.trimAscii.toString)
  out.putStrLn o
  out.flush
  lineLoop step h out st'

def runDriver {σ : Type} (init : σ) (step : σ → String → σ × String) : IO Unit := do
  let stdin ← IO.getStdin
  let stdout ← IO.getStdout
  lineLoop step stdin stdout init
  stdout.flush

end Exa.Driver
