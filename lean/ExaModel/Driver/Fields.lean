import ExaModel.Model.Fields
import ExaModel.Driver.Util
/- Line protocol for M-Fields.  One output line per input line.
   fields fits <field> <v>        -> 1 | 0
   fields enc <field> <v>         -> <hex>            (the bytes `encodeField` gives, fit or not)
   fields dec <field> <hex>       -> <n> | invalid | badlen
   fields accepts <field> <int>   -> 1 | 0             (the parser's range check, from the generated bounds)
   fields width <field>           -> <n>
   fields limit <field>           -> <n>              (RFC limit, exclusive)
   fields segsplit <n>            -> comma list
   fields aspathlen <asn4 0|1> <n> -> <n>
   fields msgfits <max> <attrs> <nlri> -> 1 | 0
   anything else                  -> bad-op -/
namespace Exa.Driver
open Exa.Fields

def fieldsLine (st : Unit) (ws : List String) : Unit × String :=
  let bad := (st, "bad-op")
  match ws with
  | ["fits", f, v] =>
    match Field.ofName? f, v.toNat? with
    | some f, some v => (st, if fits f v then "1" else "0")
    | _, _ => bad
  | ["accepts", f, v] =>
    match Field.ofName? f, v.toInt? with
    | some f, some v => (st, if accepts f v then "1" else "0")
    | _, _ => bad
  | ["enc", f, v] =>
    match Field.ofName? f, v.toNat? with
    | some f, some v => (st, toHex (encodeField f v))
    | _, _ => bad
  | ["dec", f, h] =>
    match Field.ofName? f, hexBytes? h with
    | some f, some bs =>
      if bs.length ≠ width f then (st, "badlen")
      else if validWire f bs then (st, toString (decodeField f bs)) else (st, "invalid")
    | _, _ => bad
  | ["width", f] =>
    match Field.ofName? f with
    | some f => (st, toString (width f))
    | none => bad
  | ["limit", f] =>
    match Field.ofName? f with
    | some f => (st, toString (rfcLimit f))
    | none => bad
  | ["segsplit", n] =>
    match n.toNat? with
    | some n => (st, joinWith "," ((segSplit n).map toString))
    | none => bad
  | ["aspathlen", a, n] =>
    match bool? a, n.toNat? with
    | some a, some n => (st, toString (asPathLen (if a then .asn4 else .asn2) n))
    | _, _ => bad
  | ["msgfits", m, a, n] =>
    match m.toNat?, a.toNat?, n.toNat? with
    | some m, some a, some n => (st, if msgFits m a n then "1" else "0")
    | _, _, _ => bad
  | ["names"] => (st, joinWith "," (allFields.map Field.name))
  | _ => bad

end Exa.Driver
