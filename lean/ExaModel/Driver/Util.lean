/- Parsing helpers for the line-protocol driver (no Mathlib). -/
namespace Exa.Driver

def words (s : String) : List String :=
  (s.splitOn " ").filter (· ≠ "")

def splitComma (s : String) : List String :=
  if s = "-" || s = "" then [] else s.splitOn ","

def natList? (s : String) : Option (List Nat) :=
  (splitComma s).mapM String.toNat?

def bool? (s : String) : Option Bool :=
  if s = "1" then some true else if s = "0" then some false else none

def optNat? (s : String) : Option (Option Nat) :=
  if s = "-" then some none else s.toNat?.map some

def hexDigit? (c : Char) : Option Nat :=
  if '0' ≤ c ∧ c ≤ '9' then some (c.toNat - '0'.toNat)
  else if 'a' ≤ c ∧ c ≤ 'f' then some (c.toNat - 'a'.toNat + 10)
  else if 'A' ≤ c ∧ c ≤ 'F' then some (c.toNat - 'A'.toNat + 10)
  else none

def hexBytesAux : List Char → List Nat → Option (List Nat)
  | [], acc => some acc.reverse
  | [_], _ => none
  | a :: b :: t, acc =>
    match hexDigit? a, hexDigit? b with
    | some x, some y => hexBytesAux t ((x * 16 + y) :: acc)
    | _, _ => none

/-- "-" is the empty byte string. -/
def hexBytes? (s : String) : Option (List Nat) :=
  if s = "-" then some [] else hexBytesAux s.toList []

def hexOfNibble (n : Nat) : Char :=
  if n < 10 then Char.ofNat (n + '0'.toNat) else Char.ofNat (n - 10 + 'a'.toNat)

def toHex (bs : List Nat) : String :=
  if bs.isEmpty then "-" else
  String.ofList (bs.flatMap (fun b => [hexOfNibble (b / 16 % 16), hexOfNibble (b % 16)]))

def joinWith (sep : String) (l : List String) : String :=
  if l.isEmpty then "-" else sep.intercalate l

end Exa.Driver
