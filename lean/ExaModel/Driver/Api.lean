import ExaModel.Model.Api
import ExaModel.Driver.Util
/- Line protocol for M-Api.  One output line per input line. -/
namespace Exa.Driver
open Exa Exa.Api Exa.Rib

structure ApiSt where
  max : Nat := 1048576
  strict : Bool := false
  reader : Reader := {}
  q : Quirks := Quirks.code
  nbrs : List Nbr := []
  parseTab : List (PKey × Option (List PRoute)) := []
  wdTab : List (Tok × Nat) := []
  service : Tok := []
  st : St := {}

def ApiSt.env (d : ApiSt) : Env :=
  { q := d.q, nbrs := d.nbrs, service := d.service,
    parse := fun k => match d.parseTab.find? (fun p => p.1 == k) with
      | some p => p.2
      | none => none,
    wdName := fun t => match d.wdTab.find? (fun p => p.1 == t) with
      | some p => p.2
      | none => 0 }

/-- words: comma-separated hex, `-` = no word, `e` = the empty word -/
def hexWord? (s : String) : Option (List Nat) := if s = "e" then some [] else hexBytes? s
def hexWords? (s : String) : Option (List (List Nat)) :=
  if s = "-" then some [] else (s.splitOn ",").mapM hexWord?
def showWord (w : List Nat) : String := if w.isEmpty then "e" else toHex w

def proute? (s : String) : Option PRoute :=
  match (s.splitOn ":").mapM String.toNat? with
  | some [n, f, a, h, g, v] => some { route := { nlri := n, fam := f, attr := a, nh := h, grp := g }, valid := v != 0 }
  | _ => none

def apiRoute? (s : String) : Option Route :=
  match (s.splitOn ":").mapM String.toNat? with
  | some [n, f, a, h, g] => some { nlri := n, fam := f, attr := a, nh := h, grp := g }
  | _ => none

def presult? (s : String) : Option (Option (List PRoute)) :=
  if s = "none" then some none
  else if s = "-" then some (some [])
  else ((s.splitOn ",").mapM proute?).map some

def insSorted (n : Nat) : List Nat → List Nat
  | [] => [n]
  | h :: t => if n ≤ h then n :: h :: t else h :: insSorted n t
def sortNat (l : List Nat) : List Nat := l.foldl (fun acc n => insSorted n acc) []

def insRoute (r : Route) : List Route → List Route
  | [] => [r]
  | h :: t => if r.nlri ≤ h.nlri then r :: h :: t else h :: insRoute r t
def sortRts (l : List Route) : List Route := l.foldl (fun acc r => insRoute r acc) []
def showRt (r : Route) : String := s!"{r.nlri}:{r.fam}:{r.attr}:{r.nh}"

def showRib (r : Rib) : String :=
  "c=" ++ joinWith "," ((sortRts (AList.values r.cache)).map showRt)
  ++ ";a=" ++ joinWith "," ((sortRts (AList.values r.newAnn)).map showRt)
  ++ ";w=" ++ joinWith "," ((sortNat (AList.keys r.newWd)).map toString)
  ++ ";r=" ++ joinWith "," ((sortNat (r.refRoutes.map (·.nlri))).map toString)
  ++ ";f=" ++ joinWith "," ((sortNat r.refFams).map toString)

def showReplies (rs : List Reply) : String :=
  if rs.isEmpty then "-" else String.ofList (rs.map (fun r => match r with | .done => 'd' | .error => 'e'))

def apiLine (d : ApiSt) (ws : List String) : ApiSt × String :=
  let bad := (d, "bad-op")
  match ws with
  | ["init", v, a, q, m, svc] =>
    match v.toNat?, bool? a, q.toList.map (fun c => c == '1'), m.toNat?, hexWord? svc with
    | some v, some a, [q1, q2, q3, q4], some m, some svc =>
      ({ max := m, strict := q4, q := { wildcardShort := q1, v6Fallback := q2, watchdogAll := q3 }, service := svc,
         st := { version := v, ack := a } }, "ok")
    | _, _, _, _, _ => bad
  | ["nbr", pa, li, la, pas, rid, fa, fams, att, enh, ribfams] =>
    match hexWord? pa, hexWord? li, hexWord? la, hexWord? pas, hexWord? rid, hexWord? fa, natList? fams, bool? att, bool? enh, natList? ribfams with
    | some pa, some li, some la, some pas, some rid, some fa, some fams, some att, some enh, some ribfams =>
      let n : Nbr := { peerAddr := pa, localIp := li, localAs := la, peerAs := pas, routerId := rid,
                       familyAllowed := fa, families := fams, attached := att, enhanced := enh }
      ({ d with nbrs := d.nbrs ++ [n], st := { d.st with ribs := d.st.ribs ++ [Rib.init true ribfams] } }, "ok")
    | _, _, _, _, _, _, _, _, _, _ => bad
  | ["wdname", w, id] =>
    match hexWord? w, id.toNat? with
    | some w, some id => ({ d with wdTab := d.wdTab ++ [(w, id)] }, "ok")
    | _, _ => bad
  | ["wdadd", i, r, name, w] =>
    match i.toNat?, apiRoute? r, name.toNat?, bool? w with
    | some i, some r, some name, some w =>
      ({ d with st := { d.st with ribs := applyPeers [i] (fun _ rib => rib.wdogAdd r name w) d.st.ribs } }, "ok")
    | _, _, _, _ => bad
  | ["parse", fn, act, toks, res] =>
    match fn.toNat?, act.toNat?, hexWords? toks, presult? res with
    | some fn, some act, some toks, some res =>
      ({ d with parseTab := d.parseTab ++ [({ fn := fn, action := act, toks := toks }, res)] }, "ok")
    | _, _, _, _ => bad
  | ["feed", chunk] =>
    match hexBytes? chunk with
    | some c =>
      let r := feed d.strict d.max d.reader c
      let fresh := r.queue.drop d.reader.queue.length
      ({ d with reader := r },
        (if r.dead then "dead" else "ok") ++ s!" {fresh.length}" ++ String.join (fresh.map (fun c => " " ++ showWord c)))
    | none => bad
  | ["exec"] =>
    match d.reader.queue with
    | [] => (d, "none")
    | c :: rest =>
      let r := step d.env d.st c
      ({ d with reader := { d.reader with queue := rest }, st := r.1 },
        s!"{showWord c} {showReplies r.2.replies} {if r.2.modelled then 1 else 0} {r.1.version} {if r.1.ack then 1 else 0} "
          ++ (match r.1.group with | none => "-" | some g => toString g.length))
  | ["ribs"] => (d, joinWith " | " (d.st.ribs.map showRib))
  | ["dispatch", v, cmd] =>
    match v.toNat?, hexWord? cmd with
    | some v, some cmd =>
      let r := if v == 4 then dispatchV4 d.q d.nbrs cmd else dispatchV6 d.q d.nbrs cmd
      (d, match r with
        | .error => "error"
        | .ok h sel peers rest _ =>
          s!"{reprStr h} sel={if sel.isSome then 1 else 0} peers={joinWith "," (peers.map toString)} rest={joinWith "," (rest.map showWord)}")
    | _, _ => bad
  | ["formated", l] =>
    match hexWord? l with
    | some l => (d, showWord (formated l))
    | none => bad
  | _ => bad

end Exa.Driver
