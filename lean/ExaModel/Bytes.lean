/-
  Byte strings are `List Nat` with an explicit well-formedness predicate (every element < 256).
  Big-endian 16/32-bit fields with their round-trip lemmas. Import-free.
-/
namespace Exa

abbrev Bytes := List Nat

def WFBytes (bs : Bytes) : Prop := ∀ b ∈ bs, b < 256

instance (bs : Bytes) : Decidable (WFBytes bs) := by unfold WFBytes; exact inferInstance

theorem wfBytes_nil : WFBytes [] := by intro b h; cases h
theorem wfBytes_cons {b : Nat} {bs : Bytes} (hb : b < 256) (h : WFBytes bs) : WFBytes (b :: bs) := by
  intro x hx; rcases List.mem_cons.1 hx with h1 | h1
  · subst h1; exact hb
  · exact h x h1
theorem wfBytes_append {a b : Bytes} (ha : WFBytes a) (hb : WFBytes b) : WFBytes (a ++ b) := by
  intro x hx; rcases List.mem_append.1 hx with h | h
  · exact ha x h
  · exact hb x h
theorem wfBytes_of_append_left {a b : Bytes} (h : WFBytes (a ++ b)) : WFBytes a :=
  fun x hx => h x (List.mem_append_left _ hx)
theorem wfBytes_of_append_right {a b : Bytes} (h : WFBytes (a ++ b)) : WFBytes b :=
  fun x hx => h x (List.mem_append_right _ hx)
theorem wfBytes_take {a : Bytes} (n : Nat) (h : WFBytes a) : WFBytes (a.take n) :=
  fun x hx => h x (List.mem_of_mem_take hx)
theorem wfBytes_drop {a : Bytes} (n : Nat) (h : WFBytes a) : WFBytes (a.drop n) :=
  fun x hx => h x (List.mem_of_mem_drop hx)

/-- big-endian encoders -/
def be16 (n : Nat) : Bytes := [n / 256 % 256, n % 256]
def be32 (n : Nat) : Bytes := [n / 16777216 % 256, n / 65536 % 256, n / 256 % 256, n % 256]

/-- big-endian decoders on the first bytes of a list (0 for missing bytes: callers check lengths) -/
def rd16 (bs : Bytes) : Nat := bs.getD 0 0 * 256 + bs.getD 1 0
def rd32 (bs : Bytes) : Nat :=
  bs.getD 0 0 * 16777216 + bs.getD 1 0 * 65536 + bs.getD 2 0 * 256 + bs.getD 3 0

@[simp] theorem be16_length (n : Nat) : (be16 n).length = 2 := rfl
@[simp] theorem be32_length (n : Nat) : (be32 n).length = 4 := rfl

theorem wf_be16 (n : Nat) : WFBytes (be16 n) := by
  intro b hb; simp [be16] at hb; rcases hb with h | h <;> subst h <;> omega
theorem wf_be32 (n : Nat) : WFBytes (be32 n) := by
  intro b hb; simp [be32] at hb; rcases hb with h | h | h | h <;> subst h <;> omega

theorem rd16_be16 (n : Nat) (h : n < 65536) (rest : Bytes) : rd16 (be16 n ++ rest) = n := by
  simp [rd16, be16]; omega
theorem rd32_be32 (n : Nat) (h : n < 4294967296) (rest : Bytes) : rd32 (be32 n ++ rest) = n := by
  simp [rd32, be32]; omega

theorem rd16_lt (bs : Bytes) (h : WFBytes bs) : rd16 bs < 65536 := by
  have h0 : bs.getD 0 0 < 256 := by
    cases bs with
    | nil => simp
    | cons a t => simp; exact h a List.mem_cons_self
  have h1 : bs.getD 1 0 < 256 := by
    match bs with
    | [] => simp
    | [_] => simp
    | _ :: b :: t => simp; exact h b (by simp)
  simp only [rd16]; omega

theorem be16_rd16 (a b : Nat) (ha : a < 256) (hb : b < 256) : be16 (rd16 [a, b]) = [a, b] := by
  simp [be16, rd16]; omega

end Exa
