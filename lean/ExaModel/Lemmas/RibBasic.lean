import ExaModel.Model.Rib
set_option linter.unusedSimpArgs false
/-! Helper lemmas for M-Rib: per-NLRI effect of an event list, AList well-formedness. -/
namespace Exa
namespace AList
variable {α β : Type} [DecidableEq α]

def NodupKeys (l : AList α β) : Prop := (keys l).Nodup

theorem mem_keys_insert {k k' : α} {v : β} {l : AList α β} :
    k' ∈ keys (insert k v l) ↔ k' = k ∨ k' ∈ keys l := by
  induction l with
  | nil => simp [insert, keys]
  | cons hd t ih =>
    obtain ⟨k₁, v₁⟩ := hd
    simp only [keys] at ih
    by_cases hk : k₁ = k <;> simp [insert, keys, hk, ih] <;> grind

theorem mem_keys_erase {k k' : α} {l : AList α β} :
    k' ∈ keys (erase k l) ↔ k' ≠ k ∧ k' ∈ keys l := by
  induction l with
  | nil => simp [erase, keys]
  | cons hd t ih =>
    obtain ⟨k₁, v₁⟩ := hd
    simp only [keys] at ih
    by_cases hk : k₁ = k <;> simp [erase, keys, hk, ih] <;> grind

theorem nodup_insert {k : α} {v : β} {l : AList α β} (h : NodupKeys l) : NodupKeys (insert k v l) := by
  induction l with
  | nil => simp [insert, NodupKeys, keys]
  | cons hd t ih =>
    obtain ⟨k₁, v₁⟩ := hd
    simp only [NodupKeys, keys, List.map_cons, List.nodup_cons] at h
    by_cases hk : k₁ = k
    · subst hk; simpa [insert, NodupKeys, keys] using h
    · simp only [insert, hk, if_false, NodupKeys, keys, List.map_cons, List.nodup_cons]
      refine ⟨?_, ih h.2⟩
      intro hm
      have := (mem_keys_insert (k := k) (v := v) (l := t)).1 hm
      rcases this with h1 | h1
      · exact hk h1
      · exact h.1 h1

theorem nodup_erase {k : α} {l : AList α β} (h : NodupKeys l) : NodupKeys (erase k l) := by
  induction l with
  | nil => simp [erase, NodupKeys, keys]
  | cons hd t ih =>
    obtain ⟨k₁, v₁⟩ := hd
    simp only [NodupKeys, keys, List.map_cons, List.nodup_cons] at h
    by_cases hk : k₁ = k
    · subst hk; simpa [erase] using ih h.2
    · simp only [erase, hk, if_false, NodupKeys, keys, List.map_cons, List.nodup_cons]
      refine ⟨?_, ih h.2⟩
      intro hm
      exact h.1 ((mem_keys_erase (k := k) (l := t)).1 hm).2

theorem lookup_eq_none_iff {k : α} {l : AList α β} : lookup k l = none ↔ k ∉ keys l := by
  induction l with
  | nil => simp [lookup, keys]
  | cons hd t ih =>
    obtain ⟨k₁, v₁⟩ := hd
    by_cases hk : k₁ = k
    · subst hk; simp [lookup, keys]
    · simp only [lookup, hk, if_false, keys, List.map_cons, List.mem_cons, not_or]
      simp only [keys] at ih
      rw [ih]; constructor
      · intro h; exact ⟨fun e => hk e.symm, h⟩
      · intro h; exact h.2

theorem lookup_of_mem {k : α} {v : β} {l : AList α β} (hn : NodupKeys l) (hm : (k, v) ∈ l) :
    lookup k l = some v := by
  induction l with
  | nil => cases hm
  | cons hd t ih =>
    obtain ⟨k₁, v₁⟩ := hd
    simp only [NodupKeys, keys, List.map_cons, List.nodup_cons] at hn
    rcases List.mem_cons.1 hm with h | h
    · cases h; simp [lookup]
    · have hk : k₁ ≠ k := by
        intro e; subst e
        exact hn.1 (List.mem_map.2 ⟨(k₁, v), h, rfl⟩)
      simp [lookup, hk, ih hn.2 h]

theorem mem_of_lookup {k : α} {v : β} {l : AList α β} (h : lookup k l = some v) : (k, v) ∈ l := by
  induction l with
  | nil => simp [lookup] at h
  | cons hd t ih =>
    obtain ⟨k₁, v₁⟩ := hd
    by_cases hk : k₁ = k
    · subst hk; simp [lookup] at h; subst h; exact List.mem_cons_self
    · simp [lookup, hk] at h; exact List.mem_cons_of_mem _ (ih h)

theorem mem_insert {k : α} {v : β} {l : AList α β} {p : α × β} (h : p ∈ insert k v l) :
    p = (k, v) ∨ p ∈ l := by
  induction l with
  | nil => simp [insert] at h; exact Or.inl h
  | cons hd t ih =>
    obtain ⟨k₁, v₁⟩ := hd
    by_cases hk : k₁ = k
    · subst hk; simp only [insert, if_true, List.mem_cons] at h
      rcases h with h | h
      · exact Or.inl h
      · exact Or.inr (List.mem_cons_of_mem _ h)
    · simp only [insert, hk, if_false, List.mem_cons] at h
      rcases h with h | h
      · exact Or.inr (h ▸ List.mem_cons_self)
      · rcases ih h with h' | h'
        · exact Or.inl h'
        · exact Or.inr (List.mem_cons_of_mem _ h')

theorem mem_erase {k : α} {l : AList α β} {p : α × β} (h : p ∈ erase k l) : p ∈ l := by
  induction l with
  | nil => simp [erase] at h
  | cons hd t ih =>
    obtain ⟨k₁, v₁⟩ := hd
    by_cases hk : k₁ = k
    · subst hk; simp only [erase, if_true] at h; exact List.mem_cons_of_mem _ (ih h)
    · simp only [erase, hk, if_false, List.mem_cons] at h
      rcases h with h | h
      · exact h ▸ List.mem_cons_self
      · exact List.mem_cons_of_mem _ (ih h)

end AList
end Exa
