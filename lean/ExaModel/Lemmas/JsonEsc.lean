import ExaModel.Model.Json
set_option linter.unusedSimpArgs false
set_option linter.unusedVariables false
/-! Lemmas about `json.dumps`-style escaping against the RFC 8259 string lexer. -/
namespace Exa.Json

theorem lexUnits_cons (c : Nat) (t : List Nat) : lexUnits (c :: t) =
    if c = 0x22 then some ([], t)
    else if c = 0x5C then
      match t with
      | [] => none
      | e :: t2 =>
        if e = 0x75 then
          match t2 with
          | a :: b :: c' :: d :: t3 =>
            match hex4 a b c' d with
            | some u => consUnit u (lexUnits t3)
            | none => none
          | _ => none
        else
          match simpleEsc e with
          | some u => consUnit u (lexUnits t2)
          | none => none
    else if c < 0x20 ∨ isSurr c = true ∨ 0x110000 ≤ c then none
    else consUnit c (lexUnits t) := by
  rw [lexUnits.eq_def]; rfl

theorem hexVal_hexDigit (n : Nat) (h : n < 16) : hexVal (hexDigit n) = some n := by
  unfold hexDigit hexVal
  by_cases h10 : n < 10
  · simp only [h10, if_true]
    have : 0x30 ≤ 0x30 + n ∧ 0x30 + n ≤ 0x39 := by omega
    simp only [this, and_self, if_true]
    congr 1; omega
  · simp only [h10, if_false]
    have h1 : ¬ (0x30 ≤ 0x57 + n ∧ 0x57 + n ≤ 0x39) := by omega
    have h2 : 0x61 ≤ 0x57 + n ∧ 0x57 + n ≤ 0x66 := by omega
    simp only [h1, h2, and_self, if_true, if_false]
    congr 1; omega

theorem hexDigit_range (n : Nat) (h : n < 16) : 0x30 ≤ hexDigit n ∧ hexDigit n < 0x67 := by
  unfold hexDigit; split <;> omega

theorem hexDigit_ne (n : Nat) (h : n < 16) : hexDigit n ≠ 0x5C := by
  unfold hexDigit; split <;> omega

theorem hex4_u4 (n : Nat) (h : n < 0x10000) :
    hex4 (hexDigit (n / 4096 % 16)) (hexDigit (n / 256 % 16)) (hexDigit (n / 16 % 16)) (hexDigit (n % 16)) = some n := by
  unfold hex4
  rw [hexVal_hexDigit _ (by omega), hexVal_hexDigit _ (by omega), hexVal_hexDigit _ (by omega), hexVal_hexDigit _ (by omega)]
  simp only [Option.some.injEq]
  omega

/-- the lexer reads a `\uXXXX` written by `u4` back as that unit -/
theorem lexUnits_u4 (n : Nat) (h : n < 0x10000) (tail : List Nat) :
    lexUnits (u4 n ++ tail) = consUnit n (lexUnits tail) := by
  simp only [u4, List.cons_append, List.nil_append]
  rw [lexUnits_cons]
  simp only [show ¬ ((0x5C : Nat) = 0x22) by decide, if_false, if_true, hex4_u4 n h]

/-- the code units `json.dumps` writes for one code point -/
def unitsOf (c : Nat) : Str :=
  if c < 0x10000 then [c] else [0xD800 + (c - 0x10000) / 0x400 % 0x400, 0xDC00 + (c - 0x10000) % 0x400]

def consUnits (us : Str) (r : Option (Str × List Nat)) : Option (Str × List Nat) := us.foldr consUnit r

theorem lexUnits_escChar (c : Nat) (hc : c < 0x110000) (tail : List Nat) :
    lexUnits (escChar c ++ tail) = consUnits (unitsOf c) (lexUnits tail) := by
  unfold escChar
  by_cases h1 : c = 0x22
  · subst h1; simp [lexUnits_cons, simpleEsc, unitsOf, consUnits]
  by_cases h2 : c = 0x5C
  · subst h2; simp [lexUnits_cons, simpleEsc, unitsOf, consUnits]
  by_cases h3 : c = 0x0A
  · subst h3; simp [lexUnits_cons, simpleEsc, unitsOf, consUnits]
  by_cases h4 : c = 0x0D
  · subst h4; simp [lexUnits_cons, simpleEsc, unitsOf, consUnits]
  by_cases h5 : c = 0x09
  · subst h5; simp [lexUnits_cons, simpleEsc, unitsOf, consUnits]
  by_cases h6 : c = 0x08
  · subst h6; simp [lexUnits_cons, simpleEsc, unitsOf, consUnits]
  by_cases h7 : c = 0x0C
  · subst h7; simp [lexUnits_cons, simpleEsc, unitsOf, consUnits]
  simp only [h1, h2, h3, h4, h5, h6, h7, if_false]
  by_cases h8 : 0x20 ≤ c ∧ c < 0x7F
  · simp only [h8, and_self, if_true, List.cons_append, List.nil_append]
    rw [lexUnits_cons]
    have hs : isSurr c = false := by simp [isSurr]; omega
    have hlt : c < 0x10000 := by omega
    have hg : ¬ (c < 0x20 ∨ isSurr c = true ∨ 0x110000 ≤ c) := by simp [hs]; omega
    simp only [h1, h2, hg, if_false, unitsOf, hlt, if_true, consUnits, List.foldr]
  simp only [h8, if_false]
  by_cases h9 : c < 0x10000
  · simp only [h9, if_true, lexUnits_u4 c h9, unitsOf, consUnits, List.foldr]
  · simp only [h9, if_false, List.append_assoc, unitsOf, consUnits, List.foldr]
    rw [lexUnits_u4 _ (by omega), lexUnits_u4 _ (by omega)]

theorem lexUnits_escBody (s : Str) (hs : ∀ c ∈ s, c < 0x110000) (rest : List Nat) :
    lexUnits (escBody s ++ 0x22 :: rest) = some (s.flatMap unitsOf, rest) := by
  induction s with
  | nil => simp [escBody, lexUnits_cons]
  | cons c s ih =>
    have hc := hs c (by simp)
    have ih' := ih (fun x hx => hs x (by simp [hx]))
    simp only [escBody, List.flatMap_cons, List.append_assoc] at ih' ⊢
    rw [lexUnits_escChar c hc, ih']
    unfold unitsOf consUnits
    split <;> simp [consUnit]

/-! `combine` undoes the UTF-16 split -/

theorem combine_cons_of_not_pair (c : Nat) (U : Str)
    (h : ∀ v, U.head? = some v → ¬ (isHigh c = true ∧ isLow v = true)) : combine (c :: U) = c :: combine U := by
  cases U with
  | nil => simp [combine]
  | cons v U' =>
    rw [combine]
    simp only [h v (by simp), if_false]

theorem unitsOf_ne_nil (c : Nat) : unitsOf c ≠ [] := by unfold unitsOf; split <;> simp

theorem head_units_not_low (s : Str) (c : Nat) (hn : noSurrPair (c :: s) = true) (hc : c < 0x10000) :
    ∀ v, (s.flatMap unitsOf).head? = some v → ¬ (isHigh c = true ∧ isLow v = true) := by
  intro v hv
  cases s with
  | nil => simp at hv
  | cons c' s' =>
    simp only [List.flatMap_cons] at hv
    unfold unitsOf at hv
    by_cases h : c' < 0x10000
    · simp only [h, if_true, List.cons_append, List.nil_append, List.head?_cons, Option.some.injEq] at hv
      subst hv
      simp only [noSurrPair, Bool.and_eq_true, Bool.not_eq_true', Bool.and_eq_false_iff] at hn
      intro ⟨a, b⟩
      rcases hn.1 with x | x <;> simp_all
    · simp only [h, if_false, List.cons_append, List.head?_cons, Option.some.injEq] at hv
      subst hv
      intro ⟨_, b⟩
      simp only [isLow, Bool.and_eq_true, decide_eq_true_eq] at b
      omega

theorem noSurrPair_tail (c : Nat) (s : Str) (h : noSurrPair (c :: s) = true) : noSurrPair s = true := by
  cases s with
  | nil => rfl
  | cons c' s' => simp only [noSurrPair, Bool.and_eq_true] at h; exact h.2

theorem combine_units (s : Str) (hs : ∀ c ∈ s, c < 0x110000) (hn : noSurrPair s = true) :
    combine (s.flatMap unitsOf) = s := by
  induction s with
  | nil => simp [combine]
  | cons c s ih =>
    have hc := hs c (by simp)
    have ih' := ih (fun x hx => hs x (by simp [hx])) (noSurrPair_tail c s hn)
    simp only [List.flatMap_cons]
    by_cases h : c < 0x10000
    · have : unitsOf c = [c] := by simp [unitsOf, h]
      rw [this, List.cons_append, List.nil_append, combine_cons_of_not_pair c _ (head_units_not_low s c hn h), ih']
    · have : unitsOf c = [0xD800 + (c - 0x10000) / 0x400 % 0x400, 0xDC00 + (c - 0x10000) % 0x400] := by simp [unitsOf, h]
      rw [this]
      simp only [List.cons_append, List.nil_append]
      rw [combine]
      have hh : isHigh (0xD800 + (c - 0x10000) / 0x400 % 0x400) = true := by simp [isHigh]; omega
      have hl : isLow (0xDC00 + (c - 0x10000) % 0x400) = true := by simp [isLow]; omega
      have hv : 0x10000 + (0xD800 + (c - 0x10000) / 0x400 % 0x400 - 0xD800) * 0x400 + (0xDC00 + (c - 0x10000) % 0x400 - 0xDC00) = c := by
        omega
      simp only [hh, hl, and_self, if_true, ih', hv]

theorem wfStr_iff (s : Str) : wfStr s = true ↔ (∀ c ∈ s, c < 0x110000) ∧ noSurrPair s = true := by
  simp [wfStr, List.all_eq_true]

/-- **The string token ends exactly at the closing quote the writer put**, whatever follows, and
    holds exactly the string that was escaped. -/
theorem lexStr_escBody (s : Str) (hs : wfStr s = true) (rest : List Nat) :
    lexStr (escBody s ++ 0x22 :: rest) = some (s, rest) := by
  have ⟨h1, h2⟩ := (wfStr_iff s).1 hs
  simp only [lexStr, lexUnits_escBody s h1 rest, combine_units s h1 h2]

theorem hexDigit_mod_ascii (n : Nat) : 0x20 ≤ hexDigit (n % 16) ∧ hexDigit (n % 16) < 0x7F := by
  have := hexDigit_range (n % 16) (by omega); omega

theorem u4_ascii (n x : Nat) (hx : x ∈ u4 n) : 0x20 ≤ x ∧ x < 0x7F := by
  simp only [u4, List.mem_cons, List.not_mem_nil, or_false] at hx
  rcases hx with rfl | rfl | rfl | rfl | rfl | rfl
  · omega
  · omega
  · exact hexDigit_mod_ascii _
  · exact hexDigit_mod_ascii _
  · exact hexDigit_mod_ascii _
  · exact hexDigit_mod_ascii _

theorem escChar_ascii (c x : Nat) (hx : x ∈ escChar c) : 0x20 ≤ x ∧ x < 0x7F := by
  unfold escChar at hx
  split at hx
  · simp only [List.mem_cons, List.not_mem_nil, or_false] at hx; omega
  split at hx
  · simp only [List.mem_cons, List.not_mem_nil, or_false] at hx; omega
  split at hx
  · simp only [List.mem_cons, List.not_mem_nil, or_false] at hx; omega
  split at hx
  · simp only [List.mem_cons, List.not_mem_nil, or_false] at hx; omega
  split at hx
  · simp only [List.mem_cons, List.not_mem_nil, or_false] at hx; omega
  split at hx
  · simp only [List.mem_cons, List.not_mem_nil, or_false] at hx; omega
  split at hx
  · simp only [List.mem_cons, List.not_mem_nil, or_false] at hx; omega
  split at hx
  · simp only [List.mem_cons, List.not_mem_nil, or_false] at hx; omega
  split at hx
  · exact u4_ascii _ x hx
  · rcases List.mem_append.1 hx with h | h
    · exact u4_ascii _ x h
    · exact u4_ascii _ x h

theorem escBody_ascii (s : Str) : ∀ x ∈ escBody s, 0x20 ≤ x ∧ x < 0x7F := by
  intro x hx
  simp only [escBody, List.mem_flatMap] at hx
  obtain ⟨c, _, h⟩ := hx
  exact escChar_ascii c x h

theorem quote_ascii (s : Str) : ∀ x ∈ quote s, 0x20 ≤ x ∧ x < 0x7F := by
  intro x hx
  simp only [quote, List.mem_cons, List.mem_append, List.not_mem_nil, or_false] at hx
  rcases hx with h | h | h
  · omega
  · exact escBody_ascii s x h
  · omega

end Exa.Json
