import ExaModel.Lemmas.RibInv
set_option linter.unusedSimpArgs false
/-! Session-level steps (generator start / next), runs and drain. -/
namespace Exa.Rib
open Exa

/-- Operations that can happen while a session is up. -/
def Op.isUp : Op → Bool
  | .lost => false
  | .established _ _ => false
  | _ => true

theorem snapEff_flushed (rib : Rib) (incl : Bool) (n : Nat) (v : Val) :
    snapEff rib.flushed incl n v = v := by
  simp [snapEff, Rib.flushed]

theorem snapEff_not_pending (rib : Rib) (incl : Bool) (n : Nat) (v : Val) (h : rib.pending = false) :
    snapEff rib incl n v = v := by
  simp only [Rib.pending, Bool.or_eq_false_iff, Bool.not_eq_false', List.isEmpty_iff] at h
  obtain ⟨⟨h1, h2⟩, h3⟩ := h
  simp [snapEff, h1, h2, h3]

theorem good_start (s : Sess) (t : Table) (g : Good s t) : Good (s.step .start).1 t := by
  obtain ⟨rib, infl, incl⟩ := s
  cases infl with
  | some x => exact g
  | none =>
    simp only [Sess.step]
    split
    · refine ⟨wfmap_nil, staleOK_nil, g.wfCache, g.cacheOn, ?_, ?_, ?_⟩
      · intro n
        have := g.inv n
        simp only [nextIncl, Option.isSome_none, Bool.or_false, Option.getD_none, effect_nil] at this
        simp only [snapEff_flushed, Option.getD_some]
        rw [snap_effect _ _ _ _ g.wfAnn g.staleOK]
        exact this
      · intro _ h; cases h
      · intro r hr; cases hr
    · exact g

theorem good_next (s : Sess) (t : Table) (g : Good s t) :
    Good (s.step .next).1 (applyEvs t (s.step .next).2) := by
  obtain ⟨rib, infl, incl⟩ := s
  cases infl with
  | none => exact g
  | some evs =>
    cases evs with
    | nil =>
      simp only [Sess.step, applyEvs, List.foldl_nil]
      refine ⟨g.wfAnn, g.staleOK, g.wfCache, g.cacheOn, ?_, ?_, g.refCached⟩
      · intro n
        have := g.inv n
        simpa [nextIncl] using this
      · intro h; cases h
    | cons e rest =>
      simp only [Sess.step, applyEvs, List.foldl_cons, List.foldl_nil]
      refine ⟨g.wfAnn, g.staleOK, g.wfCache, g.cacheOn, ?_, ?_, g.refCached⟩
      · intro n
        have := g.inv n
        simp only [nextIncl, Option.isSome_some, Bool.or_true, Option.getD_some, effect_cons] at this ⊢
        rw [lookup_applyEv]; exact this
      · intro _ h; cases h

theorem good_step (s : Sess) (t : Table) (op : Op) (hop : op.isUp = true) (g : Good s t) :
    Good (s.step op).1 (applyEvs t (s.step op).2) := by
  cases op with
  | add r f => exact (good_closed s.inflight s.inclWd t).add s.rib r f g
  | del n f => exact (good_closed s.inflight s.inclWd t).del s.rib n f g
  | resend e f => exact (good_closed s.inflight s.inclWd t).resend s.rib e f g
  | withdrawAll fs => exact (good_closed s.inflight s.inclWd t).withdrawAll fs s.rib g
  | wdogAdd r n w => exact (good_closed s.inflight s.inclWd t).wdogAdd r n w s.rib g
  | wdogAnnounce n => exact (good_closed s.inflight s.inclWd t).wdogAnnounce n s.rib g
  | wdogWithdraw n => exact (good_closed s.inflight s.inclWd t).wdogWithdraw n s.rib g
  | start =>
    have h2 : (s.step .start).2 = [] := by
      obtain ⟨rib, infl, incl⟩ := s
      cases infl with
      | some x => rfl
      | none => simp only [Sess.step]; split <;> rfl
    rw [h2]; exact good_start s t g
  | next => exact good_next s t g
  | lost => cases hop
  | established p n => cases hop
  | reload p n => exact (good_closed s.inflight s.inclWd t).replaceReload p n s.rib g

theorem good_run (s : Sess) (t : Table) (ops : List Op) (hops : ∀ op ∈ ops, op.isUp = true) (g : Good s t) :
    Good (s.run ops).1 (applyEvs t (s.run ops).2) := by
  induction ops generalizing s t with
  | nil => exact g
  | cons op rest ih =>
    simp only [Sess.run]
    have g1 := good_step s t op (hops op List.mem_cons_self) g
    have g2 := ih (s.step op).1 _ (fun o ho => hops o (List.mem_cons_of_mem _ ho)) g1
    simpa [applyEvs, List.foldl_append] using g2

theorem good_finish (s : Sess) (t : Table) (g : Good s t) :
    Good s.finish.1 (applyEvs t s.finish.2) := by
  obtain ⟨rib, infl, incl⟩ := s
  cases infl with
  | none => exact g
  | some evs =>
    simp only [Sess.finish]
    refine ⟨g.wfAnn, g.staleOK, g.wfCache, g.cacheOn, ?_, ?_, g.refCached⟩
    · intro n
      have := g.inv n
      simp only [nextIncl, Option.isSome_some, Bool.or_true, Option.getD_some] at this
      simp only [nextIncl, Bool.true_or, Option.getD_none, effect_nil, lookup_applyEvs]
      exact this
    · intro h; cases h

theorem finish_inflight (s : Sess) : s.finish.1.inflight = none := by
  obtain ⟨rib, infl, incl⟩ := s
  cases infl <;> rfl

/-- After a drain the peer's table is the reported Adj-RIB-Out. -/
theorem good_drain (s : Sess) (t : Table) (g : Good s t) (n : Nat) :
    AList.lookup n (applyEvs t s.drain.2) = s.drain.1.rib.cacheView n := by
  have g1 := good_finish s t g
  have hi1 := finish_inflight s
  unfold Sess.drain
  generalize hs1 : s.finish = f1 at *
  obtain ⟨⟨rib1, infl1, incl1⟩, o1⟩ := f1
  simp only at hi1 g1 ⊢
  subst hi1
  by_cases hp : rib1.pending = true
  · -- a generator is created and consumed
    have g2 := good_start ⟨rib1, none, incl1⟩ _ g1
    have g3 := good_finish _ _ g2
    simp only [Sess.step, hp, if_true] at g2 g3 ⊢
    simp only [Sess.finish] at g3 ⊢
    have := g3.inv n
    simp only [snapEff_flushed, Option.getD_none, effect_nil] at this
    simpa [applyEvs, List.foldl_append] using this
  · have hp' : rib1.pending = false := by simpa using hp
    simp only [Sess.step, hp', Bool.false_eq_true, if_false, Sess.finish, List.append_nil]
    have := g1.inv n
    simp only [snapEff_not_pending _ _ _ _ hp', Option.getD_none, effect_nil] at this
    exact this

theorem good_init (fams : List Nat) : Good (Sess.init true fams) [] := by
  refine ⟨wfmap_nil, staleOK_nil, wfmap_nil, rfl, ?_, ?_, ?_⟩
  · intro n; simp [snapEff, Sess.init, Rib.init, Rib.cacheView, nextIncl]
  · intro _ _ n; rfl
  · intro r hr; cases hr

end Exa.Rib
