import ExaModel.Lemmas.FlowExaDecode
set_option linter.unusedSimpArgs false
/-! `exaDecode` and `decodeNlri` agree in both directions (IPv6 prefix offsets 0). -/
namespace Exa.Flow

theorem exaHi_eq : exaHi = rfcHi := rfl

theorem exaDecode_cons (v6 vpn : Bool) (b : Nat) (t : Bytes) :
    exaDecode v6 vpn (b :: t) =
      match splitNlri exaHi (b :: t) with
      | .error _ => .raise
      | .ok (payload, rest) =>
        if vpn && decide (payload.length < 8) then .invalid rest
        else
          match decodeComps v6 exaP6 ((if vpn then payload.drop 8 else payload).length + 1)
              (if vpn then payload.drop 8 else payload) with
          | .error _ => .invalid rest
          | .ok cs => .ok (if vpn then some (payload.take 8) else none) (regroup cs) rest := rfl

theorem noOffsetRaw_of_interp (v6 : Bool) (rc : List RawComp) (h : NoOffset (rc.map (interp v6))) : NoOffsetRaw rc := by
  intro c hc
  have := h (interp v6 c) (List.mem_map.2 ⟨c, hc, rfl⟩)
  cases c <;> simpa [interp, Comp.off0, RawComp.off0] using this

theorem map_delivered_eq (v6 : Bool) (rc : List RawComp) (h : NoOffsetRaw rc) :
    rc.map (exaDelivered v6) = rc.map (interp v6) := by
  apply List.map_congr_left
  intro c hc
  exact exaDelivered_eq_interp v6 c (h c hc)

/-- what the body decodes to under the code's reading, given the reference reading -/
theorem exa_body_of_reference (v6 : Bool) (body : Bytes) (r : Rule) (h : decodeFlow v6 body = .ok r) (h0 : NoOffset r) :
    ∃ rc, decodeComps v6 exaP6 (body.length + 1) body = .ok rc ∧ regroup rc = rc ∧ rc.map (exaDelivered v6) = r := by
  obtain ⟨rc, e1, e2, e3, e4⟩ := decodeFlow_sound v6 body r h
  subst e4
  have hno := noOffsetRaw_of_interp v6 rc h0
  have hex : ∀ c ∈ rc, CompShape v6 exaP6 c := fun c hc => shape_rfc_to_exa v6 c (e2 c hc) (hno c hc)
  refine ⟨rc, ?_, regroup_id v6 rfcP6 rc e2 e3, map_delivered_eq v6 rc hno⟩
  rw [e1]
  exact decodeComps_complete v6 exaP6 rc _ hex (by omega)

theorem exaDecode_of_reference (v6 vpn : Bool) (bs : Bytes) (x : Nlri) (rest : Bytes)
    (h : decodeNlri v6 vpn bs = .ok (x, rest)) (h0 : NoOffset x.rule) :
    ∃ rc, exaDecode v6 vpn bs = .ok x.rd rc rest ∧ rc.map (exaDelivered v6) = x.rule := by
  cases bs with
  | nil => simp [decodeNlri, splitNlri] at h
  | cons b t =>
    rw [exaDecode_cons, exaHi_eq]
    simp only [decodeNlri] at h
    split at h
    · simp at h
    · rename_i payload rest' hsplit
      rw [hsplit]
      cases vpn with
      | false =>
        simp only [Bool.false_eq_true, if_false, Bool.false_and] at h ⊢
        split at h
        · simp at h
        · rename_i r hr
          simp only [Except.ok.injEq, Prod.mk.injEq] at h
          obtain ⟨h1, h2⟩ := h
          subst h1; subst h2
          obtain ⟨rc, d1, d2, d3⟩ := exa_body_of_reference v6 payload r hr h0
          exact ⟨rc, by simp only [d1, d2], d3⟩
      | true =>
        simp only [if_true, Bool.true_and] at h ⊢
        split at h
        · simp at h
        · rename_i hlen
          split at h
          · simp at h
          · rename_i r hr
            simp only [Except.ok.injEq, Prod.mk.injEq] at h
            obtain ⟨h1, h2⟩ := h
            subst h1; subst h2
            obtain ⟨rc, d1, d2, d3⟩ := exa_body_of_reference v6 (payload.drop 8) r hr h0
            refine ⟨rc, ?_, d3⟩
            have : decide (payload.length < 8) = false := by simpa using hlen
            simp only [this, Bool.false_eq_true, if_false, d1, d2]

/-- the reference reading of a body the code's reader accepted -/
theorem reference_body_of_exa (v6 : Bool) (body : Bytes) (cs0 : List RawComp)
    (h : decodeComps v6 exaP6 (body.length + 1) body = .ok cs0) (h0 : NoOffsetRaw (regroup cs0)) :
    (decodeFlow v6 body = .ok ((regroup cs0).map (exaDelivered v6))) ∨ decodeFlow v6 body = .error .order := by
  obtain ⟨e1, e2⟩ := decodeComps_sound v6 exaP6 _ body cs0 h
  have hno : NoOffsetRaw cs0 := by
    intro c hc
    cases c with
    | prefix4 _ _ _ => trivial
    | ops _ _ => trivial
    | prefix6 ty len off bs => exact h0 _ (mem_regroup_prefix6 v6 exaP6 cs0 e2 ty len off bs hc)
  have hrfc : ∀ c ∈ cs0, CompShape v6 rfcP6 c := fun c hc => shape_exa_to_rfc v6 c (e2 c hc) (hno c hc)
  have hdec : decodeRaw v6 body = .ok cs0 := by
    simp only [decodeRaw]
    rw [e1]
    exact decodeComps_complete v6 rfcP6 cs0 _ hrfc (by omega)
  by_cases ha : ascending (cs0.map RawComp.ty) = true
  · left
    have hid := regroup_id v6 rfcP6 cs0 hrfc ha
    simp only [decodeFlow, hdec, ha, if_true, hid, map_delivered_eq v6 cs0 hno]
  · right
    simp only [decodeFlow, hdec, ha, if_false, Bool.false_eq_true]

theorem reference_of_exaDecode (v6 vpn : Bool) (bs : Bytes) (rd : Option Bytes) (cs : List RawComp) (rest : Bytes)
    (h : exaDecode v6 vpn bs = .ok rd cs rest) (h0 : NoOffsetRaw cs) :
    decodeNlri v6 vpn bs = .ok (⟨rd, cs.map (exaDelivered v6)⟩, rest) ∨ decodeNlri v6 vpn bs = .error .order := by
  cases bs with
  | nil => simp [exaDecode] at h
  | cons b t =>
    rw [exaDecode_cons, exaHi_eq] at h
    simp only [decodeNlri]
    split at h
    · simp at h
    · rename_i payload rest' hsplit
      rw [hsplit]
      cases vpn with
      | false =>
        simp only [Bool.false_eq_true, if_false, Bool.false_and] at h ⊢
        split at h
        · simp at h
        · rename_i cs0 hcs0
          simp only [ExaDec.ok.injEq] at h
          obtain ⟨h1, h2, h3⟩ := h
          subst h1; subst h2; subst h3
          rcases reference_body_of_exa v6 payload cs0 hcs0 h0 with hb | hb
          · left; simp only [hb]
          · right; simp only [hb]
      | true =>
        simp only [if_true, Bool.true_and] at h ⊢
        split at h
        · simp at h
        · rename_i hlen
          have hlen' : ¬ payload.length < 8 := by simpa using hlen
          rw [if_neg hlen']
          split at h
          · simp at h
          · rename_i cs0 hcs0
            simp only [ExaDec.ok.injEq] at h
            obtain ⟨h1, h2, h3⟩ := h
            subst h1; subst h2; subst h3
            rcases reference_body_of_exa v6 (payload.drop 8) cs0 hcs0 h0 with hb | hb
            · left; simp only [hb]
            · right; simp only [hb]

/-! ### IPv4 has no offsets: the side condition holds by itself -/

theorem noOffsetRaw_v4 (p : Nat → Nat → Option Nat) (cs : List RawComp) (h : ∀ c ∈ cs, CompShape false p c) :
    NoOffsetRaw cs := by
  intro c hc
  cases c with
  | prefix4 _ _ _ => trivial
  | ops _ _ => trivial
  | prefix6 ty len off bs => obtain ⟨hv, _⟩ := h _ hc; cases hv

theorem noOffset_of_reference_v4 (vpn : Bool) (bs : Bytes) (x : Nlri) (rest : Bytes)
    (h : decodeNlri false vpn bs = .ok (x, rest)) : NoOffset x.rule := by
  obtain ⟨_, _, rc, _, _, _, hs, _, hr⟩ := decodeNlri_sound false vpn bs x rest h
  rw [hr]
  intro c hc
  obtain ⟨rcomp, hm, rfl⟩ := List.mem_map.1 hc
  have := noOffsetRaw_v4 rfcP6 rc hs rcomp hm
  cases rcomp <;> simpa [interp, Comp.off0, RawComp.off0] using this

theorem mem_of_mem_regroup_prefix6 (cs : List RawComp) (ty len off : Nat) (bs : Bytes)
    (h : RawComp.prefix6 ty len off bs ∈ regroup cs) : RawComp.prefix6 ty len off bs ∈ cs := by
  rw [regroup_eq] at h
  obtain ⟨id, _, hm⟩ := List.mem_flatMap.1 h
  simp only [regroupPiece] at hm
  split at hm
  · exact (List.mem_filter.1 hm).1
  · split at hm
    · simp at hm
    · simp at hm

theorem noOffsetRaw_of_exaDecode_v4 (vpn : Bool) (bs : Bytes) (rd : Option Bytes) (cs : List RawComp) (rest : Bytes)
    (h : exaDecode false vpn bs = .ok rd cs rest) : NoOffsetRaw cs := by
  cases bs with
  | nil => simp [exaDecode] at h
  | cons b t =>
    rw [exaDecode_cons] at h
    split at h
    · simp at h
    · split at h
      · simp at h
      · split at h
        · simp at h
        · rename_i cs0 hcs0
          simp only [ExaDec.ok.injEq] at h
          obtain ⟨_, h2, _⟩ := h
          subst h2
          obtain ⟨_, e2⟩ := decodeComps_sound false exaP6 _ _ cs0 hcs0
          intro c hc
          cases c with
          | prefix4 _ _ _ => trivial
          | ops _ _ => trivial
          | prefix6 ty len off bs' =>
            exact noOffsetRaw_v4 exaP6 cs0 e2 _ (mem_of_mem_regroup_prefix6 cs0 ty len off bs' hc)

end Exa.Flow
