import ExaModel.Lemmas.WireExaSlots
import ExaModel.Lemmas.WireMerge
set_option linter.unusedSimpArgs false
/-!
  M-Wire-Exa, part 6 of the lemmas: what M-Wire's canonical report says, type code by type code, about
  the attribute block ExaBGP writes (optionally followed by the MP_REACH_NLRI attribute), including the
  RFC 6793 reconstruction of AS_PATH and AGGREGATOR on a 2-octet session.
-/
namespace Exa.WireExa
open Exa Exa.Wire
open Exa.Generated.ExaEncTable

/-- What may follow the block: nothing, or MP_REACH_NLRI attributes. -/
def IsTail (tail : List Attr) : Prop := ∀ x ∈ tail, ∃ afi safi nhb ns, x.val = .mpReach afi safi nhb ns

theorem tail_rep (P : Params) (as : List Attr) (c : Nat) (tail : List Attr) (h : IsTail tail) :
    ∀ x ∈ tail, repAt (reportVal P as) c x = none := by
  intro x hx
  obtain ⟨afi, safi, nhb, ns, e⟩ := h x hx
  simp [repAt, reportVal, e]

theorem tail_code (tail : List Attr) (h : IsTail tail) : ∀ x ∈ tail, x.code = 14 := by
  intro x hx
  obtain ⟨afi, safi, nhb, ns, e⟩ := h x hx
  simp [Attr.code, e, AttrVal.code]

/-! ### RFC 6793 on what ExaBGP sends to a 2-octet peer -/

theorem transAsn_id (a : Nat) (h : isBig a = false) : transAsn a = a := by simp [transAsn, h]

theorem map_transAsn_id (l : List Nat) (h : l.any isBig = false) : l.map transAsn = l := by
  induction l with
  | nil => rfl
  | cons a u ih =>
    simp only [List.any_cons, Bool.or_eq_false_iff] at h
    rw [List.map_cons, transAsn_id a h.1, ih h.2]

theorem transSegs_id (segs : List Seg) (h : hasBig segs = false) : transSegs segs = segs := by
  induction segs with
  | nil => rfl
  | cons s t ih =>
    simp only [hasBig, List.any_cons, Bool.or_eq_false_iff] at h
    have ht : transSegs t = t := ih (by simpa [hasBig] using h.2)
    simp only [transSegs, List.map_cons] at ht ⊢
    rw [ht, map_transAsn_id s.2 h.1]

theorem pathCount_transSegs (segs : List Seg) : pathCount (transSegs segs) = pathCount segs := by
  induction segs with
  | nil => rfl
  | cons s t ih =>
    simp only [transSegs, List.map_cons, pathCount] at ih ⊢
    rw [ih]
    simp [segCount]

theorem takeUnits_zero (l : List Seg) (h : ∀ s ∈ l, (s.1 = 1 ∨ s.1 = 2) ∧ 1 ≤ s.2.length) : takeUnits 0 l = [] := by
  cases l with
  | nil => rfl
  | cons s t =>
    have hs := h s (by simp)
    unfold takeUnits
    rcases hs.1 with h1 | h2
    · have c2 : ¬ s.1 = 2 := by omega
      simp [c2, h1]
    · have c : ¬ s.2.length ≤ 0 := by omega
      simp [h2, c]

/-- The receiver's reconstruction (RFC 6793 §4.2.3) of AS_PATH with AS_TRANS + AS4_PATH is the true path. -/
theorem merge_trans (segs : List Seg) (h : PathOk segs) : merge6793 (transSegs segs) segs = segs := by
  unfold merge6793
  rw [pathCount_transSegs]
  simp only [Nat.lt_irrefl, if_false, Nat.sub_self]
  rw [takeUnits_zero]
  · rw [plainSegs_of_PathOk segs h]; rfl
  · intro s hs
    simp only [transSegs, List.mem_map] at hs
    obtain ⟨s0, h0, e⟩ := hs
    subst e
    have := h s0 h0
    exact ⟨this.1, by simpa using this.2.1⟩

/-- A confederation segment counts for nothing and is taken with what precedes the cut (RFC 6793 §4.2.3). -/
theorem takeUnits_confed_prefix (c rest : List Seg) (k : Nat) (hc : ∀ s ∈ c, s.1 ≠ 1 ∧ s.1 ≠ 2) :
    takeUnits k (c ++ rest) = c ++ takeUnits k rest := by
  induction c with
  | nil => rfl
  | cons s t ih =>
    have hs := hc s (by simp)
    have ht := ih (fun x hx => hc x (List.mem_cons_of_mem _ hx))
    simp only [List.cons_append]
    rw [takeUnits]
    simp [hs.1, hs.2, ht]

theorem pathCount_confed (c : List Seg) (hc : ∀ s ∈ c, s.1 ≠ 1 ∧ s.1 ≠ 2) : pathCount c = 0 := by
  induction c with
  | nil => rfl
  | cons s t ih =>
    have hs := hc s (by simp)
    simp [pathCount, segCount, hs.1, hs.2, ih (fun x hx => hc x (List.mem_cons_of_mem _ hx))]

theorem plainSegs_confed_append (c p : List Seg) (hc : ∀ s ∈ c, s.1 ≠ 1 ∧ s.1 ≠ 2) (hp : ∀ s ∈ p, s.1 = 1 ∨ s.1 = 2) :
    plainSegs (c ++ p) = p := by
  unfold plainSegs
  rw [List.filter_append]
  have e1 : c.filter (fun s => s.1 == 1 || s.1 == 2) = [] := by
    apply List.filter_eq_nil_iff.2
    intro s hs
    have := hc s hs
    simp [this.1, this.2]
  have e2 : p.filter (fun s => s.1 == 1 || s.1 == 2) = p := by
    apply List.filter_eq_self.2
    intro s hs
    rcases hp s hs with h | h <;> simp [h]
  rw [e1, e2]; rfl

/-- **What a 2-octet session carries of a path with confederation segments** (RFC 5065: they lead the path).
    The sender writes AS_PATH with AS_TRANS for every AS number above 65535 and AS4_PATH with the AS_SEQUENCE /
    AS_SET segments only (RFC 6793 §3); the receiver's reconstruction gives the confederation segments as they
    travelled (members above 65535 as AS_TRANS: nothing carries them) followed by the true AS_SEQUENCE / AS_SET
    segments. -/
theorem merge_trans_confed (c p : List Seg) (hc : ∀ s ∈ c, s.1 ≠ 1 ∧ s.1 ≠ 2)
    (hp : ∀ s ∈ p, (s.1 = 1 ∨ s.1 = 2) ∧ 1 ≤ s.2.length) :
    merge6793 (transSegs (c ++ p)) (plainSegs (c ++ p)) = transSegs c ++ p := by
  have hpl : plainSegs (c ++ p) = p := plainSegs_confed_append c p hc (fun s hs => (hp s hs).1)
  have hpp : plainSegs p = p := by
    have := plainSegs_confed_append [] p (by simp) (fun s hs => (hp s hs).1)
    simpa using this
  have hcT : ∀ s ∈ transSegs c, s.1 ≠ 1 ∧ s.1 ≠ 2 := by
    intro s hs
    simp only [transSegs, List.mem_map] at hs
    obtain ⟨s0, h0, e⟩ := hs
    subst e
    exact hc s0 h0
  have hpT : ∀ s ∈ transSegs p, (s.1 = 1 ∨ s.1 = 2) ∧ 1 ≤ s.2.length := by
    intro s hs
    simp only [transSegs, List.mem_map] at hs
    obtain ⟨s0, h0, e⟩ := hs
    subst e
    have := hp s0 h0
    exact ⟨this.1, by simpa using this.2⟩
  have hsplit : transSegs (c ++ p) = transSegs c ++ transSegs p := by simp [transSegs]
  unfold merge6793
  rw [hpl, hpp, pathCount_transSegs, pathCount_append, pathCount_confed c hc]
  simp only [Nat.zero_add, Nat.lt_irrefl, if_false, Nat.sub_self]
  rw [hsplit, takeUnits_confed_prefix _ _ _ hcT, takeUnits_zero _ hpT]
  simp

/-! ### the finders on the block -/

section
variable (p : SessParams) (r : RouteReq) (nh : Bytes) (tail : List Attr)

theorem ctx_as4 (ht : IsTail tail) :
    findAs4Path (semAll p r nh ++ tail) =
      if p.asn4 then none
      else if hasBig (plainSegs (modelPath p r)) then some (plainSegs (modelPath p r)) else none := by
  rw [findAs4Path_eq, findSome_append_tail _ _ _ (fun x hx => gAs4_none x (by rw [tail_code tail ht x hx]; decide)),
    find_semAll_slot p r nh gAs4 17 2 gAs4_none (by decide) (by decide), slot2]
  unfold semAsPath
  by_cases h4 : p.asn4 = true
  · simp only [h4, if_true]; rfl
  · have h4' : p.asn4 = false := by simpa using h4
    simp only [h4', Bool.false_eq_true, if_false]
    by_cases hb : hasBig (plainSegs (modelPath p r)) = true
    · simp only [hb, if_true]; rfl
    · have hb' : hasBig (plainSegs (modelPath p r)) = false := by simpa using hb
      simp only [hb', Bool.false_eq_true, if_false]; rfl

theorem ctx_agg4 (ht : IsTail tail) :
    findAgg4 (semAll p r nh ++ tail) = match firstOf r.attrs 7 with
      | some (.aggregator a i) => if !p.asn4 && isBig a then some (a, i) else none
      | _ => none := by
  rw [findAgg4_eq, findSome_append_tail _ _ _ (fun x hx => gAgg4_none x (by rw [tail_code tail ht x hx]; decide)),
    find_semAll_slot p r nh gAgg4 18 7 gAgg4_none (by decide) (by decide), slot7]
  cases hf : firstOf r.attrs 7 with
  | none => rfl
  | some b =>
    cases b <;> try rfl
    case aggregator a i =>
      simp only
      unfold semAggregator
      by_cases h4 : p.asn4 = true
      · simp only [h4, if_true, Bool.not_true, Bool.false_and, Bool.false_eq_true, if_false]; rfl
      · have h4' : p.asn4 = false := by simpa using h4
        simp only [h4', Bool.false_eq_true, if_false, Bool.not_false, Bool.true_and]
        by_cases hb : isBig a = true
        · simp only [hb, Bool.not_true, Bool.false_eq_true, if_false, if_true]; rfl
        · have hb' : isBig a = false := by simpa using hb
          simp only [hb', Bool.not_false, if_true, Bool.false_eq_true, if_false]; rfl

theorem ctx_agg (ht : IsTail tail) :
    findAgg (semAll p r nh ++ tail) = match firstOf r.attrs 7 with
      | some (.aggregator a i) => if !p.asn4 && isBig a then some (exaAsTrans, i) else some (a, i)
      | _ => none := by
  rw [findAgg_eq, findSome_append_tail _ _ _ (fun x hx => gAgg_none x (by rw [tail_code tail ht x hx]; decide)),
    find_semAll_slot p r nh gAgg 7 7 gAgg_none (by decide) (by decide), slot7]
  cases hf : firstOf r.attrs 7 with
  | none => rfl
  | some b =>
    cases b <;> try rfl
    case aggregator a i =>
      simp only
      unfold semAggregator
      by_cases h4 : p.asn4 = true
      · simp only [h4, if_true, Bool.not_true, Bool.false_and, Bool.false_eq_true, if_false]; rfl
      · have h4' : p.asn4 = false := by simpa using h4
        simp only [h4', Bool.false_eq_true, if_false, Bool.not_false, Bool.true_and]
        by_cases hb : isBig a = true
        · simp only [hb, Bool.not_true, Bool.false_eq_true, if_false, if_true]; rfl
        · have hb' : isBig a = false := by simpa using hb
          simp only [hb', Bool.not_false, if_true, Bool.false_eq_true, if_false]; rfl

theorem ctx_useAs4 (ht : IsTail tail) : useAs4 (semAll p r nh ++ tail) = true := by
  unfold useAs4
  rw [ctx_agg p r nh tail ht, ctx_agg4 p r nh tail ht]
  cases hf : firstOf r.attrs 7 with
  | none => rfl
  | some b =>
    cases b <;> try rfl
    case aggregator a i =>
      simp only
      by_cases hc : (!p.asn4 && isBig a) = true
      · simp [hc, asTrans, exaAsTrans]
      · have hc' : (!p.asn4 && isBig a) = false := by simpa using hc
        simp [hc']

theorem ctx_nh (ht : IsTail tail) :
    findNextHop (semAll p r nh ++ tail) = if nh.length = 4 then some (rd32 nh) else none := by
  rw [findNextHop_eq, findSome_append_tail _ _ _ (fun x hx => gNh_none x (by rw [tail_code tail ht x hx]; decide)),
    find_semAll_slot p r nh gNh 3 3 gNh_none (by decide) (by decide), slot3]
  split <;> simp [gNh, mk]

/-! ### the report, type code by type code -/

/-- The report of `c` only looks at slot `k`. -/
theorem rep_slot (ht : IsTail tail) (P : Params) (c k : Nat) (hk : k ∈ codeOrder)
    (hs : ∀ k' ∈ codeOrder, k' ≠ k → c ∉ slot k') :
    (semAll p r nh ++ tail).findSome? (repAt (reportVal P (semAll p r nh ++ tail)) c) =
      (semCode p r nh k).findSome? (repAt (reportVal P (semAll p r nh ++ tail)) c) := by
  rw [findSome_append_tail _ _ _ (tail_rep P _ c tail ht),
    find_semAll_slot p r nh _ c k (fun a ha => repAt_none P _ c a ha) hk hs]

theorem rep_none (ht : IsTail tail) (P : Params) (c : Nat) (hs : ∀ k' ∈ codeOrder, c ∉ slot k') :
    (semAll p r nh ++ tail).findSome? (repAt (reportVal P (semAll p r nh ++ tail)) c) = none := by
  rw [findSome_append_tail _ _ _ (tail_rep P _ c tail ht),
    find_semAll_none p r nh _ c (fun a ha => repAt_none P _ c a ha) hs]

theorem rep1 (ht : IsTail tail) (P : Params) :
    (semAll p r nh ++ tail).findSome? (repAt (reportVal P (semAll p r nh ++ tail)) 1) =
      some (.origin (wantOrigin r)) := by
  rw [rep_slot p r nh tail ht P 1 1 (by decide) (by decide), slot1]
  simp [repAt, reportVal, mk, AttrVal.code]

theorem rep2 (ht : IsTail tail) (hp : PathOk (modelPath p r)) :
    (semAll p r nh ++ tail).findSome? (repAt (reportVal (paramsOf p) (semAll p r nh ++ tail)) 2) =
      some (.asPath (modelPath p r)) := by
  rw [rep_slot p r nh tail ht (paramsOf p) 2 2 (by decide) (by decide), slot2]
  unfold semAsPath
  by_cases h4 : p.asn4 = true
  · simp [h4, repAt, reportVal, mk, AttrVal.code, paramsOf]
  · have h4' : p.asn4 = false := by simpa using h4
    simp only [h4', Bool.false_eq_true, if_false, List.findSome?_cons]
    have e : repAt (reportVal (paramsOf p) (semAll p r nh ++ tail)) 2
        (mk (paramsOf p) false true (.asPath (transSegs (modelPath p r)))) = some (.asPath (modelPath p r)) := by
      simp only [repAt, reportVal, mk, paramsOf, h4', Bool.false_eq_true, if_false,
        ctx_as4 p r nh tail ht, ctx_useAs4 p r nh tail ht, if_true, plainSegs_of_PathOk _ hp]
      by_cases hb : hasBig (modelPath p r) = true
      · simp [hb, merge_trans _ hp, AttrVal.code]
      · have hb' : hasBig (modelPath p r) = false := by simpa using hb
        simp [hb', transSegs_id _ hb', AttrVal.code]
    rw [e]

theorem rep3 (ht : IsTail tail) (P : Params) :
    (semAll p r nh ++ tail).findSome? (repAt (reportVal P (semAll p r nh ++ tail)) 3) =
      if nh.length = 4 then some (.nextHop (rd32 nh)) else none := by
  rw [rep_slot p r nh tail ht P 3 3 (by decide) (by decide), slot3]
  split <;> simp [repAt, reportVal, mk, AttrVal.code]

theorem rep4 (ht : IsTail tail) (P : Params) :
    (semAll p r nh ++ tail).findSome? (repAt (reportVal P (semAll p r nh ++ tail)) 4) =
      match firstOf r.attrs 4 with | some (.med v) => some (.med v) | _ => none := by
  rw [rep_slot p r nh tail ht P 4 4 (by decide) (by decide), slot4]
  cases hf : firstOf r.attrs 4 with
  | none => rfl
  | some b => cases b <;> simp [repAt, reportVal, mk, AttrVal.code]

theorem rep5 (ht : IsTail tail) (P : Params) :
    (semAll p r nh ++ tail).findSome? (repAt (reportVal P (semAll p r nh ++ tail)) 5) =
      if sameAs p then some (.localPref (wantLocalPref r)) else none := by
  rw [rep_slot p r nh tail ht P 5 5 (by decide) (by decide), slot5]
  split <;> simp [repAt, reportVal, mk, AttrVal.code]

theorem rep6 (ht : IsTail tail) (P : Params) :
    (semAll p r nh ++ tail).findSome? (repAt (reportVal P (semAll p r nh ++ tail)) 6) =
      match firstOf r.attrs 6 with | some .atomicAggregate => some .atomicAggregate | _ => none := by
  rw [rep_slot p r nh tail ht P 6 6 (by decide) (by decide), slot6]
  cases hf : firstOf r.attrs 6 with
  | none => rfl
  | some b => cases b <;> simp [repAt, reportVal, mk, AttrVal.code]

theorem rep7 (ht : IsTail tail) :
    (semAll p r nh ++ tail).findSome? (repAt (reportVal (paramsOf p) (semAll p r nh ++ tail)) 7) =
      match firstOf r.attrs 7 with | some (.aggregator a i) => some (.aggregator a i) | _ => none := by
  rw [rep_slot p r nh tail ht (paramsOf p) 7 7 (by decide) (by decide), slot7]
  cases hf : firstOf r.attrs 7 with
  | none => rfl
  | some b =>
    cases b <;> try (simp; done)
    case aggregator a i =>
      simp only
      unfold semAggregator
      by_cases h4 : p.asn4 = true
      · simp [h4, repAt, reportVal, mk, AttrVal.code, paramsOf]
      · have h4' : p.asn4 = false := by simpa using h4
        have hctx := ctx_agg4 p r nh tail ht
        rw [hf] at hctx
        simp only [h4', Bool.not_false, Bool.true_and] at hctx
        by_cases hb : isBig a = true
        · simp only [hb, if_true] at hctx
          simp [h4', hb, repAt, reportVal, mk, AttrVal.code, paramsOf, hctx, asTrans, exaAsTrans]
        · have hb' : isBig a = false := by simpa using hb
          simp only [hb', Bool.false_eq_true, if_false] at hctx
          simp [h4', hb', repAt, reportVal, mk, AttrVal.code, paramsOf, hctx]

theorem rep8 (ht : IsTail tail) (P : Params) :
    (semAll p r nh ++ tail).findSome? (repAt (reportVal P (semAll p r nh ++ tail)) 8) =
      match firstOf r.attrs 8 with
      | some (.communities cs) => if cs = [] then none else some (.communities (sortBy id cs))
      | _ => none := by
  rw [rep_slot p r nh tail ht P 8 8 (by decide) (by decide), slot8]
  cases hf : firstOf r.attrs 8 with
  | none => rfl
  | some b =>
    cases b <;> try (simp; done)
    case communities cs =>
      simp only
      split <;> simp [repAt, reportVal, mk, AttrVal.code]

theorem rep9 (ht : IsTail tail) (P : Params) :
    (semAll p r nh ++ tail).findSome? (repAt (reportVal P (semAll p r nh ++ tail)) 9) =
      match firstOf r.attrs 9 with | some (.originatorId i) => some (.originatorId i) | _ => none := by
  rw [rep_slot p r nh tail ht P 9 9 (by decide) (by decide), slot9]
  cases hf : firstOf r.attrs 9 with
  | none => rfl
  | some b => cases b <;> simp [repAt, reportVal, mk, AttrVal.code]

theorem rep10 (ht : IsTail tail) (P : Params) :
    (semAll p r nh ++ tail).findSome? (repAt (reportVal P (semAll p r nh ++ tail)) 10) =
      match firstOf r.attrs 10 with
      | some (.clusterList ids) => if ids = [] then none else some (.clusterList ids)
      | _ => none := by
  rw [rep_slot p r nh tail ht P 10 10 (by decide) (by decide), slot10]
  cases hf : firstOf r.attrs 10 with
  | none => rfl
  | some b =>
    cases b <;> try (simp; done)
    case clusterList ids =>
      simp only
      split <;> simp [repAt, reportVal, mk, AttrVal.code]

theorem rep16 (ht : IsTail tail) (P : Params) :
    (semAll p r nh ++ tail).findSome? (repAt (reportVal P (semAll p r nh ++ tail)) 16) =
      if extAll r.attrs = [] then none else some (.extCommunities (sortBy key2 (extAll r.attrs))) := by
  rw [rep_slot p r nh tail ht P 16 16 (by decide) (by decide), slot16]
  split <;> simp [repAt, reportVal, mk, AttrVal.code]

theorem rep32 (ht : IsTail tail) (P : Params) :
    (semAll p r nh ++ tail).findSome? (repAt (reportVal P (semAll p r nh ++ tail)) 32) =
      match firstOf r.attrs 32 with
      | some (.largeCommunities cs) => if cs = [] then none else some (.largeCommunities (sortBy key3 (dedup cs)))
      | _ => none := by
  rw [rep_slot p r nh tail ht P 32 32 (by decide) (by decide), slot32]
  cases hf : firstOf r.attrs 32 with
  | none => rfl
  | some b =>
    cases b <;> try (simp; done)
    case largeCommunities cs =>
      simp only
      split <;> simp [repAt, reportVal, mk, AttrVal.code]

/-- AS4_PATH and AS4_AGGREGATOR never appear in the report. -/
theorem rep17 (ht : IsTail tail) (P : Params) :
    (semAll p r nh ++ tail).findSome? (repAt (reportVal P (semAll p r nh ++ tail)) 17) = none := by
  rw [rep_slot p r nh tail ht P 17 2 (by decide) (by decide), slot2]
  apply findSome_none_of_all
  intro a ha
  unfold semAsPath at ha
  have e1 : ∀ s, repAt (reportVal P (semAll p r nh ++ tail)) 17 (mk (paramsOf p) false true (.asPath s)) = none :=
    fun s => repAt_none P _ 17 _ (by simp [mk, Attr.code, AttrVal.code])
  have e2 : ∀ s, repAt (reportVal P (semAll p r nh ++ tail)) 17 (mk (paramsOf p) true true (.as4Path s)) = none := by
    intro s; simp [repAt, reportVal, mk]
  split at ha
  · simp only [List.mem_singleton] at ha; subst ha; exact e1 _
  · rcases List.mem_cons.1 ha with ha | ha
    · subst ha; exact e1 _
    · split at ha
      · simp only [List.mem_singleton] at ha; subst ha; exact e2 _
      · cases ha

theorem rep18 (ht : IsTail tail) (P : Params) :
    (semAll p r nh ++ tail).findSome? (repAt (reportVal P (semAll p r nh ++ tail)) 18) = none := by
  rw [rep_slot p r nh tail ht P 18 7 (by decide) (by decide)]
  apply findSome_none_of_all
  intro a ha
  have hc := mem_code_slot p r nh 7 a ha
  simp only [slot, show ¬ (7 = 2) by decide, if_false, if_true, List.mem_cons, List.mem_nil_iff, or_false] at hc
  rcases hc with hc | hc
  · exact repAt_none P _ 18 a (by omega)
  · -- the attribute has code 18: AS4_AGGREGATOR, which the report drops
    unfold Attr.code at hc
    unfold repAt reportVal
    cases hv : a.val <;> simp only [hv, AttrVal.code] at hc <;> try (exact absurd hc (by decide))
    · rfl
    · rename_i c raw
      subst hc
      -- an unrecognised attribute of code 18 cannot come out of `semCode`
      exfalso
      rw [slot7] at ha
      cases hf : firstOf r.attrs 7 with
      | none => simp [hf] at ha
      | some b =>
        rw [hf] at ha
        cases b <;> simp only at ha <;> try (cases ha; done)
        case aggregator x y =>
          unfold semAggregator at ha
          split at ha
          · simp only [List.mem_singleton] at ha; subst ha; simp [mk] at hv
          · split at ha
            · simp only [List.mem_singleton] at ha; subst ha; simp [mk] at hv
            · simp only [List.mem_cons, List.mem_nil_iff, or_false] at ha
              rcases ha with ha | ha <;> (subst ha; simp [mk] at hv)

theorem slot_subset : ∀ k ∈ codeOrder, ∀ x ∈ slot k, x ∈ allCodes := by decide

theorem rep_other (ht : IsTail tail) (P : Params) (c : Nat) (hc : c ∉ allCodes) :
    (semAll p r nh ++ tail).findSome? (repAt (reportVal P (semAll p r nh ++ tail)) c) = none :=
  rep_none p r nh tail ht P c (fun k hk hx => hc (slot_subset k hk c hx))

end

end Exa.WireExa
