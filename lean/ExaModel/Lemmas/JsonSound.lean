import ExaModel.Lemmas.JsonParse
set_option linter.unusedSimpArgs false
set_option linter.unusedVariables false
/-! Soundness of the duplicate-key check: whatever `parse` accepts has no repeated key in any object. -/
namespace Exa.Json

theorem pValue_zero (inp : List Nat) : pValue 0 inp = .error (.bad inp.length) := by rw [pValue]
theorem pMembers_zero (seen : List Str) (inp : List Nat) : pMembers 0 seen inp = .error (.bad inp.length) := by rw [pMembers]
theorem pElems_zero (inp : List Nat) : pElems 0 inp = .error (.bad inp.length) := by rw [pElems]
theorem pValue_succ_nil (f : Nat) : pValue (f + 1) [] = .error (.bad 0) := by rw [pValue]
theorem pMembers_succ_nil (f : Nat) (seen : List Str) : pMembers (f + 1) seen [] = .error (.bad 0) := by rw [pMembers]

def SoundV (f : Nat) : Prop := ∀ inp j r, pValue f inp = .ok (j, r) → j.nodup = true
def SoundM (f : Nat) : Prop := ∀ seen inp m r, pMembers f seen inp = .ok (m, r) →
  m.nodup = true ∧ m.keys.Nodup ∧ ∀ k ∈ m.keys, k ∉ seen
def SoundL (f : Nat) : Prop := ∀ inp l r, pElems f inp = .ok (l, r) → l.nodup = true

theorem soundV_succ (f : Nat) (hm : SoundM f) (hl : SoundL f) : SoundV (f + 1) := by
  intro inp j r h
  cases inp with
  | nil => rw [pValue_succ_nil] at h; cases h
  | cons c t =>
    rw [pValue_succ_cons] at h
    split at h
    · -- object
      split at h
      · cases h
      · split at h
        · cases h; rfl
        · split at h
          · rename_i m r' hm'
            cases h
            have := hm _ _ _ _ hm'
            simp [J.nodup, this.1, this.2.1]
          · cases h
    split at h
    · -- array
      split at h
      · cases h
      · split at h
        · cases h; rfl
        · split at h
          · rename_i l r' hl'
            cases h
            simpa [J.nodup] using hl _ _ _ hl'
          · cases h
    split at h
    · split at h
      · cases h; rfl
      · cases h
    split at h
    · split at h
      · cases h; rfl
      · cases h
    split at h
    · split at h
      · cases h; rfl
      · cases h
    split at h
    · split at h
      · cases h; rfl
      · cases h
    split at h
    · cases h; rfl
    · cases h

theorem soundL_succ (f : Nat) (hv : SoundV f) (hl : SoundL f) : SoundL (f + 1) := by
  intro inp l r h
  rw [pElems_succ] at h
  split at h
  · cases h
  · rename_i v r1 hv1
    split at h
    · cases h
    · split at h
      · split at h
        · rename_i l' r2 hl2
          cases h
          simp [JL.nodup, hv _ _ _ hv1, hl _ _ _ hl2]
        · cases h
      · split at h
        · cases h
          simp [JL.nodup, hv _ _ _ hv1]
        · cases h

theorem soundM_succ (f : Nat) (hv : SoundV f) (hm : SoundM f) : SoundM (f + 1) := by
  intro seen inp m r h
  cases inp with
  | nil => rw [pMembers_succ_nil] at h; cases h
  | cons c t =>
    rw [pMembers_succ_cons] at h
    split at h
    · split at h
      · cases h
      · rename_i k r0 hk0
        split at h
        · cases h
        · rename_i hseen
          split at h
          · cases h
          · split at h
            · split at h
              · cases h
              · rename_i v r2 hv2
                split at h
                · cases h
                · split at h
                  · split at h
                    · rename_i m' r3 hm3
                      cases h
                      have ⟨a, b, c⟩ := hm _ _ _ _ hm3
                      refine ⟨by simp [JM.nodup, hv _ _ _ hv2, a], ?_, ?_⟩
                      · simp only [JM.keys, List.nodup_cons]
                        exact ⟨fun hin => (c k hin) (by simp), b⟩
                      · intro k' hk'
                        simp only [JM.keys, List.mem_cons] at hk'
                        rcases hk' with rfl | hk'
                        · exact hseen
                        · intro hs; exact (c k' hk') (by simp [hs])
                    · cases h
                  · split at h
                    · cases h
                      refine ⟨by simp [JM.nodup, hv _ _ _ hv2], by simp [JM.keys], ?_⟩
                      intro k' hk'
                      simp only [JM.keys, List.mem_cons, List.not_mem_nil, or_false] at hk'
                      subst hk'; exact hseen
                    · cases h
            · cases h
    · cases h

theorem sound_all (f : Nat) : SoundV f ∧ SoundM f ∧ SoundL f := by
  induction f with
  | zero =>
    refine ⟨?_, ?_, ?_⟩
    · intro inp j r h; rw [pValue_zero] at h; cases h
    · intro seen inp m r h; rw [pMembers_zero] at h; cases h
    · intro inp l r h; rw [pElems_zero] at h; cases h
  | succ f ih =>
    exact ⟨soundV_succ f ih.2.1 ih.2.2, soundM_succ f ih.1 ih.2.1, soundL_succ f ih.1 ih.2.2⟩

theorem parse_nodup_lemma (s : List Nat) (j : J) (h : parse s = .ok j) : j.nodup = true := by
  unfold parse at h
  split at h
  · cases h
  · rename_i j' r hp
    split at h
    · cases h; exact (sound_all _).1 _ _ _ hp
    · cases h

end Exa.Json
