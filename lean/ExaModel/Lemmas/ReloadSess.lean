import ExaModel.Lemmas.ReloadCache
set_option linter.unusedSimpArgs false
/-! What a successful reload does to ONE neighbor's RIB and session (M-Rib level): commit-time
    insertion, then `replace_reload` (reconfigure) or session reset + `replace_restart`
    (reestablish), composed with the M-Rib invariants `Good` (session up) and `Down`. -/
namespace Exa.Reload
open Exa Exa.Rib

/-- The premises on the new neighbor section under which the property is stated: adj-rib-out is
    kept, no configured route is parked by a `withdraw` watchdog, every configured route belongs
    to a family of the neighbor. -/
structure RoutesOK (n : Nbr) : Prop where
  adj : n.adjOut = true
  live : ∀ cr ∈ n.routes, cr.live = true
  inFam : ∀ cr ∈ n.routes, n.fams.contains cr.r.fam = true

theorem insertOps_eq (n : Nbr) (h : RoutesOK n) : insertOps n = n.routes.map insertOp := by
  unfold insertOps
  rw [List.filter_eq_self.2]
  intro cr hcr
  exact h.inFam cr hcr

/-- The Adj-RIB-Out as `RIB.enable` leaves it when the families change: routes of families that
    are not served any more are dropped from the cache. -/
def famView (fams : List Nat) (rib : Rib) (m : Nat) : Option (Nat × Nat) :=
  match AList.lookup m rib.cache with
  | some r => if fams.contains r.fam then some (r.attr, r.nh) else none
  | none => none

theorem lookup_filter_val {β : Type} (q : β → Bool) (l : AList Nat β) (a : Nat) (h : AList.NodupKeys l) :
    AList.lookup a (l.filter (fun p => q p.2)) = (AList.lookup a l).bind (fun v => if q v then some v else none) := by
  induction l with
  | nil => rfl
  | cons hd t ih =>
    obtain ⟨k, v⟩ := hd
    simp only [AList.NodupKeys, AList.keys, List.map_cons, List.nodup_cons] at h
    have iht := ih h.2
    by_cases hk : k = a
    · subst hk
      by_cases hq : q v = true
      · simp [List.filter_cons, hq, AList.lookup]
      · have hq' : q v = false := by simpa using hq
        simp only [List.filter_cons, hq', Bool.false_eq_true, if_false, AList.lookup, if_true, Option.bind_some]
        rw [iht]
        have : AList.lookup k t = none := AList.lookup_eq_none_iff.2 h.1
        simp [this]
    · by_cases hq : q v = true
      · simp [List.filter_cons, hq, AList.lookup, hk, iht]
      · have hq' : q v = false := by simpa using hq
        simp [List.filter_cons, hq', AList.lookup, hk, iht]

theorem wfmap_filter (q : Nat × Route → Bool) (l : AList Nat Route) (h : WFMap l) : WFMap (l.filter q) := by
  refine ⟨?_, fun p hp => h.2 p (List.mem_filter.1 hp).1⟩
  unfold AList.NodupKeys AList.keys
  exact List.Nodup.sublist (List.Sublist.map _ List.filter_sublist) h.1

/-! ### `attach` -/

def attachRib (rib : Rib) (fams : List Nat) : Rib :=
  { rib with families := fams, cache := rib.cache.filter (fun p => fams.contains p.2.fam) }

theorem attach_same (s : Sess) (n : Nbr) (hf : s.rib.families = n.fams) (hok : FamOK s.rib)
    (ha : n.adjOut = true) : attach (some s) n = s := by
  have hfil : s.rib.cache.filter (fun p => n.fams.contains p.2.fam) = s.rib.cache := by
    apply List.filter_eq_self.2
    intro p hp
    have := hok p.2 (List.mem_map.2 ⟨p, hp, rfl⟩)
    rw [hf] at this; exact this
  simp only [attach, ha, if_true, hfil]
  rw [← hf]

theorem attach_props (s : Sess) (n : Nbr) (ha : n.adjOut = true) (hw : WFMap s.rib.cache) :
    (attach (some s) n).rib.cacheOn = s.rib.cacheOn ∧ (attach (some s) n).rib.families = n.fams ∧
    WFMap (attach (some s) n).rib.cache ∧ FamOK (attach (some s) n).rib ∧
    (attach (some s) n).inflight = s.inflight ∧ (attach (some s) n).inclWd = s.inclWd ∧
    ∀ m, (attach (some s) n).rib.cacheView m = famView n.fams s.rib m := by
  have e : attach (some s) n = { s with rib := attachRib s.rib n.fams } := by
    simp only [attach, ha, if_true, attachRib]
  rw [e]
  refine ⟨rfl, rfl, wfmap_filter _ _ hw, ?_, rfl, rfl, fun m => ?_⟩
  · intro r hr
    obtain ⟨p, hp, rfl⟩ := List.mem_map.1 hr
    exact (List.mem_filter.1 hp).2
  · simp only [Rib.cacheView, famView, attachRib]
    rw [lookup_filter_val (fun r : Route => n.fams.contains r.fam) _ _ hw.1]
    cases AList.lookup m s.rib.cache with
    | none => rfl
    | some r => by_cases hc : n.fams.contains r.fam = true <;> simp [hc]

/-! ### invariants closed under the RIB operations -/

def CacheWF (rib : Rib) : Prop := WFMap rib.cache ∧ rib.cacheOn = true

theorem cacheWF_closed : RibClosed CacheWF := by
  refine ⟨?_, ?_, ?_, ?_⟩
  · intro s r f h
    refine ⟨?_, by rw [add_cacheOn]; exact h.2⟩
    unfold Rib.add; split
    · exact h.1
    · simp only [Rib.updateRib, h.2, if_true]; exact wfmap_insert h.1 r
  · intro s k f h
    refine ⟨?_, by rw [del_cacheOn]; exact h.2⟩
    simp only [Rib.del, h.2, if_true]; exact wfmap_erase h.1 k
  · intro s e f h; exact h
  · intro s p m h; exact h

theorem cacheWF_step (s : Sess) (op : Op) (hop : op.isRibOnly = true) (h : CacheWF s.rib) :
    CacheWF (s.step op).1.rib := by
  cases op with
  | add r f => exact cacheWF_closed.add _ r f h
  | del n f => exact cacheWF_closed.del _ n f h
  | resend e f => exact cacheWF_closed.resend _ e f h
  | withdrawAll fs => exact cacheWF_closed.withdrawAll fs _ h
  | wdogAdd r n w => exact cacheWF_closed.wdogAdd r n w _ h
  | wdogAnnounce n => exact cacheWF_closed.wdogAnnounce n _ h
  | wdogWithdraw n => exact cacheWF_closed.wdogWithdraw n _ h
  | reload p n => exact cacheWF_closed.replaceReload p n _ h
  | start => cases hop
  | next => cases hop
  | lost => cases hop
  | established p n => cases hop

theorem cacheWF_run (s : Sess) (ops : List Op) (hops : ∀ op ∈ ops, op.isRibOnly = true) (h : CacheWF s.rib) :
    CacheWF (s.run ops).1.rib := by
  induction ops generalizing s with
  | nil => exact h
  | cons op rest ih =>
    simp only [Sess.run]
    exact ih _ (fun o ho => hops o (List.mem_cons_of_mem _ ho)) (cacheWF_step s op (hops op List.mem_cons_self) h)

theorem down_init (fams : List Nat) : Down (Rib.init true fams) := by
  refine ⟨wfmap_nil, staleOK_nil, wfmap_nil, rfl, ?_, ?_⟩
  · intro n r h; simp [Rib.init] at h
  · intro r hr; simp [Rib.init] at hr

/-! ### the view after parsing -/

/-- `deltaView` only consults the old view where the new configuration lists nothing. -/
theorem deltaView_congr (cv cv' : Nat → Option (Nat × Nat)) (prev new : List Route) (m : Nat)
    (h : lastOf new m = none → cv m = cv' m) : deltaView cv prev new m = deltaView cv' prev new m := by
  unfold deltaView
  cases hl : lastOf new m with
  | some r => rfl
  | none => simp only; rw [h hl]

/-- What parsing the new section leaves in the RIB it is attached to (any attached state `s0`). -/
theorem parsed_cache (s0 : Sess) (n : Nbr) (h : RoutesOK n) (hc : s0.rib.cacheOn = true) :
    (s0.run (insertOps n)).1.rib.cacheOn = true ∧
    (s0.run (insertOps n)).1.rib.families = s0.rib.families ∧
    ∀ m, (s0.run (insertOps n)).1.rib.cacheView m
      = match lastOf n.plain m with
        | some r => some (r.attr, r.nh)
        | none => s0.rib.cacheView m := by
  rw [insertOps_eq n h]
  exact inserts_cache n.routes s0 hc h.live

theorem parsed_pre (s0 : Sess) (n : Nbr) (h : RoutesOK n) (hc : s0.rib.cacheOn = true) :
    ∀ m r, lastOf n.plain m = some r → (s0.run (insertOps n)).1.rib.cacheView m = some (r.attr, r.nh) := by
  intro m r hl
  rw [(parsed_cache s0 n h hc).2.2 m, hl]

theorem parsed_famOK (s0 : Sess) (n : Nbr) (h : RoutesOK n) (hf : s0.rib.families = n.fams) (hok : FamOK s0.rib) :
    FamOK (s0.run (insertOps n)).1.rib := by
  rw [insertOps_eq n h]
  apply famOK_inserts _ _ hok
  intro cr hcr; rw [hf]; exact h.inFam cr hcr

theorem plain_inFam (n : Nbr) (h : RoutesOK n) : ∀ r ∈ n.plain, n.fams.contains r.fam = true := by
  intro r hr
  obtain ⟨cr, hcr, rfl⟩ := List.mem_map.1 hr
  exact h.inFam cr hcr

/-! ### reconfigure, session up -/

/-- Session established, same session parameters: after parsing and the `replace_reload` at the
    top of the next `_main` iteration, the convergence invariant holds against what the peer
    already has (the reload itself put nothing on the wire), and a drain leaves the peer with
    `deltaView`. -/
theorem reload_up_core (s : Sess) (t : Table) (g : Good s t) (n : Nbr) (prev : List Route)
    (h : RoutesOK n) (hf : s.rib.families = n.fams) (hok : FamOK s.rib) :
    let s2 := ((parseSess (some s) n).step (.reload prev n.plain)).1
    Good s2 t ∧ ∀ m, AList.lookup m (applyEvs t s2.drain.2) = deltaView s.rib.cacheView prev n.plain m := by
  intro s2
  have hat : attach (some s) n = s := attach_same s n hf hok h.adj
  have hs2 : s2 = ((s.run (insertOps n)).1.step (.reload prev n.plain)).1 := by
    simp only [s2, parseSess, hat]
  have g1 := good_run s t (insertOps n) (insertOps_isUp n) g
  rw [(ribOnly_run s (insertOps n) (insertOps_isRibOnly n)).1] at g1
  have g2 := good_step (s.run (insertOps n)).1 _ (.reload prev n.plain) rfl g1
  have hout : ((s.run (insertOps n)).1.step (.reload prev n.plain)).2 = [] := rfl
  rw [hout] at g2
  have g2' : Good s2 t := by rw [hs2]; simpa [applyEvs] using g2
  refine ⟨g2', fun m => ?_⟩
  rw [good_drain s2 t g2' m, Rib.cacheView, drain_cache, hs2]
  show ((s.run (insertOps n)).1.rib.replaceReload prev n.plain).cacheView m = _
  obtain ⟨c1, _, c3⟩ := parsed_cache s n h g.cacheOn
  rw [(replaceReload_cache _ prev n.plain c1 (parsed_pre s n h g.cacheOn)).2.2 m]
  apply deltaView_congr
  intro hl
  rw [c3 m, hl]

/-- Pure transmission steps. -/
def isXmit : Op → Bool
  | .start => true
  | .next => true
  | _ => false

theorem xmit_isUp (op : Op) (h : isXmit op = true) : op.isUp = true := by
  cases op <;> first | rfl | cases h

theorem xmit_step (s : Sess) (op : Op) (h : isXmit op = true) :
    (s.step op).1.rib.cache = s.rib.cache ∧ (s.step op).1.rib.cacheOn = s.rib.cacheOn ∧
    (s.step op).1.rib.families = s.rib.families := by
  cases op with
  | start =>
    obtain ⟨rib, infl, incl⟩ := s
    cases infl with
    | some x => exact ⟨rfl, rfl, rfl⟩
    | none =>
      simp only [Sess.step]
      by_cases hp : rib.pending = true <;> simp [hp, Rib.flushed]
  | next =>
    obtain ⟨rib, infl, incl⟩ := s
    cases infl with
    | none => exact ⟨rfl, rfl, rfl⟩
    | some evs => cases evs <;> exact ⟨rfl, rfl, rfl⟩
  | _ => cases h

theorem xmit_run (s : Sess) (ops : List Op) (h : ∀ op ∈ ops, isXmit op = true) :
    (s.run ops).1.rib.cache = s.rib.cache ∧ (s.run ops).1.rib.cacheOn = s.rib.cacheOn ∧
    (s.run ops).1.rib.families = s.rib.families := by
  induction ops generalizing s with
  | nil => exact ⟨rfl, rfl, rfl⟩
  | cons op rest ih =>
    simp only [Sess.run]
    obtain ⟨a1, a2, a3⟩ := xmit_step s op (h op List.mem_cons_self)
    obtain ⟨b1, b2, b3⟩ := ih (s.step op).1 (fun o ho => h o (List.mem_cons_of_mem _ ho))
    exact ⟨b1.trans a1, b2.trans a2, b3.trans a3⟩

/-- The same with any transmission steps between the reload and the top of the next `_main`
    iteration (the reload interrupts the peer's coroutine at an arbitrary await: typically it is
    waiting in `read_message`, past the loop top, and the rest of that iteration already sends the
    routes the parser inserted). -/
theorem reload_up_core_xmit (s : Sess) (t : Table) (g : Good s t) (n : Nbr) (prev : List Route)
    (h : RoutesOK n) (hf : s.rib.families = n.fams) (hok : FamOK s.rib)
    (ops : List Op) (hx : ∀ op ∈ ops, isXmit op = true) :
    let r := (parseSess (some s) n).run ops
    let s2 := (r.1.step (.reload prev n.plain)).1
    Good s2 (applyEvs t r.2) ∧
    ∀ m, AList.lookup m (applyEvs t (r.2 ++ s2.drain.2)) = deltaView s.rib.cacheView prev n.plain m := by
  intro r s2
  have hat : attach (some s) n = s := attach_same s n hf hok h.adj
  have hp : parseSess (some s) n = (s.run (insertOps n)).1 := by simp only [parseSess, hat]
  have g1 := good_run s t (insertOps n) (insertOps_isUp n) g
  rw [(ribOnly_run s (insertOps n) (insertOps_isRibOnly n)).1] at g1
  have g1' : Good (parseSess (some s) n) t := by rw [hp]; simpa [applyEvs] using g1
  have gr : Good r.1 (applyEvs t r.2) := good_run _ t ops (fun o ho => xmit_isUp o (hx o ho)) g1'
  have g2 := good_step r.1 _ (.reload prev n.plain) rfl gr
  have hout : (r.1.step (.reload prev n.plain)).2 = [] := rfl
  rw [hout] at g2
  have g2' : Good s2 (applyEvs t r.2) := by simpa [applyEvs] using g2
  refine ⟨g2', fun m => ?_⟩
  have hd := good_drain s2 _ g2' m
  rw [show applyEvs t (r.2 ++ s2.drain.2) = applyEvs (applyEvs t r.2) s2.drain.2 by
    simp [applyEvs, List.foldl_append], hd, Rib.cacheView, drain_cache]
  show (r.1.rib.replaceReload prev n.plain).cacheView m = _
  obtain ⟨c1, _, c3⟩ := parsed_cache s n h g.cacheOn
  obtain ⟨x1, x2, _⟩ := xmit_run (parseSess (some s) n) ops hx
  rw [hp] at x1 x2
  have hcv : ∀ k, r.1.rib.cacheView k = (s.run (insertOps n)).1.rib.cacheView k := by
    intro k
    show Option.map _ (AList.lookup k ((parseSess (some s) n).run ops).1.rib.cache) = _
    rw [hp, x1]; rfl
  have hc1 : r.1.rib.cacheOn = true := by
    show ((parseSess (some s) n).run ops).1.rib.cacheOn = true
    rw [hp, x2]; exact c1
  have hpre : ∀ k q, lastOf n.plain k = some q → r.1.rib.cacheView k = some (q.attr, q.nh) := by
    intro k q hl; rw [hcv k]; exact parsed_pre s n h g.cacheOn k q hl
  rw [(replaceReload_cache _ prev n.plain hc1 hpre).2.2 m]
  apply deltaView_congr
  intro hl
  rw [hcv m, c3 m, hl]

/-! ### reconfigure, session down -/

theorem reload_down_core (s : Sess) (d : Down s.rib) (hi : s.inflight = none) (hw : s.inclWd = false)
    (n : Nbr) (prev : List Route) (h : RoutesOK n) (hf : s.rib.families = n.fams) (hok : FamOK s.rib) :
    let s2 : Sess := { (parseSess (some s) n) with rib := (parseSess (some s) n).rib.replaceReload prev n.plain }
    let s3 := (s2.step (.established [] n.plain)).1
    Good s3 [] ∧ ∀ m, AList.lookup m (applyEvs [] s3.drain.2) = deltaView s.rib.cacheView prev n.plain m := by
  intro s2 s3
  have hat : attach (some s) n = s := attach_same s n hf hok h.adj
  obtain ⟨d1, i1, w1, _⟩ := down_run s (insertOps n) (insertOps_isRibOnly n) d
  have hp : parseSess (some s) n = (s.run (insertOps n)).1 := by simp only [parseSess, hat]
  obtain ⟨c1, c2, c3⟩ := parsed_cache s n h d.cacheOn
  have d2 : Down s2.rib := by
    simp only [s2, hp]; exact down_closed.replaceReload prev n.plain _ d1
  obtain ⟨r1, r2, r3⟩ := replaceReload_cache (s.run (insertOps n)).1.rib prev n.plain c1 (parsed_pre s n h d.cacheOn)
  have hfam2 : s2.rib.families = n.fams := by
    simp only [s2, hp]; rw [r2, c2, hf]
  have hok2 : FamOK s2.rib := by
    simp only [s2, hp]
    apply famOK_replaceReload _ _ _ (parsed_famOK s n h hf hok)
    intro r hr; rw [c2, hf]; exact plain_inFam n h r hr
  have hs3 : s3 = ⟨s2.rib.replaceRestart [] n.plain, none, false⟩ := by
    simp only [s3, Sess.step, s2, hp, i1, w1, hi, hw]
  have g3 : Good s3 [] := by rw [hs3]; exact good_established s2.rib [] n.plain d2 hok2
  refine ⟨g3, fun m => ?_⟩
  rw [good_drain s3 [] g3 m, Rib.cacheView, drain_cache, hs3]
  show (s2.rib.replaceRestart [] n.plain).cacheView m = _
  rw [(replaceRestart_cache s2.rib [] n.plain d2.cacheOn d2.wfCache).2.2 m]
  have : hasNlri [] m = false := rfl
  simp only [this, Bool.false_and, Bool.false_eq_true, if_false]
  show ((parseSess (some s) n).rib.replaceReload prev n.plain).cacheView m = _
  rw [hp, r3 m]
  apply deltaView_congr
  intro hl
  rw [c3 m, hl]

/-! ### reestablish: session parameters changed (session up or down), and new peers -/

theorem reset_famOK (rib : Rib) (h : FamOK rib) : FamOK rib.reset := h

/-- From any attached state: the parsed routes are in the cache; the session is reset (`_reset`),
    re-established and `replace_restart(previous, current)` runs: the new session, drained,
    leaves an EMPTY peer table at `deltaView`. -/
theorem restart_core (s0 : Sess) (hcw : CacheWF s0.rib) (hok0 : FamOK s0.rib) (n : Nbr) (prev : List Route)
    (h : RoutesOK n) (hf : s0.rib.families = n.fams) :
    let s1 := (s0.run (insertOps n)).1
    let s3 := ((s1.step .lost).1.step (.established prev n.plain)).1
    Good s3 [] ∧ ∀ m, AList.lookup m (applyEvs [] s3.drain.2) = deltaView s0.rib.cacheView prev n.plain m := by
  intro s1 s3
  have w1 : CacheWF s1.rib := cacheWF_run s0 (insertOps n) (insertOps_isRibOnly n) hcw
  obtain ⟨c1, c2, c3⟩ := parsed_cache s0 n h hcw.2
  have dn : Down s1.rib.reset := down_reset s1.rib w1.1 w1.2
  have hok1 : FamOK s1.rib.reset := reset_famOK _ (parsed_famOK s0 n h hf hok0)
  have hs3 : s3 = ⟨s1.rib.reset.replaceRestart prev n.plain, none, false⟩ := rfl
  have g3 : Good s3 [] := by rw [hs3]; exact good_established _ prev n.plain dn hok1
  refine ⟨g3, fun m => ?_⟩
  rw [good_drain s3 [] g3 m, Rib.cacheView, drain_cache, hs3]
  show (s1.rib.reset.replaceRestart prev n.plain).cacheView m = _
  rw [(replaceRestart_cache _ prev n.plain dn.cacheOn dn.wfCache).2.2 m]
  have hcv : s1.rib.reset.cacheView m = s1.rib.cacheView m := rfl
  rw [hcv, c3 m]
  unfold deltaView
  cases hl : lastOf n.plain m with
  | some r => simp [lastOf_some_hasNlri hl]
  | none =>
    simp only [(lastOf_none_iff _ _).1 hl, Bool.not_false, Bool.and_true]

/-- **Two reloads, the second while the session is down for the re-establishment the first one asked for**
    (finding F106 / F109).  From any attached state `s0`: reload 1 parses `n1` (its routes are queued), the session
    is reset; reload 2 parses `n2` (same families) and `reconfigure` runs `replace_reload(link, n2.routes)` where the
    link is what the definitions that never reached the RIB held — `old ++ n1.routes`; the next session runs
    `replace_restart([], n2.routes)`.  Drained, it leaves an EMPTY peer table at `deltaView` of the ORIGINAL cache
    against `old ++ n1.routes`: the routes of `n2`, and of everything else only what neither `old` nor `n1`
    ever configured (the API routes). -/
theorem reload_chain_down_core (s0 : Sess) (hcw : CacheWF s0.rib) (hok0 : FamOK s0.rib) (n1 n2 : Nbr) (old : List Route)
    (h1 : RoutesOK n1) (h2 : RoutesOK n2) (hf1 : s0.rib.families = n1.fams) (hf2 : n1.fams = n2.fams) :
    let s1 := ((s0.run (insertOps n1)).1.step .lost).1
    let s2 : Sess := { (parseSess (some s1) n2) with rib := (parseSess (some s1) n2).rib.replaceReload (old ++ n1.plain) n2.plain }
    let s3 := (s2.step (.established [] n2.plain)).1
    Good s3 [] ∧ ∀ m, AList.lookup m (applyEvs [] s3.drain.2) = deltaView s0.rib.cacheView (old ++ n1.plain) n2.plain m := by
  intro s1 s2 s3
  have w1 : CacheWF (s0.run (insertOps n1)).1.rib := cacheWF_run s0 (insertOps n1) (insertOps_isRibOnly n1) hcw
  obtain ⟨c1, c2, c3⟩ := parsed_cache s0 n1 h1 hcw.2
  have dn : Down s1.rib := down_reset (s0.run (insertOps n1)).1.rib w1.1 w1.2
  have hok1 : FamOK s1.rib := reset_famOK _ (parsed_famOK s0 n1 h1 hf1 hok0)
  have hfam1 : s1.rib.families = n2.fams := by
    show (s0.run (insertOps n1)).1.rib.reset.families = n2.fams
    rw [← hf2, ← hf1, ← c2]; rfl
  have hi : s1.inflight = none := rfl
  have hw : s1.inclWd = false := rfl
  obtain ⟨g3, htab⟩ := reload_down_core s1 dn hi hw n2 (old ++ n1.plain) h2 hfam1 hok1
  refine ⟨g3, fun m => ?_⟩
  rw [htab m]
  have hcv : s1.rib.cacheView m = (s0.run (insertOps n1)).1.rib.cacheView m := rfl
  unfold deltaView
  cases hl : lastOf n2.plain m with
  | some r => rfl
  | none =>
    simp only
    by_cases hp : hasNlri (old ++ n1.plain) m = true
    · simp [hp]
    · have hp' : hasNlri (old ++ n1.plain) m = false := by simpa using hp
      simp only [hp', Bool.false_eq_true, if_false]
      rw [hcv, c3 m]
      have hn1 : lastOf n1.plain m = none := by
        rw [lastOf_none_iff]
        cases hh : hasNlri n1.plain m with
        | false => rfl
        | true =>
          have : hasNlri (old ++ n1.plain) m = true := by
            simp only [hasNlri, List.any_append, Bool.or_eq_true] at hh ⊢
            exact Or.inr hh
          rw [this] at hp'; cases hp'
      rw [hn1]

/-- A peer the reload creates: fresh RIB, nothing previous, first establishment. -/
theorem new_peer_core (n : Nbr) (h : RoutesOK n) :
    let s1 := parseSess none n
    let s3 := (s1.step (.established [] n.plain)).1
    Good s3 [] ∧ ∀ m, AList.lookup m (applyEvs [] s3.drain.2) = deltaView (fun _ => none) [] n.plain m := by
  intro s1 s3
  have hs0 : attach none n = Sess.init true n.fams := by simp [attach, h.adj]
  have d0 : Down (Sess.init true n.fams).rib := down_init n.fams
  obtain ⟨d1, i1, w1, _⟩ := down_run (Sess.init true n.fams) (insertOps n) (insertOps_isRibOnly n) d0
  have hp : s1 = ((Sess.init true n.fams).run (insertOps n)).1 := by simp only [s1, parseSess, hs0]
  obtain ⟨c1, c2, c3⟩ := parsed_cache (Sess.init true n.fams) n h rfl
  have hok0 : FamOK (Sess.init true n.fams).rib := by intro r hr; simp [Sess.init, Rib.init, AList.values] at hr
  have hok1 : FamOK s1.rib := by rw [hp]; exact parsed_famOK _ n h rfl hok0
  have hs3 : s3 = ⟨s1.rib.replaceRestart [] n.plain, none, false⟩ := by
    have hi : s1.inflight = none := by rw [hp, i1]; rfl
    have hw : s1.inclWd = false := by rw [hp, w1]; rfl
    simp only [s3, Sess.step, hi, hw]
  have d1' : Down s1.rib := by rw [hp]; exact d1
  have g3 : Good s3 [] := by rw [hs3]; exact good_established s1.rib [] n.plain d1' hok1
  refine ⟨g3, fun m => ?_⟩
  rw [good_drain s3 [] g3 m, Rib.cacheView, drain_cache, hs3]
  show (s1.rib.replaceRestart [] n.plain).cacheView m = _
  rw [(replaceRestart_cache s1.rib [] n.plain d1'.cacheOn d1'.wfCache).2.2 m]
  have : hasNlri [] m = false := rfl
  simp only [this, Bool.false_and, Bool.false_eq_true, if_false]
  rw [hp, c3 m]
  unfold deltaView
  cases hl : lastOf n.plain m with
  | some r => rfl
  | none => simp [this, Sess.init, Rib.init, Rib.cacheView]

end Exa.Reload
