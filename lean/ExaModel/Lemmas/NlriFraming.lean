import ExaModel.Model.NlriFraming
set_option linter.unusedSimpArgs false
set_option linter.unusedVariables false
/-! Lemmas for M-Framing: each splitter inverts its canonical framer, and what a splitter takes
    is a prefix of its input. -/
namespace Exa.Framing
open Exa Exa.Generated.Registry

theorem cutAt_append (x rest : Bytes) : cutAt x.length (x ++ rest) = some ⟨x, x, rest⟩ := by
  unfold cutAt
  have : ¬ (x ++ rest).length < x.length := by simp
  simp only [this, if_false, List.take_left', List.drop_left']

theorem cutAt_append' (n : Nat) (x rest : Bytes) (h : n = x.length) : cutAt n (x ++ rest) = some ⟨x, x, rest⟩ := by
  subst h; exact cutAt_append x rest

theorem cutAt_prefix {n : Nat} {d : Bytes} {c : Cut} (h : cutAt n d = some c) : c.consumed ++ c.rest = d := by
  unfold cutAt at h
  split at h
  · cases h
  · cases h; simp

theorem len4 (p : Bytes) (h : p.length = 4) : ∃ a b c d, p = [a, b, c, d] := by
  match p, h with
  | [a, b, c, d], _ => exact ⟨a, b, c, d, rfl⟩

/-! #### the IP families -/

theorem split_pfx_none (mask : Nat) (v rest : Bytes) (hv : v.length = (mask + 7) / 8) :
    splitPrefixBits false (mask :: v ++ rest) = some ⟨mask :: v, mask :: v, rest⟩ := by
  unfold splitPrefixBits
  simp only [Bool.false_eq_true, if_false, Bool.false_and, List.cons_append, List.length_cons,
    Nat.le_zero_eq, Nat.add_one_ne_zero, List.getD_cons_zero, Nat.zero_add]
  have := cutAt_append' (1 + (mask + 7) / 8) (mask :: v) rest (by simp [hv]; try omega)
  simpa using this

theorem split_pfx_some (p : Bytes) (mask : Nat) (v rest : Bytes) (hp : p.length = 4)
    (hv : v.length = (mask + 7) / 8) :
    splitPrefixBits true (p ++ mask :: v ++ rest) = some ⟨p ++ mask :: v, p ++ mask :: v, rest⟩ := by
  obtain ⟨a, b, c, d, rfl⟩ := len4 p hp
  unfold splitPrefixBits
  have h4 : pathInfoSize = 4 := rfl
  simp only [h4, if_true, Bool.true_and, List.cons_append, List.nil_append, List.length_cons, decide_eq_true_eq]
  have h1 : ¬ (v ++ rest).length + 1 + 1 + 1 + 1 + 1 ≤ 4 := by omega
  simp only [h1, if_false]
  have := cutAt_append' (4 + 1 + (mask + 7) / 8) (a :: b :: c :: d :: mask :: v) rest (by simp [hv]; try omega)
  simpa using this

/-! #### type + length families -/

theorem split_typeLen8 (ty : Nat) (v rest : Bytes) :
    splitTypeLen8 (ty :: v.length :: v ++ rest) = some ⟨ty :: v.length :: v, ty :: v.length :: v, rest⟩ := by
  unfold splitTypeLen8
  have h1 : ¬ (ty :: v.length :: v ++ rest).length < 2 := by simp; try omega
  simp only [h1, if_false]
  have := cutAt_append' (2 + v.length) (ty :: v.length :: v) rest (by simp; try omega)
  simpa using this

theorem split_mup (arch code : Nat) (v rest : Bytes) :
    splitMup (arch :: (be16 code ++ v.length :: v) ++ rest)
      = some ⟨arch :: (be16 code ++ v.length :: v), arch :: (be16 code ++ v.length :: v), rest⟩ := by
  unfold splitMup
  simp only [be16, List.cons_append, List.nil_append, List.length_cons]
  have h1 : ¬ (v ++ rest).length + 1 + 1 + 1 + 1 < 4 := by omega
  simp only [h1, if_false]
  have := cutAt_append' (4 + v.length) (arch :: (code / 256 % 256) :: (code % 256) :: v.length :: v) rest (by simp; try omega)
  simpa using this

theorem rd16_be16_app (n : Nat) (h : n < 65536) (x : Bytes) : rd16 (be16 n ++ x) = n := rd16_be16 n h x

theorem split_bgpls_plain (code : Nat) (v rest : Bytes) (hc : code < 65536) (hv : v.length < 65536)
    (hk : bgplsCodes.contains code = false) (vpn : Bool) (h8 : vpn = true → 8 ≤ v.length) :
    splitBgpls vpn (be16 code ++ be16 v.length ++ v ++ rest)
      = some ⟨be16 code ++ be16 v.length ++ v, be16 code ++ be16 v.length ++ v, rest⟩ := by
  unfold splitBgpls
  have hl : (be16 code ++ be16 v.length ++ v ++ rest).length = 4 + v.length + rest.length := by simp; try omega
  have hcode : rd16 (be16 code ++ be16 v.length ++ v ++ rest) = code := by
    rw [List.append_assoc, List.append_assoc]; exact rd16_be16 code hc _
  have hlen : rd16 ((be16 code ++ be16 v.length ++ v ++ rest).drop 2) = v.length := by
    have : (be16 code ++ be16 v.length ++ v ++ rest).drop 2 = be16 v.length ++ (v ++ rest) := by
      simp [be16]
    rw [this]; exact rd16_be16 _ hv _
  simp only [hcode, hlen, hk, hl, Bool.and_false, Bool.false_eq_true, if_false]
  have h1 : ¬ 4 + v.length + rest.length < 4 := by omega
  have h3 : ¬ 4 + v.length + rest.length < 4 + v.length := by omega
  simp only [h1, h3, if_false]
  have t : (be16 code ++ be16 v.length ++ v ++ rest).take (4 + v.length) = be16 code ++ be16 v.length ++ v :=
    List.take_left' (by simp; try omega)
  have d : (be16 code ++ be16 v.length ++ v ++ rest).drop (4 + v.length) = rest :=
    List.drop_left' (by simp; try omega)
  rw [t, d]

theorem split_bgpls_known (code : Nat) (v rest : Bytes) (hc : code < 65536) (hv : v.length < 65536)
    (hk : bgplsCodes.contains code = true) :
    splitBgpls false (be16 code ++ be16 v.length ++ v ++ rest)
      = some ⟨be16 code ++ be16 v.length ++ v, be16 code ++ be16 v.length ++ v, rest⟩ := by
  unfold splitBgpls
  have hl : (be16 code ++ be16 v.length ++ v ++ rest).length = 4 + v.length + rest.length := by simp; try omega
  have hlen : rd16 ((be16 code ++ be16 v.length ++ v ++ rest).drop 2) = v.length := by
    have : (be16 code ++ be16 v.length ++ v ++ rest).drop 2 = be16 v.length ++ (v ++ rest) := by
      simp [be16]
    rw [this]; exact rd16_be16 _ hv _
  simp only [hlen, hl, Bool.false_and, Bool.false_eq_true, if_false]
  have h1 : ¬ 4 + v.length + rest.length < 4 := by omega
  have h3 : ¬ 4 + v.length + rest.length < 4 + v.length := by omega
  simp only [h1, h3, if_false]
  have t : (be16 code ++ be16 v.length ++ v ++ rest).take (4 + v.length) = be16 code ++ be16 v.length ++ v :=
    List.take_left' (by simp; try omega)
  have d : (be16 code ++ be16 v.length ++ v ++ rest).drop (4 + v.length) = rest :=
    List.drop_left' (by simp; try omega)
  rw [t, d]

theorem split_bgpls_vpn_known (code : Nat) (v rest : Bytes) (hc : code < 65536) (hv : v.length < 65536)
    (hk : bgplsCodes.contains code = true) (h8 : 8 ≤ v.length) :
    splitBgpls true (be16 code ++ be16 v.length ++ v ++ rest)
      = some ⟨be16 code ++ be16 v.length ++ v, be16 code ++ be16 v.length ++ v, rest⟩ := by
  unfold splitBgpls
  have hl : (be16 code ++ be16 v.length ++ v ++ rest).length = 4 + v.length + rest.length := by simp; try omega
  have hcode : rd16 (be16 code ++ be16 v.length ++ v ++ rest) = code := by
    rw [List.append_assoc, List.append_assoc]; exact rd16_be16 code hc _
  have hlen : rd16 ((be16 code ++ be16 v.length ++ v ++ rest).drop 2) = v.length := by
    have : (be16 code ++ be16 v.length ++ v ++ rest).drop 2 = be16 v.length ++ (v ++ rest) := by
      simp [be16]
    rw [this]; exact rd16_be16 _ hv _
  simp only [hcode, hlen, hk, hl, Bool.true_and, Bool.and_true, decide_eq_true_eq]
  have h1 : ¬ 4 + v.length + rest.length < 4 := by omega
  have h2 : ¬ 4 + v.length + rest.length < 12 := by omega
  have h3 : ¬ 4 + v.length + rest.length < 4 + v.length := by omega
  have h4 : ¬ v.length < 8 := by omega
  simp only [h1, h2, h3, h4, if_false, if_true]
  have t : (be16 code ++ be16 v.length ++ v ++ rest).take (4 + v.length) = be16 code ++ be16 v.length ++ v :=
    List.take_left' (by simp; try omega)
  have d : (be16 code ++ be16 v.length ++ v ++ rest).drop (4 + v.length) = rest :=
    List.drop_left' (by simp; try omega)
  rw [t, d]

/-! #### FlowSpec -/

theorem flowFrame_small (v : Bytes) (h : v.length < 240) : flowFrame v = some (v.length :: v) := by
  unfold flowFrame; simp [flowCompactLimit, h]

theorem flowFrame_big (v : Bytes) (h1 : 240 ≤ v.length) (h2 : v.length < 4095) :
    flowFrame v = some ((240 + v.length / 256) :: v.length % 256 :: v) := by
  unfold flowFrame
  have h3 : ¬ v.length < flowCompactLimit := by simp [flowCompactLimit]; omega
  have h4 : v.length < flowEncodeLimit := by simp [flowEncodeLimit]; omega
  simp [h3, h4, flowExtendedValue]

/-- The decoder as shipped (shift 16) inverts the encoder below 256 bytes. -/
theorem split_flow (v rest : Bytes) (h : v.length < 256) :
    ∃ f, flowFrame v = some f ∧ splitFlow (f ++ rest) = some ⟨f, v, rest⟩ := by
  by_cases hs : v.length < 240
  · refine ⟨_, flowFrame_small v hs, ?_⟩
    unfold splitFlow splitFlowWith
    simp only [List.cons_append]
    have h1 : ¬ v.length / 16 % 16 = 15 := by omega
    have h2 : ¬ v.length > (v ++ rest).length := by simp
    simp only [h1, h2, if_false, List.take_left', List.drop_left']
  · refine ⟨_, flowFrame_big v (by omega) (by omega), ?_⟩
    unfold splitFlow splitFlowWith
    simp only [List.cons_append]
    have hq : v.length / 256 = 0 := by omega
    have hr : v.length % 256 = v.length := by omega
    rw [hq, hr]
    have h1 : (240 + 0) / 16 % 16 = 15 := by decide
    have hlen : (240 + 0) % 16 * 2 ^ flowShift + v.length = v.length := by simp
    simp only [h1, if_true, hlen]
    have h2 : ¬ v.length > (v ++ rest).length := by simp
    simp only [h2, if_false, List.take_left', List.drop_left']

/-- With the RFC 8955 shift (8) the decoder inverts the encoder for every size it produces. -/
theorem split_flow_shift8 (v rest : Bytes) (h : v.length < 4095) :
    ∃ f, flowFrame v = some f ∧ splitFlowWith 8 (f ++ rest) = some ⟨f, v, rest⟩ := by
  by_cases hs : v.length < 240
  · refine ⟨_, flowFrame_small v hs, ?_⟩
    unfold splitFlowWith
    simp only [List.cons_append]
    have h1 : ¬ v.length / 16 % 16 = 15 := by omega
    have h2 : ¬ v.length > (v ++ rest).length := by simp
    simp only [h1, h2, if_false, List.take_left', List.drop_left']
  · refine ⟨_, flowFrame_big v (by omega) h, ?_⟩
    unfold splitFlowWith
    simp only [List.cons_append]
    have h1 : (240 + v.length / 256) / 16 % 16 = 15 := by omega
    have hlen : (240 + v.length / 256) % 16 * 2 ^ 8 + v.length % 256 = v.length := by omega
    simp only [h1, if_true, hlen]
    have h2 : ¬ v.length > (v ++ rest).length := by simp
    simp only [h2, if_false, List.take_left', List.drop_left']

/-! #### VPLS, RTC, SR-policy -/

theorem split_vpls (v : Bytes) (hv : v.length = 17) :
    splitVpls (be16 v.length ++ v) = some ⟨be16 v.length ++ v, be16 v.length ++ v, []⟩ := by
  unfold splitVpls
  have hl : (be16 v.length ++ v).length = 19 := by simp [hv]
  have hr : rd16 (be16 v.length ++ v) = 17 := by rw [rd16_be16 _ (by omega)]; exact hv
  simp only [hl, hr, vplsPayloadSize]
  have : be16 17 ++ ((be16 v.length ++ v).drop 2).take 17 = be16 v.length ++ v := by
    have h2 : (be16 v.length ++ v).drop 2 = v := List.drop_left' (by simp)
    rw [h2, List.take_of_length_le (by omega), hv]
  simp [this]

/-- A second NLRI after a VPLS NLRI makes the decoder refuse both. -/
theorem split_vpls_followed (v rest : Bytes) (hv : v.length = 17) (hr : rest ≠ []) :
    splitVpls (be16 v.length ++ v ++ rest) = none := by
  unfold splitVpls
  have hl : (be16 v.length ++ v ++ rest).length = 19 + rest.length := by simp [hv]; omega
  have hrd : rd16 (be16 v.length ++ v ++ rest) = 17 := by
    rw [List.append_assoc, rd16_be16 _ (by omega)]; exact hv
  have hpos : 0 < rest.length := List.length_pos_iff.mpr hr
  simp only [hl, hrd, vplsPayloadSize]
  have h1 : ¬ 19 + rest.length < 2 := by omega
  have h2 : ¬ 17 < 17 := by omega
  have h3 : 19 + rest.length ≠ 17 + 2 := by omega
  simpa [h1, h3] using hr

theorem split_rtc (bits : Nat) (v rest : Bytes) (h1 : 32 ≤ bits) (h2 : bits ≤ 96) (hv : v.length = 12) :
    splitRtc (bits :: v ++ rest)
      = some ⟨bits :: v, bits :: (v.take 4 ++ [resetFlags (v.getD 4 0)] ++ (v.drop 5).take 7), rest⟩ := by
  unfold splitRtc
  simp only [List.cons_append]
  have c1 : ¬ bits = 0 := by omega
  have c2 : ¬ (bits < rtcMinBits ∨ bits > rtcMaxBits) := by simp [rtcMinBits, rtcMaxBits]; try omega
  have c3 : ¬ (bits :: (v ++ rest)).length < rtcFullLength := by simp [rtcFullLength, hv]; try omega
  simp only [c1, c2, c3, if_false]
  have t13 : (bits :: (v ++ rest)).take 13 = bits :: v := by
    simp only [List.take_succ_cons]; rw [List.take_left' hv]
  have d13 : (bits :: (v ++ rest)).drop 13 = rest := by
    simp only [List.drop_succ_cons]; rw [List.drop_left' hv]
  have t5 : (bits :: (v ++ rest)).take 5 = bits :: v.take 4 := by
    simp only [List.take_succ_cons]; rw [List.take_append_of_le_length (by omega)]
  have g5 : (bits :: (v ++ rest)).getD 5 0 = v.getD 4 0 := by
    simp only [List.getD_cons_succ]
    simp only [List.getD_eq_getElem?_getD]
    rw [List.getElem?_append_left (by omega)]
  have d6 : ((bits :: (v ++ rest)).drop 6).take 7 = (v.drop 5).take 7 := by
    simp only [List.drop_succ_cons]
    rw [List.drop_append_of_le_length (by omega), List.take_append_of_le_length (by simp; try omega)]
  rw [t13, d13, t5, g5, d6]
  simp

theorem split_srPolicy (afi : Nat) (v rest : Bytes) (hv : v.length * 8 = srPolicyBits afi) :
    splitSrPolicy afi ((v.length * 8) :: v ++ rest) = some ⟨(v.length * 8) :: v, v, rest⟩ := by
  unfold splitSrPolicy
  simp only [List.cons_append]
  have c1 : ¬ v.length * 8 ≠ srPolicyBits afi := by simp [hv]
  have hdiv : v.length * 8 / 8 = v.length := by omega
  have c2 : ¬ (v.length * 8 :: (v ++ rest)).length < 1 + v.length := by simp; try omega
  simp only [c1, if_false, hdiv, c2]
  have t : (v.length * 8 :: (v ++ rest)).take (1 + v.length) = (v.length * 8) :: v := by
    rw [Nat.add_comm, List.take_succ_cons, List.take_left' rfl]
  have d : (v.length * 8 :: (v ++ rest)).drop (1 + v.length) = rest := by
    rw [Nat.add_comm, List.drop_succ_cons, List.drop_left' rfl]
  rw [t, d, List.take_left' rfl]

/-! #### what is consumed is a prefix of the input -/

theorem splitPrefixBits_prefix {ap : Bool} {d : Bytes} {cut : Cut} (h : splitPrefixBits ap d = some cut) :
    cut.consumed ++ cut.rest = d := by
  unfold splitPrefixBits at h
  dsimp only at h
  by_cases h1 : (ap && decide (d.length ≤ pathInfoSize)) = true
  · simp [h1] at h
  · simp only [h1, if_false] at h
    by_cases h2 : d.length ≤ (if ap = true then pathInfoSize else 0)
    · simp [h2] at h
    · simp only [h2, if_false] at h
      exact cutAt_prefix h

theorem split_prefix (k : Kind) (c : Cfg) (d : Bytes) (cut : Cut) (h : split k c d = some cut) :
    cut.consumed ++ cut.rest = d := by
  cases k <;> simp only [split] at h
  · exact splitPrefixBits_prefix h
  · unfold splitTypeLen8 at h
    split at h
    · cases h
    · exact cutAt_prefix h
  · unfold splitMup at h
    split at h
    · cases h
    · exact cutAt_prefix h
  · unfold splitBgpls at h
    split at h
    · cases h
    · simp only at h
      split at h
      · cases h
      · split at h
        · cases h
        · cases h; simp
  · unfold splitFlow splitFlowWith at h
    split at h
    · cases h
    · split at h
      · split at h
        · cases h
        · simp only at h
          split at h
          · cases h
          · cases h; simp
      · split at h
        · cases h
        · cases h; simp
  · unfold splitVpls at h
    split at h
    · cases h
    · simp only at h
      split at h
      · cases h
      · split at h
        · cases h
        · cases h; simp
  · unfold splitRtc at h
    split at h
    · cases h
    · split at h
      · cases h; rename_i e; simp [e]
      · split at h
        · cases h
        · split at h
          · cases h
          · cases h; simp
  · unfold splitSrPolicy at h
    split at h
    · cases h
    · split at h
      · cases h
      · split at h
        · cases h
        · cases h; simp

end Exa.Framing
