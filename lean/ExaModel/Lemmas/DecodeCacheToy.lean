import ExaModel.Lemmas.DecodeCache
set_option linter.unusedSimpArgs false
/-!
A concrete toy parser for the C19 witnesses and non-vacuity examples, with the proof that it
satisfies the key hypothesis (`Parser.DependsOnlyOn Params.attrKey`).
-/
namespace Exa.DecodeCache.Toy
open Exa Exa.DecodeCache

/-- First byte 14: an MP block (depends on ADD-PATH); 255: treat-as-withdraw; 254: raises;
    26: AIGP (depends on `aigp`); empty block: empty collection; anything else: an AS_PATH read
    with 4- or 2-byte AS numbers. -/
def toyParse (p : Params) (bs : Bytes) : Nat :=
  if bs = [] then 0
  else if bs.head? = some 14 then (if p.addpath = [] then 1000 else 1001)
  else if bs.head? = some 255 then 999
  else if bs.head? = some 254 then 998
  else if bs.head? = some 26 then (if p.aigp then 26 else 27)
  else if p.asn4 then 4 else 2

def toyKind (r : Nat) : Kind :=
  if r = 0 then .empty else if r = 1000 ∨ r = 1001 then .mp else if r = 999 then .taw
  else if r = 998 then .error else .plain

def toy : Parser Nat := { parse := toyParse, kind := toyKind }

def s4 : Params := { asn4 := true, aigp := false, addpath := [], families := [(1, 1)], nexthop := false }
def s2 : Params := { asn4 := false, aigp := false, addpath := [], families := [(1, 1)], nexthop := false }
def s4ap : Params := { asn4 := true, aigp := false, addpath := [(1, 1)], families := [(1, 1), (2, 1)], nexthop := false }
def s4ai : Params := { asn4 := true, aigp := true, addpath := [], families := [(1, 1)], nexthop := false }

/-- the F8 block: `02 02 0001 0002 02 01 0003` -/
def f8 : Bytes := [2, 2, 0, 1, 0, 2, 2, 1, 0, 3]

/-- The toy parser satisfies the key hypothesis: its stored results depend on the parameters
    only through `(asn4, aigp)` (its MP results depend on ADD-PATH, and are never stored). -/
theorem toy_depends : toy.DependsOnlyOn Params.attrKey := by
  intro p p' bs hk he _
  simp only [Params.attrKey, Prod.mk.injEq] at hk
  obtain ⟨h4, ha⟩ := hk
  simp only [toy, toyParse] at he ⊢
  by_cases h0 : bs = []
  · simp [h0]
  · simp only [h0, if_false] at he ⊢
    by_cases h14 : bs.head? = some 14
    · simp only [h14, if_true] at he
      split at he <;> simp [toyKind, Kind.effect] at he
    · simp only [h14, if_false] at he ⊢
      by_cases h255 : bs.head? = some 255
      · simp [h255, toyKind, Kind.effect] at he
      · simp only [h255, if_false] at he ⊢
        by_cases h254 : bs.head? = some 254
        · simp [h254, toyKind, Kind.effect] at he
        · simp only [h254, if_false, h4, ha]

end Exa.DecodeCache.Toy
