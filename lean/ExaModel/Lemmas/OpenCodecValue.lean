import ExaModel.Model.OpenCodec
set_option linter.unusedSimpArgs false
set_option linter.unusedVariables false
set_option linter.unnecessarySimpa false
/-! Round trip of the capability value codecs: `decodeCap c.code c.value = ok c` for every
    capability that has a wire form. -/
namespace Exa.Open

theorem be16_val (a : Nat) (h : a < 65536) : a / 256 % 256 * 256 + a % 256 = a := by omega

theorem wfTriple_iff {m : Nat} {e : Triple} : wfTriple m e = true ↔ e.1 < 65536 ∧ e.2.1 < 256 ∧ e.2.2 < m := by
  simp [wfTriple, and_assoc]

theorem dec4_enc (es : List Triple) (h : es.all (wfTriple 256) = true) :
    dec4 (es.flatMap encAddPathEntry) = some es := by
  induction es with
  | nil => simp [dec4]
  | cons e t ih =>
    obtain ⟨a, s, v⟩ := e
    simp only [List.all_cons, Bool.and_eq_true, wfTriple_iff] at h
    have := be16_val a h.1.1
    simp [List.flatMap_cons, encAddPathEntry, be16, dec4, ih h.2, this]

theorem dec6_enc (es : List Triple) (h : es.all (wfTriple 65536) = true) :
    dec6 (es.flatMap encNextHopEntry) = some es := by
  induction es with
  | nil => simp [dec6]
  | cons e t ih =>
    obtain ⟨a, s, v⟩ := e
    simp only [List.all_cons, Bool.and_eq_true, wfTriple_iff] at h
    have h1 := be16_val a h.1.1
    have h2 := be16_val v h.1.2.2
    simp [List.flatMap_cons, encNextHopEntry, be16, dec6, ih h.2, h1, h2]

theorem dec5_enc (es : List Triple) (h : es.all (wfTriple 65536) = true) :
    dec5 (es.flatMap encPathsLimitEntry) = some es := by
  induction es with
  | nil => simp [dec5]
  | cons e t ih =>
    obtain ⟨a, s, v⟩ := e
    simp only [List.all_cons, Bool.and_eq_true, wfTriple_iff] at h
    have h1 := be16_val a h.1.1
    have h2 := be16_val v h.1.2.2
    simp [List.flatMap_cons, encPathsLimitEntry, be16, dec5, ih h.2, h1, h2]


theorem getD_append_length {α : Type} (l r : List α) (x d : α) : (l ++ x :: r).getD l.length d = x := by
  induction l with
  | nil => simp
  | cons h t ih => simpa using ih

theorem hostname_roundtrip (h d : Bytes) (hh : utf8Valid h = true) (hd : utf8Valid d = true)
    (lh : h.length < 256) (ld : d.length < 256) :
    decodeCap 73 ([h.length] ++ h ++ [d.length] ++ d) = .ok (.hostname h d) := by
  have e : [h.length] ++ h ++ [d.length] ++ d = h.length :: (h ++ d.length :: d) := by simp
  rw [e]
  have g1 : (h ++ d.length :: d).getD h.length 0 = d.length := getD_append_length h d _ 0
  have t1 : List.take h.length (h ++ d.length :: d) = h := List.take_left' rfl
  have d1 : List.drop (h.length + 1) (h ++ d.length :: d) = d := by
    have : h ++ d.length :: d = (h ++ [d.length]) ++ d := by simp
    rw [this]; exact List.drop_left' (by simp)
  have t2 : List.take d.length d = d := List.take_length
  simp [decodeCap, g1, t1, d1, t2, hh, hd]
  omega

theorem software_roundtrip (v : Bytes) (hv : utf8Valid v = true) (lv : v.length < 256) :
    decodeCap 75 ([v.length] ++ v) = .ok (.software v) := by
  simp [decodeCap, hv]

theorem decodeCap_value (c : Cap) (h : wfCap c = true) : decodeCap c.code c.value = .ok c := by
  simp only [wfCap, Bool.and_eq_true, decide_eq_true_eq] at h
  obtain ⟨⟨hf, _⟩, hl⟩ := h
  cases c with
  | mp a s =>
    simp only [wfCapFields, Bool.and_eq_true, decide_eq_true_eq] at hf
    have := be16_val a hf.1
    simp [decodeCap, Cap.code, Cap.value, be16, rd16, this]
  | asn4 v =>
    simp only [wfCapFields, decide_eq_true_eq] at hf
    have := rd32_be32 v hf []
    simp only [List.append_nil] at this
    simp [decodeCap, Cap.code, Cap.value, this]
  | addpath es =>
    simp only [wfCapFields] at hf
    simp [decodeCap, Cap.code, Cap.value, dec4_enc es hf, optList]
  | nexthop es =>
    simp only [wfCapFields] at hf
    simp [decodeCap, Cap.code, Cap.value, dec6_enc es hf, optList]
  | refresh => simp [decodeCap, Cap.code]
  | refreshCisco => simp [decodeCap, Cap.code]
  | enhanced => simp [decodeCap, Cap.code]
  | extMsg => simp [decodeCap, Cap.code]
  | operational => simp [decodeCap, Cap.code]
  | linkLocal => simp [decodeCap, Cap.code]
  | graceful fl t fams =>
    simp only [wfCapFields, Bool.and_eq_true, decide_eq_true_eq] at hf
    obtain ⟨⟨h1, h2⟩, h3⟩ := hf
    have hx : fl * 4096 + t < 65536 := by omega
    have r := rd16_be16 (fl * 4096 + t) hx (fams.flatMap encAddPathEntry)
    have e1 : (fl * 4096 + t) / 4096 = fl := by omega
    have e2 : (fl * 4096 + t) % 4096 = t := by omega
    have dr : List.drop 2 (be16 (fl * 4096 + t) ++ fams.flatMap encAddPathEntry) = fams.flatMap encAddPathEntry :=
      List.drop_left' (by simp)
    simp [decodeCap, Cap.code, Cap.value, r, e1, e2, dr, dec4_enc fams h3, optList]
  | hostname hn d =>
    simp only [wfCapFields, Bool.and_eq_true, decide_eq_true_eq] at hf
    obtain ⟨⟨⟨h1, h2⟩, h3⟩, h4⟩ := hf
    simpa [Cap.code, Cap.value] using hostname_roundtrip hn d h1 h2 h3 h4
  | software v =>
    simp only [wfCapFields, Bool.and_eq_true, decide_eq_true_eq] at hf
    simpa [Cap.code, Cap.value] using software_roundtrip v hf.1 hf.2
  | multisession c v => cases c <;> simp [decodeCap, Cap.code, Cap.value]
  | pathsLimit es =>
    simp only [wfCapFields] at hf
    simp [decodeCap, Cap.code, Cap.value, dec5_enc es hf, optList]
  | unknown c v =>
    simp only [wfCapFields, Bool.and_eq_true, decide_eq_true_eq, Bool.not_eq_true'] at hf
    have hk := hf.2
    simp [knownCodes] at hk
    simp [decodeCap, Cap.code, Cap.value, hk]

end Exa.Open
