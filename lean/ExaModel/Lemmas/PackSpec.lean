import ExaModel.Lemmas.PackFits
import ExaModel.Lemmas.PackCover
set_option linter.unusedSimpArgs false
set_option linter.unusedVariables false
/-! The notions the C09 theorems are stated with, and the theorems about the whole of `messages`
    (`packRaw`), from which `Props/C09.lean` derives the statements about `pack`. -/
namespace Exa.Pack

/-- **The announce `x` fits alone with the attributes**: an UPDATE made of the 19-byte header, the
    two length fields, the attribute block `messages` chose and this one NLRI (in an MP_REACH_NLRI
    with its next hop for an MP family) is within the negotiated maximum. -/
def fitsAnn (i : Input) (x : Nlri) : Prop :=
  if x.v4 then 23 + chosenAttr i + x.size ≤ i.M
  else 23 + chosenAttr i + attrLen (5 + x.nhLen + x.size) ≤ i.M

/-- the same for a withdraw (in an MP_UNREACH_NLRI for an MP family) -/
def fitsWd (i : Input) (x : Nlri) : Prop :=
  if x.v4 then 23 + chosenAttr i + x.size ≤ i.M
  else 23 + chosenAttr i + attrLen (3 + x.size) ≤ i.M

instance (i : Input) (x : Nlri) : Decidable (fitsAnn i x) := by unfold fitsAnn; exact inferInstance
instance (i : Input) (x : Nlri) : Decidable (fitsWd i x) := by unfold fitsWd; exact inferInstance

/-! ### size -/

theorem v4WdPart_fits (inclW : Bool) (ms attr : Nat) (vw w a : List Nlri) (h : sz w + sz a ≤ ms) :
    (∀ m ∈ (v4WdPart inclW ms attr vw w a).msgs, m.len ≤ 23 + attr + ms) ∧
    sz (v4WdPart inclW ms attr vw w a).w + sz (v4WdPart inclW ms attr vw w a).a ≤ ms := by
  unfold v4WdPart
  split
  · exact v4WdLoop_fits ms attr vw w a h
  · exact ⟨by simp, h⟩

/-- every message `messages` yields is within the negotiated maximum — no hypothesis -/
theorem packRaw_fits (i : Input) : ∀ m ∈ (packRaw i).msgs, m.len ≤ i.M := by
  intro m hm
  unfold packRaw at hm
  split at hm
  · simp at hm
  · simp only at hm
    split at hm
    · simp at hm
    · rename_i hM
      split at hm
      · simp at hm
      · have hMe : 23 + chosenAttr i + (i.M - 23 - chosenAttr i) = i.M := by omega
        generalize hms : i.M - 23 - chosenAttr i = ms at hm hMe
        have a1 := v4AnnLoop_fits ms (chosenAttr i) (v4Anns i) [] [] (by simp)
        have a2 := v4WdPart_fits i.includeWithdraw ms (chosenAttr i) (v4Wds i)
          (v4AnnLoop ms (chosenAttr i) (v4Anns i) [] []).w (v4AnnLoop ms (chosenAttr i) (v4Anns i) [] []).a a1.2
        generalize v4WdPart i.includeWithdraw ms (chosenAttr i) (v4Wds i)
          (v4AnnLoop ms (chosenAttr i) (v4Anns i) [] []).w (v4AnnLoop ms (chosenAttr i) (v4Anns i) [] []).a = r2 at hm a2
        simp only [List.mem_append] at hm
        rcases hm with ((hm | hm) | hm) | hm
        · have := a1.1 m hm; omega
        · have := a2.1 m hm; omega
        · unfold v4Final at hm
          split at hm
          · simp at hm; subst hm
            have := mkMsg_len_le (chosenAttr i) r2.w none (decide (sz r2.a ≠ 0)) none r2.a
            simp at this; simp; omega
          · simp at hm
        · have := famLoop_fits i.includeWithdraw ms (chosenAttr i) (mpAnns i) (mpWds i) (mpFams i) m hm
          omega

theorem pack_sub (i : Input) : ∀ m ∈ (pack i).msgs, m ∈ (packRaw i).msgs := by
  intro m hm
  unfold pack at hm
  exact cut_sub _ m hm

/-! ### what the messages hold -/

/-- an MP_REACH_NLRI of the output: requested MP announces of ONE family with ONE next hop, each of
    which fits alone -/
def Rg (i : Input) (r : Mp) : Prop :=
  r.hdr = 5 + r.nhLen ∧ 0 < sz r.items ∧ ∀ x ∈ r.items, x ∈ mpAnns i ∧ x.fam = r.fam ∧ x.nh = r.nh ∧ x.nhLen = r.nhLen ∧
    23 + chosenAttr i + attrLen (5 + x.nhLen + x.size) ≤ i.M

/-- an MP_UNREACH_NLRI of the output: requested MP withdraws of one family, only with `include_withdraw` -/
def Ug (i : Input) (u : Mp) : Prop :=
  i.includeWithdraw = true ∧ u.hdr = 3 ∧ 0 < sz u.items ∧ ∀ x ∈ u.items, x ∈ mpWds i ∧ x.fam = u.fam ∧
    23 + chosenAttr i + attrLen (3 + x.size) ≤ i.M

/-- what the classic NLRI field may hold -/
def A4g (i : Input) (x : Nlri) : Prop := x ∈ v4Anns i ∧ 23 + chosenAttr i + x.size ≤ i.M
/-- what the classic Withdrawn Routes field may hold -/
def W4g (i : Input) (x : Nlri) : Prop :=
  x ∈ v4Wds i ∧ i.includeWithdraw = true ∧ 23 + chosenAttr i + x.size ≤ i.M

theorem v4WdPart_sec {A4 W4 : Nlri → Prop} {R U : Mp → Prop} (inclW : Bool) (ms attr : Nat) (vw w a : List Nlri)
    (hx : inclW = true → ∀ x ∈ vw, x.size ≤ ms → W4 x) (ha : ∀ x ∈ a, A4 x) (hw : ∀ x ∈ w, W4 x) :
    (∀ m ∈ (v4WdPart inclW ms attr vw w a).msgs, SecOK attr A4 W4 R U m) ∧
    (∀ x ∈ (v4WdPart inclW ms attr vw w a).a, A4 x) ∧ (∀ x ∈ (v4WdPart inclW ms attr vw w a).w, W4 x) := by
  unfold v4WdPart
  split
  · rename_i hi; exact v4WdLoop_sec ms attr vw w a (hx hi) ha hw
  · exact ⟨by simp, ha, hw⟩

theorem packRaw_sections (i : Input) :
    ∀ m ∈ (packRaw i).msgs, SecOK (chosenAttr i) (A4g i) (W4g i) (Rg i) (Ug i) m := by
  intro m hm
  unfold packRaw at hm
  split at hm
  · simp at hm
  · simp only at hm
    split at hm
    · simp at hm
    · rename_i hM
      split at hm
      · simp at hm
      · have hMe : 23 + chosenAttr i + (i.M - 23 - chosenAttr i) = i.M := by omega
        generalize i.M - 23 - chosenAttr i = ms at hm hMe
        have a1 := v4AnnLoop_sec (A4 := A4g i) (W4 := W4g i) (R := Rg i) (U := Ug i) ms (chosenAttr i) (v4Anns i) [] []
          (fun x hx hs => ⟨hx, by omega⟩) (by intro y hy; simp at hy) (by intro y hy; simp at hy)
        have a2 := v4WdPart_sec (A4 := A4g i) (W4 := W4g i) (R := Rg i) (U := Ug i) i.includeWithdraw ms (chosenAttr i)
          (v4Wds i) (v4AnnLoop ms (chosenAttr i) (v4Anns i) [] []).w (v4AnnLoop ms (chosenAttr i) (v4Anns i) [] []).a
          (fun hi x hx hs => ⟨hx, hi, by omega⟩) a1.2.1 a1.2.2
        generalize v4WdPart i.includeWithdraw ms (chosenAttr i) (v4Wds i)
          (v4AnnLoop ms (chosenAttr i) (v4Anns i) [] []).w (v4AnnLoop ms (chosenAttr i) (v4Anns i) [] []).a = r2 at hm a2
        simp only [List.mem_append] at hm
        rcases hm with ((hm | hm) | hm) | hm
        · exact a1.1 m hm
        · exact a2.1 m hm
        · unfold v4Final at hm
          split at hm
          · simp at hm; subst hm
            exact mkMsg_sec _ _ _ _ _ _ a2.2.1 a2.2.2 (by intro _ h; cases h) (by intro _ h; cases h)
              (by by_cases h : sz r2.a = 0 <;> simp [h])
          · simp at hm
        · refine famLoop_sec (A4 := A4g i) (W4 := W4g i) (R := Rg i) (U := Ug i) i.includeWithdraw ms (chosenAttr i)
            (mpAnns i) (mpWds i) ?_ ?_ (mpFams i) m hm
          · intro f r hr
            obtain ⟨h1, h2, hne, h3⟩ := reachGen_sec ms f _ r hr
            refine ⟨h2, hne, ?_⟩
            intro x hx
            obtain ⟨hxa, hnh, hnl, hfit⟩ := h3 x hx
            have := List.mem_filter.1 hxa
            exact ⟨this.1, by rw [h1]; simpa using this.2, hnh, hnl, by omega⟩
          · intro hi f u hu
            obtain ⟨h1, h2, hne, h3⟩ := unreachGen_sec ms f _ u hu
            refine ⟨hi, h2, hne, ?_⟩
            intro x hx
            obtain ⟨hxw, hfit⟩ := h3 x hx
            have := List.mem_filter.1 hxw
            exact ⟨this.1, by rw [h1]; simpa using this.2, by omega⟩

/-! ### nothing that fits is lost -/

/-- every MP family that has something to send is visited by the loop (`famOrder` lists the set) -/
def FamCover (i : Input) : Prop := ∀ x ∈ mpAnns i ++ mpWds i, x.fam ∈ i.famOrder

instance (i : Input) : Decidable (FamCover i) := by unfold FamCover; exact inferInstance

/-- every NLRI has at least one byte -/
def PosSizes (i : Input) : Prop := Pos i.anns ∧ Pos i.wds

instance (i : Input) : Decidable (PosSizes i) := by unfold PosSizes; exact inferInstance

theorem pos_filter {l : List Nlri} (h : Pos l) (p : Nlri → Bool) : Pos (l.filter p) :=
  fun x hx => h x (List.mem_filter.1 hx).1

theorem v4WdPart_cover (inclW : Bool) (ms attr : Nat) (vw w a : List Nlri) :
    (inclW = true → ∀ x ∈ vw, x.size ≤ ms →
      (∃ m ∈ (v4WdPart inclW ms attr vw w a).msgs, x ∈ m.wd4) ∨ x ∈ (v4WdPart inclW ms attr vw w a).w) ∧
    (∀ x ∈ a, (∃ m ∈ (v4WdPart inclW ms attr vw w a).msgs, x ∈ m.ann4) ∨ x ∈ (v4WdPart inclW ms attr vw w a).a) := by
  unfold v4WdPart
  split
  · have := v4WdLoop_cover ms attr vw w a
    exact ⟨fun _ x hx hs => this.1 x (Or.inl ⟨hx, hs⟩), this.2⟩
  · rename_i hi
    exact ⟨fun h => absurd h hi, fun x hx => Or.inr hx⟩

/-- every requested NLRI of a negotiated family that fits alone is in a message -/
theorem packRaw_complete (i : Input) (hp : PosSizes i) (hf : FamCover i) :
    (∀ x ∈ v4Anns i, 23 + chosenAttr i + x.size ≤ i.M → ∃ m ∈ (packRaw i).msgs, x ∈ m.ann4) ∧
    (∀ x ∈ mpAnns i, 23 + chosenAttr i + attrLen (5 + x.nhLen + x.size) ≤ i.M → InReach (packRaw i).msgs x) ∧
    (i.includeWithdraw = true →
      (∀ x ∈ v4Wds i, 23 + chosenAttr i + x.size ≤ i.M → ∃ m ∈ (packRaw i).msgs, x ∈ m.wd4) ∧
      (∀ x ∈ mpWds i, 23 + chosenAttr i + attrLen (3 + x.size) ≤ i.M → InUnreach (packRaw i).msgs x)) := by
  have pva : Pos (v4Anns i) := pos_filter hp.1 _
  have pma : Pos (mpAnns i) := pos_filter hp.1 _
  have pvw : Pos (v4Wds i) := pos_filter hp.2 _
  have pmw : Pos (mpWds i) := pos_filter hp.2 _
  have al := attrLen_pos
  unfold packRaw
  split
  · rename_i hempty
    simp only [Bool.and_eq_true, List.isEmpty_iff] at hempty
    obtain ⟨⟨⟨e1, e2⟩, e3⟩, e4⟩ := hempty
    simp [e1, e2, e3, e4]
  · simp only
    split
    · rename_i hM
      refine ⟨?_, ?_, fun _ => ⟨?_, ?_⟩⟩
      · intro x hx h; omega
      · intro x hx h; omega
      · intro x hx h; omega
      · intro x hx h; omega
    · rename_i hM
      split
      · rename_i hms
        refine ⟨?_, ?_, fun _ => ⟨?_, ?_⟩⟩
        · intro x hx h; have := pva x hx; omega
        · intro x hx h; have := al (5 + x.nhLen + x.size); omega
        · intro x hx h; have := pvw x hx; omega
        · intro x hx h; have := al (3 + x.size); omega
      · rename_i hms
        have hMe : 23 + chosenAttr i + (i.M - 23 - chosenAttr i) = i.M := by omega
        generalize i.M - 23 - chosenAttr i = ms at hMe
        have c1 := v4AnnLoop_cover ms (chosenAttr i) (v4Anns i) [] []
        have s1 := v4AnnLoop_sec (A4 := fun x => 0 < x.size) (W4 := fun x => 0 < x.size) (R := fun _ => True) (U := fun _ => True)
          ms (chosenAttr i) (v4Anns i) [] [] (fun x hx _ => pva x hx) (by intro y hy; simp at hy) (by intro y hy; simp at hy)
        generalize v4AnnLoop ms (chosenAttr i) (v4Anns i) [] [] = r1 at c1 s1 ⊢
        have c2 := v4WdPart_cover i.includeWithdraw ms (chosenAttr i) (v4Wds i) r1.w r1.a
        have s2 := v4WdPart_sec (A4 := fun x => 0 < x.size) (W4 := fun x => 0 < x.size) (R := fun _ => True) (U := fun _ => True)
          i.includeWithdraw ms (chosenAttr i) (v4Wds i) r1.w r1.a (fun _ x hx _ => pvw x hx) s1.2.1 s1.2.2
        generalize v4WdPart i.includeWithdraw ms (chosenAttr i) (v4Wds i) r1.w r1.a = r2 at c2 s2 ⊢
        have cf := v4Final_cover (chosenAttr i) r2.w r2.a s2.2.2 s2.2.1
        have cm := famLoop_cover i.includeWithdraw ms (chosenAttr i) (mpAnns i) (mpWds i) pma pmw (mpFams i)
        have famIn : ∀ x ∈ mpAnns i ++ mpWds i, x.fam ∈ mpFams i := by
          intro x hx
          unfold mpFams
          refine List.mem_filter.2 ⟨hf x hx, ?_⟩
          exact List.any_eq_true.2 ⟨x, hx, by simp⟩
        simp only
        refine ⟨?_, ?_, ?_⟩
        · intro x hx hfit
          rcases c1.1 x (Or.inl ⟨hx, by omega⟩) with ⟨m, hm, hxm⟩ | hxa
          · exact ⟨m, by simp [hm], hxm⟩
          · rcases c2.2 x hxa with ⟨m, hm, hxm⟩ | hxa2
            · exact ⟨m, by simp [hm], hxm⟩
            · obtain ⟨m, hm, hxm⟩ := cf.1 x hxa2
              exact ⟨m, by simp [hm], hxm⟩
        · intro x hx hfit
          exact InReach_mono (fun m hm => by simp [hm])
            ((cm x.fam (famIn x (List.mem_append_left _ hx))).1 x hx rfl (by omega))
        · intro hi
          constructor
          · intro x hx hfit
            rcases c2.1 hi x hx (by omega) with ⟨m, hm, hxm⟩ | hxw
            · exact ⟨m, by simp [hm], hxm⟩
            · obtain ⟨m, hm, hxm⟩ := cf.2 x hxw
              exact ⟨m, by simp [hm], hxm⟩
          · intro x hx hfit
            exact InUnreach_mono (fun m hm => by simp [hm])
              ((cm x.fam (famIn x (List.mem_append_right _ hx))).2 hi x hx rfl (by omega))

/-! ### how the generator ends -/

/-- `messages` never raises: it either runs to its end or returns at once because `msg_size ≤ 0` -/
theorem packRaw_status (i : Input) :
    (packRaw i).status = .ok ∨ ((packRaw i).status = .noRoom ∧ (packRaw i).msgs = [] ∧ i.M ≤ 23 + chosenAttr i) := by
  unfold packRaw
  split
  · exact Or.inl rfl
  · simp only
    split
    · rename_i h; exact Or.inr ⟨rfl, rfl, by omega⟩
    · split
      · rename_i h1 h2; exact Or.inr ⟨rfl, rfl, by omega⟩
      · exact Or.inl rfl

/-- attributes that leave no room at all (`msg_size ≤ 0`): nothing is sent -/
theorem packRaw_no_room (i : Input) (h : i.M ≤ 23 + chosenAttr i) : (packRaw i).msgs = [] := by
  unfold packRaw
  split
  · rfl
  · simp only
    split
    · rfl
    · split
      · rfl
      · rename_i h1 h2; omega

end Exa.Pack
