import ExaModel.Lemmas.PackFits
set_option linter.unusedSimpArgs false
set_option linter.unusedVariables false
/-! The hypotheses of the C09 theorems and the size theorem for the whole of `messages`. -/
namespace Exa.Pack

/-- **Each NLRI that is to be sent fits alone with the attributes**: an UPDATE made of the
    19-byte header, the two length fields, the attribute block `messages` chose and this one NLRI
    (framed as MP_REACH / MP_UNREACH for an MP family) is within the negotiated maximum. -/
def FitsAlone (i : Input) : Prop :=
  (∀ x ∈ v4Anns i, 23 + chosenAttr i + x.size ≤ i.M) ∧
  (i.includeWithdraw = true → ∀ x ∈ v4Wds i, 23 + chosenAttr i + x.size ≤ i.M) ∧
  (∀ x ∈ mpAnns i, 23 + chosenAttr i + attrLen (5 + x.nhLen + x.size) ≤ i.M) ∧
  (i.includeWithdraw = true → ∀ x ∈ mpWds i, 23 + chosenAttr i + attrLen (3 + x.size) ≤ i.M)

instance (i : Input) : Decidable (FitsAlone i) := by unfold FitsAlone; exact inferInstance

theorem v4WdPart_fits (inclW : Bool) (ms attr : Nat) (vw w a : List Nlri)
    (hx : inclW = true → ∀ x ∈ vw, x.size ≤ ms) (h : sz w + sz a ≤ ms) :
    (∀ m ∈ (v4WdPart inclW ms attr vw w a).msgs, m.len ≤ 23 + attr + ms) ∧
    sz (v4WdPart inclW ms attr vw w a).w + sz (v4WdPart inclW ms attr vw w a).a ≤ ms := by
  unfold v4WdPart
  split
  · rename_i hi; exact v4WdLoop_fits ms attr vw w a (hx hi) h
  · exact ⟨by simp, h⟩

theorem packRaw_fits (i : Input) (h : FitsAlone i) : ∀ m ∈ (packRaw i).msgs, m.len ≤ i.M := by
  obtain ⟨h1, h2, h3, h4⟩ := h
  intro m hm
  unfold packRaw at hm
  split at hm
  · simp at hm
  · simp only at hm
    split at hm
    · simp at hm
    · rename_i hM
      split at hm
      · simp at hm
      · -- ms > 0, M = 23 + attr + ms
        have hMe : 23 + chosenAttr i + (i.M - 23 - chosenAttr i) = i.M := by omega
        generalize hms : i.M - 23 - chosenAttr i = ms at hm hMe
        have a1 := v4AnnLoop_fits ms (chosenAttr i) (v4Anns i) [] []
          (fun x hx => by have := h1 x hx; omega) (by simp)
        split at hm
        · simp only at hm; have := a1.1 m hm; omega
        · have a2 := v4WdPart_fits i.includeWithdraw ms (chosenAttr i) (v4Wds i)
            (v4AnnLoop ms (chosenAttr i) (v4Anns i) [] []).w (v4AnnLoop ms (chosenAttr i) (v4Anns i) [] []).a
            (fun hi x hx => by have := h2 hi x hx; omega) a1.2
          generalize v4WdPart i.includeWithdraw ms (chosenAttr i) (v4Wds i)
            (v4AnnLoop ms (chosenAttr i) (v4Anns i) [] []).w (v4AnnLoop ms (chosenAttr i) (v4Anns i) [] []).a = r2 at hm a2
          split at hm
          · simp only [List.mem_append] at hm
            rcases hm with hm | hm
            · have := a1.1 m hm; omega
            · have := a2.1 m hm; omega
          · simp only [List.mem_append] at hm
            rcases hm with ((hm | hm) | hm) | hm
            · have := a1.1 m hm; omega
            · have := a2.1 m hm; omega
            · unfold v4Final at hm
              split at hm
              · simp at hm; subst hm
                have := mkMsg_len_le (chosenAttr i) r2.w none (decide (sz r2.a ≠ 0)) none r2.a
                simp at this; simp; omega
              · simp at hm
            · have := famLoop_fits i.includeWithdraw ms (chosenAttr i) (mpAnns i) (mpWds i)
                (fun x hx => by have := h3 x hx; omega)
                (fun hi x hx => by have := h4 hi x hx; omega)
                (mpFams i) r2.w r2.a (by omega) m hm
              omega

theorem pack_sub (i : Input) : ∀ m ∈ (pack i).msgs, m ∈ (packRaw i).msgs := by
  intro m hm
  unfold pack at hm
  exact cut_sub _ m hm

end Exa.Pack
