import ExaModel.Lemmas.PackFits
import ExaModel.Lemmas.PackCover
set_option linter.unusedSimpArgs false
set_option linter.unusedVariables false
/-! The hypotheses of the C09 theorems and the size theorem for the whole of `messages`. -/
namespace Exa.Pack

/-- **Each NLRI that is to be sent fits alone with the attributes**: an UPDATE made of the
    19-byte header, the two length fields, the attribute block `messages` chose and this one NLRI
    (framed as MP_REACH / MP_UNREACH for an MP family) is within the negotiated maximum. -/
def FitsAlone (i : Input) : Prop :=
  (∀ x ∈ v4Anns i, 23 + chosenAttr i + x.size ≤ i.M) ∧
  (i.includeWithdraw = true → ∀ x ∈ v4Wds i, 23 + chosenAttr i + x.size ≤ i.M) ∧
  (∀ x ∈ mpAnns i, 23 + chosenAttr i + attrLen (5 + x.nhLen + x.size) ≤ i.M) ∧
  (i.includeWithdraw = true → ∀ x ∈ mpWds i, 23 + chosenAttr i + attrLen (3 + x.size) ≤ i.M)

instance (i : Input) : Decidable (FitsAlone i) := by unfold FitsAlone; exact inferInstance

theorem v4WdPart_fits (inclW : Bool) (ms attr : Nat) (vw w a : List Nlri)
    (hx : inclW = true → ∀ x ∈ vw, x.size ≤ ms) (h : sz w + sz a ≤ ms) :
    (∀ m ∈ (v4WdPart inclW ms attr vw w a).msgs, m.len ≤ 23 + attr + ms) ∧
    sz (v4WdPart inclW ms attr vw w a).w + sz (v4WdPart inclW ms attr vw w a).a ≤ ms := by
  unfold v4WdPart
  split
  · rename_i hi; exact v4WdLoop_fits ms attr vw w a (hx hi) h
  · exact ⟨by simp, h⟩

theorem packRaw_fits (i : Input) (h : FitsAlone i) : ∀ m ∈ (packRaw i).msgs, m.len ≤ i.M := by
  obtain ⟨h1, h2, h3, h4⟩ := h
  intro m hm
  unfold packRaw at hm
  split at hm
  · simp at hm
  · simp only at hm
    split at hm
    · simp at hm
    · rename_i hM
      split at hm
      · simp at hm
      · -- ms > 0, M = 23 + attr + ms
        have hMe : 23 + chosenAttr i + (i.M - 23 - chosenAttr i) = i.M := by omega
        generalize hms : i.M - 23 - chosenAttr i = ms at hm hMe
        have a1 := v4AnnLoop_fits ms (chosenAttr i) (v4Anns i) [] []
          (fun x hx => by have := h1 x hx; omega) (by simp)
        split at hm
        · simp only at hm; have := a1.1 m hm; omega
        · have a2 := v4WdPart_fits i.includeWithdraw ms (chosenAttr i) (v4Wds i)
            (v4AnnLoop ms (chosenAttr i) (v4Anns i) [] []).w (v4AnnLoop ms (chosenAttr i) (v4Anns i) [] []).a
            (fun hi x hx => by have := h2 hi x hx; omega) a1.2
          generalize v4WdPart i.includeWithdraw ms (chosenAttr i) (v4Wds i)
            (v4AnnLoop ms (chosenAttr i) (v4Anns i) [] []).w (v4AnnLoop ms (chosenAttr i) (v4Anns i) [] []).a = r2 at hm a2
          split at hm
          · simp only [List.mem_append] at hm
            rcases hm with hm | hm
            · have := a1.1 m hm; omega
            · have := a2.1 m hm; omega
          · simp only [List.mem_append] at hm
            rcases hm with ((hm | hm) | hm) | hm
            · have := a1.1 m hm; omega
            · have := a2.1 m hm; omega
            · unfold v4Final at hm
              split at hm
              · simp at hm; subst hm
                have := mkMsg_len_le (chosenAttr i) r2.w none (decide (sz r2.a ≠ 0)) none r2.a
                simp at this; simp; omega
              · simp at hm
            · have := famLoop_fits i.includeWithdraw ms (chosenAttr i) (mpAnns i) (mpWds i)
                (fun x hx => by have := h3 x hx; omega)
                (fun hi x hx => by have := h4 hi x hx; omega)
                (mpFams i) r2.w r2.a (by omega) m hm
              omega

theorem pack_sub (i : Input) : ∀ m ∈ (pack i).msgs, m ∈ (packRaw i).msgs := by
  intro m hm
  unfold pack at hm
  exact cut_sub _ m hm

/-! ### what the messages hold -/

/-- an MP_REACH_NLRI of the output: requested MP announces of ONE family with ONE next hop -/
def Rg (i : Input) (r : Mp) : Prop :=
  r.hdr = 5 + r.nhLen ∧ ∀ x ∈ r.items, x ∈ mpAnns i ∧ x.fam = r.fam ∧ x.nh = r.nh ∧ x.nhLen = r.nhLen

/-- an MP_UNREACH_NLRI of the output: requested MP withdraws of one family, only with `include_withdraw` -/
def Ug (i : Input) (u : Mp) : Prop :=
  i.includeWithdraw = true ∧ u.hdr = 3 ∧ ∀ x ∈ u.items, x ∈ mpWds i ∧ x.fam = u.fam

theorem v4WdPart_sec {A4 W4 : Nlri → Prop} {R U : Mp → Prop} (inclW : Bool) (ms attr : Nat) (vw w a : List Nlri)
    (hx : inclW = true → ∀ x ∈ vw, W4 x) (ha : ∀ x ∈ a, A4 x) (hw : ∀ x ∈ w, W4 x) :
    (∀ m ∈ (v4WdPart inclW ms attr vw w a).msgs, SecOK A4 W4 R U m) ∧
    (∀ x ∈ (v4WdPart inclW ms attr vw w a).a, A4 x) ∧ (∀ x ∈ (v4WdPart inclW ms attr vw w a).w, W4 x) := by
  unfold v4WdPart
  split
  · rename_i hi; exact v4WdLoop_sec ms attr vw w a (hx hi) ha hw
  · exact ⟨by simp, ha, hw⟩

theorem packRaw_sections (i : Input) :
    ∀ m ∈ (packRaw i).msgs,
      SecOK (fun x => x ∈ v4Anns i) (fun x => x ∈ v4Wds i ∧ i.includeWithdraw = true) (Rg i) (Ug i) m := by
  intro m hm
  unfold packRaw at hm
  split at hm
  · simp at hm
  · simp only at hm
    split at hm
    · simp at hm
    · split at hm
      · simp at hm
      · generalize i.M - 23 - chosenAttr i = ms at hm
        have a1 := v4AnnLoop_sec (A4 := fun x => x ∈ v4Anns i) (W4 := fun x => x ∈ v4Wds i ∧ i.includeWithdraw = true)
          (R := Rg i) (U := Ug i) ms (chosenAttr i) (v4Anns i) [] []
          (fun x hx => hx) (by intro y hy; simp at hy) (by intro y hy; simp at hy)
        split at hm
        · exact a1.1 m hm
        · have a2 := v4WdPart_sec (A4 := fun x => x ∈ v4Anns i) (W4 := fun x => x ∈ v4Wds i ∧ i.includeWithdraw = true)
            (R := Rg i) (U := Ug i) i.includeWithdraw ms (chosenAttr i) (v4Wds i)
            (v4AnnLoop ms (chosenAttr i) (v4Anns i) [] []).w (v4AnnLoop ms (chosenAttr i) (v4Anns i) [] []).a
            (fun hi x hx => ⟨hx, hi⟩) a1.2.1 a1.2.2
          generalize v4WdPart i.includeWithdraw ms (chosenAttr i) (v4Wds i)
            (v4AnnLoop ms (chosenAttr i) (v4Anns i) [] []).w (v4AnnLoop ms (chosenAttr i) (v4Anns i) [] []).a = r2 at hm a2
          split at hm
          · simp only [List.mem_append] at hm
            rcases hm with hm | hm
            · exact a1.1 m hm
            · exact a2.1 m hm
          · simp only [List.mem_append] at hm
            rcases hm with ((hm | hm) | hm) | hm
            · exact a1.1 m hm
            · exact a2.1 m hm
            · unfold v4Final at hm
              split at hm
              · simp at hm; subst hm
                exact mkMsg_sec _ _ _ _ _ _ a2.2.1 a2.2.2 (by intro _ h; cases h) (by intro _ h; cases h) (by by_cases h : sz r2.a = 0 <;> simp [h])
              · simp at hm
            · refine famLoop_sec (A4 := fun x => x ∈ v4Anns i) (W4 := fun x => x ∈ v4Wds i ∧ i.includeWithdraw = true)
                (R := Rg i) (U := Ug i) i.includeWithdraw ms (chosenAttr i) (mpAnns i) (mpWds i) ?_ ?_
                (mpFams i) r2.w r2.a a2.2.1 a2.2.2 m hm
              · intro f maxi r hr
                obtain ⟨h1, h2, h3⟩ := reachGen_sec maxi f _ r hr
                refine ⟨h2, ?_⟩
                intro x hx
                obtain ⟨hxa, hnh, hnl⟩ := h3 x hx
                have := List.mem_filter.1 hxa
                exact ⟨this.1, by rw [h1]; simpa using this.2, hnh, hnl⟩
              · intro hi f maxi u hu
                obtain ⟨h1, h2, h3⟩ := unreachGen_sec maxi f _ u hu
                refine ⟨hi, h2, ?_⟩
                intro x hx
                have := List.mem_filter.1 (h3 x hx)
                exact ⟨this.1, by rw [h1]; simpa using this.2⟩

/-! ### nothing is lost when the generator runs to its end -/

/-- every MP family that has something to send is visited by the loop (`famOrder` lists the set) -/
def FamCover (i : Input) : Prop := ∀ x ∈ mpAnns i ++ mpWds i, x.fam ∈ i.famOrder

instance (i : Input) : Decidable (FamCover i) := by unfold FamCover; exact inferInstance

/-- every NLRI has at least one byte -/
def PosSizes (i : Input) : Prop := Pos i.anns ∧ Pos i.wds

instance (i : Input) : Decidable (PosSizes i) := by unfold PosSizes; exact inferInstance

theorem pos_filter {l : List Nlri} (h : Pos l) (p : Nlri → Bool) : Pos (l.filter p) :=
  fun x hx => h x (List.mem_filter.1 hx).1

theorem v4WdPart_cover (inclW : Bool) (ms attr : Nat) (vw w a : List Nlri)
    (hb : (v4WdPart inclW ms attr vw w a).bailed = false) :
    (inclW = true → ∀ x ∈ vw, (∃ m ∈ (v4WdPart inclW ms attr vw w a).msgs, x ∈ m.wd4) ∨ x ∈ (v4WdPart inclW ms attr vw w a).w) ∧
    (∀ x ∈ a, (∃ m ∈ (v4WdPart inclW ms attr vw w a).msgs, x ∈ m.ann4) ∨ x ∈ (v4WdPart inclW ms attr vw w a).a) := by
  unfold v4WdPart at hb ⊢
  split
  · rename_i hi
    simp only [hi, if_true] at hb
    have := v4WdLoop_cover ms attr vw w a hb
    exact ⟨fun _ x hx => this.1 x (Or.inl hx), this.2⟩
  · rename_i hi
    exact ⟨fun h => absurd h hi, fun x hx => Or.inr hx⟩

theorem packRaw_complete (i : Input) (hp : PosSizes i) (hf : FamCover i) (hok : (packRaw i).status = .ok) :
    (∀ x ∈ v4Anns i, ∃ m ∈ (packRaw i).msgs, x ∈ m.ann4) ∧
    (∀ x ∈ mpAnns i, InReach (packRaw i).msgs x) ∧
    (i.includeWithdraw = true →
      (∀ x ∈ v4Wds i, ∃ m ∈ (packRaw i).msgs, x ∈ m.wd4) ∧ (∀ x ∈ mpWds i, InUnreach (packRaw i).msgs x)) := by
  have pva : Pos (v4Anns i) := pos_filter hp.1 _
  have pma : Pos (mpAnns i) := pos_filter hp.1 _
  have pvw : Pos (v4Wds i) := pos_filter hp.2 _
  have pmw : Pos (mpWds i) := pos_filter hp.2 _
  unfold packRaw at hok ⊢
  split
  · rename_i hempty
    simp only [Bool.and_eq_true, List.isEmpty_iff] at hempty
    obtain ⟨⟨⟨e1, e2⟩, e3⟩, e4⟩ := hempty
    simp [e1, e2, e3, e4, InReach, InUnreach]
  · rename_i hne
    simp only [hne] at hok
    simp only at hok ⊢
    split
    · rename_i h; simp [h] at hok
    · rename_i hM
      simp only [hM, if_false] at hok
      split
      · rename_i h; simp [h] at hok
      · rename_i hms
        simp only [hms, if_false] at hok
        generalize i.M - 23 - chosenAttr i = ms at hok ⊢
        generalize hr1 : v4AnnLoop ms (chosenAttr i) (v4Anns i) [] [] = r1 at hok ⊢
        split
        · rename_i h; simp [h] at hok
        · rename_i hb1
          simp only [hb1] at hok
          have hb1' : r1.bailed = false := by simpa using hb1
          have c1 := v4AnnLoop_cover ms (chosenAttr i) (v4Anns i) [] [] (by rw [hr1]; exact hb1')
          rw [hr1] at c1
          have s1 := v4AnnLoop_sec (A4 := fun x => 0 < x.size) (W4 := fun x => 0 < x.size) (R := fun _ => True) (U := fun _ => True)
            ms (chosenAttr i) (v4Anns i) [] [] pva (by intro y hy; simp at hy) (by intro y hy; simp at hy)
          rw [hr1] at s1
          generalize hr2 : v4WdPart i.includeWithdraw ms (chosenAttr i) (v4Wds i) r1.w r1.a = r2 at hok ⊢
          split
          · rename_i h; simp [h] at hok
          · rename_i hb2
            simp only [hb2] at hok
            have hb2' : r2.bailed = false := by simpa using hb2
            have c2 := v4WdPart_cover i.includeWithdraw ms (chosenAttr i) (v4Wds i) r1.w r1.a (by rw [hr2]; exact hb2')
            rw [hr2] at c2
            have s2 := v4WdPart_sec (A4 := fun x => 0 < x.size) (W4 := fun x => 0 < x.size) (R := fun _ => True) (U := fun _ => True)
              i.includeWithdraw ms (chosenAttr i) (v4Wds i) r1.w r1.a (fun _ => pvw) s1.2.1 s1.2.2
            rw [hr2] at s2
            have cf := v4Final_cover (chosenAttr i) r2.w r2.a s2.2.2 s2.2.1
            generalize hmp : famLoop i.includeWithdraw ms (chosenAttr i) (mpAnns i) (mpWds i) (mpFams i) r2.w r2.a = mp at hok ⊢
            have hmp2 : mp.2 = false := by
              cases h : mp.2 with
              | false => rfl
              | true => simp [h] at hok
            have cm := famLoop_cover i.includeWithdraw ms (chosenAttr i) (mpAnns i) (mpWds i) pma pmw (mpFams i) r2.w r2.a
              (by rw [hmp]; exact hmp2)
            rw [hmp] at cm
            have famIn : ∀ x ∈ mpAnns i ++ mpWds i, x.fam ∈ mpFams i := by
              intro x hx
              unfold mpFams
              refine List.mem_filter.2 ⟨hf x hx, ?_⟩
              exact List.any_eq_true.2 ⟨x, hx, by simp⟩
            simp only
            refine ⟨?_, ?_, ?_⟩
            · intro x hx
              rcases c1.1 x (Or.inl hx) with ⟨m, hm, hxm⟩ | hxa
              · exact ⟨m, by simp [hm], hxm⟩
              · rcases c2.2 x hxa with ⟨m, hm, hxm⟩ | hxa2
                · exact ⟨m, by simp [hm], hxm⟩
                · obtain ⟨m, hm, hxm⟩ := cf.1 x hxa2
                  exact ⟨m, by simp [hm], hxm⟩
            · intro x hx
              exact InReach_mono (fun m hm => by simp [hm])
                ((cm x.fam (famIn x (List.mem_append_left _ hx))).1 x hx rfl)
            · intro hi
              constructor
              · intro x hx
                rcases c2.1 hi x hx with ⟨m, hm, hxm⟩ | hxw
                · exact ⟨m, by simp [hm], hxm⟩
                · obtain ⟨m, hm, hxm⟩ := cf.2 x hxw
                  exact ⟨m, by simp [hm], hxm⟩
              · intro x hx
                exact InUnreach_mono (fun m hm => by simp [hm])
                  ((cm x.fam (famIn x (List.mem_append_right _ hx))).2 hi x hx rfl)

/-! ### the silent `return`s -/

theorem v4AnnLoop_keeps (ms attr : Nat) :
    ∀ (xs w a : List Nlri), Pos xs → sz a ≠ 0 →
      (v4AnnLoop ms attr xs w a).bailed = false ∧ sz (v4AnnLoop ms attr xs w a).a ≠ 0 := by
  intro xs
  induction xs with
  | nil => intro w a _ h; exact ⟨rfl, h⟩
  | cons x xs ih =>
    intro w a hp h
    have hxs : Pos xs := fun y hy => hp y (by simp [hy])
    have hx := hp x (by simp)
    unfold v4AnnLoop
    split
    · exact ih w (a ++ [x]) hxs (by simp; omega)
    · split
      · rename_i h0; omega
      · exact ih [] [x] hxs (by simp; omega)

/-- giving up (`return` after `log.critical`) happens before anything was yielded -/
theorem v4AnnLoop_bailed_nil (ms attr : Nat) :
    ∀ (xs w a : List Nlri), Pos xs → (v4AnnLoop ms attr xs w a).bailed = true →
      (v4AnnLoop ms attr xs w a).msgs = [] := by
  intro xs
  induction xs with
  | nil => intro w a _ h; simp [v4AnnLoop] at h
  | cons x xs ih =>
    intro w a hp hb
    have hxs : Pos xs := fun y hy => hp y (by simp [hy])
    have hx := hp x (by simp)
    unfold v4AnnLoop at hb ⊢
    split
    · rename_i hfit
      simp only [hfit, if_true] at hb
      exact ih w (a ++ [x]) hxs hb
    · rename_i hfit
      simp only [hfit, if_false] at hb
      split
      · rfl
      · rename_i h0
        simp only [h0, if_false] at hb
        have := (v4AnnLoop_keeps ms attr xs [] [x] hxs (by simp; omega)).1
        rw [this] at hb; cases hb

/-- when the announce loop yielded something, it still holds an announce -/
theorem v4AnnLoop_msgs_a (ms attr : Nat) :
    ∀ (xs w a : List Nlri), Pos xs →
      (v4AnnLoop ms attr xs w a).msgs = [] ∨ sz (v4AnnLoop ms attr xs w a).a ≠ 0 := by
  intro xs
  induction xs with
  | nil => intro w a _; exact Or.inl rfl
  | cons x xs ih =>
    intro w a hp
    have hxs : Pos xs := fun y hy => hp y (by simp [hy])
    have hx := hp x (by simp)
    unfold v4AnnLoop
    split
    · exact ih w (a ++ [x]) hxs
    · split
      · exact Or.inl rfl
      · exact Or.inr (v4AnnLoop_keeps ms attr xs [] [x] hxs (by simp; omega)).2

theorem v4WdLoop_keeps (ms attr : Nat) :
    ∀ (xs w a : List Nlri), Pos xs → (sz a ≠ 0 ∨ sz w ≠ 0) → (v4WdLoop ms attr xs w a).bailed = false := by
  intro xs
  induction xs with
  | nil => intro w a _ _; rfl
  | cons x xs ih =>
    intro w a hp h
    have hxs : Pos xs := fun y hy => hp y (by simp [hy])
    have hx := hp x (by simp)
    unfold v4WdLoop
    split
    · exact ih (w ++ [x]) a hxs (Or.inr (by simp; omega))
    · split
      · rename_i h0; omega
      · exact ih [x] [] hxs (Or.inr (by simp; omega))

theorem v4WdLoop_bailed_nil (ms attr : Nat) :
    ∀ (xs w a : List Nlri), Pos xs → (v4WdLoop ms attr xs w a).bailed = true →
      (v4WdLoop ms attr xs w a).msgs = [] ∧ sz a = 0 := by
  intro xs
  induction xs with
  | nil => intro w a _ h; simp [v4WdLoop] at h
  | cons x xs ih =>
    intro w a hp hb
    have hxs : Pos xs := fun y hy => hp y (by simp [hy])
    have hx := hp x (by simp)
    unfold v4WdLoop at hb ⊢
    split
    · rename_i hfit
      simp only [hfit, if_true] at hb
      have := v4WdLoop_keeps ms attr xs (w ++ [x]) a hxs (Or.inr (by simp; omega))
      rw [this] at hb; cases hb
    · rename_i hfit
      simp only [hfit, if_false] at hb
      split
      · rename_i h0; exact ⟨rfl, h0.2⟩
      · rename_i h0
        simp only [h0, if_false] at hb
        have := v4WdLoop_keeps ms attr xs [x] [] hxs (Or.inr (by simp; omega))
        rw [this] at hb; cases hb

/-- **the silent give-up yields nothing**: `log.critical` + `return` only ever happens before the
    first message. -/
theorem packRaw_noRoom (i : Input) (hp : PosSizes i) (h : (packRaw i).status = .noRoom) :
    (packRaw i).msgs = [] := by
  have pva : Pos (v4Anns i) := pos_filter hp.1 _
  have pvw : Pos (v4Wds i) := pos_filter hp.2 _
  unfold packRaw at h ⊢
  split
  · rfl
  · rename_i hne
    simp only [hne] at h
    simp only at h ⊢
    split
    · rfl
    · rename_i hM
      simp only [hM, if_false] at h
      split
      · rfl
      · rename_i hms
        simp only [hms, if_false] at h
        generalize i.M - 23 - chosenAttr i = ms at h ⊢
        split
        · rename_i hb
          exact v4AnnLoop_bailed_nil ms (chosenAttr i) (v4Anns i) [] [] pva hb
        · rename_i hb1
          simp only [hb1] at h
          split
          · rename_i hb2
            simp only
            unfold v4WdPart at hb2 ⊢
            split
            · rename_i hi
              simp only [hi, if_true] at hb2
              have := v4WdLoop_bailed_nil ms (chosenAttr i) (v4Wds i) _ _ pvw hb2
              rcases v4AnnLoop_msgs_a ms (chosenAttr i) (v4Anns i) [] [] pva with h1 | h1
              · simp [h1, this.1]
              · exact absurd this.2 h1
            · rename_i hi
              simp [hi] at hb2
          · rename_i hb2
            simp only [hb2] at h
            generalize famLoop _ _ _ _ _ _ _ _ = mp at h
            cases hmp : mp.2 <;> simp [hmp] at h

/-- attributes that leave no room at all (`msg_size ≤ 0`): nothing is sent -/
theorem packRaw_no_room (i : Input) (h : i.M ≤ 23 + chosenAttr i) : (packRaw i).msgs = [] := by
  unfold packRaw
  split
  · rfl
  · simp only
    split
    · rfl
    · split
      · rfl
      · rename_i h1 h2; omega

theorem cut_nil_of (l : List Msg) (h : l = []) : (cut l).1 = [] := by subst h; rfl

end Exa.Pack
