import ExaModel.Lemmas.SessionInv
set_option linter.unusedSimpArgs false
set_option linter.unusedVariables false
/-!
# M-Session — what no step touches: the configuration; and `dead` only changes by `apiDies`
-/
namespace Exa.Session

/-- `t` has the configuration and the API liveness of `s`. -/
def Fr (s t : State) : Prop := t.cfg = s.cfg ∧ t.dead = s.dead

theorem Fr.refl (s : State) : Fr s s := ⟨rfl, rfl⟩
theorem Fr.trans {a b c : State} (h1 : Fr a b) (h2 : Fr b c) : Fr a c := ⟨h2.1.trans h1.1, h2.2.trans h1.2⟩

theorem fr_seq {s : State} {r : R} {f : State → R} (h1 : Fr s r.1) (h2 : ∀ t, Fr t (f t).1) : Fr s (r ⊳ f).1 :=
  h1.trans (h2 r.1)

theorem fsmTo_fr (t : Fsm) (s : State) : Fr s (fsmTo t s).1 := ⟨rfl, rfl⟩
theorem setPc_fr (p : Pc) (s : State) : Fr s (setPc p s).1 := ⟨rfl, rfl⟩
theorem apiDown_fr (s : State) : Fr s (apiDown s).1 := by unfold apiDown; split <;> exact ⟨rfl, rfl⟩
theorem closeConn_fr (s : State) : Fr s (closeConn s).1 := by unfold closeConn; split <;> exact ⟨rfl, rfl⟩
theorem closeP_fr (s : State) : Fr s (closeP s).1 := by rw [closeP_fst]; exact ⟨rfl, rfl⟩
theorem resetP_fr (s : State) : Fr s (resetP s).1 := by rw [resetP_fst]; exact ⟨rfl, rfl⟩
theorem finish_fr (s : State) : Fr s (finish s).1 := ⟨rfl, rfl⟩
theorem stopP_fr (s : State) : Fr s (stopP s).1 := ⟨rfl, rfl⟩
theorem stopIfExhausted_fr (s : State) : Fr s (stopIfExhausted s).1 := by
  unfold stopIfExhausted; split
  · exact Fr.refl s
  · exact stopP_fr s
theorem onNetErr_fr (s : State) : Fr s (onNetErr s).1 := by rw [onNetErr_fst]; exact ⟨rfl, rfl⟩
theorem onNotification_fr (s : State) : Fr s (onNotification s).1 := onNetErr_fr s
theorem onOther_fr (s : State) : Fr s (onOther s).1 := by rw [onOther_fst]; exact ⟨rfl, rfl⟩
theorem onNotify_fr (c d : Nat) (s : State) : Fr s (onNotify c d s).1 := by rw [onNotify_fst]; exact ⟨rfl, rfl⟩
theorem sendOn_fr (k : Kind) (s : State) : Fr s (sendOn k s).1.1 := by
  unfold sendOn; split
  · exact Fr.refl s
  · split <;> exact ⟨rfl, rfl⟩

theorem afterConnect_fr (s : State) : Fr s (afterConnect s).1 := by
  unfold afterConnect
  simp only []
  split
  · refine fr_seq (fr_seq ?_ (fsmTo_fr _)) (fun t => setPc_fr _ t)
    exact (fsmTo_fr .connect s).trans (sendOn_fr _ _)
  · refine fr_seq ?_ onNetErr_fr
    exact (fsmTo_fr .connect s).trans (sendOn_fr _ _)

theorem establish2_fr (s : State) : Fr s (establish2 s).1 := by
  unfold establish2
  refine fr_seq (fsmTo_fr _ s) ?_
  intro t; split
  · exact ⟨rfl, rfl⟩
  · exact afterConnect_fr t

theorem beginRun_fr (s : State) : Fr s (beginRun s).1 := by
  unfold beginRun
  refine fr_seq (fsmTo_fr _ s) ?_
  intro t; split
  · exact setPc_fr _ t
  · exact establish2_fr t

theorem enterMain_fr (c : Nat) (s : State) : Fr s (enterMain c s).1 := by
  unfold enterMain
  split
  · exact onNotify_fr _ _ s
  split
  · exact onNotify_fr _ _ s
  · exact ⟨rfl, rfl⟩

theorem sendIf_fr (c : State → Bool) (k : Kind) (upd : State → State) (hupd : ∀ t, Fr t (upd t)) (s : State) :
    Fr s (sendIf c k upd s).1.1 := by
  unfold sendIf; split
  · exact (hupd s).trans (sendOn_fr k _)
  · exact Fr.refl s

theorem andSend_fr {s : State} {w : W} {f : State → W} (h1 : Fr s w.1.1) (h2 : ∀ t, Fr t (f t).1.1) :
    Fr s (w.andSend f).1.1 := by
  unfold W.andSend; split
  · exact h1.trans (h2 _)
  · exact h1

theorem mainSends_fr (s : State) : Fr s (mainSends s).1.1 := by
  unfold mainSends
  have a1 : Fr s (sendIf (fun s => decide (s.refreshQ > 0)) .refresh (fun s => { s with refreshQ := s.refreshQ - 1 }) s).1.1 :=
    sendIf_fr _ _ (fun s => { s with refreshQ := s.refreshQ - 1 }) (fun t => ⟨rfl, rfl⟩) s
  have a2 := andSend_fr (f := sendIf (fun s => s.routesPending) .update (fun s => { s with routesPending := false })) a1
    (fun t => sendIf_fr _ _ (fun s => { s with routesPending := false }) (fun t => ⟨rfl, rfl⟩) t)
  exact andSend_fr a2 (fun t => sendIf_fr _ _ (fun s => { s with eorPending := false }) (fun t => ⟨rfl, rfl⟩) t)

theorem mainExit_fr (s : State) : Fr s (mainExit s).1 := by
  unfold mainExit; split
  · exact Fr.refl s
  · split
    · exact fr_seq (closeP_fr s) onNetErr_fr
    · exact onNotify_fr _ _ s

theorem mainTail_fr (s : State) : Fr s (mainTail s).1 := by
  unfold mainTail; split
  · exact fr_seq (mainSends_fr s) mainExit_fr
  · exact fr_seq (mainSends_fr s) onNetErr_fr

theorem mainIter_fr (m : Option Msg) (s : State) : Fr s (mainIter m s).1 := by
  unfold mainIter
  split
  · exact onNotify_fr _ _ s
  · exact onNotification_fr s
  · exact onNotify_fr _ _ s
  · exact onNotify_fr _ _ s
  · split
    · exact onNotify_fr _ _ s
    · exact Fr.trans (b := mainPre m s) ⟨rfl, rfl⟩ (mainTail_fr _)

theorem staleIter_fr (s : State) : Fr s (staleIter s).1 := onOther_fr s

theorem drainMain_fr : ∀ (n : Nat) (s : State), Fr s (drainMain n s).1
  | 0, s => Fr.refl s
  | n + 1, s => by
    unfold drainMain
    split
    · split
      · refine fr_seq ?_ (drainMain_fr n)
        split
        · exact mainIter_fr _ s
        · exact staleIter_fr s
      · exact staleIter_fr s
    · exact Fr.refl s

theorem markConn_fr (f : Conn → Conn) (s : State) : Fr s (markConn f s) := by
  unfold markConn; split <;> exact ⟨rfl, rfl⟩

theorem sendKa_fr (c : Nat) (s : State) : Fr s (sendKa c s).1 := by
  unfold sendKa
  simp only []
  split
  · exact fr_seq (sendOn_fr _ s) (fun t => setPc_fr _ t)
  · exact fr_seq (sendOn_fr _ s) onNetErr_fr

theorem deliverAlive_fr (m : Msg) (s : State) : Fr s (deliverAlive m s).1 := by
  unfold deliverAlive
  split
  · split
    · exact onNotify_fr _ _ s
    · exact onNotification_fr s
    · exact fr_seq ((markConn_fr _ s).trans (fsmTo_fr _ _)) (sendKa_fr _)
    · exact onNotify_fr _ _ s
    · exact onNotify_fr _ _ s
  · split
    · exact onNotify_fr _ _ s
    · exact onNotification_fr s
    · exact fr_seq ((markConn_fr _ s).trans (fsmTo_fr _ _)) (enterMain_fr _)
    · exact onNotify_fr _ _ s
  · exact mainIter_fr _ s
  · exact Fr.refl s

theorem deliver_fr (m : Msg) (s : State) : Fr s (deliver m s).1 := by
  unfold deliver
  split
  · unfold onProcessError; rw [andThen_fst]; exact onOther_fr s
  · exact deliverAlive_fr m s

theorem readErr_fr (s : State) : Fr s (readErr s).1 := fr_seq (closeConn_fr s) onNetErr_fr

theorem advance_fr : ∀ (n : Nat) (s : State), Fr s (advance n s).1
  | 0, s => Fr.refl s
  | n + 1, s => by
    unfold advance
    split
    · split
      · split
        · refine fr_seq (Fr.trans (b := _) ⟨rfl, rfl⟩ (deliver_fr _ _)) (advance_fr n)
        · split
          · exact readErr_fr s
          · exact Fr.refl s
      · exact Fr.refl s
    · exact Fr.refl s

theorem adopt_fr (s : State) : Fr s (adopt s).1 := by
  unfold adopt
  refine fr_seq (fr_seq ?_ (fun t => ⟨rfl, rfl⟩)) ?_
  · split
    · exact closeP_fr s
    · exact Fr.refl s
  · intro t; split
    · exact establish2_fr t
    · exact Fr.refl t

theorem handleConnection_fr (s : State) : Fr s (handleConnection s).1 := by
  unfold handleConnection
  split
  · exact ⟨rfl, rfl⟩
  split
  · refine fr_seq ?_ (fun t => ⟨rfl, rfl⟩)
    split
    · exact closeP_fr s
    · exact Fr.refl s
  · exact adopt_fr s

/-- the configuration never changes; `dead` only by the event `apiDies`. -/
theorem react_fr (s : State) (e : Event) :
    (react s e).1.cfg = s.cfg ∧ (e ≠ .apiDies → (react s e).1.dead = s.dead) := by
  cases e with
  | apiDies => exact ⟨rfl, fun h => absurd rfl h⟩
  | start =>
    have : Fr s (react s .start).1 := by
      simp only [react]; split
      · split
        · exact beginRun_fr s
        · exact setPc_fr _ s
      · exact Fr.refl s
    exact ⟨this.1, fun _ => this.2⟩
  | connectOk =>
    have : Fr s (react s .connectOk).1 := by
      simp only [react]; split
      · split
        · exact fr_seq (Fr.trans (b := { s with nextId := s.nextId + 1 }) ⟨rfl, rfl⟩ (onOther_fr _)) (fun t => ⟨rfl, rfl⟩)
        · exact fr_seq (r := (_, _)) ⟨rfl, rfl⟩ afterConnect_fr
      · exact Fr.refl s
    exact ⟨this.1, fun _ => this.2⟩
  | connectFail =>
    have : Fr s (react s .connectFail).1 := by
      simp only [react]; split
      · refine fr_seq ?_ onOther_fr
        split
        · exact closeP_fr s
        · exact Fr.refl s
      · exact Fr.refl s
    exact ⟨this.1, fun _ => this.2⟩
  | incoming => exact ⟨(handleConnection_fr s).1, fun _ => (handleConnection_fr s).2⟩
  | recv c m =>
    have : Fr s (react s (.recv c m)).1 := by
      simp only [react]; split
      · split <;> exact ⟨rfl, rfl⟩
      · exact Fr.refl s
    exact ⟨this.1, fun _ => this.2⟩
  | eof c =>
    have : Fr s (react s (.eof c)).1 := by
      simp only [react]; split
      · split <;> exact ⟨rfl, rfl⟩
      · exact Fr.refl s
    exact ⟨this.1, fun _ => this.2⟩
  | sockError c =>
    have : Fr s (react s (.sockError c)).1 := by
      simp only [react]; split
      · split <;> exact ⟨rfl, rfl⟩
      · exact Fr.refl s
    exact ⟨this.1, fun _ => this.2⟩
  | openwaitExpired =>
    have : Fr s (react s .openwaitExpired).1 := by
      simp only [react]; split
      · exact onNotify_fr _ _ s
      · exact Fr.refl s
    exact ⟨this.1, fun _ => this.2⟩
  | holdExpired =>
    have : Fr s (react s .holdExpired).1 := by
      simp only [react]; split
      · split
        · exact Fr.refl s
        · refine fr_seq (drainMain_fr _ s) ?_
          intro t; split
          · exact onNotify_fr _ _ t
          · exact Fr.refl t
      · split
        · exact Fr.refl s
        · exact onNotify_fr _ _ s
      · exact Fr.refl s
    exact ⟨this.1, fun _ => this.2⟩
  | tick =>
    have : Fr s (react s .tick).1 := by
      simp only [react]; split
      · split
        · split
          · exact mainIter_fr _ s
          · exact staleIter_fr s
        · exact staleIter_fr s
      · exact Fr.refl s
    exact ⟨this.1, fun _ => this.2⟩
  | teardown code => exact ⟨rfl, fun _ => rfl⟩
  | reestablish => exact ⟨rfl, fun _ => rfl⟩
  | stop =>
    have : Fr s (react s .stop).1 := by
      simp only [react]
      refine fr_seq ?_ stopP_fr
      split
      · exact closeP_fr s
      · exact Fr.refl s
    exact ⟨this.1, fun _ => this.2⟩
  | queueRefresh => exact ⟨rfl, fun _ => rfl⟩
  | announce => exact ⟨rfl, fun _ => rfl⟩

theorem step_fr (s : State) (e : Event) :
    (step s e).1.cfg = s.cfg ∧ (e ≠ .apiDies → (step s e).1.dead = s.dead) := by
  unfold step
  rw [andThen_fst]
  have h1 := react_fr s e
  have h2 := advance_fr (fuelOf (react s e).1) (react s e).1
  exact ⟨h2.1.trans h1.1, fun h => h2.2.trans (h1.2 h)⟩

theorem run_fr : ∀ (evs : List Event) (s : State),
    (run s evs).1.cfg = s.cfg ∧ (Event.apiDies ∉ evs → (run s evs).1.dead = s.dead)
  | [], s => ⟨rfl, fun _ => rfl⟩
  | e :: es, s => by
    unfold run
    rw [andThen_fst]
    have h1 := step_fr s e
    have h2 := run_fr es (step s e).1
    refine ⟨h2.1.trans h1.1, ?_⟩
    intro hn
    simp only [List.mem_cons, not_or] at hn
    exact (h2.2 hn.2).trans (h1.2 (fun h => hn.1 h.symm))

end Exa.Session
