import ExaModel.Model.Frame
set_option linter.unusedSimpArgs false
/-! Lemmas for M-Frame: `parse1` is stable under appending bytes, `pump` is fuel-independent
    and distributes over appended input. -/
namespace Exa.Frame
open Exa Exa.Generated.MsgLength

theorem getD_append_left (a b : Bytes) (i : Nat) (h : i < a.length) : (a ++ b).getD i 0 = a.getD i 0 := by
  simp [List.getD_eq_getElem?_getD, List.getElem?_append_left h]

theorem hdrLen_append (a b : Bytes) (h : 19 ≤ a.length) : hdrLen (a ++ b) = hdrLen a := by
  unfold hdrLen
  rw [List.drop_append_of_le_length (by omega : 16 ≤ a.length)]
  have hl : (a.drop 16).length ≥ 2 := by simp; omega
  simp only [rd16]
  rw [getD_append_left _ _ 0 (by omega), getD_append_left _ _ 1 (by omega)]

theorem hdrTy_append (a b : Bytes) (h : 19 ≤ a.length) : hdrTy (a ++ b) = hdrTy a :=
  getD_append_left a b 18 (by omega)

theorem hdrErr_append (max : Nat) (a b : Bytes) (h : 19 ≤ a.length) : hdrErr max (a ++ b) = hdrErr max a := by
  unfold hdrErr
  rw [hdrLen_append a b h, hdrTy_append a b h, List.take_append_of_le_length (by omega : 16 ≤ a.length)]

theorem hdrErr_none_len (max : Nat) (a : Bytes) (h : hdrErr max a = none) : 19 ≤ hdrLen a := by
  unfold hdrErr at h
  simp only [headerLen] at h
  by_cases h2 : a.take 16 ≠ marker
  · simp [h2] at h
  · simp only [h2, if_false] at h
    by_cases h3 : hdrLen a < 19 ∨ hdrLen a > max
    · simp [h3] at h
    · omega

/-- A complete message parsed from `a` is parsed identically from `a ++ b`. -/
theorem parse1_msg_append (max : Nat) (a b : Bytes) (ty : Nat) (body rest : Bytes)
    (h : parse1 max a = .out (.msg ty body) rest) :
    parse1 max (a ++ b) = .out (.msg ty body) (rest ++ b) ∧ rest.length < a.length := by
  unfold parse1 at h ⊢
  simp only [headerLen] at h ⊢
  by_cases h1 : a.length < 19
  · simp [h1] at h
  · have h1' : 19 ≤ a.length := by omega
    have hl : ¬ (a ++ b).length < 19 := by simp; omega
    simp only [h1, hl, if_false] at h ⊢
    rw [hdrErr_append max a b h1', hdrLen_append a b h1', hdrTy_append a b h1']
    cases he : hdrErr max a with
    | some e => obtain ⟨c, s⟩ := e; simp [he] at h
    | none =>
      have hlen := hdrErr_none_len max a he
      simp only [he] at h ⊢
      by_cases h5 : a.length < hdrLen a
      · simp [h5] at h
      · have h5' : hdrLen a ≤ a.length := by omega
        have hl2 : ¬ (a ++ b).length < hdrLen a := by simp; omega
        simp only [h5, hl2, if_false] at h ⊢
        simp only [Step.out.injEq, Out.msg.injEq] at h
        obtain ⟨⟨hty', hbody⟩, hrest⟩ := h
        refine ⟨?_, ?_⟩
        · simp only [Step.out.injEq, Out.msg.injEq]
          refine ⟨⟨hty', ?_⟩, ?_⟩
          · rw [← hbody, List.drop_append_of_le_length (by omega : 19 ≤ a.length)]
            apply List.take_append_of_le_length
            simp; omega
          · rw [← hrest]; exact List.drop_append_of_le_length h5'
        · rw [← hrest]; simp; omega

/-- An error found in the header of `a` is found identically in `a ++ b`; nothing is left. -/
theorem parse1_err_append (max : Nat) (a b : Bytes) (c s : Nat) (rest : Bytes)
    (h : parse1 max a = .out (.err c s) rest) :
    parse1 max (a ++ b) = .out (.err c s) [] ∧ rest = [] := by
  unfold parse1 at h ⊢
  simp only [headerLen] at h ⊢
  by_cases h1 : a.length < 19
  · simp [h1] at h
  · have h1' : 19 ≤ a.length := by omega
    have hl : ¬ (a ++ b).length < 19 := by simp; omega
    simp only [h1, hl, if_false] at h ⊢
    rw [hdrErr_append max a b h1']
    cases he : hdrErr max a with
    | some e =>
      obtain ⟨c', s'⟩ := e
      simp only [he, Step.out.injEq, Out.err.injEq] at h ⊢
      exact ⟨⟨h.1, trivial⟩, h.2.symm⟩
    | none =>
      simp only [he] at h
      split at h <;> simp at h

/-- More fuel than bytes never changes the result. -/
theorem pump_fuel (max : Nat) (f1 f2 : Nat) (bs : Bytes) (h1 : bs.length < f1) (h2 : bs.length < f2) :
    pump max f1 bs = pump max f2 bs := by
  induction f1 generalizing f2 bs with
  | zero => omega
  | succ n ih =>
    cases f2 with
    | zero => omega
    | succ m =>
      simp only [pump]
      cases hp : parse1 max bs with
      | need => rfl
      | out o rest =>
        cases o with
        | err c s => rfl
        | msg ty body =>
          have hlt := (parse1_msg_append max bs [] ty body rest hp).2
          simp only
          rw [ih m rest (by omega) (by omega)]

theorem pump_succ (max f : Nat) (bs : Bytes) :
    pump max (f + 1) bs =
      match parse1 max bs with
      | .need => ([], bs, false)
      | .out (.err c s) _ => ([.err c s], [], true)
      | .out (.msg ty body) rest =>
        (.msg ty body :: (pump max f rest).1, (pump max f rest).2.1, (pump max f rest).2.2) := rfl

/-- The shape of `pump` on appended input, one case per outcome on the prefix. -/
theorem pump_append (max : Nat) (f : Nat) (a b : Bytes) (hf : a.length < f) :
    pump max (a.length + b.length + 1) (a ++ b) =
      (if (pump max f a).2.2 then pump max f a
       else ((pump max f a).1 ++ (pump max ((pump max f a).2.1.length + b.length + 1) ((pump max f a).2.1 ++ b)).1,
             (pump max ((pump max f a).2.1.length + b.length + 1) ((pump max f a).2.1 ++ b)).2.1,
             (pump max ((pump max f a).2.1.length + b.length + 1) ((pump max f a).2.1 ++ b)).2.2)) := by
  induction f generalizing a with
  | zero => omega
  | succ n ih =>
    cases hp : parse1 max a with
    | need =>
      rw [pump_succ max n a, hp]
      simp
    | out o rest =>
      cases o with
      | err c s =>
        have := (parse1_err_append max a b c s rest hp).1
        rw [pump_succ max n a, hp, pump_succ max (a.length + b.length) (a ++ b), this]
        simp
      | msg ty body =>
        obtain ⟨happ, hlt⟩ := parse1_msg_append max a b ty body rest hp
        have hfuel : pump max (a.length + b.length) (rest ++ b) = pump max (rest.length + b.length + 1) (rest ++ b) :=
          pump_fuel max _ _ _ (by simp; omega) (by simp)
        have hih := ih rest (by omega)
        rw [pump_succ max n a, hp, pump_succ max (a.length + b.length) (a ++ b), happ]
        simp only
        rw [hfuel, hih]
        by_cases hd : (pump max n rest).2.2 = true
        · simp [hd]
        · simp [hd]

end Exa.Frame
